"""Generators and protocol helpers shared by C25 / C26 / C27 (pure python, no jax)."""

from __future__ import annotations

import json

from harness import common
from harness.common import sx

PRIMES0 = [1009, 2003, 3001, 4001, 5003, 6007, 7001, 8009, 9001]
COEF1 = [17, 13, 19, 23, -11, -7, 29, 31]
COEF2 = [5, 3, 7, -2, 0, 0, 11]
MODS = [2, 3, 5, 7, 11, 13]
BIGMOD = 65521


def variant() -> dict:
    """Which variant of the code the model should describe: a defect listed under `fixed`
    in known_findings.json (by id) is modelled as repaired, everything else as pinned."""
    try:
        data = json.loads(common.KNOWN.read_text())
    except Exception:  # noqa: BLE001
        data = {}
    fixed = " ".join(str(e.get("id", e)) if isinstance(e, dict) else str(e) for e in data.get("fixed", []))
    return {
        "margFix": "C25-marginal-complement" in fixed,
        "keysFix": "C26-importancek-shared-keys" in fixed,
        "rejuvFix": "C27-rejuvenate-backward-args" in fixed,
        "annotFix": "C26-estimate-logpdf-annotation" in fixed,
    }


def vsx(v: dict):
    return ["v", bool(v["margFix"]), bool(v["keysFix"]), bool(v["rejuvFix"]), bool(v["annotFix"])]


def infer_line(v: dict, seed: int, op) -> str:
    return sx(["infer", vsx(v), seed, op])


def rand_site(rng, addr, i, nargs, big=False, allow_prev=True):
    kinds = ["c"]
    if allow_prev and i > 0:
        kinds += ["p", "p"]
    if nargs > 0:
        kinds += ["a", "a"]
    k = rng.choice(kinds)
    if k == "c":
        a = ["c", rng.randint(-3, 4)]
    elif k == "p":
        a = ["p", rng.randrange(i)]
    else:
        a = ["a", rng.randrange(nargs)]
    if big:
        return [addr, BIGMOD, rng.choice(PRIMES0), rng.choice([1, 2, 3]), 0, a]
    return [addr, rng.choice(MODS), rng.choice(PRIMES0), rng.choice(COEF1), rng.choice(COEF2), a]


def rand_prog(rng, n, nargs, prefix="s", addrs=None):
    addrs = addrs or [f"{prefix}{i}" for i in range(n)]
    return [rand_site(rng, addrs[i], i, nargs) for i in range(n)]


def rand_key(rng):
    return [rng.randrange(4) for _ in range(rng.randint(0, 2))]


def rand_chm(rng, prog, addrs):
    """Values inside each site's support for the given addresses."""
    by = {s[0]: s for s in prog}
    return [[a, rng.randrange(by[a][1])] for a in addrs]


def parse_chm(x):
    return [[a, int(n)] for a, n in x]


def parse_particles(x):
    """driver particles: ((chm) score weight (draw keys)) -> [[chm, score, weight], ...]"""
    return [[parse_chm(p[0]), int(p[1]), int(p[2])] for p in x]


def parse_lw(x):
    if x[0] == "exact":
        return {"exact": int(x[1])}
    return {"base": int(x[1]), "plus": x[2] == "T", "ws": [int(w) for w in x[3]]}
