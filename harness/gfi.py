"""Model-E harness core: program ASTs, real-API builders, value / choice-map conversion,
history runner on the implementation, canonical observations.

A program AST is a nested list mirroring the protocol grammar of lean/Driver/GFID.lean:
  ["dist", d] | ["static", body] | ["vmap", p, [False | True | "ax1"]] | ["scan", p, n|"none"] |
  ["switch", p...] | ["mask", p] | ["dimap", pre, p, post] | ["repeat", p, n] | ["orelse", p, q] |
  ["map", p, f] | ["contramap", [exprs], p] | ["accumulate", p] | ["reduce", p] |
  ["iterate", p, n] | ["iterate_final", p, n] | ["masked_iterate", p] | ["masked_iterate_final", p]
body := ["ret", e] | ["bind", [addr...], p, [argexprs], body]
Types: ["int"] | ["unit"] | ["tup", [tys]] | ["arr", n, ty] | ["mask", ty]
Model values (python side): int | ["t", ...] | ["a", ...] | ["m", "T"/"F", v]
"""

from __future__ import annotations

import functools

TABLE = [(3, 1009, 17, 0, 0), (4, 2003, 13, 5, 3), (5, 3001, 11, 7, 2), (2, 4001, 19, 3, 1)]
ARITY = [0, 1, 2, 1]


def lp_int(d, v, args):
    m, A, B, C, D = TABLE[d]
    s = sum((j + 1) * a for j, a in enumerate(args))
    return A + B * v + C * s * v + D * s


# --------------------------------------------------------------------------- real objects


@functools.lru_cache(maxsize=None)
def _dist(d):
    import genjax
    import jax
    import jax.numpy as jnp

    m, A, B, C, D = TABLE[d]

    def sample(key, *args):
        return (jax.random.key_data(key)[..., 1] % m).astype(jnp.int32)

    def logpdf(v, *args):
        s = 0
        for j, a in enumerate(args):
            s = s + (j + 1) * a
        return jnp.asarray(A + B * v + C * s * v + D * s, dtype=jnp.float32)

    return genjax.exact_density(sample, logpdf, f"TestDist{d}")


def eval_expr(env, e):
    import jax.numpy as jnp

    if isinstance(e, int):
        return jnp.asarray(e, dtype=jnp.int32)
    op = e[0]
    if op == "var":
        return env[e[1]]
    if op == "add":
        return eval_expr(env, e[1]) + eval_expr(env, e[2])
    if op == "sub":
        return eval_expr(env, e[1]) - eval_expr(env, e[2])
    if op == "mul":
        return eval_expr(env, e[1]) * eval_expr(env, e[2])
    if op == "tup":
        return tuple(eval_expr(env, x) for x in e[1:])
    if op == "proj":
        return eval_expr(env, e[1])[e[2]]
    if op == "sum":
        return jnp.sum(eval_expr(env, e[1]))
    if op == "zeros":
        return jnp.zeros(e[1], dtype=jnp.int32)
    if op == "cons":
        a, b = eval_expr(env, e[1]), eval_expr(env, e[2])
        return jnp.concatenate([jnp.asarray(a)[jnp.newaxis], b])
    if op == "not":
        return jnp.asarray(jnp.logical_not(eval_expr(env, e[1]) != 0), dtype=jnp.int32)
    if op == "unmask":
        return eval_expr(env, e[1]).value
    if op == "sel":
        return jnp.where(eval_expr(env, e[1]) != 0, eval_expr(env, e[2]), eval_expr(env, e[3]))
    if op == "all":
        return tuple(env)
    if op == "stack":
        import jax

        xs = [eval_expr(env, x) for x in e[1:]]
        return jax.tree.map(lambda *a: jnp.stack(a), *xs)
    raise ValueError(e)


def _pre_fn(pre):
    if pre == "id":
        return lambda *args: args
    if pre == "dropLast":
        return lambda *args: args[:-1]
    if pre == "appendUnit":
        return lambda *args: (*args, None)
    if pre[0] == "exprs":
        return lambda *args: tuple(eval_expr(list(args), e) for e in pre[1:])
    if pre[0] == "whole":
        return lambda *args: eval_expr(list(args), pre[1])
    raise ValueError(pre)


def _addr(a):
    return a[0] if len(a) == 1 else tuple(a)


def build(p):
    """AST -> real genjax generative function, through the public API only."""
    import genjax
    import jax.numpy as jnp

    op = p[0]
    if op == "dist":
        return _dist(p[1])
    if op == "static":
        body = p[1]
        subs = []
        b = body
        while b[0] == "bind":
            if b[2][0] == "closure":
                # a nested partial application: the callee is called with stored ++ call arguments
                inner, stored = build(b[2][1]), tuple(jnp.asarray(x, dtype=jnp.int32) for x in b[2][2])
                subs.append(lambda *a, _i=inner, _s=stored: _i(*_s, *a))
            else:
                subs.append(build(b[2]))
            b = b[4]

        def fn(*args):
            env = list(args)
            b = body
            k = 0
            while b[0] == "bind":
                _, addr, _sp, argexprs, rest = b
                a = tuple(eval_expr(env, e) for e in argexprs)
                v = subs[k](*a) @ _addr(addr)
                env.append(v)
                b = rest
                k += 1
            return eval_expr(env, b[1])

        return genjax.gen(fn)
    if op == "vmap":
        axes = tuple((1 if a == "ax1" else 0) if a else None for a in p[2])
        return build(p[1]).vmap(in_axes=axes)
    if op == "scan":
        return build(p[1]).scan(n=None if p[2] == "none" else p[2])
    if op == "switch":
        bs = [build(q) for q in p[1:]]
        return bs[0].switch(*bs[1:])
    if op == "mask":
        inner = build(p[1])

        def pre(flag, *rest):
            return (flag != 0, *rest) if not _is_bool(flag) else (flag, *rest)

        # flags are 0/1 integers in programs; the combinator wants a boolean
        return inner.mask().contramap(pre)
    if op == "dimap":
        post = p[3]
        return build(p[2]).dimap(pre=_pre_fn(p[1]), post=lambda args, xf, ret: eval_expr([args, xf, ret], post))
    if op == "map":
        f = p[2]
        return build(p[1]).map(lambda ret: eval_expr([None, None, ret], f))
    if op == "contramap":
        es = p[1]
        return build(p[2]).contramap(lambda *args: tuple(eval_expr(list(args), e) for e in es))
    if op == "repeat":
        return build(p[1]).repeat(n=p[2])
    if op == "orelse":
        a, b = build(p[1]), build(p[2])

        def pre(flag, ia, ea):
            return (flag != 0, ia, ea)

        return a.or_else(b).contramap(pre)
    if op == "accumulate":
        return build(p[1]).accumulate()
    if op == "reduce":
        return build(p[1]).reduce()
    if op == "iterate":
        return build(p[1]).iterate(n=p[2])
    if op == "iterate_final":
        return build(p[1]).iterate_final(n=p[2])
    if op == "closure":
        import jax.numpy as jnp2

        stored = tuple(jnp2.asarray(x, dtype=jnp2.int32) for x in p[2])
        return build(p[1])(*stored)          # a GenerativeFunctionClosure
    if op in ("masked_iterate", "masked_iterate_final"):
        inner = build(p[1])
        g = inner.masked_iterate() if op == "masked_iterate" else inner.masked_iterate_final()

        def pre(state, flags):
            return (state, flags != 0)

        return g.contramap(pre)
    raise ValueError(p)


def _is_bool(x):
    import jax.numpy as jnp

    return isinstance(x, bool) or (hasattr(x, "dtype") and x.dtype == jnp.bool_)


# --------------------------------------------------------------------------- values


def to_jax(v, ty):
    import jax
    import jax.numpy as jnp
    from genjax import Mask

    k = ty[0]
    if k == "int":
        return jnp.asarray(v, dtype=jnp.int32)
    if k == "unit":
        return None
    if k == "tup":
        return tuple(to_jax(x, t) for x, t in zip(v[1:], ty[1]))
    if k == "arr":
        n, et = ty[1], ty[2]
        if n == 0:
            z = to_jax(zero_of(et), et)
            return jax.tree.map(lambda a: jnp.zeros((0,) + jnp.shape(a), dtype=a.dtype), z)
        elems = [to_jax(x, et) for x in v[1:]]
        return jax.tree.map(lambda *xs: jnp.stack(xs), *elems)
    if k == "mask":
        return Mask(to_jax(v[2], ty[1]), jnp.asarray(v[1] == "T"))
    raise ValueError(ty)


def zero_of(ty):
    k = ty[0]
    if k == "int":
        return 0
    if k == "unit":
        return ["t"]
    if k == "tup":
        return ["t"] + [zero_of(t) for t in ty[1]]
    if k == "arr":
        return ["a"] + [zero_of(ty[2])] * ty[1]
    if k == "mask":
        return ["m", "F", zero_of(ty[1])]
    raise ValueError(ty)


class NotIntegral(Exception):
    pass


def _to_int(x):
    import numpy as np

    a = np.asarray(x)
    if a.shape != ():
        raise NotIntegral(f"expected scalar, got shape {a.shape}")
    f = float(a)
    if f != round(f):
        raise NotIntegral(f"non-integral {f}")
    return int(round(f))


def from_jax(x, ty):
    """Real pytree -> model value, by the expected type (array-of-structs)."""
    import jax
    from genjax import Mask

    k = ty[0]
    if k == "int":
        return _to_int(x)
    if k == "unit":
        if x is not None and x != ():
            raise NotIntegral(f"expected None, got {type(x).__name__}")
        return ["t"]
    if k == "tup":
        if len(x) != len(ty[1]):
            raise NotIntegral("tuple arity")
        return ["t"] + [from_jax(xi, t) for xi, t in zip(x, ty[1])]
    if k == "arr":
        n, et = ty[1], ty[2]
        return ["a"] + [from_jax(jax.tree.map(lambda a: a[i], x, is_leaf=lambda z: z is None), et) for i in range(n)]
    if k == "mask":
        if isinstance(x, Mask):
            import numpy as np

            fl = x.primal_flag() if hasattr(x, "primal_flag") else x.flag
            f = bool(np.asarray(fl))
            return ["m", "T", from_jax(x.value, ty[1])] if f else ["m", "F", "_"]
        # a concretely-true mask may be represented by the bare value
        return ["m", "T", from_jax(x, ty[1])]
    raise ValueError(ty)


def canon_val(v):
    """Model value -> canonical form: payload under an invalid mask is never observed."""
    if isinstance(v, list):
        if v and v[0] == "m":
            return ["m", "T", canon_val(v[2])] if v[1] == "T" else ["m", "F", "_"]
        return [v[0]] + [canon_val(x) for x in v[1:]]
    if isinstance(v, str) and v not in ("_",):
        return int(v)
    return v


def parse_val(sx):
    """Parsed s-expression (nested lists of str) -> model value."""
    if isinstance(sx, str):
        return int(sx)
    if sx[0] == "m":
        return ["m", sx[1], parse_val(sx[2])]
    return [sx[0]] + [parse_val(x) for x in sx[1:]]


def show_val(v):
    if isinstance(v, int):
        return str(v)
    if v[0] == "m":
        return f"(m {v[1]} {show_val(v[2]) if v[2] != '_' else '0'})"
    return "(" + " ".join([v[0]] + [show_val(x) for x in v[1:]]) + ")"


# --------------------------------------------------------------------------- choice maps


def show_path(p):
    return "(" + " ".join(f"#{c}" if isinstance(c, int) else c for c in p) + ")"


def show_cmap(c):
    """c: list of (path tuple, model value)."""
    return "(" + " ".join(f"({show_path(p)} {show_val(v)})" for p, v in c) + ")"


def parse_cmap(sx):
    out = []
    for ent in sx:
        p = tuple(int(c[1:]) if c.startswith("#") else c for c in ent[0])
        out.append((p, parse_val(ent[1])))
    return out


def canon_choices(c):
    """list of (path, value) -> dict of VALID entries only: (m T v) == v, (m F _) == absent."""
    out = {}
    for p, v in c:
        if isinstance(v, list) and v and v[0] == "m":
            if v[1] == "F":
                continue
            v = v[2]
        if p not in out:
            out[p] = canon_val(v)
    return out


def build_cmap(c, style=0):
    """Model constraint (list of (path, value); values int or ["m", flag, int]) -> real ChoiceMap,
    through the public builder API.  Index components use integer addresses."""
    import jax.numpy as jnp
    from genjax import ChoiceMap as C
    from genjax import Mask

    chm = C.empty()
    for p, v in c:
        if isinstance(v, list) and v[0] == "m":
            val = Mask(jnp.asarray(v[2], dtype=jnp.int32), jnp.asarray(v[1] == "T"))
        else:
            val = jnp.asarray(v, dtype=jnp.int32)
        addr = tuple(p)
        if style == 0:
            piece = C.empty().at[addr].set(val) if addr else C.choice(val)
        else:
            piece = C.choice(val).extend(*addr) if addr else C.choice(val)
        chm = chm | piece
    return chm


def lookup(chm, path):
    """Observe a real choice map at one path: ('v', int) | ('absent',) | ('err', name)."""
    import numpy as np
    from genjax import Mask

    try:
        sub = chm.get_submap(*path) if path else chm
        v = sub.get_value()
    except Exception as e:  # noqa: BLE001
        return ("err", type(e).__name__)
    if v is None:
        return ("absent",)
    if isinstance(v, Mask):
        fl = np.asarray(v.primal_flag() if hasattr(v, "primal_flag") else v.flag)
        if fl.size != 1:
            return ("err", "vector-flag")      # the path stops above an index level: not a single choice
        if not bool(fl.reshape(())):
            return ("absent",)
        v = v.value
    try:
        return ("v", _to_int(v))
    except NotIntegral as e:
        return ("err", f"NotIntegral:{e}")


def observe_choices(chm, universe):
    out = {}
    errs = {}
    for p in universe:
        r = lookup(chm, p)
        if r[0] == "v":
            out[p] = r[1]
        elif r[0] == "err":
            errs[p] = r[1]
    return out, errs


# --------------------------------------------------------------------------- selections


def build_sel(t):
    from harness.props.c18 import _build

    return _build(t)


# --------------------------------------------------------------------------- errors


def err_kind(e: BaseException) -> str:
    n = type(e).__name__
    if n == "MissingAddress":
        return "missing"
    if n == "AddressReuse":
        return "reuse"
    if n in ("NotImplementedError", "NotSupportedEditRequest", "AssertionError"):
        return "notSupported"
    return "other:" + n
