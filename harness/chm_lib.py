"""Shared pieces of the C17 / C33 checks (model C, choice maps).

* case grammar (nested lists, the same text the Lean driver parses, plus `vmap` and API
  variant tags that the driver never sees),
* `build`      : the REAL public API,
* `observe`    : lookups only (`in`, `[]`, `get_submap(..).static_is_empty()`, `get_selection()[..]`),
* `ref`        : the independent reference finite map (address -> (valid, value)),
* `predicate`  : the property evaluated on the implementation's own observations.

Nothing here looks at Python class shapes of choice maps.
"""

from __future__ import annotations

import itertools

from harness.common import sx

IDX = [0, 1, 2]
FLAGS = ["cT", "cF", "dT", "dF"]


# ------------------------------------------------------------------ grammar helpers


def is_name(c):
    return isinstance(c, str)


def addr_comps(a):
    """['a', comp...] -> list of comps ('x' | ['c',n] | ['d',n] | ['r',n...])."""
    return a[1:]


def to_model(t):
    """Case term -> driver term: drop API-variant tags, turn `vmap` into `entry` with an array
    index and an array leaf (the batching rule of jax.vmap on a builder lambda)."""
    if isinstance(t, str):
        return t
    op = t[0]
    if op in ("val", "mval"):
        return t
    if op == "kw":
        return ["kw"] + [[a, to_model(e)] for a, e in t[1]]
    if op == "entry":
        return ["entry", to_model(t[1]), t[2]]
    if op == "vmap":
        _, pre, idxs, post, vals = t
        return ["entry", ["val", ["arr"] + list(vals)], ["a"] + list(pre) + [["r"] + list(idxs)] + list(post)]
    if op == "or":
        return ["or", to_model(t[1]), to_model(t[2])]
    if op == "mask":
        return ["mask", to_model(t[1]), t[2]]
    if op == "filter":
        return ["filter", to_model(t[1]), t[2]]
    if op == "filterchm":
        return ["filterchm", to_model(t[1]), to_model(t[2])]
    if op == "switch":
        return ["switch", t[1]] + [to_model(e) for e in t[2]]
    if op == "sub":
        return ["sub", to_model(t[1]), t[2]]
    if op == "atset":
        return ["atset", to_model(t[1]), t[2], to_model(t[3])]
    raise ValueError(t)


def subterms(t):
    if isinstance(t, str):
        return
    yield t
    op = t[0]
    kids = []
    if op == "kw":
        kids = [e for _, e in t[1]]
    elif op in ("entry", "mask", "filter", "sub"):
        kids = [t[1]]
    elif op in ("or", "filterchm"):
        kids = [t[1], t[2]]
    elif op == "switch":
        kids = list(t[2])
    elif op == "atset":
        kids = [t[1], t[3]]
    for k in kids:
        yield from subterms(k)


def names_of(t):
    out = set()
    for s in subterms(t):
        op = s[0]
        addrs = []
        if op == "kw":
            addrs = [a for a, _ in s[1]]
        elif op == "entry":
            addrs = [s[2]]
        elif op == "atset":
            addrs = [s[2]]
        elif op == "vmap":
            out.update(c for c in list(s[1]) + list(s[3]) if is_name(c))
        elif op == "sub":
            out.update(c for c in s[2][1:] if is_name(c))
        for a in addrs:
            out.update(c for c in addr_comps(a) if is_name(c))
    return out


def features(t):
    f = set()
    for s in subterms(t):
        op = s[0]
        f.add("op:" + op)
        if op == "mval" or op == "mask":
            f.add("flag:" + (s[1] if op == "mval" else s[2]))
        if op == "switch":
            f.add("switch:" + s[1][0])
        if op == "val" and isinstance(s[1], list) or op == "mval" and isinstance(s[2], list):
            f.add("arrayleaf")
        for a in ([s[2]] if op in ("entry", "atset") else [a for a, _ in s[1]] if op == "kw" else []):
            for c in addr_comps(a):
                if not is_name(c):
                    f.add("idx:" + c[0])
        if op == "vmap":
            f.add("idx:r")
    return f


def has_index_level(t):
    return any(x.startswith("idx:") for x in features(t))


def universe(t, extra_names=("w",)):
    """Lookup paths: all static paths of length <= 3 over the names the expression mentions plus
    one never-used name, and index variants (in-range indices) of the short ones."""
    names = sorted(names_of(t))[:3] + list(extra_names)
    stat = [list(p) for n in range(0, 4) for p in itertools.product(names, repeat=n)]
    if len(names) > 3:
        stat = [p for p in stat if len(p) <= 2 or "w" not in p[:2]]
    feats = features(t)
    dyn = []
    if any(x.startswith("idx:") or x == "arrayleaf" for x in feats):
        used = sorted(names_of(t))[:3]
        short = [list(p) for n in range(0, 3) for p in itertools.product(used, repeat=n)]
        for q in short:
            for n in IDX:
                dyn.append(q + [n])
                if q:
                    dyn.append([n] + q)
                if len(q) == 2:
                    dyn.append([q[0], n, q[1]])
            if len(q) <= 1:
                dyn.append(q + [0, 1])
                dyn.append(q + [1, 1])
    return stat + dyn


def path_sx(p):
    return ["p"] + list(p)


# ------------------------------------------------------------------ real API


def _payload(pl):
    import jax.numpy as jnp

    if isinstance(pl, list):
        return jnp.array(pl[1:], dtype=jnp.int32)
    return int(pl)


def _flag(f):
    import jax.numpy as jnp

    return {"cT": True, "cF": False, "dT": jnp.array(True), "dF": jnp.array(False)}[f]


def _comp(c):
    import jax.numpy as jnp

    if is_name(c):
        return c
    if c[0] == "c":
        return int(c[1])
    if c[0] == "d":
        return jnp.array(int(c[1]), dtype=jnp.int32)
    if c[0] == "r":
        return jnp.array([int(x) for x in c[1:]], dtype=jnp.int32)
    raise ValueError(c)


def _addr(a):
    return tuple(_comp(c) for c in addr_comps(a))


def _sel(t):
    from harness.props.c18 import _build as sel_build

    return sel_build(t)


def build(t):
    """Builder expression -> real ChoiceMap through the public API.  The optional trailing
    integer of a node picks one of several equivalent public spellings."""
    import jax
    import jax.numpy as jnp
    from genjax import ChoiceMap, Mask
    from genjax import ChoiceMapBuilder as C

    if t == "empty":
        return ChoiceMap.empty()
    op = t[0]
    if op == "val":
        return ChoiceMap.choice(_payload(t[1]))
    if op == "mval":
        return ChoiceMap.choice(Mask(_payload(t[2]), _flag(t[1])))
    if op == "kw":
        pairs = [(_addr(a), build(e)) for a, e in t[1]]
        variant = t[2] if len(t) > 2 else 0
        keys = [k for k, _ in pairs]
        simple = all(len(k) == 1 and isinstance(k[0], str) for k in keys) and len(set(keys)) == len(keys)
        if simple and variant == 0:
            return ChoiceMap.kw(**{k[0]: v for k, v in pairs})
        if simple and variant == 1:
            return ChoiceMap.d({k[0]: v for k, v in pairs})
        if variant == 2 and all(isinstance(c, str) for k in keys for c in k) and len(set(keys)) == len(keys):
            return ChoiceMap.d(dict(pairs))
        return ChoiceMap.from_mapping(pairs)
    if op == "entry":
        inner = t[1]
        variant = t[3] if len(t) > 3 else 0
        addr = _addr(t[2])
        if variant == 1:
            # raw values go through entry()/set() themselves
            v = _payload(inner[1]) if inner != "empty" and inner[0] == "val" else build(inner)
            return C[addr].set(v) if addr else ChoiceMap.entry(v)
        if variant == 2:
            return build(inner).extend(*addr)
        return ChoiceMap.entry(build(inner), *addr)
    if op == "vmap":
        _, pre, idxs, post, vals = t
        pre_t, post_t = tuple(pre), tuple(post)
        return jax.vmap(lambda i, v: C[pre_t + (i,) + post_t].set(v))(
            jnp.array(idxs, dtype=jnp.int32), jnp.array(vals, dtype=jnp.int32)
        )
    if op == "or":
        a, b = build(t[1]), build(t[2])
        variant = t[3] if len(t) > 3 else 0
        return a | b if variant == 0 else a.merge(b) if variant == 1 else a + b
    if op == "mask":
        return build(t[1]).mask(_flag(t[2]))
    if op == "filter":
        return build(t[1]).filter(_sel(t[2]))
    if op == "filterchm":
        e, d = build(t[1]), build(t[2])
        variant = t[3] if len(t) > 3 else 0
        return e.filter(d.get_selection()) if variant == 0 else d & e
    if op == "switch":
        idx = int(t[1][1]) if t[1][0] == "c" else jnp.array(int(t[1][1]), dtype=jnp.int32)
        return ChoiceMap.switch(idx, [build(e) for e in t[2]])
    if op == "sub":
        p = tuple(t[2][1:])
        variant = t[3] if len(t) > 3 else 0
        return build(t[1])(p) if variant == 0 else build(t[1]).get_submap(*p)
    if op == "atset":
        e, addr, v = build(t[1]), _addr(t[2]), build(t[3])
        variant = t[4] if len(t) > 4 else 0
        if variant == 1 and all(isinstance(c, str) for c in addr):
            return e.at[addr].update(lambda _old: v)
        return e.at[addr].set(v)
    raise ValueError(t)


def err_enum(e: BaseException) -> str:
    m = str(e)
    n = type(e).__name__
    if "Choice and non-Choice" in m:
        return "choiceVsNonChoice"
    if "two switches" in m:
        return "twoSwitches"
    if n == "ValueError" and ("Cannot combine masks" in m or "different tree structures" in m):
        return "shapeMismatch"
    if n == "IndexError" and "list index out of range" in m:
        return "switchIndex"
    if n == "TypeError" and "subscriptable" in m:
        return "misaligned"
    if n == "IndexError" and ("Too many indices" in m or "too many indices" in m):
        return "misaligned"
    return "other:" + n


def _canon_value(v):
    """-> 'A' | ['V','T',payload] | ['V','F']; payload int or ['arr', ...]."""
    import numpy as np
    from genjax import Mask

    def pl(x):
        a = np.asarray(x)
        if a.shape == ():
            return int(a)
        return ["arr"] + [int(y) for y in a.tolist()]

    if isinstance(v, Mask):
        f = np.asarray(v.primal_flag())
        if f.shape != ():
            return ["V", "vec"]
        return ["V", "T", pl(v.value)] if bool(f) else ["V", "F"]
    return ["V", "T", pl(v)]


def observe(chm, paths):
    """Lookups only.  One [in, val, emp, sel] per path."""
    from genjax._src.core.generative.choice_map import ChoiceMapNoValueAtAddress

    sel = None
    sel_err = None
    try:
        sel = chm.get_selection()
    except Exception as e:  # noqa: BLE001
        sel_err = ["E", err_enum(e)]
    out = []
    for p in paths:
        tp = tuple(p)
        try:
            i = bool(tp in chm)
        except Exception as e:  # noqa: BLE001
            i = ["E", err_enum(e)]
        try:
            v = _canon_value(chm[tp])
        except ChoiceMapNoValueAtAddress:
            v = "A"
        except Exception as e:  # noqa: BLE001
            v = ["E", err_enum(e)]
        try:
            em = bool(chm.get_submap(tp).static_is_empty())
        except Exception as e:  # noqa: BLE001
            em = ["E", err_enum(e)]
        if all(isinstance(c, str) for c in p):
            if sel_err is not None:
                s = sel_err
            else:
                try:
                    s = bool(sel[tp])
                except Exception as e:  # noqa: BLE001
                    s = ["E", err_enum(e)]
        else:
            s = "-"
        out.append([i, v, em, s])
    return out


def obs_text(o):
    return sx(o)


# ------------------------------------------------------------------ reference finite map


class RefUnspecified(Exception):
    """The reference leaves this expression's meaning open (documented exception, key that is
    both a leaf and a prefix, shape clash, feature outside the property)."""


def _sel_ref(t, p):
    """Reference meaning of a selection term at static address p (independent of genjax)."""
    if t == "all":
        return True
    if t == "none":
        return False
    if t == "leaf":
        return len(p) == 0
    op = t[0]
    pre = lambda comps, q: len(q) >= len(comps) and all(c == "..." or c == x for c, x in zip(comps, q))
    if op == "at":
        return (len(p) == 0) if len(t) == 1 else pre(t[1:], p)
    if op == "or":
        return _sel_ref(t[1], p) or _sel_ref(t[2], p)
    if op == "and":
        return _sel_ref(t[1], p) and _sel_ref(t[2], p)
    if op == "not":
        return not _sel_ref(t[1], p)
    if op == "ext":
        return pre(t[2:], p) and _sel_ref(t[1], p[len(t) - 2:])
    if op == "call":
        return _sel_ref(t[1], list(t[2:]) + list(p))
    raise ValueError(t)


def statics(k):
    return tuple(c for c in k if isinstance(c, str))


def _key(a):
    out = []
    for c in addr_comps(a):
        if is_name(c):
            out.append(c)
        elif c[0] in ("c", "d"):
            out.append(int(c[1]))
        else:
            raise RefUnspecified("array index outside vmap")
    return tuple(out)


def _union(A, B):
    for ka in A:
        for kb in B:
            if ka != kb and (ka[: len(kb)] == kb or kb[: len(ka)] == ka):
                raise RefUnspecified("leaf vs prefix")
            if ka == kb and isinstance(A[ka][1], list) != isinstance(B[kb][1], list):
                raise RefUnspecified("shape clash")
            if ka == kb and isinstance(A[ka][1], list) and len(A[ka][1]) != len(B[kb][1]):
                raise RefUnspecified("shape clash")
            if statics(ka) == statics(kb) and ka != kb and len(ka) != len(kb):
                raise RefUnspecified("index level vs none at one static address")
    R = dict(B)
    for k, e in A.items():
        if e[0] or k not in B:  # left-biased; a masked-off value counts as absent
            R[k] = e
    return R


def ref(t, sel_ignores_index_levels=False):
    """Reference finite map: {address tuple (str | int): (valid, int | list[int])}.
    `sel_ignores_index_levels=True` gives the map under the KNOWN defect (get_selection() does not
    see addresses below an index level); it is used only to attribute a failure to that finding."""
    _r = lambda x: ref(x, sel_ignores_index_levels)
    return _ref(t, _r, sel_ignores_index_levels)


def _ref(t, ref, known):
    if t == "empty":
        return {}
    op = t[0]
    if op == "val":
        v = t[1][1:] if isinstance(t[1], list) else t[1]
        return {} if v == [] else {(): (True, v)}
    if op == "mval":
        v = t[2][1:] if isinstance(t[2], list) else t[2]
        return {} if t[1] == "cF" else {(): (t[1] != "dF", v)}
    if op == "kw":
        acc = {}
        for a, e in t[1]:
            acc = _union(acc, {_key(a) + k: v for k, v in ref(e).items()})
        return acc
    if op == "entry":
        return {_key(t[2]) + k: v for k, v in ref(t[1]).items()}
    if op == "vmap":
        _, pre, idxs, post, vals = t
        if len(set(idxs)) != len(idxs):
            raise RefUnspecified("repeated vmap index")
        return {tuple(pre) + (i,) + tuple(post): (True, v) for i, v in zip(idxs, vals)}
    if op == "or":
        return _union(ref(t[1]), ref(t[2]))
    if op == "mask":
        R = ref(t[1])
        return {} if t[2] == "cF" else {k: (e[0] and t[2] != "dF", e[1]) for k, e in R.items()}
    if op == "filter":
        return {k: e for k, e in ref(t[1]).items() if _sel_ref(t[2], list(statics(k)))}
    if op == "filterchm":
        dom = {statics(k) for k in ref(t[2]) if not (known and any(isinstance(c, int) for c in k))}
        return {k: e for k, e in ref(t[1]).items() if statics(k) in dom}
    if op == "switch":
        kind, i = t[1]
        branches = [ref(e) for e in t[2]]
        if kind == "c":
            if not -len(branches) <= i < len(branches):
                raise RefUnspecified("python index error")
            return branches[i]
        acc = {}
        for j, R in enumerate(branches):
            acc = _union(acc, {k: (e[0] and j == i, e[1]) for k, e in R.items()})
        return acc
    if op == "sub":
        p = tuple(t[2][1:])
        out = {}
        for k, e in ref(t[1]).items():
            if k[: len(p)] == p:
                out[k[len(p):]] = e
                continue
            ints = [j for j, c in enumerate(p) if isinstance(c, int)]
            if ints and isinstance(e[1], list):
                j = ints[-1]
                q = p[:j] + p[j + 1:]
                if k[: len(q)] == q:
                    if any(isinstance(c, int) for c in k) or p[j] >= len(e[1]):
                        raise RefUnspecified("index through index level")
                    out[k[len(q):]] = (e[0], e[1][p[j]])
        return out
    if op == "atset":
        return _union({_key(t[2]) + k: v for k, v in ref(t[3]).items()}, ref(t[1]))
    raise ValueError(t)


SKIP = ("skip",)


def ref_lookup(R, p):
    p = tuple(p)
    if p in R:
        return R[p]
    ints = [j for j, c in enumerate(p) if isinstance(c, int)]
    if ints:
        j = ints[-1]
        q = p[:j] + p[j + 1:]
        if q in R and isinstance(R[q][1], list):
            if p[j] >= len(R[q][1]):
                return SKIP  # out-of-range array index: JAX clamps silently, outside the property
            return (R[q][0], R[q][1][p[j]])
    return None


def _usable_ref(e):
    if e is None or not e[0]:
        return None
    return ["arr"] + list(e[1]) if isinstance(e[1], list) else e[1]


def _usable_impl(v):
    if v == "A" or v == ["V", "F"]:
        return None
    if isinstance(v, list) and v[0] == "V" and v[1] == "T":
        return v[2]
    return "?"


def predicate(t, paths, obs, R=None):
    """The property on the implementation alone: its lookups answer like the reference map.
    Returns None (holds / unspecified) or (why, signature-dict)."""
    if R is None:
        try:
            R = ref(t)
        except RefUnspecified:
            return None
        r = predicate(t, paths, obs, R)
        if r is not None and has_index_level(t) and any(s[0] == "filterchm" for s in subterms(t)):
            # does the implementation agree with the map computed under the known defect?
            try:
                if predicate(t, paths, obs, ref(t, True)) is None:
                    return (r[0], {"call": "ChoiceMap.get_selection", "feature": "indexed_level"})
            except RefUnspecified:
                pass
        return r
    indexed = has_index_level(t)
    for p, (i, v, em, s) in zip(paths, obs):
        e = ref_lookup(R, p)
        if e is SKIP:
            continue
        tp = tuple(p)
        # values
        if not (isinstance(v, list) and v[0] == "E"):
            if _usable_impl(v) != _usable_ref(e):
                return (f"lookup {p}: implementation gives {v}, reference map gives {e}", {"call": "ChoiceMap.__getitem__", "feature": "value"})
        # membership
        if isinstance(i, bool):
            if e is not None and e[0] and not i:
                return (f"`{p} in chm` is False but the reference map has a valid value there", {"call": "ChoiceMap.__contains__", "feature": "missing"})
            if i and e is None and _usable_impl(v) is not None:
                return (f"`{p} in chm` is True but the reference map has no entry", {"call": "ChoiceMap.__contains__", "feature": "extra"})
        # emptiness of the submap
        if em is True and any(k[: len(tp)] == tp and x[0] for k, x in R.items()):
            return (f"get_submap({p}).static_is_empty() but the reference map has valid entries below", {"call": "ChoiceMap.get_submap", "feature": "static_is_empty"})
        # selection of the map's addresses (index levels transparent)
        if isinstance(s, bool):
            has_valid = [k for k, x in R.items() if statics(k) == tp and x[0]]
            has_any = any(statics(k) == tp for k in R)
            if has_valid and not s:
                lvl = any(any(isinstance(c, int) for c in k) for k in has_valid)
                return (f"get_selection()[{p}] is False but the map holds a value at that static address",
                        {"call": "ChoiceMap.get_selection", "feature": "indexed_level" if lvl and indexed else "static"})
            if s and not has_any and not (v == ["V", "F"]):
                return (f"get_selection()[{p}] is True but the map has no such address", {"call": "ChoiceMap.get_selection", "feature": "extra"})
    return None


# ------------------------------------------------------------------ generator


NAMES = ["x", "y", "z"]


def rand_payload(rng, arr_ok=True):
    if arr_ok and rng.random() < 0.25:
        n = 3 if rng.random() < 0.85 else 2
        return ["arr"] + [rng.randint(1, 99) for _ in range(n)]
    return rng.randint(1, 99)


def rand_addr(rng, idx_ok, maxlen=2):
    n = rng.randint(1, maxlen)
    comps = []
    for _ in range(n):
        if idx_ok and rng.random() < 0.2:
            comps.append([rng.choice(["c", "d"]), rng.choice(IDX)])
        else:
            comps.append(rng.choice(NAMES))
    return ["a"] + comps


SEL_BASE = ["all", "none", "leaf", ["at", "x"], ["at", "y"], ["at", "x", "y"], ["at", "...", "x"], ["at", "x", "..."], ["at", "z"]]


def rand_sel(rng, depth=2):
    if depth == 0 or rng.random() < 0.4:
        return rng.choice(SEL_BASE)
    k = rng.random()
    if k < 0.35:
        return ["or", rand_sel(rng, depth - 1), rand_sel(rng, depth - 1)]
    if k < 0.7:
        return ["and", rand_sel(rng, depth - 1), rand_sel(rng, depth - 1)]
    return ["not", rand_sel(rng, depth - 1)]


def rand_leaf(rng, idx_ok, flags=FLAGS):
    r = rng.random()
    if r < 0.08:
        return "empty"
    if r < 0.7:
        leaf = ["val", rand_payload(rng)]
    else:
        leaf = ["mval", rng.choice(flags), rand_payload(rng)]
    return ["entry", leaf, rand_addr(rng, idx_ok), rng.randint(0, 2)]


def rand_expr(rng, depth, idx_ok=True, flags=FLAGS, static_only=False):
    """Random builder expression of the given depth."""
    idx_ok = idx_ok and not static_only
    if depth == 0:
        return rand_leaf(rng, idx_ok, flags)
    sub = lambda: rand_expr(rng, depth - 1 if rng.random() < 0.7 else max(0, depth - 2), idx_ok, flags, static_only)
    r = rng.random()
    if r < 0.22:
        return ["or", sub(), sub(), rng.randint(0, 2)]
    if r < 0.34:
        n = rng.randint(1, 3)
        if rng.random() < 0.6:
            ks = rng.sample(NAMES, n)
            return ["kw", [[["a", k], sub() if rng.random() < 0.5 else ["val", rand_payload(rng)]] for k in ks], rng.randint(0, 1)]
        return ["kw", [[rand_addr(rng, False), sub() if rng.random() < 0.4 else ["val", rand_payload(rng)]] for _ in range(n)], rng.choice([2, 3])]
    if r < 0.44:
        return ["entry", sub(), rand_addr(rng, idx_ok, 2), rng.randint(0, 2)]
    if r < 0.54:
        return ["mask", sub(), rng.choice(flags)]
    if r < 0.66:
        return ["filter", sub(), rand_sel(rng)]
    if r < 0.72:
        return ["filterchm", sub(), sub(), rng.randint(0, 1)]
    if r < 0.80 and not static_only:
        n = rng.randint(2, 3)
        kind = rng.choice(["c", "d", "d"])
        i = rng.randint(-1, n - 1) if kind == "c" else rng.randint(0, n - 1)
        if rng.random() < 0.06:
            i = n
        return ["switch", [kind, i], [sub() for _ in range(n)]]
    if r < 0.87:
        comps = [rng.choice(NAMES + ["w"]) for _ in range(rng.randint(1, 2))]
        if idx_ok and rng.random() < 0.15:
            comps.insert(rng.randint(0, len(comps)), rng.choice(IDX))
        return ["sub", sub(), ["p"] + comps, rng.randint(0, 1)]
    if r < 0.94:
        return ["atset", sub(), rand_addr(rng, idx_ok, 2), sub() if rng.random() < 0.5 else ["val", rand_payload(rng)], rng.randint(0, 1)]
    if not static_only:
        pre = [rng.choice(NAMES) for _ in range(rng.randint(0, 1))]
        post = [rng.choice(NAMES) for _ in range(rng.randint(0 if pre else 1, 1))]
        return ["vmap", pre, rng.sample(IDX, 3) if rng.random() < 0.5 else list(IDX), post, [rng.randint(1, 99) for _ in range(3)]]
    return ["or", sub(), sub(), 0]
