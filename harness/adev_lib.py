"""Shared pieces of the ADEV checks (C29, C30).

* program terms (nested lists = the s-expressions the Lean driver parses);
* `build(prog)`: the same program written with the REAL `genjax.adev` API;
* `noise_table(key)`: the uniform / standard-normal draws at the key paths the interpreter can
  reach (`split(k) = (k+[0], k+[1])`), as exact rationals of the float32 values;
* `Poly` + `spec_cps`: the *specification* oracle — the program's expected value as an exact
  polynomial in θ for fixed noise (enumeration sites averaged, reparameterised sites pathwise,
  sampled sites at their drawn outcome), whose formal derivative is the required tangent;
* rational / s-expression helpers.

Term grammar
  expr := ["c", n, d] | "th" | ["rv", i] | ["add", a, b] | ["sub", a, b] | ["mul", a, b]
        | ["div", a, b] | ["neg", a] | ["log", a] | ["ite", i, a, b]
  prim := "flip_enum" | "flip_reinforce" | "normal_reparam" | "normal_reinforce" | ["baseline", prim]
        | "flip_mvd" | "flip_enum_parallel" | "categorical_enum_parallel" | "uniform"
  prog := ["ret", e] | ["sample", prim, [e...], prog] | ["cost", e, prog] | ["cond", i, pt, pf, k]
"""

from __future__ import annotations

import math
from fractions import Fraction

BOOL_PRIMS = {"flip_enum", "flip_reinforce", "flip_mvd", "flip_enum_parallel"}
RAISING = {"flip_mvd", "flip_enum_parallel", "categorical_enum_parallel", "uniform"}
MAX_SITES_PATH = 6


def base_prim(p):
    while isinstance(p, list):
        p = p[1]
    return p


def is_bool_prim(p):
    return base_prim(p) in BOOL_PRIMS


def prim_name(p):
    return p if isinstance(p, str) else "baseline(" + prim_name(p[1]) + ")"


def q(x) -> list:
    f = Fraction(x)
    return [f.numerator, f.denominator]


def C(x):
    f = Fraction(x)
    return ["c", f.numerator, f.denominator]


def prims_of(P):
    op = P[0]
    if op == "ret":
        return []
    if op == "sample":
        return [P[1]] + prims_of(P[3])
    if op == "cost":
        return prims_of(P[2])
    if op == "cond":
        return prims_of(P[2]) + prims_of(P[3]) + prims_of(P[4])
    raise ValueError(P)


def has_op(P, name):
    op = P[0]
    if op == name:
        return True
    if op == "ret":
        return False
    if op == "sample":
        return has_op(P[3], name)
    if op == "cost":
        return has_op(P[2], name)
    if op == "cond":
        return any(has_op(x, name) for x in P[2:5])
    return False


# ------------------------------------------------------------------ exact polynomials in θ


class Poly:
    """Polynomial in θ with Fraction coefficients (dict power -> coeff)."""

    __slots__ = ("c",)

    def __init__(self, c=None):
        self.c = {k: v for k, v in (c or {}).items() if v != 0}

    @staticmethod
    def const(x):
        return Poly({0: Fraction(x)})

    @staticmethod
    def theta():
        return Poly({1: Fraction(1)})

    def __add__(self, o):
        r = dict(self.c)
        for k, v in o.c.items():
            r[k] = r.get(k, 0) + v
        return Poly(r)

    def __neg__(self):
        return Poly({k: -v for k, v in self.c.items()})

    def __sub__(self, o):
        return self + (-o)

    def __mul__(self, o):
        r = {}
        for k, v in self.c.items():
            for k2, v2 in o.c.items():
                r[k + k2] = r.get(k + k2, 0) + v * v2
        return Poly(r)

    def divc(self, o):
        if any(k != 0 for k in o.c):
            raise ValueError("division by a non-constant")
        d = o.c.get(0, Fraction(0))
        if d == 0:
            raise ZeroDivisionError
        return Poly({k: v / d for k, v in self.c.items()})

    def at(self, x):
        return sum((v * Fraction(x) ** k for k, v in self.c.items()), Fraction(0))

    def deriv(self):
        return Poly({k - 1: v * k for k, v in self.c.items() if k > 0})

    def mag(self, x):
        return float(sum(abs(v) * abs(Fraction(x)) ** k for k, v in self.c.items()))


def poly_expr(e, bs, rs):
    if e == "th":
        return Poly.theta()
    op = e[0]
    if op == "c":
        return Poly.const(Fraction(e[1], e[2]))
    if op == "rv":
        return rs[e[1]]
    if op in ("add", "sub", "mul", "div"):
        a, b = poly_expr(e[1], bs, rs), poly_expr(e[2], bs, rs)
        return a + b if op == "add" else a - b if op == "sub" else a * b if op == "mul" else a.divc(b)
    if op == "neg":
        return -poly_expr(e[1], bs, rs)
    if op == "ite":
        a, b = poly_expr(e[2], bs, rs), poly_expr(e[3], bs, rs)
        return a if bs[e[1]] else b
    raise ValueError(f"no polynomial semantics for {op}")


def spec_cps(P, th0, noise, bs, rs, key, K, forced=None, sites=None, path=(), as_written=False, enum_all=False):
    """Expected value of the program as a polynomial in θ, for fixed noise.

    flip_enum sites are averaged with polynomial weights; flip_reinforce sites take the outcome
    `u(key+[1]) < p(θ0)` (or the outcome in `forced[site_path]`, site_path = syntactic position); normal_reparam is the pathwise
    polynomial `μ + σ ε`; normal_reinforce is the drawn constant.  `sites` (a list) collects
    (site_path, prob_of_taken_outcome_at_θ0) for sampled flip sites.

    `as_written=True` reproduces what the code does at `cond`: the branch is reduced to ONE value with
    the identity continuation (sites inside average / add their cost there) and the rest of the
    program is applied to that value; the specification (default) makes the rest of the program the
    continuation of everything inside the branch."""
    op = P[0]
    if op == "ret":
        return K(poly_expr(P[1], bs, rs))
    if op == "cost":
        return poly_expr(P[1], bs, rs) + spec_cps(P[2], th0, noise, bs, rs, key, K, forced, sites, path + (0,), as_written, enum_all)
    if op == "cond":
        def K2(r):
            return spec_cps(P[4], th0, noise, bs, rs + [r], key, K, forced, sites, path + (2,), as_written, enum_all)
        br = P[2] if bs[P[1]] else P[3]
        if as_written:
            return K2(spec_cps(br, th0, noise, bs, rs, key, lambda v: v, forced, sites, path + (0 if bs[P[1]] else 1,), True, enum_all))
        return spec_cps(br, th0, noise, bs, rs, key, K2, forced, sites, path + (0 if bs[P[1]] else 1,), False, enum_all)
    if op == "sample":
        prim, args, k = P[1], P[2], P[3]
        pa = [poly_expr(a, bs, rs) for a in args]
        base = base_prim(prim)
        if isinstance(prim, list):  # baseline: first argument is the baseline, value unchanged
            depth = 0
            p_ = prim
            while isinstance(p_, list):
                depth += 1
                p_ = p_[1]
            pa = pa[depth:]
        sp = path + (9,)
        if base == "flip_enum":
            t = spec_cps(k, th0, noise, bs + [True], rs, key, K, forced, sites, sp, as_written, enum_all)
            f = spec_cps(k, th0, noise, bs + [False], rs, key, K, forced, sites, sp, as_written, enum_all)
            return pa[0] * t + (Poly.const(1) - pa[0]) * f
        if base == "flip_reinforce" and enum_all:
            # the sampled site averaged over its outcome, with the key threading of the sampled site
            t = spec_cps(k, th0, noise, bs + [True], rs, key + [0], K, forced, sites, sp, as_written, enum_all)
            f = spec_cps(k, th0, noise, bs + [False], rs, key + [0], K, forced, sites, sp, as_written, enum_all)
            return pa[0] * t + (Poly.const(1) - pa[0]) * f
        if base == "flip_reinforce":
            p0 = pa[0].at(th0)
            if forced is not None and sp in forced:
                x = forced[sp]
            else:
                x = noise["u"][tuple(key) + (1,)] < p0
            if sites is not None:
                sites.append((sp, p0 if x else 1 - p0))
            return spec_cps(k, th0, noise, bs + [x], rs, key + [0], K, forced, sites, sp, as_written, enum_all)
        if base == "normal_reparam":
            eps = noise["eps"][tuple(key) + (1,)]
            x = pa[0] + pa[1] * Poly.const(eps)
            return spec_cps(k, th0, noise, bs, rs + [x], key, K, forced, sites, sp, as_written, enum_all)
        if base == "normal_reinforce":
            eps = noise["eps"][tuple(key) + (1,)]
            x = Poly.const(eps * pa[1].at(th0) + pa[0].at(th0))
            return spec_cps(k, th0, noise, bs, rs + [x], key + [0], K, forced, sites, sp, as_written, enum_all)
        raise ValueError(f"no specification for {base}")
    raise ValueError(P)


def enum_assignments(P, th0, noise):
    """All outcome assignments of the sampled flip sites, each with its probability at θ0
    (sites are visited along the path the earlier outcomes select)."""
    out = []

    def go(forced):
        sites = []
        spec_cps(P, th0, noise, [], [], [], lambda v: v, forced, sites)
        new = [s for s, _ in sites if s not in forced]
        if not new:
            prob = Fraction(1)
            for _, pr in sites:
                prob *= pr
            out.append((dict(forced), prob))
            return
        s = new[0]
        for x in (True, False):
            f2 = dict(forced)
            f2[s] = x
            go(f2)

    go({})
    return out


def sites_in_branches(P):
    """Does some `cond` branch contain a sampling site or an `add_cost`?"""
    op = P[0]
    if op == "ret":
        return False
    if op == "sample":
        return sites_in_branches(P[3])
    if op == "cost":
        return sites_in_branches(P[2])
    def has_site(Q):
        return Q[0] in ("sample", "cost") or (Q[0] == "cond" and any(has_site(x) for x in Q[2:5]))
    return has_site(P[2]) or has_site(P[3]) or sites_in_branches(P[4])


def tail_var(P, nr_outer):
    """The bare outer variable (θ or a real bound before the program starts) the program returns
    unchanged on every path that reaches its final `ret`, else None."""
    op = P[0]
    if op == "ret":
        e = P[1]
        if e == "th" or (isinstance(e, list) and e[0] == "rv" and e[1] < nr_outer):
            return tuple(e) if isinstance(e, list) else e
        return None
    if op == "sample":
        return tail_var(P[3], nr_outer)
    if op == "cost":
        return tail_var(P[2], nr_outer)
    return tail_var(P[4], nr_outer)  # cond: the bound result has index >= nr_outer


def forwarding_cond(P, nr=0):
    """Does the program contain a `cond` whose two branches return the same outer variable unchanged
    (JAX then forwards the operand and the branch jaxprs lose their output)?"""
    op = P[0]
    if op == "ret":
        return False
    if op == "sample":
        return forwarding_cond(P[3], nr + (0 if is_bool_prim(P[1]) else 1))
    if op == "cost":
        return forwarding_cond(P[2], nr)
    a, b = tail_var(P[2], nr), tail_var(P[3], nr)
    if a is not None and a == b:
        return True
    return forwarding_cond(P[2], nr) or forwarding_cond(P[3], nr) or forwarding_cond(P[4], nr + 1)


def bump_tail(P):
    """Replace the final returned expression e by e + 1 (so it is no longer a bare variable)."""
    op = P[0]
    if op == "ret":
        return ["ret", ["add", P[1], C(1)]]
    if op == "sample":
        return ["sample", P[1], P[2], bump_tail(P[3])]
    if op == "cost":
        return ["cost", P[1], bump_tail(P[2])]
    return ["cond", P[1], P[2], P[3], bump_tail(P[4])]


def full_expectation(P, th0, noise, as_written=False):
    """The program with every flip site (sampled ones too) averaged: polynomial in θ.  The noise each
    later site sees is the one it sees in the sampled run (same key threading)."""
    return spec_cps(P, th0, noise, [], [], [], lambda v: v, as_written=as_written, enum_all=True)


# ------------------------------------------------------------------ real API


def _key_at(root, path):
    import jax

    k = root
    for i in path:
        k = jax.random.split(k)[i]
    return k


def noise_paths():
    paths = []
    for n in range(MAX_SITES_PATH + 1):
        paths.append(tuple([0] * n + [1]))
    return paths


def noise_table(root):
    """u / eps at every reachable key path; exact Fractions of the float32 draws.  Uses the same
    public TFP samplers the primitives use (`tfd.Uniform(0,1)`, `tfd.Normal(0,1)`)."""
    import numpy as np
    from tensorflow_probability.substrates import jax as tfp

    tfd = tfp.distributions
    u, eps = {}, {}
    for p in noise_paths():
        k = _key_at(root, p)
        u[p] = Fraction(float(np.float32(tfd.Uniform(low=0.0, high=1.0).sample(seed=k))))
        eps[p] = Fraction(float(np.float32(tfd.Normal(loc=0.0, scale=1.0).sample(seed=k))))
    return {"u": u, "eps": eps}


def check_noise_against_samplers(root, noise):
    """The tie between the noise table and the primitives' own `sample` methods: for every key path,
    `flip_reinforce.sample(k, p) == (u < p)` on a grid and just around `u`, and
    `normal_reparam.sample(k, μ, σ) == μ + σ ε`, `normal_reinforce.sample` likewise."""
    import numpy as np
    from genjax.adev import flip_enum, flip_reinforce, normal_reinforce, normal_reparam

    for p in noise_paths()[:2]:
        k = _key_at(root, p)
        u = float(noise["u"][p])
        grid = [0.125, 0.5, 0.875, float(np.nextafter(np.float32(u), np.float32(2.0))), u]
        for pr in grid:
            want = u < pr
            for prim in (flip_reinforce, flip_enum):
                got = bool(prim.sample(k, np.float32(pr)))
                if got != want:
                    return f"{type(prim).__name__}.sample(key{list(p)}, {pr}) = {got}, noise table says u={u}"
        e = float(noise["eps"][p])
        for mu, sg in ((0.5, 2.0),):
            for prim in (normal_reparam, normal_reinforce):
                got = float(prim.sample(k, mu, sg))
                if abs(got - (mu + sg * e)) > 1e-5 * (1 + abs(got)):
                    return f"{type(prim).__name__}.sample(key{list(p)}, {mu}, {sg}) = {got}, noise table says eps={e}"
    return None


def mk_prim(p, forced=None, site=None):
    """The real primitive object for a prim term.  With `forced`, a flip_reinforce site becomes
    `reinforce(lambda key, p: forced_value, <the exported primitive's own logpdf>)` — the real
    REINFORCE class with its outcome pinned."""
    import genjax.adev as A
    import jax.numpy as jnp

    if isinstance(p, list):
        return A.baseline(mk_prim(p[1], forced, site))
    if p == "flip_reinforce" and forced is not None and site in forced:
        val = bool(forced[site])
        return A.reinforce(lambda key, pr: jnp.array(val), A.flip_reinforce.differentiable_logpdf)
    return getattr(A, p)


def ev(e, th, bs, rs):
    import jax.numpy as jnp

    if e == "th":
        return th
    op = e[0]
    if op == "c":
        return jnp.float32(e[1] / e[2])
    if op == "rv":
        return rs[e[1]]
    if op == "add":
        return ev(e[1], th, bs, rs) + ev(e[2], th, bs, rs)
    if op == "sub":
        return ev(e[1], th, bs, rs) - ev(e[2], th, bs, rs)
    if op == "mul":
        return ev(e[1], th, bs, rs) * ev(e[2], th, bs, rs)
    if op == "div":
        return ev(e[1], th, bs, rs) / ev(e[2], th, bs, rs)
    if op == "neg":
        return -ev(e[1], th, bs, rs)
    if op == "log":
        return jnp.log(ev(e[1], th, bs, rs))
    if op == "ite":
        return jnp.where(bs[e[1]], ev(e[2], th, bs, rs), ev(e[3], th, bs, rs))
    raise ValueError(e)


def build(P, forced=None, operand_style=False):
    """Python function θ ↦ value written with the real `genjax.adev` API."""
    import jax
    import jax.numpy as jnp
    from genjax.adev import add_cost

    def f32(x):
        return jnp.asarray(x, dtype=jnp.float32)

    def run(P, th, bs, rs, path):
        op = P[0]
        if op == "ret":
            return f32(ev(P[1], th, bs, rs))
        if op == "cost":
            add_cost(f32(ev(P[1], th, bs, rs)))
            return run(P[2], th, bs, rs, path + (0,))
        if op == "cond":
            i = P[1]
            if operand_style:
                r = jax.lax.cond(
                    bs[i],
                    lambda t: run(P[2], t, bs, rs, path + (0,)),
                    lambda t: run(P[3], t, bs, rs, path + (1,)),
                    th,
                )
            else:
                r = jax.lax.cond(
                    bs[i],
                    lambda: run(P[2], th, bs, rs, path + (0,)),
                    lambda: run(P[3], th, bs, rs, path + (1,)),
                )
            return run(P[4], th, bs, rs + [r], path + (2,))
        if op == "sample":
            prim_t, args, k = P[1], P[2], P[3]
            sp = path + (9,)
            prim = mk_prim(prim_t, forced, sp)
            base = base_prim(prim_t)
            if base == "categorical_enum_parallel":
                x = prim(jnp.stack([f32(ev(a, th, bs, rs)) for a in args]))
                return run(k, th, bs, rs + [f32(x)], sp)
            x = prim(*[f32(ev(a, th, bs, rs)) for a in args])
            if is_bool_prim(prim_t):
                return run(k, th, bs + [x], rs, sp)
            return run(k, th, bs, rs + [x], sp)
        raise ValueError(P)

    return lambda th: run(P, th, [], [], ())


def flatten_batches(batches, results):
    """Results of `common.run_impl_parallel(..., batches)`: one list per batch, or a dict when the
    worker was lost / the harness itself failed (infrastructure, never a verdict)."""
    from harness import common

    out = []
    for b, r in zip(batches, results):
        if isinstance(r, dict):
            raise common.Infra(str(r.get("__harness_error__") or r.get("__worker_lost__") or r) + str(r.get("tb", "")))
        if len(r) != len(b):
            raise common.Infra(f"worker returned {len(r)} results for a batch of {len(b)}")
        out.extend(r)
    return out


def classify_exc(e: BaseException) -> str:
    return type(e).__name__


def sx_noise(noise):
    from harness.common import sx

    def ent(tag):
        return "(" + tag + "".join(
            " ((k" + "".join(f" {i}" for i in p) + f") {v.numerator} {v.denominator})" for p, v in sorted(noise[tag].items())
        ) + ")"

    return ent("u"), ent("eps")


def ln_entry(r: Fraction) -> str:
    v = Fraction(math.log(r)) if r > 0 else None
    if v is None:
        raise ValueError("ln of non-positive")
    return f"({r.numerator} {r.denominator} {v.numerator} {v.denominator})"


def parse_ok(resp: str):
    """(ok pn pd tn td vn vd) -> three Fractions; else None."""
    t = resp.replace("(", " ").replace(")", " ").split()
    if not t or t[0] != "ok":
        return None
    n = [int(x) for x in t[1:7]]
    return Fraction(n[0], n[1]), Fraction(n[2], n[3]), Fraction(n[4], n[5])


def close(a: float, b: float, scale: float = 1.0, rtol: float = 1e-5) -> bool:
    """|a-b| within rtol relative to the larger of the values and of `scale` (the magnitude of the
    terms that were added up, so float32 cancellation does not false-alarm)."""
    if not (math.isfinite(a) and math.isfinite(b)):
        return False
    return abs(a - b) <= rtol * max(1.0, abs(a), abs(b), scale) * 4
