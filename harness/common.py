"""Shared machinery for every property check (see DESIGN.md section 2).

A property module (harness/props/cXX.py) provides a `Spec` object; `run_check`
performs: build -> proof audit -> corpus / known-finding replays -> correspondence
(model via the Lean driver vs. implementation in worker processes) -> property
predicate on the implementation -> decision -> evidence file.

Exit codes: 0 held, 1 violation (with a VIOLATION line), 2 infrastructure failure.
"""

from __future__ import annotations

import fcntl
import hashlib
import json
import multiprocessing as mp
import os
import random
import re
import subprocess
import sys
import time
import traceback
from dataclasses import dataclass, field
from pathlib import Path
from typing import Any, Callable

VERIF = Path(__file__).resolve().parent.parent
LEAN = VERIF / "lean"
DRIVER = LEAN / ".lake" / "build" / "bin" / "driver"
EVIDENCE = VERIF / "evidence"
REPLAYS = VERIF / "replays"
CORPUS = VERIF / "corpus"
KNOWN = VERIF / "known_findings.json"
ALLOWED_AXIOMS = {"propext", "Classical.choice", "Quot.sound"}
FORBIDDEN = re.compile(
    r"\bsorry\b|\badmit\b|^\s*axiom\s|native_decide|bv_decide|implemented_by|\bunsafe\s|maxHeartbeats\s+0\b"
)

TRUSTED_BASE = [
    "Lean 4.33.0 kernel (leanchecker re-check in the thorough tier)",
    "axioms: propext, Classical.choice, Quot.sound only (audited by #print axioms on every run)",
    "Lean compiler for the `driver` executable that runs the model definitions",
    "the Python correspondence harness (generators, canonicalisation, comparison) in /verif/harness",
    "JAX/XLA, NumPy and TFP as the execution substrate of the implementation",
]


class Infra(Exception):
    """Infrastructure failure: exit 2, never a violation by itself."""


# --------------------------------------------------------------------------- build


def lake_build(log=None) -> None:
    """Build the Lean library and the driver; serialised by a file lock."""
    lock = LEAN / ".build.lock"
    with open(lock, "w") as fh:
        fcntl.flock(fh, fcntl.LOCK_EX)
        r = subprocess.run(
            ["lake", "build"], cwd=LEAN, capture_output=True, text=True, timeout=3600
        )
        if r.returncode != 0:
            raise Infra("lake build failed:\n" + r.stdout[-4000:] + r.stderr[-2000:])
    if not DRIVER.exists():
        raise Infra("driver executable missing after build")


def strip_comments(src: str) -> str:
    # remove nested block comments /- ... -/ and line comments
    out = []
    i, depth, n = 0, 0, len(src)
    while i < n:
        if src.startswith("/-", i):
            depth += 1
            i += 2
        elif depth and src.startswith("-/", i):
            depth -= 1
            i += 2
        elif depth:
            if src[i] == "\n":
                out.append("\n")
            i += 1
        elif src.startswith("--", i):
            while i < n and src[i] != "\n":
                i += 1
        else:
            out.append(src[i])
            i += 1
    return "".join(out)


def grep_forbidden() -> list[str]:
    hits = []
    for p in sorted((LEAN / "GenjaxVerif").rglob("*.lean")):
        body = strip_comments(p.read_text())
        for ln, line in enumerate(body.splitlines(), 1):
            if FORBIDDEN.search(line):
                hits.append(f"{p.relative_to(LEAN)}:{ln}: {line.strip()}")
    return hits


def audit(prop_id: str, modules: list[str], theorems: list[str]) -> dict:
    """`#print axioms` for every registered theorem, run now, against the built library."""
    d = LEAN / ".audit"
    d.mkdir(exist_ok=True)
    f = d / f"Audit_{prop_id}_{os.getpid()}.lean"
    src = "".join(f"import {m}\n" for m in modules)
    src += "".join(f"#print axioms {t}\n" for t in theorems)
    f.write_text(src)
    try:
        r = subprocess.run(
            ["lake", "env", "lean", str(f)], cwd=LEAN, capture_output=True, text=True, timeout=1800
        )
    finally:
        f.unlink(missing_ok=True)
    out = r.stdout + r.stderr
    res = {}
    # "'thm' depends on axioms: [a, b]" or "'thm' does not depend on any axioms"
    for m in re.finditer(r"'([^']+)' depends on axioms: \[([^\]]*)\]", out, re.S):
        res[m.group(1)] = [a.strip() for a in m.group(2).replace("\n", " ").split(",") if a.strip()]
    for m in re.finditer(r"'([^']+)' does not depend on any axioms", out):
        res[m.group(1)] = []
    discharged, bad = 0, []
    for t in theorems:
        key = t if t in res else next((k for k in res if k.endswith("." + t) or t.endswith("." + k)), None)
        if key is None:
            bad.append(f"{t}: not found ({out[-300:].strip()})")
        elif set(res[key]) - ALLOWED_AXIOMS:
            bad.append(f"{t}: axioms {sorted(set(res[key]) - ALLOWED_AXIOMS)}")
        else:
            discharged += 1
    forb = grep_forbidden()
    return {
        "obligations": len(theorems),
        "discharged": discharged if not forb else 0,
        "problems": bad + forb,
        "axioms": {t: res.get(t) for t in theorems},
    }


def leanchecker(modules: list[str]) -> tuple[bool, str]:
    r = subprocess.run(
        ["lake", "env", "leanchecker", *modules], cwd=LEAN, capture_output=True, text=True, timeout=3600
    )
    return r.returncode == 0, (r.stdout + r.stderr)[-1500:]


# --------------------------------------------------------------------------- driver


def ask_driver(lines: list[str], timeout: float = 1800) -> list[str]:
    """Send protocol lines to the compiled Lean model driver; one response per line."""
    if not lines:
        return []
    for ln in lines:
        if "\n" in ln:
            raise Infra("protocol line contains newline")
    r = subprocess.run(
        [str(DRIVER)], input="\n".join(lines) + "\n", capture_output=True, text=True, timeout=timeout
    )
    if r.returncode != 0:
        raise Infra(f"driver exited {r.returncode}: {r.stderr[-1000:]}")
    out = r.stdout.splitlines()
    if len(out) != len(lines):
        raise Infra(f"driver returned {len(out)} lines for {len(lines)} requests: {r.stderr[-500:]}")
    return out


# ----- s-expression helpers (python side)


def sx(x) -> str:
    """Python value -> s-expression text.  bool -> T/F, int -> decimal, str -> atom,
    list/tuple -> list."""
    if isinstance(x, bool):
        return "T" if x else "F"
    if isinstance(x, int):
        return str(x)
    if isinstance(x, str):
        return x
    if isinstance(x, (list, tuple)):
        return "(" + " ".join(sx(y) for y in x) + ")"
    raise TypeError(f"cannot serialise {type(x)}")


def parse_sx(s: str):
    toks = s.replace("(", " ( ").replace(")", " ) ").split()
    stack, top = [], []
    for t in toks:
        if t == "(":
            stack.append(top)
            top = []
        elif t == ")":
            parent = stack.pop()
            parent.append(top)
            top = parent
        else:
            top.append(t)
    assert len(top) == 1, s
    return top[0]


# --------------------------------------------------------------------------- workers


def _worker_init():
    os.environ.setdefault("JAX_PLATFORMS", "cpu")
    os.environ.setdefault("XLA_FLAGS", "--xla_cpu_multi_thread_eigen=false intra_op_parallelism_threads=1")
    os.environ.setdefault("OMP_NUM_THREADS", "1")
    os.environ.setdefault("TF_CPP_MIN_LOG_LEVEL", "3")
    import warnings

    warnings.filterwarnings("ignore")


def _worker_call(args):
    fn_module, fn_name, case = args
    import importlib

    try:
        mod = importlib.import_module(fn_module)
        return getattr(mod, fn_name)(case)
    except BaseException as e:  # harness-level failure inside worker: report, never hide
        return {"__harness_error__": f"{type(e).__name__}: {e}", "tb": traceback.format_exc()[-2000:]}


def run_impl_parallel(fn_module: str, fn_name: str, cases: list, procs: int | None = None, chunk: int = 1) -> list:
    """Run `fn_module.fn_name(case)` for every case in worker processes (spawned, so the
    implementation is imported fresh from /repo's working tree on every run)."""
    if not cases:
        return []
    procs = min(procs or 16, int(os.environ.get("VERIF_PROCS", "16")), max(1, len(cases)))
    if procs == 1 or os.environ.get("VERIF_SERIAL"):
        _worker_init()
        return [_worker_call((fn_module, fn_name, c)) for c in cases]
    import concurrent.futures as cf

    ctx = mp.get_context("spawn")
    timeout = float(os.environ.get("VERIF_WORKER_TIMEOUT", "900"))
    out: list = [None] * len(cases)
    ex = cf.ProcessPoolExecutor(max_workers=procs, mp_context=ctx, initializer=_worker_init)
    try:
        futs = {ex.submit(_worker_call, (fn_module, fn_name, c)): i for i, c in enumerate(cases)}
        try:
            for f in cf.as_completed(futs, timeout=timeout):
                i = futs[f]
                try:
                    out[i] = f.result()
                except Exception as e:  # noqa: BLE001  (worker process died)
                    out[i] = {"__worker_lost__": f"{type(e).__name__}: {e}"}
        except cf.TimeoutError:
            pass
        for f, i in futs.items():
            if out[i] is None:
                out[i] = {"__worker_lost__": f"no result within {timeout:.0f}s"}
    finally:
        procs_ = list((getattr(ex, "_processes", None) or {}).values())
        ex.shutdown(wait=False, cancel_futures=True)
        for p in procs_:
            try:
                p.kill()
            except Exception:  # noqa: BLE001
                pass
    return out


# --------------------------------------------------------------------------- findings


def load_known(prop_id: str, cross: bool = False) -> list[dict]:
    if not KNOWN.exists():
        return []
    data = json.loads(KNOWN.read_text())
    # Findings of the model-E family name the predicate they violate in their signature ("prop"):
    # the same defect is met by every check whose histories reach it, so those entries are
    # matched (by signature) whatever property is being checked.
    return [e for e in data.get("known", [])
            if e.get("property") == prop_id or (cross and "prop" in e.get("signature", {}))]


def matches_known(entry: dict, signature: dict) -> bool:
    """A known finding matches when every key of its `signature` equals the case's."""
    sig = entry.get("signature", {})
    return bool(sig) and all(signature.get(k) == v for k, v in sig.items())


# --------------------------------------------------------------------------- result types


@dataclass
class Failure:
    """A point where something does not check.  kind: 'predicate' (the property is
    false on the implementation for `case`), 'correspondence' (model and implementation
    disagree), 'proof' (a theorem no longer checks)."""

    kind: str
    case: Any
    detail: Any
    signature: dict = field(default_factory=dict)
    name: str = ""  # theorem or correspondence name


@dataclass
class Spec:
    prop_id: str
    modules: list[str]
    theorems: list[str]
    strength: str  # 'full' | 'partial'
    # run(ctx) performs corpus + correspondence + predicate and fills ctx
    run: Callable[["Ctx"], None]
    replay: Callable[["Ctx", dict], None] | None = None
    assumptions: list[str] = field(default_factory=list)
    extra_trusted: list[str] = field(default_factory=list)


class Ctx:
    def __init__(self, prop_id: str, tier: str, seed: int):
        self.prop_id, self.tier, self.seed = prop_id, tier, seed
        self.rng = random.Random((seed * 1000003) ^ int(hashlib.sha256(prop_id.encode()).hexdigest()[:8], 16))
        self.t0 = time.time()
        self.evaluations = 0
        self.nontrivial_keys: set[str] = set()
        self.samples: list = []
        self.histogram: dict[str, int] = {}
        self.failures: list[Failure] = []
        self.traces_validated = 0
        self.known_replayed: list[str] = []
        self.exhaustive = False
        self.rule = ""
        self.notes: dict[str, Any] = {}
        self.budget_s = {"quick": 240, "thorough": 2400}[tier]

    # bookkeeping helpers
    def count(self, key: str, n: int = 1):
        self.histogram[key] = self.histogram.get(key, 0) + n

    def case_done(self, case, nontrivial: bool, sample=None):
        self.evaluations += 1
        if nontrivial:
            self.nontrivial_keys.add(hashlib.sha1(json.dumps(case, sort_keys=True, default=str).encode()).hexdigest())
        if sample is not None and len(self.samples) < 5:
            self.samples.append(sample)

    def fail(self, kind, case, detail, signature=None, name=""):
        self.failures.append(Failure(kind, case, detail, signature or {}, name))

    def time_left(self) -> float:
        return self.budget_s - (time.time() - self.t0)


# --------------------------------------------------------------------------- main flow


def write_replay(prop_id: str, payload: dict) -> Path:
    REPLAYS.mkdir(exist_ok=True)
    h = hashlib.sha1(json.dumps(payload, sort_keys=True, default=str).encode()).hexdigest()[:12]
    p = REPLAYS / f"{prop_id}-{h}.json"
    p.write_text(json.dumps(payload, indent=1, sort_keys=True, default=str))
    return p


def run_check(spec: Spec, tier: str, seed: int, replay_path: str | None = None) -> int:
    ctx = Ctx(spec.prop_id, tier, seed)
    violations: list[str] = []
    known_lines: list[str] = []
    try:
        lake_build()
        aud = audit(spec.prop_id, spec.modules, spec.theorems)
        if tier == "thorough" and not os.environ.get("VERIF_NO_LEANCHECKER"):
            ok, msg = leanchecker(spec.modules)
            ctx.notes["leanchecker"] = "ok" if ok else msg
            if not ok:
                aud["problems"].append("leanchecker: " + msg[-300:])
        if replay_path:
            payload = json.loads(Path(replay_path).read_text())
            if spec.replay is None:
                raise Infra("no replay handler for this property")
            spec.replay(ctx, payload)
        else:
            spec.run(ctx)
    except Infra as e:
        print(f"INFRA property={spec.prop_id}: {e}", file=sys.stderr)
        return 2
    except subprocess.TimeoutExpired as e:
        print(f"INFRA property={spec.prop_id}: timeout {e}", file=sys.stderr)
        return 2

    if os.environ.get("VERIF_DEBUG"):
        REPLAYS.mkdir(exist_ok=True)
        (REPLAYS / f"debug-{spec.prop_id}.json").write_text(json.dumps(
            [{"kind": f.kind, "name": f.name, "sig": f.signature, "detail": f.detail, "case": f.case} for f in ctx.failures],
            indent=1, default=str))
    known = load_known(spec.prop_id, cross=True)
    # proof obligations that no longer check
    for prob in aud["problems"]:
        ctx.fail("proof", None, prob, name=prob.split(":")[0])

    pred_fail = [f for f in ctx.failures if f.kind == "predicate"]
    other = [f for f in ctx.failures if f.kind != "predicate"]
    seen_known = set()
    new_pred = []
    for f in pred_fail:
        k = next((e for e in known if matches_known(e, f.signature)), None)
        if k is not None:
            if k["id"] not in seen_known:
                seen_known.add(k["id"])
                known_lines.append(f"KNOWN-FINDING: property={spec.prop_id} {k['what']}")
        else:
            new_pred.append(f)
    reported = set()
    for f in new_pred:
        key = json.dumps(f.signature, sort_keys=True, default=str)
        if key in reported and f.signature:
            continue
        reported.add(key)
        p = write_replay(
            spec.prop_id,
            {"property": spec.prop_id, "kind": "predicate", "seed": seed, "tier": tier, "case": f.case,
             "detail": f.detail, "signature": f.signature},
        )
        violations.append(f"VIOLATION property={spec.prop_id} replay={p}")
        if len(violations) >= 5:
            break
    if not new_pred and other:
        # correspondence / proof broke and the search (done inside spec.run) found no failing input
        f = other[0]
        p = write_replay(
            spec.prop_id,
            {"property": spec.prop_id, "kind": f.kind, "seed": seed, "tier": tier,
             "no_longer_checks": f.name or f.kind, "case": f.case, "detail": f.detail,
             "theorems_relying": spec.theorems, "all": [
                 {"kind": g.kind, "name": g.name, "detail": g.detail} for g in other[:20]]},
        )
        violations.append(f"VIOLATION property={spec.prop_id} replay={p} no-failing-input-found")

    wall = time.time() - ctx.t0
    ev = {
        "property_id": spec.prop_id,
        "tier": tier,
        "seed": seed,
        "level": "proof",
        "coverage": {
            "obligations": aud["obligations"],
            "discharged": aud["discharged"],
            "checker_cmd": "cd /verif/lean && lake build && lake env lean <generated '#print axioms' file for: "
            + ", ".join(spec.theorems) + ">",
            "trusted_base": TRUSTED_BASE + spec.extra_trusted,
            "theorems": spec.theorems,
            "axioms": aud["axioms"],
            "strength": spec.strength,
            "evaluations": ctx.evaluations,
            "distinct_nontrivial": len(ctx.nontrivial_keys),
            "rule": ctx.rule,
            "samples": ctx.samples,
            "traces_validated_against_impl": ctx.traces_validated,
            "input_distribution": ctx.histogram,
            "exhaustive": ctx.exhaustive,
            "known_findings_replayed": sorted(seen_known),
            "correspondence_failures": len([f for f in other if f.kind == "correspondence"]),
            "notes": ctx.notes,
        },
        "assumptions": spec.assumptions,
        "wall_s": round(wall, 2),
        "violations": len(violations),
    }
    # developer runs (replays, reduced case counts) can keep the committed evidence of the last full run
    evdir = Path(os.environ["VERIF_EVIDENCE_DIR"]) if os.environ.get("VERIF_EVIDENCE_DIR") else EVIDENCE
    evdir.mkdir(exist_ok=True, parents=True)
    (evdir / f"{spec.prop_id}.json").write_text(json.dumps(ev, indent=1, default=str))
    for l in known_lines:
        print(l)
    for v in violations:
        print(v)
    if not violations:
        print(
            f"OK property={spec.prop_id} tier={tier} seed={seed} theorems={aud['discharged']}/{aud['obligations']} "
            f"cases={ctx.evaluations} distinct_nontrivial={len(ctx.nontrivial_keys)} wall={wall:.1f}s"
        )
    return 1 if violations else 0
