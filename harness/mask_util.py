"""Shared helpers for the C19 / C20 checks (model B: flags, masks, staging helpers).

Descriptors (JSON-able, produced by the generators):
  payload  ["arr", nested-ints]  |  ["tup", payload, ...]
  flag     {"mode": "py"|"arr"|"jit"|"vmap", "v": bool | [bool...] | [[bool...]...]}
Staging modes of a flag / index:
  py    Python bool / int closed over            (model: conc)
  arr   concrete jnp array closed over           (model: dyn)
  jit   argument of an enclosing jax.jit         (model: dyn)
  vmap  batched argument of an enclosing jax.vmap (model: dyn); batch of B replicas, value-like
        inputs shifted by `offset*b` in replica b so that cross-replica mixing would show.
"""

from __future__ import annotations

import numpy as np

B = 2
OFFSET = 1000


class InvalidUnmask(Exception):
    pass


# ------------------------------------------------------------------ descriptors -> objects


def mk_payload(p):
    import jax.numpy as jnp

    if p[0] == "arr":
        return jnp.asarray(np.array(p[1], dtype=np.int32))
    if p[0] == "tup":
        return tuple(mk_payload(q) for q in p[1:])
    raise ValueError(p)


def payload_nested(p):
    """Canonical nested-list view of a payload descriptor (tuples and arrays alike)."""
    if p[0] == "arr":
        return p[1]
    return [payload_nested(q) for q in p[1:]]


def mk_flag(f):
    import jax.numpy as jnp

    if f["mode"] == "py":
        assert isinstance(f["v"], bool)
        return f["v"]
    return jnp.asarray(np.array(f["v"], dtype=bool))


def obj_nested(x):
    if isinstance(x, (tuple, list)):
        return [obj_nested(y) for y in x]
    if isinstance(x, dict):
        return [obj_nested(x[k]) for k in sorted(x)]
    return np.asarray(x).tolist()


def sub_offset(x, off):
    if off == 0 or x is None:
        return x
    if isinstance(x, list):
        return [sub_offset(y, off) for y in x]
    if isinstance(x, bool):
        return x
    return x - off


def flat_bools(v):
    return np.array(v, dtype=bool).reshape(-1).tolist()


# ------------------------------------------------------------------ running under the modes


def run_modes(core, flags, payloads, ck=False, offset=OFFSET, ints=None):
    """core(flag_objs, payload_objs, int_objs) -> pytree.  Returns [(result, offset_b), ...]: one entry per
    vmap replica (a single entry when no flag/index is in vmap mode).  `ints` are integer
    indices with modes, handled like flags."""
    import jax
    import jax.numpy as jnp
    from jax.experimental import checkify

    ints = ints or []
    items = [("f", i, f) for i, f in enumerate(flags)] + [("i", i, x) for i, x in enumerate(ints)]

    def mk(kind, d):
        if kind == "f":
            return mk_flag(d)
        return d["v"] if d["mode"] == "py" else jnp.asarray(np.array(d["v"], dtype=np.int32))

    const = {(k, i): mk(k, d) for k, i, d in items if d["mode"] in ("py", "arr")}
    jf = {f"{k}{i}": mk(k, d) for k, i, d in items if d["mode"] == "jit"}
    vf = {f"{k}{i}": jnp.stack([mk(k, d)] * B) for k, i, d in items if d["mode"] == "vmap"}
    any_v, any_j = bool(vf), bool(jf)
    pls = [mk_payload(p) for p in payloads]

    def inner(jf_, vf_, pls_):
        def get(k, i):
            if (k, i) in const:
                return const[(k, i)]
            key = f"{k}{i}"
            return jf_[key] if key in jf_ else vf_[key]

        fl = [get("f", i) for i in range(len(flags))]
        ix = [get("i", i) for i in range(len(ints))]
        if ck:
            from genjax.checkify import do_checkify

            with do_checkify():
                return core(fl, pls_, ix)
        return core(fl, pls_, ix)

    if any_v:
        pls_b = jax.tree_util.tree_map(lambda x: jnp.stack([x + offset * b for b in range(B)]), pls)

        def fn(jf_, vf_, p):
            return jax.vmap(lambda v, q: inner(jf_, v, q))(vf_, p)

        args = (jf, vf, pls_b)
    else:
        fn = inner
        args = (jf, vf, pls)
    if any_j:
        fn = jax.jit(fn)
    if ck and (any_v or any_j):
        err, out = checkify.checkify(fn)(*args)
        if err.get() is not None:
            raise InvalidUnmask(err.get())
    else:
        out = fn(*args)
    if any_v:
        return [(jax.tree_util.tree_map(lambda x: x[b], out), offset * b) for b in range(B)]
    return [(out, 0)]


def err_enum(e: BaseException) -> str:
    """Python exception -> small enum (messages only used to split AssertionError)."""
    name = type(e).__name__
    msg = str(e)
    if isinstance(e, InvalidUnmask) or "Attempted to unmask" in msg:
        return "invalid-unmask"
    if "ncompatible shapes for broadcasting" in msg:
        return "shape"
    if isinstance(e, AssertionError):
        return "nested" if "another Mask" in msg else "shape"
    if isinstance(e, ValueError):
        if "Empty branch" in msg:
            return "empty"
        return "shape"
    if isinstance(e, TypeError):
        if "missing 1 required positional argument" in msg:
            return "empty"
        return "type"
    if isinstance(e, IndexError):
        return "shape"
    return "other:" + name


# ------------------------------------------------------------------ s-expressions


def tree_sx(n):
    """nested ints -> tree s-expression (python structure for common.sx)."""
    if isinstance(n, list):
        return ["t"] + [tree_sx(x) for x in n]
    return int(n)


def sx_tree_nested(s):
    """parsed s-expression of a tree -> nested ints."""
    if isinstance(s, list):
        assert s and s[0] == "t", s
        return [sx_tree_nested(x) for x in s[1:]]
    return int(s)


def flag_sx(f):
    v = f["v"]
    if isinstance(v, bool):
        return ["c" if f["mode"] == "py" else "d", v]
    return ["v"] + flat_bools(v)


def model_err(e: str) -> str:
    return "type" if e in ("type", "not-scalar") else e
