"""Model D support: random JAX programs, their execution, and the jaxpr -> protocol translator.

Three parts, all deterministic functions of a JSON-able *program description*:

* `gen_program(rng, ...)`  — type- and bound-directed generator of small integer JAX
  programs (description = nested dict of statements; sub-programs for cond / switch /
  scan / while / fori / jit / initial-style / custom_jvp / remat bodies, which may close
  over outer variables and over constant arrays).  Every intermediate is bounded well
  below 2^31 by construction, so int32 never wraps and the model's unbounded `Int` is exact.
* `build(desc)`            — the Python function the description denotes (plain `jnp` / `lax`
  code executed by a tiny interpreter; under `jax` tracing it yields an ordinary jaxpr).
* `translate(closed_jaxpr)` — serialises the REAL `ClosedJaxpr` that GenJAX's own `stage`
  produces (primitive names, `Var.count`, `Literal`s, `DropVar`s, constvars + values,
  sub-jaxprs inside params) into the s-expression protocol of `Driver/IRD.lean`.
"""

from __future__ import annotations

import re

BOUND_MAX = 1 << 20
CARRY_BOUND = 64
IN_BOUND = 6

# ------------------------------------------------------------------------------- generator


class _G:
    def __init__(self, rng, size, max_depth):
        self.rng, self.size, self.max_depth = rng, size, max_depth
        self.n = 0
        self.consts = {}

    def fresh(self, p="t"):
        self.n += 1
        return f"{p}{self.n}"


def _var(name, k, sh, b):
    return {"name": name, "k": k, "sh": tuple(sh), "b": int(b)}


def _compat(a, b):
    """Shapes broadcastable under 'equal or rank-0'."""
    return a == b or a == () or b == ()


def _bshape(a, b):
    return a if a != () else b


def _pick(g, scope, k=None, sh=None, rank=None, maxb=None, pred=None):
    c = [
        v
        for v in scope
        if (k is None or v["k"] == k)
        and (sh is None or v["sh"] == tuple(sh))
        and (rank is None or len(v["sh"]) == rank)
        and (maxb is None or v["b"] <= maxb)
        and (pred is None or pred(v))
    ]
    return g.rng.choice(c) if c else None


def _size(sh):
    n = 1
    for d in sh:
        n *= d
    return n


def _stmt(op, outs, args, **attrs):
    d = {"op": op, "o": [v["name"] for v in outs], "a": args}
    d.update(attrs)
    return d


def _gen_simple(g, scope):
    """One first-order statement; returns (stmt, [new vars]) or None when not applicable."""
    r = g.rng
    kind = r.choice(
        ["arith"] * 6 + ["cmp"] * 3 + ["where"] * 3 + ["unary"] * 2 + ["logic", "ipow", "cast", "idx", "didx", "didx",
         "slice", "dslice", "dupd", "reduce", "reduce", "cumsum", "sort", "sort2", "split", "concat", "bcast", "iota",
         "outer", "reshape", "transpose", "fdiv", "mod", "clip", "select", "dindex", "lit_arith", "square"]
    )
    if kind in ("arith", "lit_arith"):
        a = _pick(g, scope, k="i")
        if a is None:
            return None
        op = r.choice(["add", "sub", "mul", "add", "mul", "max", "min"])
        if kind == "lit_arith" or r.random() < 0.3:
            lit = r.randint(-3, 4)
            bb, bsh, bref = abs(lit), (), lit
        else:
            b = _pick(g, scope, k="i", pred=lambda v: _compat(v["sh"], a["sh"]))
            if b is None:
                return None
            bb, bsh, bref = b["b"], b["sh"], b["name"]
        nb = a["b"] * bb if op == "mul" else (a["b"] + bb if op in ("add", "sub") else max(a["b"], bb))
        if nb > BOUND_MAX:
            return None
        o = _var(g.fresh(), "i", _bshape(a["sh"], bsh), nb)
        args = [a["name"], bref] if r.random() < 0.7 or isinstance(bref, str) else [bref, a["name"]]
        if op in ("max", "min") and not isinstance(bref, str) and a["sh"] == ():
            # keep at least one array operand first for jnp.maximum(lit, x) as well
            args = [a["name"], bref]
        return _stmt(op, [o], args), [o]
    if kind == "cmp":
        a = _pick(g, scope, k="i")
        if a is None:
            return None
        if r.random() < 0.4:
            bsh, bref = (), r.randint(-2, 3)
        else:
            b = _pick(g, scope, k="i", pred=lambda v: _compat(v["sh"], a["sh"]))
            if b is None:
                return None
            bsh, bref = b["sh"], b["name"]
        o = _var(g.fresh("c"), "b", _bshape(a["sh"], bsh), 1)
        return _stmt(r.choice(["lt", "le", "gt", "ge", "eq", "ne"]), [o], [a["name"], bref]), [o]
    if kind == "where":
        c = _pick(g, scope, k="b")
        if c is None:
            return None
        a = _pick(g, scope, k="i", pred=lambda v: _compat(v["sh"], c["sh"]))
        if a is None:
            return None
        sh = _bshape(c["sh"], a["sh"])
        if r.random() < 0.4:
            bb, bref = 3, r.randint(-3, 3)
        else:
            b = _pick(g, scope, k="i", pred=lambda v: v["sh"] == () or v["sh"] == sh)
            if b is None:
                return None
            bb, bref = b["b"], b["name"]
            sh = _bshape(sh, b["sh"])
        o = _var(g.fresh(), "i", sh, max(a["b"], bb))
        return _stmt("where", [o], [c["name"], a["name"], bref]), [o]
    if kind == "select":
        c = _pick(g, scope, k="b")
        if c is None:
            return None
        a = _pick(g, scope, k="i", sh=c["sh"])
        b = _pick(g, scope, k="i", sh=c["sh"])
        if a is None or b is None:
            return None
        o = _var(g.fresh(), "i", c["sh"], max(a["b"], b["b"]))
        return _stmt("select", [o], [c["name"], a["name"], b["name"]]), [o]
    if kind == "unary":
        if r.random() < 0.25:
            c = _pick(g, scope, k="b")
            if c is None:
                return None
            o = _var(g.fresh("c"), "b", c["sh"], 1)
            return _stmt("not", [o], [c["name"]]), [o]
        a = _pick(g, scope, k="i")
        if a is None:
            return None
        op = r.choice(["neg", "abs", "sign"])
        o = _var(g.fresh(), "i", a["sh"], 1 if op == "sign" else a["b"])
        return _stmt(op, [o], [a["name"]]), [o]
    if kind == "square":
        a = _pick(g, scope, k="i", maxb=1000)
        if a is None:
            return None
        o = _var(g.fresh(), "i", a["sh"], a["b"] ** 2)
        return _stmt("square", [o], [a["name"]]), [o]
    if kind == "logic":
        c = _pick(g, scope, k="b")
        if c is None:
            return None
        d = _pick(g, scope, k="b", pred=lambda v: _compat(v["sh"], c["sh"]))
        if d is None:
            return None
        o = _var(g.fresh("c"), "b", _bshape(c["sh"], d["sh"]), 1)
        return _stmt(r.choice(["and", "or", "xor"]), [o], [c["name"], d["name"]]), [o]
    if kind == "ipow":
        k = r.choice([2, 3, 0, 1])
        a = _pick(g, scope, k="i", pred=lambda v: max(v["b"], 1) ** k <= BOUND_MAX)
        if a is None:
            return None
        o = _var(g.fresh(), "i", a["sh"], max(a["b"], 1) ** k)
        return _stmt("ipow", [o], [a["name"]], n=k), [o]
    if kind == "cast":
        if r.random() < 0.5:
            c = _pick(g, scope, k="b")
            if c is None:
                return None
            o = _var(g.fresh(), "i", c["sh"], 1)
            return _stmt("toint", [o], [c["name"]]), [o]
        a = _pick(g, scope, k="i")
        if a is None:
            return None
        o = _var(g.fresh("c"), "b", a["sh"], 1)
        return _stmt("tobool", [o], [a["name"]]), [o]
    if kind == "idx":
        v = _pick(g, scope, pred=lambda v: len(v["sh"]) >= 1)
        if v is None:
            return None
        i = r.randint(-v["sh"][0], v["sh"][0] - 1)
        o = _var(g.fresh(), v["k"], v["sh"][1:], v["b"])
        return _stmt("idx", [o], [v["name"]], n=i), [o]
    if kind in ("didx", "dindex"):
        v = _pick(g, scope, pred=lambda v: len(v["sh"]) >= 1)
        s = _pick(g, scope, k="i", sh=())
        if v is None or s is None:
            return None
        o = _var(g.fresh(), v["k"], v["sh"][1:], v["b"])
        return _stmt(kind, [o], [v["name"], s["name"]]), [o]
    if kind == "slice":
        v = _pick(g, scope, rank=1)
        if v is None:
            return None
        n = v["sh"][0]
        form = r.choice(["range", "rev", "stride"])
        if form == "range":
            lo = r.randint(0, n - 1)
            hi = r.randint(lo + 1, n)
            o = _var(g.fresh(), v["k"], (hi - lo,), v["b"])
            return _stmt("slice", [o], [v["name"]], lo=lo, hi=hi, st=1), [o]
        if form == "rev":
            o = _var(g.fresh(), v["k"], (n,), v["b"])
            return _stmt("rev", [o], [v["name"]]), [o]
        o = _var(g.fresh(), v["k"], ((n + 1) // 2,), v["b"])
        return _stmt("slice", [o], [v["name"]], lo=0, hi=n, st=2), [o]
    if kind == "dslice":
        v = _pick(g, scope, rank=1)
        s = _pick(g, scope, k="i", sh=())
        if v is None or s is None:
            return None
        k = r.randint(1, v["sh"][0])
        o = _var(g.fresh(), v["k"], (k,), v["b"])
        return _stmt("dslice", [o], [v["name"], s["name"]], n=k), [o]
    if kind == "dupd":
        v = _pick(g, scope, k="i", rank=1)
        s = _pick(g, scope, k="i", sh=())
        if v is None or s is None:
            return None
        u = _pick(g, scope, k="i", rank=1, pred=lambda w: w["sh"][0] <= v["sh"][0])
        if u is None:
            return None
        o = _var(g.fresh(), "i", v["sh"], max(v["b"], u["b"]))
        return _stmt("dupd", [o], [v["name"], u["name"], s["name"]]), [o]
    if kind == "reduce":
        v = _pick(g, scope, k="i", pred=lambda v: len(v["sh"]) >= 1)
        if v is None:
            return None
        op = r.choice(["sum", "rmax", "rmin", "sum"])
        ax = None if len(v["sh"]) == 1 or r.random() < 0.4 else r.randint(0, len(v["sh"]) - 1)
        n = _size(v["sh"]) if ax is None else v["sh"][ax]
        nb = v["b"] * n if op == "sum" else v["b"]
        if nb > BOUND_MAX:
            return None
        sh = () if ax is None else tuple(d for i, d in enumerate(v["sh"]) if i != ax)
        o = _var(g.fresh(), "i", sh, nb)
        return _stmt(op, [o], [v["name"]], ax=ax), [o]
    if kind == "cumsum":
        v = _pick(g, scope, k="i", rank=1)
        if v is None or v["b"] * v["sh"][0] > BOUND_MAX:
            return None
        o = _var(g.fresh(), "i", v["sh"], v["b"] * v["sh"][0])
        return _stmt("cumsum", [o], [v["name"]], rev=r.random() < 0.3), [o]
    if kind == "sort":
        v = _pick(g, scope, k="i", rank=1)
        if v is None:
            return None
        o = _var(g.fresh(), "i", v["sh"], v["b"])
        return _stmt("sort", [o], [v["name"]]), [o]
    if kind == "sort2":
        a = _pick(g, scope, k="i", rank=1)
        if a is None:
            return None
        b = _pick(g, scope, k="i", sh=a["sh"])
        if b is None:
            return None
        o1, o2 = _var(g.fresh(), "i", a["sh"], a["b"]), _var(g.fresh(), "i", a["sh"], b["b"])
        return _stmt("sort2", [o1, o2], [a["name"], b["name"]]), _maybe_drop(g, [o1, o2])
    if kind == "split":
        v = _pick(g, scope, rank=1, pred=lambda v: v["sh"][0] >= 2)
        if v is None:
            return None
        k = r.randint(1, v["sh"][0] - 1)
        o1, o2 = _var(g.fresh(), v["k"], (k,), v["b"]), _var(g.fresh(), v["k"], (v["sh"][0] - k,), v["b"])
        return _stmt("split", [o1, o2], [v["name"]], n=k), _maybe_drop(g, [o1, o2])
    if kind == "concat":
        a = _pick(g, scope, k="i", rank=1)
        b = _pick(g, scope, k="i", rank=1)
        if a is None or b is None or a["sh"][0] + b["sh"][0] > 6:
            return None
        o = _var(g.fresh(), "i", (a["sh"][0] + b["sh"][0],), max(a["b"], b["b"]))
        return _stmt("concat", [o], [a["name"], b["name"]]), [o]
    if kind == "bcast":
        s = _pick(g, scope, sh=())
        if s is None:
            return None
        o = _var(g.fresh(), s["k"], (r.randint(2, 4),), s["b"])
        return _stmt("bcast", [o], [s["name"]], n=o["sh"][0]), [o]
    if kind == "iota":
        n = r.randint(2, 4)
        o = _var(g.fresh(), "i", (n,), n)
        return _stmt("iota", [o], [], n=n), [o]
    if kind == "outer":
        a = _pick(g, scope, k="i", rank=1, pred=lambda v: v["sh"][0] <= 3)
        b = _pick(g, scope, k="i", rank=1, pred=lambda v: v["sh"][0] <= 3)
        if a is None or b is None or a["b"] * b["b"] > BOUND_MAX:
            return None
        o = _var(g.fresh("m"), "i", (a["sh"][0], b["sh"][0]), a["b"] * b["b"])
        return _stmt("outer", [o], [a["name"], b["name"]]), [o]
    if kind == "reshape":
        m = _pick(g, scope, rank=2)
        if m is None:
            return None
        o = _var(g.fresh(), m["k"], (_size(m["sh"]),), m["b"])
        return _stmt("flatten", [o], [m["name"]]), [o]
    if kind == "transpose":
        m = _pick(g, scope, rank=2)
        if m is None:
            return None
        o = _var(g.fresh("m"), m["k"], (m["sh"][1], m["sh"][0]), m["b"])
        return _stmt("transpose", [o], [m["name"]]), [o]
    if kind in ("fdiv", "mod"):
        a = _pick(g, scope, k="i")
        if a is None:
            return None
        k = r.randint(2, 5)
        o = _var(g.fresh(), "i", a["sh"], a["b"] if kind == "fdiv" else k)
        return _stmt(kind, [o], [a["name"]], n=k), [o]
    if kind == "clip":
        a = _pick(g, scope, k="i")
        if a is None:
            return None
        lo = r.randint(-4, 1)
        hi = r.randint(lo + 1, lo + 6)
        o = _var(g.fresh(), "i", a["sh"], max(abs(lo), abs(hi)))
        return _stmt("clip", [o], [a["name"]], lo=lo, hi=hi), [o]
    return None


def _maybe_drop(g, outs):
    """Multi-output statements sometimes never use one result (a DropVar in the jaxpr)."""
    if g.rng.random() < 0.5:
        i = g.rng.randrange(len(outs))
        return [o for j, o in enumerate(outs) if j != i]
    return outs


def _coerce(g, stmts, local, k, sh, bound, allow=None):
    """Produce (appending statements) a variable of kind k, shape sh, |value| <= bound."""
    r = g.rng
    sh = tuple(sh)
    cands = [v for v in local if v["k"] == k and v["sh"] == sh and (allow is None or v["name"] not in allow)]
    if not cands:
        same_sh = [v for v in local if v["sh"] == sh]
        if same_sh:
            v = r.choice(same_sh)
            if k == "b":
                o = _var(g.fresh("c"), "b", sh, 1)
                stmts.append(_stmt("gt", [o], [v["name"], 0]))
            else:
                o = _var(g.fresh(), "i", sh, 1)
                stmts.append(_stmt("toint", [o], [v["name"]]))
            local.append(o)
            cands = [o]
        else:
            kk = [v for v in local if v["k"] == k] or local
            v = r.choice(kk)
            cur = v
            if cur["k"] != k:
                if k == "b":
                    o = _var(g.fresh("c"), "b", cur["sh"], 1)
                    stmts.append(_stmt("ne", [o], [cur["name"], 0]))
                else:
                    o = _var(g.fresh(), "i", cur["sh"], 1)
                    stmts.append(_stmt("toint", [o], [cur["name"]]))
                local.append(o)
                cur = o
            # to scalar
            while len(cur["sh"]) > 0:
                o = _var(g.fresh(), cur["k"], cur["sh"][1:], cur["b"])
                stmts.append(_stmt("idx", [o], [cur["name"]], n=0))
                local.append(o)
                cur = o
            # to target shape
            for d in reversed(sh):
                o = _var(g.fresh(), cur["k"], (d,) + cur["sh"], cur["b"])
                stmts.append(_stmt("bcast", [o], [cur["name"]], n=d))
                local.append(o)
                cur = o
            cands = [cur]
    v = r.choice(cands)
    if k == "i" and v["b"] > bound:
        o = _var(g.fresh(), "i", sh, bound)
        stmts.append(_stmt("clip", [o], [v["name"]], lo=-bound, hi=bound))
        local.append(o)
        v = o
    return v


def _gen_sub(g, outer, params, out_types, depth, n_stmts=None, lit_outs=False):
    """A sub-program over `params` (may reference `outer` variables = closure).
    Returns (description, bounds of its outputs)."""
    r = g.rng
    stmts, local = [], list(params)
    n = n_stmts if n_stmts is not None else r.randint(1, 3)
    vis_outer = [v for v in outer if r.random() < 0.5] if outer else []
    for _ in range(n):
        _gen_stmt(g, stmts, local, vis_outer, depth)
    pool = local if local else list(outer)
    outs, bounds = [], []
    for k, sh, bound in out_types:
        if lit_outs and tuple(sh) == () and k == "i" and r.random() < 0.15:
            outs.append(r.randint(0, 5))
            bounds.append(5)
            continue
        v = _coerce(g, stmts, pool, k, sh, bound)
        outs.append(v["name"])
        bounds.append(v["b"])
    return {"params": [[p["name"], p["k"], list(p["sh"])] for p in params], "stmts": stmts, "outs": outs}, bounds


def _gen_control(g, stmts, local, outer, depth):
    """One higher-order statement (cond / switch / scan / while / fori / jit / is / cjvp / remat)."""
    r = g.rng
    scope = local + outer
    kind = r.choice(["cond", "cond", "switch", "scan", "scan", "while", "fori", "jit", "jit", "is", "cjvp", "remat"])
    d1 = depth + 1

    def params_from(vs, bound=None):
        return [_var(g.fresh("p"), v["k"], v["sh"], v["b"] if bound is None else max(v["b"], bound)) for v in vs]

    if kind in ("cond", "switch"):
        nops = r.randint(1, 2)
        ops = [r.choice(scope) for _ in range(nops)]
        if kind == "cond":
            p = _pick(g, scope, k="b", sh=()) or None
            if p is None:
                s = _pick(g, scope, k="i", sh=())
                if s is None:
                    return False
                p = _var(g.fresh("c"), "b", (), 1)
                stmts.append(_stmt("gt", [p], [s["name"], r.randint(-1, 2)]))
                local.append(p)
            nb = 2
        else:
            p = _pick(g, scope, k="i", sh=())
            if p is None:
                return False
            nb = r.randint(2, 3)
        nouts = r.randint(1, 2)
        ot = [(v["k"], v["sh"], 256) for v in (r.choice(scope) for _ in range(nouts))]
        gen = [_gen_sub(g, scope, params_from(ops), ot, d1) for _ in range(nb)]
        branches = [p for p, _ in gen]
        outs = [_var(g.fresh(), k, sh, max(bs[i] for _, bs in gen)) for i, (k, sh, _b) in enumerate(ot)]
        stmts.append(_stmt(kind, outs, [p["name"]] + [o["name"] for o in ops], subs=branches))
        local.extend(_maybe_drop(g, outs) if len(outs) > 1 else outs)
        return True
    if kind == "scan":
        ncar = r.randint(1, 2)
        carries = [r.choice(scope) for _ in range(ncar)]
        xs_c = [v for v in scope if len(v["sh"]) >= 1]
        nxs = r.randint(0, 2) if xs_c else 0
        if nxs:
            x0 = r.choice(xs_c)
            xs = [x0] + [v for v in (r.choice(xs_c) for _ in range(nxs - 1)) if v["sh"][0] == x0["sh"][0]]
            length = x0["sh"][0]
        else:
            xs, length = [], r.randint(1, 3)
        cpar = params_from(carries, CARRY_BOUND)
        xpar = [_var(g.fresh("p"), v["k"], v["sh"][1:], v["b"]) for v in xs]
        nys = r.randint(0, 2)
        ct = [(c["k"], c["sh"], c["b"]) for c in cpar]
        ys_pool = cpar + xpar
        yt = [(v["k"], v["sh"], 4096) for v in (r.choice(ys_pool) for _ in range(nys)) if len(v["sh"]) <= 1]
        body, bbs = _gen_sub(g, scope, cpar + xpar, ct + yt, d1, lit_outs=False)
        # literal y outputs are legal for scan
        for i in range(len(ct), len(body["outs"])):
            if tuple(yt[i - len(ct)][1]) == () and yt[i - len(ct)][0] == "i" and r.random() < 0.15:
                body["outs"][i] = r.randint(0, 5)
                bbs[i] = 5
        outs = [_var(g.fresh(), k, sh, b if k == "i" else 1) for k, sh, b in ct]
        outs += [_var(g.fresh(), k, (length,) + tuple(sh), bbs[len(ct) + i]) for i, (k, sh, _b) in enumerate(yt)]
        stmts.append(
            _stmt("scan", outs, [c["name"] for c in carries] + [x["name"] for x in xs], subs=[body], ncar=ncar,
                  length=length, rev=r.random() < 0.3)
        )
        local.extend(_maybe_drop(g, outs) if len(outs) > 1 else outs)
        return True
    if kind in ("while", "fori"):
        nst = r.randint(1, 2)
        state = [r.choice(scope) for _ in range(nst)]
        spar = params_from(state, CARRY_BOUND)
        cnt = _var(g.fresh("p"), "i", (), 8)
        st = [(c["k"], c["sh"], c["b"]) for c in spar]
        body, _bs = _gen_sub(g, scope, [cnt] + spar, st, d1)
        lim = _pick(g, scope, k="i", sh=(), maxb=IN_BOUND) if r.random() < 0.6 else None
        limit = lim["name"] if lim is not None else r.randint(0, 3)
        outs = [_var(g.fresh(), k, sh, b if k == "i" else 1) for k, sh, b in st]
        stmts.append(_stmt(kind, outs, [s["name"] for s in state], subs=[body], limit=limit))
        local.extend(outs)
        return True
    # call-like: jit / is / cjvp / remat
    nops = r.randint(0, 2) if kind == "jit" else r.randint(1, 2)
    ops = [r.choice(scope) for _ in range(nops)]
    if kind == "cjvp":
        ops = [v for v in ops if v["k"] == "i"]
        if not ops:
            return False
    pars = params_from(ops)
    pool = pars + scope
    nouts = r.randint(1, 2)
    ot = [(v["k"], v["sh"], 4096) for v in (r.choice(pool) for _ in range(nouts))]
    if kind == "cjvp":
        ot = [t for t in ot if t[0] == "i"] or [("i", (), 4096)]
    body, bbs = _gen_sub(g, scope if kind != "cjvp" else [], pars, ot, d1, lit_outs=(kind in ("jit", "is")))
    outs = [_var(g.fresh(), k, sh, bbs[i]) for i, (k, sh, _b) in enumerate(ot)]
    stmts.append(_stmt(kind, outs, [o["name"] for o in ops], subs=[body]))
    local.extend(_maybe_drop(g, outs) if len(outs) > 1 else outs)
    return True


def _gen_stmt(g, stmts, local, outer, depth):
    r = g.rng
    scope = local + outer
    if not scope:
        # nothing to compute from: make a constant
        o = _var(g.fresh(), "i", (r.randint(2, 3),), 3)
        stmts.append(_stmt("iota", [o], [], n=o["sh"][0]))
        local.append(o)
        return
    if depth < g.max_depth and r.random() < 0.22:
        before = len(local)
        if _gen_control(g, stmts, local, outer, depth):
            return
        del local[before:]
    for _ in range(8):
        res = _gen_simple(g, scope)
        if res is not None:
            st, new = res
            stmts.append(st)
            local.extend(new)
            return


def gen_program(rng, size=6, max_depth=2):
    """Random program description + argument types."""
    g = _G(rng, size, max_depth)
    r = rng
    nargs = r.choice([1, 2, 2, 3, 3, 4])
    params = []
    for _ in range(nargs):
        k = "b" if r.random() < 0.12 else "i"
        shc = r.choice([(), (), (3,), (3,), (2,), (4,), (2, 3)])
        params.append(_var(g.fresh("x"), k, shc, IN_BOUND if k == "i" else 1))
    consts = []
    for _ in range(r.choice([0, 1, 1, 2])):
        sh = r.choice([(3,), (2,), (4,), (), (2, 2)])
        c = _var(g.fresh("k"), "i", sh, 5)
        consts.append({"name": c["name"], "sh": list(sh), "data": [r.randint(-5, 5) for _ in range(_size(sh))]})
        params_c = c
        g.consts[c["name"]] = params_c
    stmts, local = [], list(params)
    outer = list(g.consts.values())
    n = r.randint(max(1, size // 2), size)
    for _ in range(n):
        _gen_stmt(g, stmts, local, outer, 0)
    # outputs: computed values, plus sometimes an input, a duplicate, a literal, a constant
    nout = r.randint(1, 4)
    created = [v for v in local if v not in params]
    outs = []
    for _ in range(nout):
        q = r.random()
        if q < 0.1:
            outs.append(r.randint(0, 9))
        elif q < 0.2 and params:
            outs.append(r.choice(params)["name"])
        elif q < 0.27 and outs:
            outs.append(r.choice(outs))
        elif q < 0.32 and outer:
            outs.append(r.choice(outer)["name"])
        elif created:
            outs.append(r.choice(created[-6:])["name"])
        else:
            outs.append(r.choice(local)["name"])
    nest = r.random() < 0.2 and nargs >= 2
    return {
        "params": [[p["name"], p["k"], list(p["sh"])] for p in params],
        "consts": consts,
        "stmts": stmts,
        "outs": outs,
        "nest_args": nest,
    }


def gen_args(rng, desc):
    """Concrete argument data (row-major int lists) for a description."""
    out = []
    for _name, k, sh in desc["params"]:
        n = _size(sh)
        if k == "b":
            out.append([rng.randint(0, 1) for _ in range(n)])
        else:
            out.append([rng.randint(-IN_BOUND, IN_BOUND) if rng.random() < 0.8 else rng.choice([0, 0, 1, -1]) for _ in range(n)])
    return out


def perturb_args(rng, desc, args, tags):
    """New data at the `U` positions only (guaranteed different where possible)."""
    out = []
    for (_name, k, sh), a, t in zip(desc["params"], args, tags):
        if t != "U":
            out.append(list(a))
            continue
        for _ in range(10):
            new = [rng.randint(0, 1) if k == "b" else rng.randint(-IN_BOUND, IN_BOUND) for _ in a]
            if new != list(a) or not a:
                break
        out.append(new)
    return out


def features(desc):
    """Statement operators used anywhere in a description (for the evidence histogram)."""
    ops = []

    def walk(p):
        for st in p["stmts"]:
            ops.append(st["op"])
            for s in st.get("subs", []):
                walk(s)

    walk(desc)
    return ops


# ------------------------------------------------------------------------------- builder

_IS_PRIM = None


def _is_prim():
    global _IS_PRIM
    if _IS_PRIM is None:
        from genjax._src.core.compiler.initial_style_primitive import InitialStylePrimitive

        _IS_PRIM = InitialStylePrimitive("verif_is")
    return _IS_PRIM


def _arr(kind, sh, data):
    import jax.numpy as jnp
    import numpy as np

    a = np.asarray(data, dtype=np.bool_ if kind == "b" else np.int32).reshape(tuple(sh))
    return jnp.asarray(a)


def build(desc, inline_calls=False):
    """The Python function denoted by `desc`.  Constant arrays are created here, outside the
    function, so that tracing closes over them (constvars).  With `inline_calls`, the
    call-like wrappers (jit / initial-style / custom_jvp / remat) call their body directly —
    the reference reading of "evaluate to their wrapped function"."""
    import jax
    import jax.numpy as jnp
    from jax import lax

    consts = {c["name"]: _arr("i", c["sh"], c["data"]) for c in desc.get("consts", [])}

    def ref(env, x):
        return env[x] if isinstance(x, str) else x

    def run_sub(sub, env, vals):
        e = dict(env)
        for (name, _k, _sh), v in zip(sub["params"], vals):
            e[name] = v
        run_stmts(sub["stmts"], e)
        return tuple(ref(e, o) for o in sub["outs"])

    def run_stmts(stmts, env):
        for st in stmts:
            res = run_stmt(st, env)
            if not isinstance(res, (tuple, list)):
                res = (res,)
            assert len(res) == len(st["o"]), (st["op"], len(res), st["o"])
            for n, v in zip(st["o"], res):
                env[n] = v

    def run_stmt(st, env):
        op = st["op"]
        a = [ref(env, x) for x in st["a"]]
        if op == "add":
            return a[0] + a[1]
        if op == "sub":
            return a[0] - a[1]
        if op == "mul":
            return a[0] * a[1]
        if op == "max":
            return jnp.maximum(a[0], a[1])
        if op == "min":
            return jnp.minimum(a[0], a[1])
        if op == "lt":
            return a[0] < a[1]
        if op == "le":
            return a[0] <= a[1]
        if op == "gt":
            return a[0] > a[1]
        if op == "ge":
            return a[0] >= a[1]
        if op == "eq":
            return a[0] == a[1]
        if op == "ne":
            return a[0] != a[1]
        if op == "where":
            return jnp.where(a[0], a[1], a[2])
        if op == "select":
            return lax.select(a[0], a[1], a[2])
        if op == "neg":
            return -a[0]
        if op == "abs":
            return jnp.abs(a[0])
        if op == "sign":
            return jnp.sign(a[0])
        if op == "square":
            return jnp.square(a[0])
        if op == "not":
            return ~a[0]
        if op == "and":
            return a[0] & a[1]
        if op == "or":
            return a[0] | a[1]
        if op == "xor":
            return a[0] ^ a[1]
        if op == "ipow":
            return a[0] ** st["n"]
        if op == "toint":
            return a[0].astype(jnp.int32)
        if op == "tobool":
            return a[0].astype(jnp.bool_)
        if op == "idx":
            return a[0][st["n"]]
        if op == "didx":
            return a[0][a[1]]
        if op == "dindex":
            return lax.dynamic_index_in_dim(a[0], a[1], axis=0, keepdims=False)
        if op == "slice":
            if st["st"] != 1:
                return lax.slice(a[0], (st["lo"],), (st["hi"],), (st["st"],))
            return a[0][st["lo"]:st["hi"]]
        if op == "rev":
            return a[0][::-1]
        if op == "dslice":
            return lax.dynamic_slice(a[0], (a[1],), (st["n"],))
        if op == "dupd":
            return lax.dynamic_update_slice(a[0], a[1], (a[2],))
        if op == "sum":
            return jnp.sum(a[0], axis=st["ax"])
        if op == "rmax":
            return jnp.max(a[0], axis=st["ax"])
        if op == "rmin":
            return jnp.min(a[0], axis=st["ax"])
        if op == "cumsum":
            return lax.cumsum(a[0], axis=0, reverse=st["rev"])
        if op == "sort":
            return jnp.sort(a[0])
        if op == "sort2":
            return lax.sort((a[0], a[1]), num_keys=1)
        if op == "split":
            return tuple(jnp.split(a[0], [st["n"]]))
        if op == "concat":
            return jnp.concatenate([a[0], a[1]])
        if op == "bcast":
            return jnp.broadcast_to(a[0], (st["n"],) + tuple(jnp.shape(a[0])))
        if op == "iota":
            return jnp.arange(st["n"], dtype=jnp.int32)
        if op == "outer":
            return a[0][:, None] * a[1][None, :]
        if op == "flatten":
            return a[0].reshape(-1)
        if op == "transpose":
            return a[0].T
        if op == "fdiv":
            return a[0] // st["n"]
        if op == "mod":
            return a[0] % st["n"]
        if op == "clip":
            return jnp.clip(a[0], st["lo"], st["hi"])
        subs = st.get("subs", [])
        if op == "cond":
            return lax.cond(a[0], *[(lambda *v, s=s: run_sub(s, env, v)) for s in subs], *a[1:])
        if op == "switch":
            return lax.switch(a[0], [(lambda *v, s=s: run_sub(s, env, v)) for s in subs], *a[1:])
        if op == "scan":
            ncar = st["ncar"]
            init, xs = tuple(a[:ncar]), tuple(a[ncar:])

            def body(c, x):
                out = run_sub(subs[0], env, tuple(c) + tuple(x))
                return tuple(out[:ncar]), tuple(out[ncar:])

            c, ys = lax.scan(body, init, xs, length=st["length"], reverse=st["rev"])
            return tuple(c) + tuple(ys)
        if op == "while":
            lim = ref(env, st["limit"])
            out = lax.while_loop(
                lambda c: c[0] < lim,
                lambda c: (c[0] + 1,) + tuple(run_sub(subs[0], env, tuple(c))),
                (0,) + tuple(a),
            )
            return tuple(out[1:])
        if op == "fori":
            lim = ref(env, st["limit"])
            lim = jnp.clip(lim, 0, 4) if isinstance(st["limit"], str) else lim
            return tuple(lax.fori_loop(0, lim, lambda i, c: tuple(run_sub(subs[0], env, (i,) + tuple(c))), tuple(a)))
        if op in ("jit", "is", "cjvp", "remat"):
            fn = lambda *v: run_sub(subs[0], env, v)  # noqa: E731
            if inline_calls:
                return fn(*a)
            if op == "jit":
                return jax.jit(fn)(*a)
            if op == "remat":
                return jax.checkpoint(fn)(*a)
            if op == "is":
                from genjax._src.core.compiler.initial_style_primitive import initial_style_bind

                return initial_style_bind(_is_prim())(fn)(*a)
            cj = jax.custom_jvp(fn)
            cj.defjvp(lambda p, t: (fn(*p), tuple(jnp.zeros_like(o) for o in fn(*p))))
            return cj(*a)
        raise ValueError(f"unknown op {op}")

    names = [p[0] for p in desc["params"]]
    nest = desc.get("nest_args", False)

    def f(*args):
        if nest:
            # (x0, (x1, ...)) : a nested pytree argument, flattened by `stage`
            args = (args[0],) + tuple(args[1])
        env = dict(consts)
        env.update(zip(names, args))
        run_stmts(desc["stmts"], env)
        return tuple(ref(env, o) for o in desc["outs"])

    return f


def make_args(desc, data):
    vals = [_arr(k, sh, d) for (_n, k, sh), d in zip(desc["params"], data)]
    if desc.get("nest_args", False) and len(vals) >= 2:
        return (vals[0], tuple(vals[1:]))
    return tuple(vals)


def make_tangents(desc, tags):
    from genjax._src.core.compiler.interpreters.incremental import NoChange, UnknownChange

    ts = [NoChange if t == "N" else UnknownChange for t in tags]
    if desc.get("nest_args", False) and len(desc["params"]) >= 2:
        return (ts[0], tuple(ts[1:])) if len(ts) >= 1 else ()
    return tuple(ts)


# ------------------------------------------------------------------------------- translator


class Untranslatable(Exception):
    pass


def _san(s):
    return re.sub(r"[^A-Za-z0-9_:\-]", "_", str(s)) or "_"


def ser_val(x, dtype=None):
    import numpy as np

    a = np.asarray(x)
    dt = np.dtype(dtype) if dtype is not None else a.dtype
    if dt == np.bool_:
        tag = "bool"
    elif np.issubdtype(dt, np.integer):
        tag = "i32"
    else:
        raise Untranslatable(f"dtype {dt}")
    flat = [int(v) for v in a.astype(np.int64).reshape(-1)]
    return f"({tag} ({' '.join(str(d) for d in a.shape)}) ({' '.join(str(v) for v in flat)}))"


def _ser_param(name, v, prim):
    import numpy as np
    from jax.extend.core import ClosedJaxpr, Jaxpr

    if isinstance(v, ClosedJaxpr):
        return translate(v)
    if isinstance(v, Jaxpr):
        return f"(cj {ser_jaxpr(v)} ())"
    if isinstance(v, bool):
        return "(b T)" if v else "(b F)"
    if isinstance(v, (int, np.integer)):
        return f"(i {int(v)})"
    if v is None:
        return "(n)"
    if isinstance(v, str):
        return f"(s {_san(v)})"
    if isinstance(v, (np.dtype,)) or (isinstance(v, type) and issubclass(v, np.generic)):
        return f"(s {_san(np.dtype(v).name)})"
    if isinstance(v, (tuple, list)):
        if all(isinstance(x, (int, np.integer)) and not isinstance(x, bool) for x in v):
            return "(is" + "".join(f" {int(x)}" for x in v) + ")"
        if v and all(isinstance(x, (ClosedJaxpr, Jaxpr)) for x in v):
            return "(ls " + " ".join(_ser_param(name, x, prim) for x in v) + ")"
        return "(o)"
    if name == "impl" and callable(v) and getattr(v, "__closure__", None):
        # InitialStylePrimitive: the staged ClosedJaxpr lives in `_impl`'s closure
        for cell in v.__closure__:
            try:
                c = cell.cell_contents
            except ValueError:
                continue
            if isinstance(c, ClosedJaxpr):
                # `_impl` receives the consts as leading operands (num_consts): no closed consts
                return f"(cj {ser_jaxpr(c.jaxpr)} ())"
        return "(o)"
    try:
        dt = np.dtype(v)
        return f"(s {_san(dt.name)})"
    except Exception:  # noqa: BLE001
        return "(o)"


def _ser_atom(v):
    from jax.extend.core import Literal

    if isinstance(v, Literal):
        return f"(l {ser_val(v.val, v.aval.dtype)})"
    return f"(v {v.count})"


def _ser_binder(v):
    import jax.core as jc

    if isinstance(v, jc.DropVar):
        return "_"
    return f"(v {v.count})"


def ser_jaxpr(j):
    eqns = []
    for e in j.eqns:
        ps = " ".join(f"({_san(k)} {_ser_param(k, v, e.primitive)})" for k, v in sorted(e.params.items()))
        eqns.append(
            f"(e {_san(e.primitive.name)} {'T' if e.primitive.multiple_results else 'F'} ({ps}) "
            f"({' '.join(_ser_atom(v) for v in e.invars)}) ({' '.join(_ser_binder(v) for v in e.outvars)}))"
        )
    return (
        f"(jaxpr ({' '.join(str(v.count) for v in j.constvars)}) ({' '.join(str(v.count) for v in j.invars)}) "
        f"({' '.join(eqns)}) ({' '.join(_ser_atom(v) for v in j.outvars)}))"
    )


def translate(cj):
    """ClosedJaxpr -> `(cj <jaxpr> (<const> …))`."""
    consts = " ".join(ser_val(c, v.aval.dtype) for c, v in zip(cj.consts, cj.jaxpr.constvars))
    return f"(cj {ser_jaxpr(cj.jaxpr)} ({consts}))"


def prims_of(cj):
    """All primitive names in a ClosedJaxpr, nested ones included (evidence histogram)."""
    from jax.extend.core import ClosedJaxpr, Jaxpr

    out = []

    def walk(j):
        for e in j.eqns:
            out.append(e.primitive.name)
            for k, v in e.params.items():
                vs = v if isinstance(v, (tuple, list)) else [v]
                for x in vs:
                    if isinstance(x, ClosedJaxpr):
                        walk(x.jaxpr)
                    elif isinstance(x, Jaxpr):
                        walk(x)
                if k == "impl" and callable(v) and getattr(v, "__closure__", None):
                    for cell in v.__closure__:
                        try:
                            c = cell.cell_contents
                        except ValueError:
                            continue
                        if isinstance(c, ClosedJaxpr):
                            walk(c.jaxpr)

    walk(cj.jaxpr)
    return out


def shape_facts(cj):
    """Structural features of the top-level jaxpr."""
    import jax.core as jc
    from jax.extend.core import Literal

    j = cj.jaxpr
    f = set()
    if j.constvars:
        f.add("constvars")
    if any(isinstance(v, Literal) for v in j.outvars):
        f.add("literal-outvar")
    nonlit = [v for v in j.outvars if not isinstance(v, Literal)]
    if len(set(map(id, nonlit))) < len(nonlit):
        f.add("duplicated-outvar")
    if any(v in j.invars for v in nonlit):
        f.add("input-as-outvar")
    for e in j.eqns:
        if any(isinstance(v, jc.DropVar) for v in e.outvars):
            f.add("dropvar")
        if any(isinstance(v, Literal) for v in e.invars):
            f.add("literal-operand")
        if e.primitive.multiple_results and len(e.outvars) > 1:
            f.add("multi-result")
    return sorted(f)
