"""C13 extras, evaluated on the implementation alone (predicates; the Lean model does not cover them):

* `mix`: the score of a mixture trace is the categorical log-probability of the chosen component
  plus that component's score (float tolerance; `mix` hard-wires `genjax.categorical`);
* out-of-range switch indices: the documentation promises clamping, consistently for score, return
  value and choices (the pinned implementation clamped only the executed branch; repaired by a `fix:`
  commit, and since then also part of the model, `C13_clamp`).  The probe stays as a direct test.
"""

from __future__ import annotations


def probe(_):
    import genjax
    import jax
    import jax.numpy as jnp
    import numpy as np
    from genjax import ChoiceMap as C

    out = {"mix": [], "oob": []}

    @genjax.gen
    def f(x):
        return genjax.normal(x, 1.0) @ "a"

    @genjax.gen
    def g(x, y):
        u = genjax.normal(x + y, 2.0) @ "b"
        return u + genjax.normal(0.0, 1.0) @ "c"

    m = genjax.mix(f, g)
    for seed, logits in [(0, [0.1, 0.9]), (1, [2.0, -1.0]), (5, [0.0, 0.0]), (9, [-3.0, 1.5])]:
        lg = jnp.asarray(logits)
        args = (lg, (1.5,), (0.5, -1.0))
        tr = m.simulate(jax.random.key(seed), args)
        ch = tr.get_choices()
        k = int(ch["mixture_component"])
        comp = [f, g][k]
        sub = ch("component_sample")
        sc, _ = comp.assess(C.d({a: sub[a] for a in (["a"] if k == 0 else ["b", "c"])}), args[1 + k])
        want = float(jax.nn.log_softmax(lg)[k] + sc)
        asc, _ = m.assess(ch, args)
        out["mix"].append({"seed": seed, "k": k, "score": float(tr.get_score()), "want": want, "assess": float(asc),
                           "ok": bool(np.isclose(float(tr.get_score()), want, rtol=1e-5, atol=1e-5)
                                      and np.isclose(float(asc), want, rtol=1e-5, atol=1e-5))})

    d0 = genjax.exact_density(lambda key: jnp.asarray(1, dtype=jnp.int32), lambda v: jnp.asarray(10.0 + v), "OobA")
    d1 = genjax.exact_density(lambda key: jnp.asarray(2, dtype=jnp.int32), lambda v: jnp.asarray(20.0 + v), "OobB")
    d2 = genjax.exact_density(lambda key: jnp.asarray(3, dtype=jnp.int32), lambda v: jnp.asarray(30.0 + v), "OobC")
    sw = genjax.switch(d0, d1, d2)
    ref = {}
    for k in range(3):
        tr = sw.simulate(jax.random.key(0), (jnp.asarray(k), (), (), ()))
        ref[k] = (float(tr.get_score()), int(tr.get_retval()))
    for idx in (-2, -1, 3, 4, 7):
        ck = min(max(idx, 0), 2)
        rec = {"idx": idx, "clamped": ck}
        try:
            tr = sw.simulate(jax.random.key(0), (jnp.asarray(idx), (), (), ()))
            sc, rv = float(tr.get_score()), int(tr.get_retval())
            chm = tr.get_choices()
            try:
                v = chm.get_value()
                from genjax import Mask

                present = v is not None and (not isinstance(v, Mask) or bool(np.asarray(v.primal_flag())))
            except Exception:  # noqa: BLE001
                present = False
            rec.update({"score": sc, "ret": rv, "choice_present": present, "want": ref[ck],
                        "ok": (sc, rv) == ref[ck] and present})
        except Exception as e:  # noqa: BLE001
            rec.update({"error": type(e).__name__, "ok": False})
        out["oob"].append(rec)
    return out


def run_extras(ctx, common):
    res = common.run_impl_parallel("harness.c13_extra", "probe", [None], procs=1)[0]
    if "__harness_error__" in res or "__worker_lost__" in res:
        raise common.Infra(str(res)[:500])
    ctx.notes["mix_probe"] = res["mix"]
    ctx.notes["oob_probe"] = res["oob"]
    for r in res["mix"]:
        ctx.case_done({"mix": r["seed"]}, True)
        ctx.count("mix-probe")
        if not r["ok"]:
            ctx.fail("predicate", {"probe": "mix", **r}, r, {"call": "mix", "feature": "score"}, "mix score")
    for r in res["oob"]:
        ctx.case_done({"oob": r["idx"]}, True)
        ctx.count("oob-probe")
        if not r["ok"]:
            ctx.fail("predicate", {"probe": "switch-out-of-range", **r}, r,
                     {"call": "Switch.simulate", "feature": "index_out_of_range"}, "documented clamping")
