"""C26 — Importance and SMC return properly weighted particles and unbiased evidence.

Two case families.

`smc` (bookkeeping, exact): straight-line targets over integer-valued test distributions,
algorithms Importance / ImportanceK / ChangeTarget stacks, proposals none / a harness-defined
exact SampleDistribution / `proposal.marginal(sel)`; operations run_smc and run_csmc.
  Correspondence: Lean `Alg.runSmc` / `Alg.runCsmc` on `progGF` vs the real particle
  collections — choices, scores, log-weights, exact integer equality (the model reproduces
  every sampled value through its threefry, so key routing is compared too).
  Predicate (implementation only; site log-densities recomputed from the case description):
  constraints satisfied; weight = sum of site log-densities over (observed + proposed
  addresses) - proposal log-density; ChangeTarget increment = new generate weight - old score;
  lml = logsumexp(w) - log K; with key-revealing distributions an unproposed latent must not
  coincide with a proposed one in every particle.

`enum` (genuine probabilities, 1e-5 / statistical): x ~ categorical, z ~ flip(pz[x]),
y ~ flip(py[x][z]) with dyadic tables, observations on y (and sometimes z), exact posterior by
enumeration with `assess`: particle weights, lml, `random_weighted` (only unconstrained
choices; estimate = score - lml of the recomputed collection), `estimate_logpdf`, the exact
sampling-importance-resampling output law for K = 2 and unbiasedness of exp(lml) (supporting,
5 sigma).
"""

from __future__ import annotations

import math
import os

from harness import common, infer_gen as G
from harness.common import Ctx, Spec, ask_driver, parse_sx

SIG_MARG = {"call": "run_smc", "proposal": "Marginal", "feature": "proposal_weight_missing"}
SIG_ANNOT = {"call": "estimate_logpdf", "feature": "beartype_rejects_non_tuple_args"}
SIG_KEYS = {"call": "ImportanceK.run_smc", "feature": "proposal_and_target_share_sub_keys"}
SIG_K1 = {"call": "ImportanceK.run_csmc", "feature": "k_particles_1"}
SIG_STACK = {"call": "ImportanceK.run_csmc", "proposal": "none", "feature": "stack_to_first_dim_vector_leaf"}


# ------------------------------------------------------------------ generation (smc family)


def gen_target(rng, prog, p_obs=0.4):
    addrs = [s[0] for s in prog]
    obs = [a for a in addrs if rng.random() < p_obs]
    return ["tgt", prog, [], G.rand_chm(rng, prog, obs)]


def gen_q(rng, target, kind):
    prog, cons = target[1], target[3]
    addrs = [s[0] for s in prog]
    obs = [a for a, _ in cons]
    lat = [a for a in addrs if a not in obs]
    if kind == "none" or not lat:
        return "none"
    qa = sorted(rng.sample(lat, rng.randint(1, len(lat))), key=addrs.index)
    if rng.random() < 0.1 and obs:  # proposal overlapping a constrained address (left-biased merge)
        qa = sorted(set(qa + [rng.choice(obs)]), key=addrs.index)
    by = {s[0]: s for s in prog}
    oargs = [a for a in obs if rng.random() < 0.7][:2]
    qprog = []
    for j, a in enumerate(qa):
        s = G.rand_site(rng, a, j, len(oargs))
        s[1] = by[a][1]  # same support as the model's site
        qprog.append(s)
    if kind == "exact":
        return ["exact", qprog, oargs]
    sel = [True] if rng.random() < 0.7 else [False] + sorted(rng.sample(qa, rng.randint(1, len(qa))))
    return ["marg", qprog, oargs, sel]


def gen_smc_case(rng, i):
    n = rng.randint(2, 4)
    prog = G.rand_prog(rng, n, 0)
    t = gen_target(rng, prog)
    qk = rng.choice(["none", "exact", "exact", "exact", "marg"])
    q = gen_q(rng, t, qk)
    if rng.random() < 0.5:
        alg = ["imp", t, q]
    else:
        alg = ["impk", t, q, rng.randint(1, 4)]
    depth = rng.choice([0, 0, 1, 2])
    for _ in range(depth):
        alg = ["ct", alg, gen_target(rng, prog)]
    op = "smc" if rng.random() < 0.6 else "csmc"
    case = {"id": i, "fam": "smc", "seed": rng.randrange(1000), "alg": alg, "op": op, "k": G.rand_key(rng)}
    if op == "csmc":
        base = alg
        while base[0] == "ct":
            base = base[1]
        if base[0] == "impk" and base[3] < 2:
            base[3] = 2
        bt, bq = base[1], base[2]
        lat = [a for a in [s[0] for s in prog] if a not in [x for x, _ in bt[3]]]
        need = [s[0] for s in bq[1]] if bq != "none" else []
        if base[0] == "impk" and bq != "none":
            ra = need  # ImportanceK stacks the retained choice onto the proposals' choices: same addresses
        else:
            ra = sorted(set(need + [a for a in lat if rng.random() < 0.6]), key=[s[0] for s in prog].index)
        case["retained"] = G.rand_chm(rng, prog, ra)
    return case


def gen_keyprobe(rng, i, K):
    """Target z (latent, not proposed), x (latent, proposed), y (observed); proposal's only
    site is x: with shared sub-keys proposal site 1 and target site 1 (z) draw the same word."""
    B = G.BIGMOD
    prog = [["z", B, 1009, 1, 0, ["c", 0]], ["x", B, 2003, 2, 0, ["c", 0]], ["y", 5, 3001, 17, 0, ["c", 1]]]
    t = ["tgt", prog, [], [["y", 2]]]
    q = ["exact", [["x", B, 4001, 3, 0, ["c", 0]]], []]
    alg = ["impk", t, q, K] if K > 0 else ["imp", t, q]
    return {"id": i, "fam": "smc", "keyprobe": True, "seed": rng.randrange(1000), "alg": alg, "op": "smc", "k": G.rand_key(rng)}


def op_of(case):
    if case["op"] == "smc":
        return ["smc", case["alg"], case["k"]]
    return ["csmc", case["alg"], case["k"], case["retained"]]


# ------------------------------------------------------------------ reference densities


def site_lps(prog, vals, args=()):
    """Per-site log densities of a straight-line program at a full assignment (reference
    computed from the case description, not by the implementation)."""
    out, seq = {}, []
    for s in prog:
        kind, n = s[5]
        a = n if kind == "c" else (seq[n] if kind == "p" else args[n])
        v = vals[s[0]]
        out[s[0]] = s[2] + s[3] * v + s[4] * a * v
        seq.append(v)
    return out


def q_lp(q, target, proposed):
    cons = dict(map(tuple, target[3]))
    return sum(site_lps(q[1], proposed, [cons[a] for a in q[2]]).values())


def final_target(alg):
    return alg[2] if alg[0] == "ct" else alg[1]


# ------------------------------------------------------------------ implementation side (smc family)


def impl_smc(case):
    import numpy as np
    from harness import infer_impl as I

    alg_d = case["alg"]
    addrs = I.alg_addrs(alg_d)
    alg = I.build_alg(alg_d)
    key = I.key_at(case["seed"], case["k"])
    if case["op"] == "smc":
        pc = alg.run_smc(key)
    else:
        pc = alg.run_csmc(key, I.build_chm(case["retained"]))
    parts = I.obs_particles(pc, addrs)
    lml = float(pc.get_log_marginal_likelihood_estimate())
    out = {"particles": parts, "lml": lml}
    why = []
    ft = final_target(alg_d)
    prog = ft[1]
    cons = dict(map(tuple, ft[3]))
    for ch, sc, w in parts:
        d = dict(map(tuple, ch))
        if any(d.get(a) != v for a, v in cons.items()):
            why.append(("constraints", f"particle {ch} violates constraint {ft[3]}"))
        if set(d) != set(addrs):
            why.append(("shape", "particle does not have every address"))
        elif sc != sum(site_lps(prog, d).values()):
            why.append(("score", f"particle score {sc} != sum of site log densities"))
    if abs(lml - I.logmeanexp([p[2] for p in parts])) > 5e-2:
        why.append(("lml", f"lml {lml} != logsumexp(w) - log K = {I.logmeanexp([p[2] for p in parts])}"))
    # weights
    if alg_d[0] != "ct" and not why:
        t, q = alg_d[1], alg_d[2]
        obs = [a for a, _ in t[3]]
        for idx, (ch, sc, w) in enumerate(parts):
            d = dict(map(tuple, ch))
            lps = site_lps(prog, d)
            retained = case["op"] == "csmc" and idx == len(parts) - 1
            if retained:
                given = [a for a, _ in case["retained"]]
                prop_addrs = given
                qscore = q_lp(q, t, dict(map(tuple, case["retained"]))) if q != "none" else 0
            elif q == "none":
                prop_addrs, qscore = [], 0
            else:
                prop_addrs = [s[0] for s in q[1]]
                if q[0] == "marg":
                    sel = q[3]
                    prop_addrs = [a for a in prop_addrs if (a in sel[1:]) != sel[0]]
                    if len(prop_addrs) != len(q[1]):
                        continue  # a proposal that marginalises some of its own choices: C25's subject
                # proposed values at addresses the target constrains are overridden (left-biased merge)
                qvals = {}
                for s_ in q[1]:
                    qvals[s_[0]] = d[s_[0]]
                if any(a in obs for a in prop_addrs):
                    continue  # the proposed value is not observable in the particle
                qscore = q_lp(q, t, qvals)
            required = sum(lps[a] for a in set(obs) | set(prop_addrs)) - qscore
            if w != required:
                why.append(("weight", f"particle {idx}: log weight {w} != log p(obs, proposed) - log q = {required} (q score {qscore})"))
                break
    if alg_d[0] == "ct" and case["op"] == "smc" and not why:
        prev_d = alg_d[1]
        prev = I.build_alg(prev_d)
        old = I.obs_particles(prev.run_smc(key), addrs)
        pt = final_target(prev_d)
        platent = [a for a in addrs if a not in [x for x, _ in pt[3]]]
        for idx, ((ch, sc, w), (och, osc, ow)) in enumerate(zip(parts, old)):
            d, od = dict(map(tuple, ch)), dict(map(tuple, och))
            if any(d[a] != od[a] for a in platent if a not in cons):
                why.append(("change-target", f"particle {idx}: a latent of the previous target changed"))
                break
            lps = site_lps(prog, d)
            inc = sum(lps[a] for a in set(cons) | set(platent)) - osc
            if w - ow != inc:
                why.append(("change-target", f"particle {idx}: weight increment {w - ow} != new target weight - old score = {inc}"))
                break
    if case.get("keyprobe") and len(parts) >= 3:
        if all(dict(map(tuple, ch))["z"] == dict(map(tuple, ch))["x"] for ch, _, _ in parts):
            why.append(("keys", "the unproposed latent z equals the proposed x in every particle: proposal and target.importance drew from the same key"))
        xs = [dict(map(tuple, ch))["x"] for ch, _, _ in parts]
        if len(set(xs)) == 1:
            why.append(("keys-particles", "all particles drew the same proposal value"))
    out["pred"] = why
    return out


# ------------------------------------------------------------------ enum family


def gen_enum_case(rng, i):
    dy = [1 / 8, 1 / 4, 3 / 8, 1 / 2, 5 / 8, 3 / 4, 7 / 8]
    px = rng.choice([[1 / 2, 1 / 4, 1 / 4], [1 / 4, 1 / 4, 1 / 2], [1 / 8, 5 / 8, 1 / 4]])
    pz = [rng.choice(dy) for _ in range(3)]
    py = [[rng.choice(dy) for _ in range(2)] for _ in range(3)]
    obs = {"y": rng.choice([0, 1])}
    if rng.random() < 0.3:
        obs["z"] = rng.choice([0, 1])
    qx = rng.choice([None, [1 / 4, 1 / 2, 1 / 4], [1 / 2, 1 / 8, 3 / 8]])
    K = rng.choice([1, 2, 2, 3, 5])
    return {"id": i, "fam": "enum", "seed": rng.randrange(1000), "px": px, "pz": pz, "py": py, "obs": obs, "qx": qx,
            "K": K, "imp1": K == 1 and rng.random() < 0.5, "k": G.rand_key(rng), "n": 2000}


def impl_enum(case):
    import itertools

    import jax
    import jax.numpy as jnp
    import numpy as np

    import genjax
    from genjax import ChoiceMap
    from genjax._src.inference.smc import ChangeTarget, Importance, ImportanceK
    from genjax._src.inference.sp import Target
    from harness import infer_impl as I

    px, pz, py, obs, qx, K = case["px"], case["pz"], case["py"], case["obs"], case["qx"], case["K"]

    @genjax.gen
    def model():
        x = genjax.categorical(probs=jnp.array(px)) @ "x"
        z = genjax.flip(jnp.array(pz)[x]) @ "z"
        y = genjax.flip(jnp.array(py)[x, z.astype(jnp.int32)]) @ "y"
        return y

    @genjax.gen
    def prop(tgt):
        x = genjax.categorical(probs=jnp.array(qx if qx else px)) @ "x"
        return x

    def chm(d):
        return ChoiceMap.d({k: (jnp.int32(v) if k == "x" else jnp.bool_(bool(v))) for k, v in d.items()})

    def logp(d):
        return float(model.assess(chm(d), ())[0])

    target = Target(model, (), chm(obs))
    q = I.ExactProposal(prop) if qx else None
    alg = Importance(target, q) if case["imp1"] else ImportanceK(target, q, K)
    key = I.key_at(case["seed"], case["k"])
    lat = [a for a in ("x", "z") if a not in obs]
    full = [dict(zip(("x", "z"), v)) for v in itertools.product(range(3), range(2))]
    full = [dict(d, **obs) for d in full if all(d[a] == obs[a] for a in obs if a in d)]
    joint = {(d["x"], d["z"]): math.exp(logp(d)) for d in full}
    Z = sum(joint.values())
    why = []

    def req_weight(d):
        # log p(particle, obs) - log q(proposed x) - log prior(unproposed latents | parents)
        w = logp(d)
        if qx:
            w -= math.log(qx[d["x"]])
        else:
            w -= math.log(px[d["x"]])
        if "z" not in obs:
            w -= math.log(pz[d["x"]] if d["z"] else 1 - pz[d["x"]])
        return w

    def particles(pc):
        ch = pc.get_particles().get_choices()
        xs, zs, ys = (np.asarray(ch[a]).reshape(-1) for a in ("x", "z", "y"))
        return [dict(x=int(a), z=int(b), y=int(c)) for a, b, c in zip(xs, zs, ys)], np.asarray(pc.get_log_weights()).reshape(-1)

    pc = alg.run_smc(key)
    ps, ws = particles(pc)
    for d, w in zip(ps, ws):
        if any(d[a] != obs[a] for a in obs):
            why.append(("constraints", f"particle {d} violates {obs}"))
        elif abs(w - req_weight(d)) > 1e-5 * max(1.0, abs(w)):
            why.append(("weight", f"particle {d}: log weight {w} != {req_weight(d)}"))
    lml = float(pc.get_log_marginal_likelihood_estimate())
    if abs(lml - I.logmeanexp(ws)) > 1e-5:
        why.append(("lml", f"lml {lml} != logsumexp(w) - log K = {I.logmeanexp(ws)}"))

    # random_weighted: only unconstrained choices; estimate = score_i - lml of the recomputed collection
    est, c = alg.random_weighted(key, target)
    got = {a: int(np.asarray(c.get_submap(a).get_value())) for a in ("x", "z", "y")
           if not c.get_submap(a).static_is_empty() and c.get_submap(a).get_value() is not None}
    if set(got) != set(lat):
        why.append(("rw-unconstrained", f"random_weighted returned addresses {sorted(got)}, unconstrained are {lat}"))
    else:
        pc2 = ChangeTarget(alg, target).run_smc(jax.random.fold_in(key, 0))
        ps2, ws2 = particles(pc2)
        lml2 = I.logmeanexp(ws2)
        cands = [logp(d) - lml2 for d in ps2 if all(d[a] == got[a] for a in lat)]
        if not any(abs(float(est) - v) < 1e-5 * max(1.0, abs(v)) for v in cands):
            why.append(("rw-estimate", f"random_weighted estimate {float(est)} is not score - lml of a matching particle {cands}"))

    # estimate_logpdf
    vlat = ["x"] if (qx and not case["imp1"] and "x" in lat) else lat  # ImportanceK stacks retained onto proposals
    v = {a: (case["seed"] + j) % (3 if a == "x" else 2) for j, a in enumerate(vlat)}
    annot = None
    try:
        try:
            e2 = alg.estimate_logpdf(key, chm(v), target)
        except TypeError as e:
            if "concatenate" in str(e):
                raise
            annot = str(e)[:160]
            e2 = I.call_unchecked(alg, "estimate_logpdf", key, chm(v), target)
        pc3 = ChangeTarget(alg, target).run_csmc(jax.random.fold_in(key, 0), chm(v))
        ps3, ws3 = particles(pc3)
        lml3 = I.logmeanexp(ws3)
        if not all(ps3[-1][a] == v[a] for a in v):
            why.append(("csmc-retained", "the last particle of run_csmc is not the retained choice"))
        cands = [logp(d) - lml3 for d in ps3]
        if not any(abs(float(e2) - c_) < 1e-5 * max(1.0, abs(c_)) for c_ in cands):
            why.append(("est-estimate", f"estimate_logpdf {float(e2)} is not score - lml of a csmc particle {cands}"))
    except (TypeError, ValueError) as e:
        if K == 1 and not case["imp1"]:
            why.append(("csmc-k1", "ImportanceK(k_particles=1).run_csmc raised: " + str(e)[:120]))
        elif "concatenate" in str(e) and q is None and not case["imp1"]:
            why.append(("csmc-stack", "ImportanceK.run_csmc without proposal raised on a trace with a vector-valued leaf: " + str(e)[:120]))
        else:
            raise

    # statistics over many keys (supporting)
    n = case["n"]
    keys = jax.random.split(jax.random.fold_in(key, 7), n)
    lmls = np.asarray(jax.vmap(lambda k_: alg.run_smc(k_).get_log_marginal_likelihood_estimate())(keys), dtype=np.float64)
    zs = np.exp(lmls)
    se = zs.std(ddof=1) / math.sqrt(n) + 1e-9
    if abs(zs.mean() - Z) > 5 * se + 1e-6:
        why.append(("unbiased", f"mean exp(lml) over {n} keys = {zs.mean():.5f} +- {se:.5f}, Z = {Z:.5f}"))
    stat = {"Z": Z, "mean": float(zs.mean()), "se": float(se)}
    if K == 2 and not case["imp1"]:
        # exact law of the resampled particle for K = 2
        qj = {}
        for (x, z), pj in joint.items():
            pq = (qx[x] if qx else px[x]) * (1.0 if "z" in obs else (pz[x] if z else 1 - pz[x]))
            qj[(x, z)] = (pq, pj / pq)
        law = {k_: 0.0 for k_ in qj}
        for a, (pa, wa) in qj.items():
            for b, (pb, wb) in qj.items():
                law[a] += pa * pb * wa / (wa + wb)
                law[b] += pa * pb * wb / (wa + wb)

        def draw(k_):
            _, c_ = alg.random_weighted(k_, target)
            xv = c_["x"]
            zv = c_["z"].astype(jnp.int32) if "z" not in obs else jnp.int32(obs["z"])
            return xv * 2 + zv

        codes = np.asarray(jax.vmap(draw)(keys))
        for (x, z), p_ in law.items():
            f = float((codes == x * 2 + z).mean())
            sd = math.sqrt(max(p_ * (1 - p_), 1e-12) / n)
            if abs(f - p_) > 5 * sd + 2e-3:
                why.append(("resampling", f"P(random_weighted returns x={x}, z={z}) = {f:.4f}, exact SIR law {p_:.4f} (prior/proposal law {qj[(x, z)][0]:.4f})"))
                break
        stat["sir"] = True
    return {"pred": why, "annot": annot, "stat": stat}


def impl_batch(batch):
    from harness import infer_impl as I

    out = []
    for case in batch:
        try:
            out.append(impl_smc(case) if case["fam"] == "smc" else impl_enum(case))
        except Exception as e:  # noqa: BLE001
            out.append({"error": I.err_enum(e), "msg": str(e)[:300]})
    return out


# ------------------------------------------------------------------ check


def _base(alg):
    while alg[0] == "ct":
        alg = alg[1]
    return alg


def _qkind(case):
    q = _base(case["alg"])[2]
    return q if q == "none" else q[0]


def _sig(case, what):
    if case["fam"] == "enum":
        if what == "csmc-k1":
            return dict(SIG_K1)
        return dict(SIG_STACK) if what == "csmc-stack" else {"call": "enum", "feature": what}
    b = _base(case["alg"])
    cls = {"imp": "Importance", "impk": "ImportanceK"}[b[0]]
    if what in ("keys",) and b[0] == "impk":
        return dict(SIG_KEYS)
    if _qkind(case) == "marg" and what == "weight" and case["op"] == "smc":
        return dict(SIG_MARG)
    if _qkind(case) == "marg" and what == "TypeError" and case["op"] == "csmc":
        return dict(SIG_ANNOT)
    return {"call": f"{cls}.run_{case['op']}", "proposal": _qkind(case), "feature": what, "stack": case["alg"][0]}


def _run_cases(ctx: Ctx, cases, label):
    v = G.variant()
    heavy = [c for c in cases if c["fam"] == "enum"]
    light = [c for c in cases if c["fam"] == "smc"]
    B = max(1, (len(light) + 23) // 24)
    batches = [[c] for c in heavy] + [light[i:i + B] for i in range(0, len(light), B)]
    res = common.run_impl_parallel("harness.props.c26", "impl_batch", batches)
    impl = {}
    for b, r in zip(batches, res):
        if isinstance(r, dict) and ("__harness_error__" in r or "__worker_lost__" in r):
            raise common.Infra(str(r.get("__harness_error__") or r.get("__worker_lost__")) + r.get("tb", ""))
        for c, x in zip(b, r):
            impl[c["id"]] = x
    model = dict(zip([c["id"] for c in light], ask_driver([G.infer_line(v, c["seed"], op_of(c)) for c in light])))
    for case in cases:
        im = impl[case["id"]]
        ctx.count(label + ":" + case["fam"])
        mo = model.get(case["id"])
        if case["fam"] == "smc":
            ctx.count("alg:" + case["alg"][0] + "/" + _base(case["alg"])[0])
            ctx.count("q:" + _qkind(case))
            ctx.count("op:" + case["op"])
        else:
            ctx.count(f"enum:K={case['K']},q={'table' if case['qx'] else 'none'}")
        ctx.case_done(case, True, {"case": str(case)[:300], "model": (mo or "")[:100], "impl": str(im)[:100]})
        if "error" in im:
            ctx.count("impl-error:" + im["error"])
            if mo is not None and parse_sx(mo)[0] == "err" and parse_sx(mo)[1] == im["error"]:
                ctx.count("error-agrees-with-model")
            elif mo is not None:
                ctx.fail("correspondence", case, {"model": mo, "impl": im}, _sig(case, im["error"]), "Alg.run vs smc.py (error)")
            ctx.fail("predicate", case, {"why": "the algorithm raised", "impl_error": im}, _sig(case, im["error"]), "C26")
            continue
        ctx.traces_validated += 1
        for what, msg in im["pred"]:
            ctx.count("predicate-fail:" + what)
            ctx.fail("predicate", case, {"why": msg, "model": mo}, _sig(case, what), "C26_" + what)
        if case["fam"] == "enum":
            if im["annot"]:
                ctx.count("predicate-fail:annotation")
                ctx.fail("predicate", case, {"why": "SMCAlgorithm.estimate_logpdf(key, v, target) raises: " + im["annot"]},
                         dict(SIG_ANNOT), "C26_estimate_logpdf")
            continue
        r = parse_sx(mo)
        if r[0] != "ok":
            ctx.fail("correspondence", case, {"model": mo, "impl": im}, _sig(case, "model-error"), "Alg.run vs smc.py")
            continue
        mine = G.parse_particles(r[1])
        if mine != im["particles"] and not im["pred"]:
            ctx.fail("correspondence", case, {"model": mine, "impl": im["particles"]}, _sig(case, "particles"),
                     "Alg.runSmc/runCsmc vs smc.py")
        elif mine != im["particles"]:
            ctx.count("model-differs-where-predicate-fails")


def run(ctx: Ctx):
    ctx.rule = ("smc family: random straight-line targets (2-4 sites), Importance/ImportanceK(K<=4)/ChangeTarget stacks "
                "(depth<=2), proposals none/exact/marginal, run_smc and run_csmc, plus key-revealing targets; enum family: "
                "3x2x2 discrete models with dyadic tables, K in {1,2,3,5}; every case is non-trivial; distinct by case text")
    quick = ctx.tier == "quick"
    n_smc, n_enum = (120, 8) if quick else (1500, 48)
    sc = float(os.environ.get("VERIF_CASES_SCALE") or 1)
    n_smc, n_enum = max(8, int(n_smc * sc)), max(3, int(n_enum * sc))
    cases, i = [], 0
    for K in (0, 3, 4):
        cases.append(gen_keyprobe(ctx.rng, i, K))
        i += 1
    for j in range(n_enum):
        cases.append(gen_enum_case(ctx.rng, i))
        if j == 0:  # always one K = 2 ImportanceK case (exact resampling law)
            cases[-1].update(K=2, imp1=False)
        i += 1
    for _ in range(n_smc):
        cases.append(gen_smc_case(ctx.rng, i))
        i += 1
    _run_cases(ctx, cases, "random")


def replay(ctx: Ctx, payload: dict):
    _run_cases(ctx, [payload["case"]], "replay")


T = "GenjaxVerif.Infer."
P = "GenjaxVerif.FinProbInfer."
SPEC = Spec(
    prop_id="C26",
    modules=["GenjaxVerif.Props.C26"],
    theorems=[T + n for n in (
        "C26_importance_weight", "C26_importance_weight_no_proposal", "C26_importanceK_weight",
        "C26_importanceK_weight_no_proposal", "C26_num_particles", "C26_change_target_weight",
        "C26_change_target_particles", "C26_constraints_satisfied", "C26_random_weighted_unconstrained_only",
        "C26_lml_is_logmeanexp", "C26_importance_keys_distinct", "C26_keys_distinct_repaired", "C26_keys_pinned_equal",
        "C26_keys_refuted", "C26_keys_refuted_draws")] + [P + n for n in (
        "C26_single_particle_expectation", "C26_lml_unbiased", "C26_lml_unbiased_no_proposal")],
    strength="partial",
    run=run,
    replay=replay,
    assumptions=[
        "generate puts the constrained value at every constrained address (hypothesis GenerateRespects; content of C03/C14)",
        "exp/log: a log-weight difference of the log-domain model is the ratio of the probability-domain model; "
        "logsumexp(w) - log K is the log of the arithmetic mean",
        "independence of the randomness drawn from prefix-free key paths (threefry's statistical quality)",
        "unbiasedness is proved for finite discrete tree targets with exact proposals covering the support; continuous "
        "(conjugate Gaussian) targets are covered by the log-domain bookkeeping theorems only",
    ],
)
