"""C20 — Staging helpers select, branch and combine flags correctly.

Correspondence: `FlagOp.and_/or_/xor_/not_/where/cond`, `tree_choose` and `multi_switch` from
genjax._src.core.compiler.staging are called with every flag / index in one of the staging modes
{python value, jnp array, argument of jax.jit, batched argument of jax.vmap}, and the same cases
go to the Lean model (driver commands flagop / choose / choosev / mswitch).  Compared: truth
values (plus, for eager calls only, whether the result is a Python bool — the documented
overloads), selected values with their dtype name, every slot of the multi_switch output,
errors as an enum.

Predicate (implementation alone): Boolean logic / `vs[idx mod n]` with the promoted dtype /
"slot clamp(idx) holds the branch output, every other slot zeros of that branch's shape",
evaluated directly in Python on the case.
"""

from __future__ import annotations

import copy
import os
import itertools
import json

import numpy as np

from harness import common
from harness import mask_util as mu
from harness.common import Ctx, Spec, ask_driver, parse_sx, sx

MODES = ["py", "arr", "jit", "vmap"]
VMODES = ["arr", "jit", "vmap"]
DT = {"b": "bool", "i": "int32", "f": "float32"}
DT_RANK = {"b": 0, "i": 1, "f": 2}
BOOL_OPS = {"and": lambda x, y: x and y, "or": lambda x, y: x or y, "xor": lambda x, y: x != y}

# ------------------------------------------------------------------ helpers


def fn_sx(f):
    return ["aff", f[1], f[2]] if f[0] == "aff" else ["const", mu.tree_sx(mu.payload_nested(f[1]))]


def nested_map(n, g):
    return [nested_map(x, g) for x in n] if isinstance(n, list) else g(n)


def fn_apply(f, arg_nested):
    if f[0] == "aff":
        return nested_map(arg_nested, lambda x: f[1] * x + f[2])
    return mu.payload_nested(f[1])


def mk_fn(f):
    import jax.numpy as jnp

    if f[0] == "aff":
        a, b = f[1], f[2]
        return lambda x: a * x + b
    const = f[1]
    return lambda *x: mu.mk_payload(const)


def case_sx(c):
    op = c["op"]
    if op in BOOL_OPS:
        return ["flagop", op, mu.flag_sx(c["f"]), mu.flag_sx(c["g"])]
    if op == "not":
        return ["flagop", "not", mu.flag_sx(c["f"])]
    if op == "where":
        return ["flagop", "where", mu.flag_sx(c["f"]), mu.tree_sx(c["t"][1]), mu.tree_sx(c["e"][1])]
    if op == "cond":
        return ["flagop", "cond", mu.flag_sx(c["f"]), fn_sx(c["tf"]), fn_sx(c["ff"]), mu.tree_sx(c["arg"][1])]
    if op == "choose":
        i = c["idx"]
        cols = c["cols"]  # one column per leaf position: [[dt, x] per choice]
        if isinstance(i["v"], list):
            ix = list(i["v"])
        else:
            ix = ["c" if i["mode"] == "py" else "d", i["v"]]
        return ["choosev", ix, [[[dt, x] for dt, x in col] for col in cols]]
    if op == "mswitch":
        return ["mswitch", c["idx"]["v"], [fn_sx(f) for f in c["fns"]], [mu.tree_sx(a[1]) for a in c["args"]]]
    raise ValueError(op)


def scalar(v):
    return isinstance(v, bool)


def nshape(n):
    """Structural shape of nested lists (works for ragged pytrees)."""
    return [nshape(x) for x in n] if isinstance(n, list) else 0


# ------------------------------------------------------------------ predicate: the documented behaviour


def spec(c):
    op = c["op"]
    if op in BOOL_OPS or op == "not":
        f = c["f"]
        eager = all(x["mode"] in ("py", "arr") for x in ([f] + ([c["g"]] if "g" in c else [])))
        if op == "not":
            v = (not f["v"]) if scalar(f["v"]) else [not x for x in f["v"]]
            conc = f["mode"] == "py"
        else:
            g, o = c["g"], BOOL_OPS[op]
            conc = f["mode"] == "py" and g["mode"] == "py"
            if scalar(f["v"]) and scalar(g["v"]):
                v = o(f["v"], g["v"])
            elif scalar(f["v"]):
                v = [o(f["v"], y) for y in g["v"]]
            elif scalar(g["v"]):
                v = [o(x, g["v"]) for x in f["v"]]
            elif len(f["v"]) != len(g["v"]):
                return ["err", "shape"]
            else:
                v = [o(x, y) for x, y in zip(f["v"], g["v"])]
        return ["flag", v, ("c" if conc else "d") if eager else "-"]
    if op == "where":
        f, t, e = c["f"], c["t"][1], c["e"][1]
        same = np.shape(t) == np.shape(e)
        if scalar(f["v"]):
            if f["mode"] == "py" or same:
                return ["val", t if f["v"] else e]
            return ["err", "type"]
        if same and np.shape(t) == (len(f["v"]),):
            return ["val", [x if p else y for p, x, y in zip(f["v"], t, e)]]
        return ["err", "type"]
    if op == "cond":
        f = c["f"]
        if not scalar(f["v"]):
            return ["err", "type"]
        a = c["arg"][1]
        rt, re = fn_apply(c["tf"], a), fn_apply(c["ff"], a)
        if f["mode"] == "py" or (nshape(rt) == nshape(re) and _kind(c["tf"], c["arg"]) == _kind(c["ff"], c["arg"])):
            return ["val", rt if f["v"] else re]
        return ["err", "type"]
    if op == "choose":
        i, cols = c["idx"], c["cols"]
        if any(len(col) == 0 for col in cols) or not cols:
            return ["err", "empty"]
        out = []
        if isinstance(i["v"], list):
            if len(i["v"]) != len(cols):
                return ["err", "shape"]
            idxs = i["v"]
        else:
            idxs = [i["v"]] * len(cols)
        for ix, col in zip(idxs, cols):
            k = ix % len(col)  # Python's % : the non-negative remainder
            dt = max((d for d, _ in col), key=lambda d: DT_RANK[d])
            out.append([dt, col[k][1]])
        return ["leaves", out]
    if op == "mswitch":
        fns, args = c["fns"], c["args"]
        n = min(len(fns), len(args))
        if n == 0:
            return ["err", "empty"]
        k = min(max(c["idx"]["v"], 0), n - 1)
        outs = [fn_apply(f, a[1]) for f, a in zip(fns, args)]
        return ["list", [o if j == k else nested_map(o, lambda _: 0) for j, o in enumerate(outs)]]
    raise ValueError(op)


def _kind(f, arg):
    """Tree structure (tuple vs array) of a branch output."""
    p = arg if f[0] == "aff" else f[1]

    def k(q):
        return "a" if q[0] == "arr" else ["t"] + [k(r) for r in q[1:]]

    return k(p)


# ------------------------------------------------------------------ implementation side


def impl_case(c):
    import jax.numpy as jnp
    from genjax._src.core.compiler.staging import FlagOp, multi_switch, tree_choose

    op = c["op"]
    ints, flags, pls = [], [], []
    post = None
    if op in BOOL_OPS:
        fn = {"and": FlagOp.and_, "or": FlagOp.or_, "xor": FlagOp.xor_}[op]
        flags = [c["f"], c["g"]]
        core = lambda fl, pl, ix: fn(fl[0], fl[1])  # noqa: E731
        eager = all(x["mode"] in ("py", "arr") for x in flags)
        post = lambda r: ["flag", np.asarray(r).tolist(), ("c" if isinstance(r, bool) else "d") if eager else "-"]  # noqa: E731
    elif op == "not":
        flags = [c["f"]]
        core = lambda fl, pl, ix: FlagOp.not_(fl[0])  # noqa: E731
        eager = c["f"]["mode"] in ("py", "arr")
        post = lambda r: ["flag", np.asarray(r).tolist(), ("c" if isinstance(r, bool) else "d") if eager else "-"]  # noqa: E731
    elif op == "where":
        flags, pls = [c["f"]], [c["t"], c["e"]]
        core = lambda fl, pl, ix: FlagOp.where(fl[0], pl[0], pl[1])  # noqa: E731
        post = lambda r: ["val", np.asarray(r).tolist()]  # noqa: E731
    elif op == "cond":
        flags, pls = [c["f"]], [c["arg"]]
        tf, ff = mk_fn(c["tf"]), mk_fn(c["ff"])
        core = lambda fl, pl, ix: FlagOp.cond(fl[0], tf, ff, pl[0])  # noqa: E731
        post = lambda r: ["val", mu.obj_nested(r)]  # noqa: E731
    elif op == "choose":
        ints = [c["idx"]]
        cols = c["cols"]
        k = len(cols[0]) if cols else 0
        vec = isinstance(c["idx"]["v"], list)

        def leaf(j, q):
            if vec:  # array choices of shape (n,): choice q = [cols[0][q], cols[1][q], ...] (one dtype per choice)
                return jnp.asarray(np.array([col[q][1] for col in cols]), dtype=DT[cols[0][q][0]])
            return jnp.asarray(cols[j][q][1], dtype=DT[cols[j][q][0]])

        if vec:
            choices = [leaf(0, q) for q in range(k)]
        else:  # pytree choices: a tuple with one scalar leaf per column
            choices = [tuple(leaf(j, q) for j in range(len(cols))) for q in range(k)]
        core = lambda fl, pl, ix: tree_choose(ix[0], choices)  # noqa: E731

        def post(r):
            if vec:
                a = np.asarray(r)
                dt = {"bool": "b", "int32": "i", "float32": "f"}.get(str(a.dtype), str(a.dtype))
                return ["leaves", [[dt, int(x)] for x in a.tolist()]]
            out = []
            for x in r:
                a = np.asarray(x)
                dt = {"bool": "b", "int32": "i", "float32": "f"}.get(str(a.dtype), str(a.dtype))
                out.append([dt, int(a)])
            return ["leaves", out]
    elif op == "mswitch":
        ints = [c["idx"]]
        fns = [mk_fn(f) for f in c["fns"]]
        args = [(mu.mk_payload(a),) for a in c["args"]]
        core = lambda fl, pl, ix: multi_switch(ix[0], fns, args)  # noqa: E731
        post = lambda r: ["list", [mu.obj_nested(x) for x in r]]  # noqa: E731
    else:
        raise ValueError(op)
    try:
        outs = mu.run_modes(core, flags, pls, offset=0, ints=ints)
        return {"obs": [post(r) for r, _ in outs]}
    except Exception as e:  # noqa: BLE001
        return {"obs": [["err", mu.err_enum(e)]], "msg": f"{type(e).__name__}: {str(e)[:160]}"}


def impl_batch(batch):
    out = []
    for c in batch:
        try:
            out.append(impl_case(c))
        except Exception as e:  # noqa: BLE001
            out.append({"obs": [["weird", f"{type(e).__name__}: {str(e)[:200]}"]]})
    return out


# ------------------------------------------------------------------ model side


def canon_model(line, c):
    s = parse_sx(line)
    if s[0] == "err":
        return ["err", mu.model_err(s[1])]
    op = c["op"]
    if op in BOOL_OPS or op == "not":
        r = s[1]
        eager = all(x["mode"] in ("py", "arr") for x in ([c["f"]] + ([c["g"]] if "g" in c else [])))
        if r[0] == "v":
            return ["flag", [x == "T" for x in r[1:]], "d" if eager else "-"]
        return ["flag", r[1] == "T", r[0] if eager else "-"]
    if op in ("where", "cond"):
        return ["val", mu.sx_tree_nested(s[1])]
    if op == "choose":
        return ["leaves", [[l[0], int(l[1])] for l in s[1:]]]
    if op == "mswitch":
        return ["list", [mu.sx_tree_nested(x) for x in s[1:]]]
    return ["weird-model", s]


# ------------------------------------------------------------------ generators


def rnd_arr(rng, shape, lo=1, hi=50):
    return ["arr", np.array([rng.randint(lo, hi) for _ in range(int(np.prod(shape)) or 1)]).reshape(shape).tolist()]


def gen_flagops(rng, n_random):
    cases = []
    TV = [False, True]
    for mf, mg in itertools.product(MODES, MODES):
        for a, b in itertools.product(TV, TV):
            for op in BOOL_OPS:
                cases.append({"op": op, "f": {"mode": mf, "v": a}, "g": {"mode": mg, "v": b}})
    for mf in MODES:
        for a in TV:
            cases.append({"op": "not", "f": {"mode": mf, "v": a}})
    for _ in range(n_random):
        n = rng.randint(1, 4)
        fv = [rng.random() < 0.5 for _ in range(n)]
        gv = [rng.random() < 0.5 for _ in range(n)]
        k = rng.randrange(5)
        op = rng.choice(list(BOOL_OPS))
        if k == 0:
            cases.append({"op": op, "f": {"mode": rng.choice(VMODES), "v": fv}, "g": {"mode": rng.choice(VMODES), "v": gv}})
        elif k == 1:
            cases.append({"op": op, "f": {"mode": rng.choice(MODES), "v": rng.random() < 0.5}, "g": {"mode": rng.choice(VMODES), "v": gv}})
        elif k == 2:
            cases.append({"op": op, "f": {"mode": rng.choice(VMODES), "v": fv}, "g": {"mode": rng.choice(MODES), "v": rng.random() < 0.5}})
        elif k == 3:
            cases.append({"op": "not", "f": {"mode": rng.choice(VMODES), "v": fv}})
        else:  # lengths differ (both >= 2): an error
            cases.append({"op": op, "f": {"mode": rng.choice(["arr", "jit"]), "v": [True, False]}, "g": {"mode": rng.choice(["arr", "jit"]), "v": [True, False, True]}})
    return cases


def gen_where_cond(rng, reps):
    cases = []
    TV = [False, True]
    shapes = [(), (3,), (2, 2)]
    for mf in MODES:
        for a in TV:
            f = {"mode": mf, "v": a}
            for shp in shapes:
                cases.append({"op": "where", "f": f, "t": rnd_arr(rng, shp), "e": rnd_arr(rng, shp)})
                cases.append({"op": "cond", "f": f, "tf": ["aff", rng.randint(2, 5), rng.randint(1, 9)], "ff": ["aff", rng.randint(6, 9), -rng.randint(1, 9)], "arg": rnd_arr(rng, shp)})
                cases.append({"op": "cond", "f": f, "tf": ["aff", 2, 1], "ff": ["const", rnd_arr(rng, shp, 100, 200)], "arg": rnd_arr(rng, shp)})
            # mismatching alternatives: fine for a Python bool, a typing error otherwise
            cases.append({"op": "where", "f": f, "t": rnd_arr(rng, (3,)), "e": rnd_arr(rng, (2,))})
            cases.append({"op": "cond", "f": f, "tf": ["aff", 3, 1], "ff": ["const", rnd_arr(rng, (2,), 100, 200)], "arg": rnd_arr(rng, ())})
            cases.append({"op": "cond", "f": f, "tf": ["const", ["tup", rnd_arr(rng, ()), rnd_arr(rng, (2,))]], "ff": ["const", ["tup", rnd_arr(rng, ()), rnd_arr(rng, (2,))]], "arg": rnd_arr(rng, ())})
    for _ in range(reps):
        n = rng.randint(2, 4)
        fv = [rng.random() < 0.5 for _ in range(n)]
        m = rng.choice(["arr", "jit", "vmap"])
        cases.append({"op": "where", "f": {"mode": m, "v": fv}, "t": rnd_arr(rng, (n,)), "e": rnd_arr(rng, (n,))})
        cases.append({"op": "where", "f": {"mode": rng.choice(["arr", "jit"]), "v": fv}, "t": rnd_arr(rng, (n, 2)), "e": rnd_arr(rng, (n, 2))})
        cases.append({"op": "where", "f": {"mode": rng.choice(["arr", "jit"]), "v": fv}, "t": rnd_arr(rng, ()), "e": rnd_arr(rng, ())})
        cases.append({"op": "cond", "f": {"mode": rng.choice(["arr", "jit"]), "v": fv}, "tf": ["aff", 2, 1], "ff": ["aff", 3, 1], "arg": rnd_arr(rng, ())})
    return cases


def rnd_col(rng, k, dts):
    return [[dt, (rng.randint(0, 1) if dt == "b" else rng.randint(2, 90))] for dt in dts]


def gen_choose(rng, reps):
    cases = []
    for k in (1, 2, 3, 4):
        for rep in range(reps):
            # dtypes per choice: homogeneous or mixed (promotion)
            pal = rng.choice([["i"], ["i"], ["b", "i"], ["i", "f"], ["b", "i", "f"], ["b"], ["f"]])
            for mode in MODES:
                for i in range(-3, k + 4):
                    ncols = rng.choice([1, 1, 2, 3])
                    cols = [rnd_col(rng, k, [rng.choice(pal) for _ in range(k)]) for _ in range(ncols)]
                    cases.append({"op": "choose", "idx": {"mode": mode, "v": i}, "cols": cols})
    # array index against array choices (elementwise)
    for _ in range(reps * 20):
        k, n = rng.randint(1, 4), rng.randint(1, 5)
        dts = [rng.choice(["i", "i", "b", "f"]) for _ in range(k)]
        cols = [[[dts[q], (rng.randint(0, 1) if dts[q] == "b" else rng.randint(2, 90))] for q in range(k)] for _ in range(n)]
        cases.append({"op": "choose", "idx": {"mode": rng.choice(VMODES), "v": [rng.randint(-3, k + 3) for _ in range(n)]}, "cols": cols})
    # edge / malformed: no choices at all; index array of another length (both >= 2)
    cases.append({"op": "choose", "idx": {"mode": "py", "v": 0}, "cols": [[]]})
    cases.append({"op": "choose", "idx": {"mode": "arr", "v": 1}, "cols": [[]]})
    cols = [[["i", 1], ["i", 2]], [["i", 3], ["i", 4]], [["i", 5], ["i", 6]]]
    cases.append({"op": "choose", "idx": {"mode": "arr", "v": [0, 1]}, "cols": cols})
    return cases


def rnd_fn(rng):
    k = rng.randrange(5)
    if k <= 1:
        return ["aff", rng.randint(2, 5), rng.randint(-9, 9)], rnd_arr(rng, rng.choice([(), (3,), (2, 2)]))
    if k == 2:
        return ["const", rnd_arr(rng, rng.choice([(), (2,), (2, 3)]), 100, 200)], rnd_arr(rng, ())
    if k == 3:
        return ["const", ["tup", rnd_arr(rng, (), 100, 200), ["tup", rnd_arr(rng, (2,), 100, 200)]]], rnd_arr(rng, ())
    return ["const", ["tup", rnd_arr(rng, (2, 2), 100, 200), rnd_arr(rng, (), 100, 200)]], rnd_arr(rng, (2,))


def gen_mswitch(rng, reps):
    cases = []
    for n in (1, 2, 3, 4):
        for _ in range(reps):
            fa = [rnd_fn(rng) for _ in range(n)]
            for mode in MODES:
                for i in range(-3, n + 4):
                    cases.append({"op": "mswitch", "idx": {"mode": mode, "v": i}, "fns": [f for f, _ in fa], "args": [a for _, a in fa]})
    cases.append({"op": "mswitch", "idx": {"mode": "py", "v": 0}, "fns": [], "args": []})
    cases.append({"op": "mswitch", "idx": {"mode": "arr", "v": 1}, "fns": [], "args": []})
    return cases


def neighbours(c, rng, limit=40):
    res = []
    for _ in range(limit):
        d = copy.deepcopy(c)
        for key in ("f", "g"):
            if key in d:
                f = d[key]
                sc = scalar(f["v"])
                f["mode"] = rng.choice(MODES if sc else VMODES)
                f["v"] = (rng.random() < 0.5) if sc else [rng.random() < 0.5 for _ in f["v"]]
        if "idx" in d:
            i = d["idx"]
            if isinstance(i["v"], list):
                i["v"] = [rng.randint(-4, 8) for _ in i["v"]]
                i["mode"] = rng.choice(VMODES)
            else:
                i["v"] = rng.randint(-5, 9)
                i["mode"] = rng.choice(MODES)
        res.append(d)
    return res


# ------------------------------------------------------------------ check


def signature(c, want, got):
    modes = [c[k]["mode"] for k in ("f", "g", "idx") if k in c]
    sig = {"op": c["op"], "modes": "+".join(modes)}
    if got and got[0] == "err":
        sig["symptom"] = "error:" + str(got[1])
    elif want and want[0] == "err":
        sig["symptom"] = "no-error"
    else:
        sig["symptom"] = "value"
    return sig


def _run_cases(ctx: Ctx, cases: list, label, search: bool = True):
    if not cases:
        return
    labels = label if isinstance(label, list) else [label] * len(cases)
    Bsz = 24
    nb_ = max(1, (len(cases) + Bsz - 1) // Bsz)
    order = list(range(len(cases)))
    batches_idx = [order[i::nb_] for i in range(nb_)]
    batches = [[cases[i] for i in b] for b in batches_idx]
    res = common.run_impl_parallel("harness.props.c20", "impl_batch", batches)
    impl = [None] * len(cases)
    for bi, r in zip(batches_idx, res):
        if isinstance(r, dict) and ("__harness_error__" in r or "__worker_lost__" in r):
            raise common.Infra(str(r.get("__harness_error__") or r.get("__worker_lost__")) + r.get("tb", ""))
        if not isinstance(r, list) or len(r) != len(bi):
            raise common.Infra(f"worker returned a malformed batch result: {str(r)[:200]}")
        for i, x in zip(bi, r):
            impl[i] = x
    model = ask_driver([sx(case_sx(c)) for c in cases])
    to_search = []
    for c, im, mo, lab in zip(cases, impl, model, labels):
        ctx.count(lab)
        ctx.count("op:" + c["op"])
        ctx.count("modes:" + "+".join(c[k]["mode"] for k in ("f", "g", "idx") if k in c))
        if "idx" in c and not isinstance(c["idx"]["v"], list):
            n = len(c["cols"][0]) if c["op"] == "choose" and c["cols"] else len(c.get("fns", []))
            i = c["idx"]["v"]
            ctx.count("index:" + ("negative" if i < 0 else "in-range" if i < n else "beyond"))
        ctx.case_done(c, True, {"request": sx(case_sx(c))[:200], "model": mo[:120], "impl": json.dumps(im["obs"][0])[:120]})
        ctx.traces_validated += 1
        want = spec(c)
        cm = canon_model(mo, c)
        ctx.count("outcome:" + (want[0] if want[0] != "err" else "err-" + want[1]))
        bad_pred = next((o for o in im["obs"] if o != want), None)
        if bad_pred is not None:
            ctx.fail("predicate", {"case": c}, {"required": want, "observed": bad_pred, "model": cm, "impl_msg": im.get("msg")},
                     signature(c, want, bad_pred), "C20 " + c["op"])
            continue
        bad_corr = next((o for o in im["obs"] if o != cm), None)
        if bad_corr is not None:
            to_search.append((c, cm, bad_corr))
    if to_search and search:
        nb = [d for c, _, _ in to_search[:5] for d in neighbours(c, ctx.rng)]
        before = len([f for f in ctx.failures if f.kind == "predicate"])
        _run_cases(ctx, nb, "neighbour-search", search=False)
        if len([f for f in ctx.failures if f.kind == "predicate"]) == before:
            for c, cm, got in to_search[:5]:
                ctx.fail("correspondence", {"case": c}, {"model": cm, "impl": got, "searched_neighbours": len(nb)}, {"op": c["op"]}, "MaskModel." + c["op"] + " vs staging." + c["op"])
    elif to_search:
        for c, cm, got in to_search[:3]:
            ctx.fail("correspondence", {"case": c}, {"model": cm, "impl": got}, {"op": c["op"]}, "MaskModel." + c["op"] + " vs staging." + c["op"])


def run(ctx: Ctx):
    ctx.rule = ("one case = one call of FlagOp.and_/or_/xor_/not_/where/cond, tree_choose or multi_switch with a staging mode "
                "(py / arr / jit / vmap) per flag or index; scalar flag space enumerated completely (ops x modes^2 x truth^2), "
                "vector flags random (n<=4, scalar/vector mixes, length mismatches), where/cond over modes x truth x operand shapes "
                "incl. mismatching alternatives, tree_choose over n in 1..4 x modes x idx in -3..n+3 x dtype mixes x pytrees and "
                "array indices, multi_switch over n in 1..4 x modes x idx in -3..n+3 with heterogeneous branch outputs; "
                "every case non-trivial; distinct by full case")
    thorough = ctx.tier == "thorough"
    streams = [
        ("flagop", gen_flagops(ctx.rng, 600 if thorough else 120)),
        ("where-cond", gen_where_cond(ctx.rng, 60 if thorough else 12)),
        ("tree_choose", gen_choose(ctx.rng, 6 if thorough else 2)),
        ("multi_switch", gen_mswitch(ctx.rng, 6 if thorough else 2)),
    ]
    ctx.exhaustive = True
    ctx.notes["exhaustive_space"] = ("FlagOp.and_/or_/xor_ x 4x4 modes x 2x2 truth values, not_ x 4 x 2; tree_choose / multi_switch: "
                                     "every index in -3..n+3 for n in 1..4 in each of the 4 modes (payloads random)")
    cases = [c for _, cs in streams for c in cs]
    labels = [lab for lab, cs in streams for _ in cs]
    scale = float(os.environ.get("VERIF_SCALE") or 1)
    if scale < 1:  # developer switch (mutant runs on a loaded machine); the registered commands never set it
        keep = [i for i, lab in enumerate(labels) if lab == "known-finding-replay" or ctx.rng.random() < scale]
        cases, labels = [cases[i] for i in keep], [labels[i] for i in keep]
        ctx.exhaustive = False
        ctx.notes["subsampled"] = scale
    _run_cases(ctx, cases, labels)


def replay(ctx: Ctx, payload: dict):
    c = payload["case"]["case"] if "case" in payload.get("case", {}) else payload["case"]
    _run_cases(ctx, [c], "replay")


SPEC = Spec(
    prop_id="C20",
    modules=["GenjaxVerif.Props.C20"],
    theorems=[
        "GenjaxVerif.MaskModel.C20_flagop_tables", "GenjaxVerif.MaskModel.C20_flagop_concreteness", "GenjaxVerif.MaskModel.C20_flagop_algebra",
        "GenjaxVerif.MaskModel.C20_flagop_mode_invariance", "GenjaxVerif.MaskModel.C20_flagop_vec",
        "GenjaxVerif.MaskModel.C20_where", "GenjaxVerif.MaskModel.C20_where_vec", "GenjaxVerif.MaskModel.C20_cond",
        "GenjaxVerif.MaskModel.C20_treeChoose_mod", "GenjaxVerif.MaskModel.C20_treeChoose_inrange",
        "GenjaxVerif.MaskModel.C20_treeChoose_mode_invariance", "GenjaxVerif.MaskModel.C20_treeChoose_empty",
        "GenjaxVerif.MaskModel.C20_chooseLeaf", "GenjaxVerif.MaskModel.C20_chooseElem_length",
        "GenjaxVerif.MaskModel.C20_clamp", "GenjaxVerif.MaskModel.C20_multiSwitch_clamp",
        "GenjaxVerif.MaskModel.C20_multiSwitch_empty",
    ],
    strength="full",
    run=run,
    replay=replay,
    assumptions=[
        "array / jit / vmap staging of a flag or index is one model mode `dyn` (JAX tracing and batching of jnp.logical_*, "
        "lax.select, lax.cond, lax.switch, jnp.choose are trusted)",
        "dtype promotion is modelled on the chain bool < int32 < float32 with integer-valued data",
        "tree_choose with an array index is modelled for choices of the index's own shape (numpy broadcasting of other shapes is "
        "outside the model; its effect on Mask | and ^ is covered by C19)",
        "lax.select / lax.cond dtype mismatches are not generated (the model's typing check is structural: shapes and tree structure)",
    ],
)
