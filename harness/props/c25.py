"""C25 — Marginal is an unbiased density sampler for the selected choices.

`int` family (exact): straight-line programs over integer-valued test distributions, a
selection, optionally an SMC algorithm (Importance / ImportanceK without proposal over a
placeholder target on the same program).
  Correspondence: Lean `Marginal.randomWeighted` / `Marginal.estimateLogpdf` on `progGF`
  (driver `infer … (mrw …)` / `(mest …)`) vs `Marginal.random_weighted` / `estimate_logpdf`:
  returned choices and weight (exact integers without algorithm; `base ± logmeanexp(ws)`
  evaluated numerically with an algorithm).
  Predicate (implementation only, no algorithm): the sample holds exactly the selected
  addresses; when no selected site reads an unselected one ("closed" selection, in particular
  everything selected) the weight equals the sum of the selected sites' log-densities at the
  sample (the exact marginal log-density) and equals `estimate_logpdf` of the same sample.

`enum` family (genuine probabilities): x ~ categorical, z ~ flip(pz[x]), y ~ flip(py[x][z]);
for every selection the SPI identity E[exp(-w) | sample] = 1 / p(sample) is estimated over
many keys against the exact marginal obtained by enumeration with `assess` (5 sigma), and
estimate_logpdf of the all-selected sample is compared with assess (1e-5).
"""

from __future__ import annotations

import math
import os

from harness import common, infer_gen as G
from harness.common import Ctx, Spec, ask_driver, parse_sx

SIG_W = {"call": "Marginal.random_weighted", "algorithm": "none", "feature": "weight_projects_on_complement"}
SIG_ANNOT = {"call": "Marginal.estimate_logpdf", "feature": "beartype_rejects_non_tuple_args"}


def gen_int_case(rng, i):
    n = rng.randint(1, 4)
    nargs = 1 if rng.random() < 0.15 else 0
    prog = G.rand_prog(rng, n, nargs)
    addrs = [s[0] for s in prog]
    r = rng.random()
    if r < 0.3:
        sel = [True]
    elif r < 0.4:
        sel = [False]
    else:
        sel = [rng.random() < 0.3] + sorted(rng.sample(addrs, rng.randint(1, n)))
    alg = "none"
    if nargs == 0 and rng.random() < 0.3:
        selected = [a for a in addrs if (a in sel[1:]) != sel[0]]
        t0 = ["tgt", prog, [], G.rand_chm(rng, prog, selected)]
        alg = ["imp", t0, "none"] if rng.random() < 0.4 else ["impk", t0, "none", rng.randint(2, 4)]
    return {"id": i, "fam": "int", "seed": rng.randrange(1000), "prog": prog, "args": [rng.randint(0, 3) for _ in range(nargs)],
            "sel": sel, "alg": alg, "k": G.rand_key(rng), "k2": G.rand_key(rng)}


def gen_enum_case(rng, i):
    dy = [1 / 8, 1 / 4, 3 / 8, 1 / 2, 5 / 8, 3 / 4, 7 / 8]
    return {"id": i, "fam": "enum", "seed": rng.randrange(1000),
            "px": rng.choice([[1 / 2, 1 / 4, 1 / 4], [1 / 8, 5 / 8, 1 / 4]]),
            "pz": [rng.choice(dy) for _ in range(3)], "py": [[rng.choice(dy) for _ in range(2)] for _ in range(3)],
            "sel": rng.choice([["x", "z", "y"], ["y"], ["x", "y"], ["z"], ["x"], ["z", "y"]]), "n": 3000, "k": G.rand_key(rng)}


def selected(case):
    sel = case["sel"]
    return [s[0] for s in case["prog"] if (s[0] in sel[1:]) != sel[0]]


def closed(case):
    """No selected site reads an unselected site."""
    prog = case["prog"]
    S = set(selected(case))
    return all(not (s[0] in S and s[5][0] == "p" and prog[s[5][1]][0] not in S) for s in prog)


def ops_of(case):
    return (["mrw", case["prog"], case["args"], case["sel"], case["alg"], case["k"]],)


def impl_int(case):
    import jax.numpy as jnp
    import numpy as np
    from genjax._src.inference.sp import Marginal
    from harness import infer_impl as I
    from harness.props.c26 import site_lps

    prog = case["prog"]
    addrs = [s[0] for s in prog]
    gf = I.build_prog(prog)
    args = tuple(jnp.int32(a) for a in case["args"])
    alg = None if case["alg"] == "none" else I.build_alg(case["alg"])
    m = Marginal(gf, I.build_sel(case["sel"]), alg)
    w, c = m.random_weighted(I.key_at(case["seed"], case["k"]), *args)
    sample = I.obs_chm(c, addrs)
    out = {"sample": sample, "w": float(w), "pred": [], "annot": None}
    S = selected(case)
    if [a for a, _ in sample] != S:
        out["pred"].append(("sample", f"returned addresses {[a for a, _ in sample]}, selected {S}"))
        return out
    # estimate_logpdf of the same sample
    key2 = I.key_at(case["seed"], case["k2"])
    try:
        est = m.estimate_logpdf(key2, I.build_chm(sample), *args)
        out["est_err"] = None
    except TypeError as e:
        out["annot"] = str(e)[:160]
        out["est_err"] = "TypeError"
        est = I.call_unchecked(m, "estimate_logpdf", key2, I.build_chm(sample), *args)
    out["est"] = float(est)
    if alg is None:
        out["w"], out["est"] = I.exact_int(w), I.exact_int(est)
        if closed(case):
            vals = dict(map(tuple, sample))
            dummy = {a: vals.get(a, 0) for a in addrs}
            lps = site_lps(prog, dummy, case["args"])
            required = sum(lps[a] for a in S)
            if out["w"] != required:
                out["pred"].append(("weight", f"weight {out['w']} != log density of the selected choices {required} (selection {case['sel']})"))
            if out["est"] != required:
                out["pred"].append(("estimate", f"estimate_logpdf {out['est']} != log density of the sample {required}"))
    return out


def impl_enum(case):
    import itertools

    import jax
    import jax.numpy as jnp
    import numpy as np

    import genjax
    from genjax import ChoiceMap
    from genjax._src.inference.sp import Marginal
    from harness import infer_impl as I

    px, pz, py, S, n = case["px"], case["pz"], case["py"], case["sel"], case["n"]

    @genjax.gen
    def model():
        x = genjax.categorical(probs=jnp.array(px)) @ "x"
        z = genjax.flip(jnp.array(pz)[x]) @ "z"
        y = genjax.flip(jnp.array(py)[x, z.astype(jnp.int32)]) @ "y"
        return y

    def chm(d):
        return ChoiceMap.d({k: (jnp.int32(v) if k == "x" else jnp.bool_(bool(v))) for k, v in d.items()})

    sel = I.build_sel([False] + S)
    m = Marginal(model, sel)
    joint = {}
    for x, z, y in itertools.product(range(3), range(2), range(2)):
        joint[(x, z, y)] = math.exp(float(model.assess(chm(dict(x=x, z=z, y=y)), ())[0]))
    idx = {"x": 0, "z": 1, "y": 2}
    marg = {}
    for k_, p_ in joint.items():
        key_ = tuple(k_[idx[a]] for a in S)
        marg[key_] = marg.get(key_, 0.0) + p_
    keys = jax.random.split(I.key_at(case["seed"], case["k"]), n)

    def draw(k_):
        w, c = m.random_weighted(k_)
        return w, jnp.stack([jnp.asarray(c[a]).astype(jnp.int32) for a in S])

    ws, vs = jax.vmap(draw)(keys)
    ws, vs = np.asarray(ws, dtype=np.float64), np.asarray(vs)
    why = []
    for val, pm in sorted(marg.items()):
        hit = np.all(vs == np.array(val), axis=1)
        if hit.sum() < 30:
            continue
        r = np.exp(-ws[hit])
        se = r.std(ddof=1) / math.sqrt(hit.sum()) + 1e-9
        if abs(r.mean() - 1 / pm) > 5 * se + 1e-4 / pm:
            why.append(("spi", f"selection {S}, sample {dict(zip(S, val))}: E[exp(-w) | sample] = {r.mean():.4f} +- {se:.4f}, 1/p(sample) = {1 / pm:.4f}"))
            break
    annot = None
    if len(S) == 3:
        w0, c0 = m.random_weighted(keys[0])
        d = {a: int(np.asarray(c0[a])) for a in S}
        est = float(m.estimate_logpdf(keys[1], c0))
        lp = math.log(joint[(d["x"], d["z"], d["y"])])
        if abs(est - lp) > 1e-5 * max(1, abs(lp)):
            why.append(("estimate", f"estimate_logpdf {est} != log p(sample) {lp}"))
        if abs(float(w0) - lp) > 1e-5 * max(1, abs(lp)):
            why.append(("weight", f"everything selected: weight {float(w0)} != log p(sample) = {lp} = estimate_logpdf"))
    return {"pred": why, "annot": annot}


def impl_batch(batch):
    from harness import infer_impl as I

    out = []
    for case in batch:
        try:
            out.append(impl_int(case) if case["fam"] == "int" else impl_enum(case))
        except Exception as e:  # noqa: BLE001
            out.append({"error": I.err_enum(e), "msg": str(e)[:300]})
    return out


def _lw_value(lw):
    from math import exp, log

    if "exact" in lw:
        return float(lw["exact"])
    ws = lw["ws"]
    mx = max(ws)
    lme = mx + log(sum(exp(w - mx) for w in ws)) - log(len(ws))
    return lw["base"] + (lme if lw["plus"] else -lme)


def _run_cases(ctx: Ctx, cases, label):
    v = G.variant()
    heavy = [c for c in cases if c["fam"] == "enum"]
    light = [c for c in cases if c["fam"] == "int"]
    B = max(1, (len(light) + 23) // 24)
    batches = [[c] for c in heavy] + [light[i:i + B] for i in range(0, len(light), B)]
    res = common.run_impl_parallel("harness.props.c25", "impl_batch", batches)
    impl = {}
    for b, r in zip(batches, res):
        if isinstance(r, dict) and ("__harness_error__" in r or "__worker_lost__" in r):
            raise common.Infra(str(r.get("__harness_error__") or r.get("__worker_lost__")) + r.get("tb", ""))
        for c, x in zip(b, r):
            impl[c["id"]] = x
    lines = [G.infer_line(v, c["seed"], ["mrw", c["prog"], c["args"], c["sel"], c["alg"], c["k"]]) for c in light]
    m_rw = dict(zip([c["id"] for c in light], ask_driver(lines)))
    lines2, ids2 = [], []
    for c in light:
        im = impl[c["id"]]
        if "sample" in im and "est" in im:
            lines2.append(G.infer_line(v, c["seed"], ["mest", c["prog"], c["args"], c["sel"], c["alg"], c["k2"], im["sample"], not c["args"]]))
            ids2.append(c["id"])
    m_est = dict(zip(ids2, ask_driver(lines2)))
    for case in cases:
        im = impl[case["id"]]
        ctx.count(label + ":" + case["fam"])
        if case["fam"] == "int":
            ctx.count("alg:" + (case["alg"] if case["alg"] == "none" else case["alg"][0]))
            ctx.count("sel:" + ("all" if case["sel"] == [True] else "none" if case["sel"] == [False] else "closed" if closed(case) else "open"))
        else:
            ctx.count("enum-sel:" + "+".join(case["sel"]))
        sig0 = {"call": "Marginal", "fam": case["fam"]}
        ctx.case_done(case, True, {"case": str(case)[:300], "model": m_rw.get(case["id"], "")[:100], "impl": str(im)[:100]})
        if "error" in im:
            ctx.count("impl-error:" + im["error"])
            ctx.fail("predicate", case, {"why": "Marginal raised", "impl_error": im}, dict(sig0, feature=im["error"]), "C25")
            continue
        ctx.traces_validated += 1
        for what, msg in im["pred"]:
            ctx.count("predicate-fail:" + what)
            sig = dict(SIG_W) if what in ("weight", "spi") else dict(sig0, feature=what)
            ctx.fail("predicate", case, {"why": msg}, sig, "C25_" + what)
        if im.get("annot"):
            ctx.count("predicate-fail:annotation")
            ctx.fail("predicate", case, {"why": "Marginal.estimate_logpdf(key, v, *args) raises for non-tuple args: " + im["annot"]},
                     dict(SIG_ANNOT), "C25_estimate_logpdf")
        if case["fam"] != "int":
            continue
        tol = 5e-2 if case["alg"] != "none" else 0
        r = parse_sx(m_rw[case["id"]])
        if r[0] != "ok":
            ctx.fail("correspondence", case, {"model": m_rw[case["id"]], "impl": im}, sig0, "Marginal.randomWeighted")
        else:
            mv, mc = _lw_value(G.parse_lw(r[1])), G.parse_chm(r[2])
            if mc != im["sample"] or abs(mv - im["w"]) > tol:
                if not im["pred"]:
                    ctx.fail("correspondence", case, {"model": [mv, mc], "impl": [im["w"], im["sample"]]}, sig0,
                             "Marginal.randomWeighted vs Marginal.random_weighted")
                else:
                    ctx.count("model-differs-where-predicate-fails")
        if case["id"] in m_est:
            r = parse_sx(m_est[case["id"]])
            if r[0] == "err":
                if not (r[1] == "TypeError" and im.get("est_err") == "TypeError"):
                    ctx.fail("correspondence", case, {"model": m_est[case["id"]], "impl": im}, sig0, "Marginal.estimateLogpdf")
            elif im.get("est_err"):
                ctx.fail("correspondence", case, {"model": m_est[case["id"]], "impl": im}, sig0, "Marginal.estimateLogpdf")
            elif abs(_lw_value(G.parse_lw(r[1])) - im["est"]) > tol and not im["pred"]:
                ctx.fail("correspondence", case, {"model": m_est[case["id"]], "impl": im["est"]}, sig0,
                         "Marginal.estimateLogpdf vs Marginal.estimate_logpdf")


def run(ctx: Ctx):
    ctx.rule = ("int family: random straight-line programs (1-4 sites), selections all / none / random subsets and "
                "complements, with and without an SMC algorithm (Importance, ImportanceK K<=4 over a placeholder target); "
                "enum family: 3x2x2 discrete models, six selections, 3000 keys each; every case non-trivial; distinct by text")
    quick = ctx.tier == "quick"
    n_int, n_enum = (160, 6) if quick else (1600, 36)
    sc = float(os.environ.get("VERIF_CASES_SCALE") or 1)
    n_int, n_enum = max(8, int(n_int * sc)), max(2, int(n_enum * sc))
    cases = [gen_enum_case(ctx.rng, i) for i in range(n_enum)]
    cases[0]["sel"] = ["x", "z", "y"]
    cases += [gen_int_case(ctx.rng, n_enum + i) for i in range(n_int)]
    _run_cases(ctx, cases, "random")


def replay(ctx: Ctx, payload: dict):
    _run_cases(ctx, [payload["case"]], "replay")


T = "GenjaxVerif.Infer."
P = "GenjaxVerif.FinProbInfer."
SPEC = Spec(
    prop_id="C25",
    modules=["GenjaxVerif.Props.C25"],
    theorems=[T + n for n in (
        "C25_marginal_weight_spec", "C25_all_selected_repaired", "C25_all_selected_refuted", "C25_marginal_weight_partial",
        "C25_with_algorithm_spec", "C25_estimate_logpdf_spec", "C25_estimate_logpdf_annotation")] + [P + "C25_refuted"],
    strength="partial",
    run=run,
    replay=replay,
    assumptions=[
        "interface laws: project(tr, all) = score, project(tr, none) = 0, generate under a full constraint returns the score "
        "as weight (content of C10 / C03)",
        "the SPI identity for the REPAIRED code over all finite trees is not proved in Lean (only instances are evaluated); "
        "it is checked statistically on the implementation; with an algorithm only the call structure is proved",
    ],
)
