"""C28 — HMC proposals follow leapfrog dynamics and return the MH log ratio.

Models with quadratic log-densities (linear-Gaussian static / nested / vector-valued / scan
generative functions), so the score is  c0 - x'Px/2 + h'x  with exactly known rational P, h
and the whole HMC trajectory is a rational function of (x0, p0, eps).

Implementation side (workers): build the gen fn through the public API, constrain every
choice (`importance` with a full choice map), call the REAL
`HMC(selection, eps, L).edit(key, trace, Diff.no_change(args))`, and recompute the momenta the
code sampled with the repo's own `selection_gradient` / `sample_momenta` and the same key
derivation (`key, sub_key = jrand.split(key)`).

Model side: the Lean driver command `hmc` runs `hmcEdit false` (kernel as written: stale
gradient in the carry), `hmcEdit true` (repaired) and `hmcSpec` (textbook leapfrog) over Rat on
the same exact data (float32 momenta are dyadic rationals).

Correspondence relation: implementation == kernelAsWritten  OR  implementation == leapfrogSpec
(final choices, weight; 1e-4 relative) — theorems C28_asWritten_characterisation /
C28_repaired_eq_leapfrog cover both.  Property predicate (independent float64 reference, not
the Lean model): unselected choices keep their values, the selected ones sit at the end of the
textbook leapfrog trajectory, and the weight is H(start) - H(end) from the real trace scores.
A predicate failure whose cause is exactly the stale gradient (L >= 2, implementation matches
kernelAsWritten in positions and weight) carries the known-finding signature; any other
failure is a violation.
"""

from __future__ import annotations

import json
import math
import os
from fractions import Fraction as Fr

from harness import common
from harness.common import Ctx, Spec, ask_driver

STALE_SIG = {"call": "HMC.edit", "feature": "stale_gradient_in_carry"}
RTOL = 1e-4
LOG2PI = math.log(2 * math.pi)

COEF = ["-1", "-1/2", "1/2", "1", "2"]
MEAN = ["-1", "-1/2", "0", "1/2", "1"]
SIGMA = ["1/2", "1", "1", "2"]
EPS = ["1/2", "1/4", "1/8", "1/16"]


# ------------------------------------------------------------------ case description
#
# A case is a JSON dict: {"fam", "par" (family parameters, rationals as strings),
# "sel" (list of address indices), "selform", "x0" (one rational per coordinate), "eps", "L",
# "key", "jit"}.  `describe` turns the family parameters into the generic linear-Gaussian
# form: coordinate j ~ Normal(sum_k a[j][k] x_k + m[j], s[j]);  `addresses` lists
# (address tuple, coordinate indices).


def F(s) -> Fr:
    return Fr(s)


def describe(case):
    fam, par = case["fam"], case["par"]
    nodes, addrs = [], []
    if fam == "static":
        for i, (p, a, m, s) in enumerate(par["nodes"]):
            nodes.append(({} if p is None else {p: F(a)}, F(m), F(s)))
            addrs.append(((f"x{i}",), [i]))
    elif fam == "nested":
        c, d, e, f = (F(par[k]) for k in "cdef")
        m, s = [F(v) for v in par["m"]], [F(v) for v in par["s"]]
        nodes = [({}, m[0], s[0]), ({0: c}, m[1], s[1]), ({1: d}, m[2], s[2]), ({2: e, 0: f}, m[3], s[3])]
        addrs = [(("a",), [0]), (("s", "z"), [1]), (("s", "w"), [2]), (("b",), [3])]
    elif fam == "vec":
        a1, a2, b1, b3 = (F(par[k]) for k in ("a1", "a2", "b1", "b3"))
        m, s = [F(v) for v in par["m"]], [F(v) for v in par["s"]]
        nodes = [({}, m[0], s[0]), ({0: a1}, m[1], s[1]), ({0: a2}, m[2], s[2]), ({}, m[3], s[3]),
                 ({1: b1, 3: b3}, m[4], s[4])]
        addrs = [(("u",), [0]), (("v",), [1, 2, 3]), (("t",), [4])]
    elif fam == "scan":
        n, a, z0, sx, sy = par["n"], F(par["a"]), F(par["z0"]), F(par["sx"]), F(par["sy"])
        ms = [F(v) for v in par["ms"]]
        for t in range(n):
            nodes.append(({} if t == 0 else {t - 1: a}, (a * z0 + ms[0]) if t == 0 else ms[t], sx))
        for t in range(n):
            nodes.append(({t: Fr(1)}, Fr(0), sy))
        addrs = [(("x",), list(range(n))), (("y",), list(range(n, 2 * n)))]
    else:
        raise ValueError(fam)
    return nodes, addrs


def quadratic(nodes):
    """Exact P, h with  log p(x) = c0 - x'Px/2 + h'x ;  c0 as float."""
    n = len(nodes)
    P = [[Fr(0)] * n for _ in range(n)]
    h = [Fr(0)] * n
    c0 = 0.0
    for j, (a, m, s) in enumerate(nodes):
        r = [Fr(0)] * n
        r[j] = Fr(1)
        for k, v in a.items():
            r[k] -= v
        w = 1 / (s * s)
        for i in range(n):
            if r[i] == 0:
                continue
            h[i] += m * w * r[i]
            for k in range(n):
                P[i][k] += w * r[i] * r[k]
        c0 += float(-m * m * w / 2) - math.log(float(s)) - LOG2PI / 2
    return P, h, c0


def fr_sx(v: Fr) -> str:
    return str(v.numerator) if v.denominator == 1 else f"{v.numerator}/{v.denominator}"


# ------------------------------------------------------------------ implementation side


def _arr(v):
    import jax.numpy as jnp

    return jnp.array(v, dtype=jnp.float32)


def _fl(s):
    return float(Fr(s))


_MODEL_CACHE: dict = {}


def _cached(key, make):
    """One gen fn object per structure (parameters are arguments), so jit caches hit."""
    if key not in _MODEL_CACHE:
        _MODEL_CACHE[key] = make()
    return _MODEL_CACHE[key]


def _build(case):
    """-> (gen_fn, args, choice map constraining every address to x0)."""
    import jax.numpy as jnp

    import genjax
    from genjax import ChoiceMap as C

    fam, par, x0 = case["fam"], case["par"], [_fl(v) for v in case["x0"]]
    if fam == "static":
        parents = [p for (p, _, _, _) in par["nodes"]]
        A = _arr([_fl(a) for (_, a, _, _) in par["nodes"]])
        M = _arr([_fl(m) for (_, _, m, _) in par["nodes"]])
        S = _arr([_fl(s) for (_, _, _, s) in par["nodes"]])

        def make():
            @genjax.gen
            def model(A, M, S):
                xs = []
                for i, p in enumerate(parents):
                    mu = M[i] if p is None else A[i] * xs[p] + M[i]
                    xs.append(genjax.normal(mu, S[i]) @ f"x{i}")
                return xs[-1]

            return model

        model = _cached(("static", tuple(parents)), make)
        chm = C.empty()
        for i, v in enumerate(x0):
            chm = chm | C.kw(**{f"x{i}": _arr(v)})
        return model, (A, M, S), chm
    if fam == "nested":
        K = _arr([_fl(par[k]) for k in "cdef"])
        M = _arr([_fl(v) for v in par["m"]])
        S = _arr([_fl(v) for v in par["s"]])

        def make():
            @genjax.gen
            def sub(a, K, M, S):
                z = genjax.normal(a * K[0] + M[1], S[1]) @ "z"
                w = genjax.normal(z * K[1] + M[2], S[2]) @ "w"
                return w

            @genjax.gen
            def model(K, M, S):
                a = genjax.normal(M[0], S[0]) @ "a"
                w = sub(a, K, M, S) @ "s"
                b = genjax.normal(w * K[2] + a * K[3] + M[3], S[3]) @ "b"
                return b

            return model

        model = _cached(("nested",), make)
        chm = C.kw(a=_arr(x0[0]), b=_arr(x0[3])) | C.d({"s": C.kw(z=_arr(x0[1]), w=_arr(x0[2]))})
        return model, (K, M, S), chm
    if fam == "vec":
        K = _arr([_fl(par[k]) for k in ("a1", "a2", "b1", "b3")])
        M = _arr([_fl(v) for v in par["m"]])
        S = _arr([_fl(v) for v in par["s"]])

        def make():
            @genjax.gen
            def model(K, M, S):
                u = genjax.normal(M[0], S[0]) @ "u"
                v = genjax.mv_normal_diag(jnp.stack([K[0] * u + M[1], K[1] * u + M[2], M[3]]), S[1:4]) @ "v"
                t = genjax.normal(K[2] * v[0] + K[3] * v[2] + M[4], S[4]) @ "t"
                return t

            return model

        model = _cached(("vec",), make)
        chm = C.kw(u=_arr(x0[0]), v=_arr(x0[1:4]), t=_arr(x0[4]))
        return model, (K, M, S), chm
    if fam == "scan":
        n = par["n"]
        consts = _arr([_fl(par["a"]), _fl(par["sx"]), _fl(par["sy"])])

        def make():
            @genjax.gen
            def kernel(carry, m):
                z, k = carry
                x = genjax.normal(k[0] * z + m, k[1]) @ "x"
                _ = genjax.normal(x, k[2]) @ "y"
                return (x, k), None

            return kernel.scan(n=n)

        model = _cached(("scan", n), make)
        args = ((_arr(_fl(par["z0"])), consts), _arr([_fl(v) for v in par["ms"]]))
        chm = C.empty().at["x"].set(_arr(x0[:n])).at["y"].set(_arr(x0[n:]))
        return model, args, chm
    raise ValueError(fam)


def _selection(case, addrs):
    from genjax import Selection

    form = case.get("selform", "union")
    if form == "none":
        return Selection.none()
    sel_addrs = [addrs[i][0] for i in case["sel"]]
    if form == "prefix" and case["fam"] == "nested" and ("s", "z") in sel_addrs and ("s", "w") in sel_addrs:
        sel_addrs = [a for a in sel_addrs if a[0] != "s"] + [("s",)]
    if form == "ghost":
        sel_addrs = sel_addrs + [("never_traced",)]
    sel = Selection.none()
    for a in sel_addrs:
        sel = sel | Selection.at[a]
    return sel


def _read(chm, addrs, only=None):
    """Flat float32 vector of the coordinates of the listed addresses (works under jit)."""
    import jax.numpy as jnp

    parts = []
    for i, (a, coords) in enumerate(addrs):
        if only is not None and i not in only:
            continue
        v = jnp.ravel(jnp.asarray(chm[a], dtype=jnp.float32))
        if v.shape[0] != len(coords):
            raise ValueError(f"address {a}: {v.shape[0]} coordinates, expected {len(coords)}")
        parts.append(v)
    return jnp.concatenate(parts) if parts else jnp.zeros((0,), dtype=jnp.float32)


_JIT_CACHE: dict = {}


def _pipeline(model, sel, L, selected, addrs):
    """Everything done with the real implementation for one case, as one function so that it
    can be jitted once per shape: constrain all choices, recompute the momenta `HMC.edit` will
    sample (same functions, same key derivation), run `HMC.edit`."""
    import jax.random as jrand

    from genjax import Diff
    from genjax._src.inference.requests.hmc import sample_momenta, selection_gradient
    from genjax.inference.requests import HMC

    def f(key, chm, eps, args):
        tr, _ = model.importance(jrand.key(1), chm, args)
        argdiffs = Diff.no_change(args)
        out = {"x0": _read(tr.get_choices(), addrs), "s0": tr.get_score()}
        if selected:
            values, grads = selection_gradient(sel, tr, argdiffs)
            _, sub_key = jrand.split(key)  # HMC.edit: `key, sub_key = jrand.split(key)`
            momenta, _ = sample_momenta(sub_key, grads)
            out["p0"] = _read(momenta, addrs, selected)
            # the momentum refresh the invariance argument needs: every selected leaf gets its own
            # standard-normal draw, leaf i from fold_in(key, i) (computed here with jax / TFP directly)
            import jax
            import jax.numpy as jnp
            from tensorflow_probability.substrates import jax as tfp

            leaves, treedef = jax.tree.flatten(grads)
            ref = [tfp.distributions.Normal(jnp.zeros(v.shape), 1.0).sample(seed=jrand.fold_in(sub_key, i))
                   for i, v in enumerate(leaves)]
            out["p0_ref"] = _read(jax.tree.unflatten(treedef, ref), addrs, selected)
            out["g0"] = _read(grads, addrs, selected)
            out["q0"] = _read(values, addrs, selected)
        new_tr, w, _, _ = HMC(sel, eps, L).edit(key, tr, argdiffs)
        out["xL"] = _read(new_tr.get_choices(), addrs)
        out["sL"] = new_tr.get_score()
        out["alpha"] = w
        return out

    return f


def impl_case(case):
    import jax
    import jax.random as jrand
    import numpy as np

    _, addrs = describe(case)
    model, args, chm = _build(case)
    key = jrand.key(case["key"])
    L = case["L"]
    eps = _arr(_fl(case["eps"]))
    selected = sorted(case["sel"]) if case.get("selform") != "none" else []
    shape_key = _shape_of(case)
    f = _JIT_CACHE.get(shape_key)
    if f is None:
        f = _pipeline(model, _selection(case, addrs), L, selected, addrs)
        if case.get("jit", True):
            f = jax.jit(f)
        _JIT_CACHE[shape_key] = f
    raw = f(key, chm, eps, args)
    out = {}
    for k in ("x0", "xL", "p0", "p0_ref", "g0", "q0"):
        out[k] = [float(v) for v in np.asarray(raw[k]).reshape(-1)] if k in raw else []
    for k in ("s0", "sL", "alpha"):
        out[k] = float(raw[k])
    return out


def impl_batch(batch):
    import time as _t

    t0 = _t.time()
    out = []
    for case in batch:
        try:
            out.append(impl_case(case))
        except Exception as e:  # noqa: BLE001  implementation exception -> small enum
            name = type(e).__name__
            enum = name if name in ("ValueError", "TypeError", "IndexError", "KeyError", "AssertionError",
                                    "AttributeError", "ImportError", "NotImplementedError") else "Other"
            out.append({"error": enum, "msg": f"{name}: {e}"[:300]})
    if out:
        out[-1]["batch_s"] = round(_t.time() - t0, 1)
    return out


# ------------------------------------------------------------------ reference (float64, independent of Lean)


def ref_leapfrog(P, h, mask, x0, p0, eps, L):
    """Textbook leapfrog on the masked coordinates of the quadratic target; returns
    (xL, pL, logp(x0) - c0, logp(xL) - c0)."""
    n = len(x0)
    idx = [i for i in range(n) if mask[i]]
    x = list(x0)

    def grad():
        return [h[i] - sum(P[i][k] * x[k] for k in range(n)) for i in idx]

    def logp(x):
        return -0.5 * sum(x[i] * P[i][k] * x[k] for i in range(n) for k in range(n)) + sum(h[i] * x[i] for i in range(n))

    l0 = logp(x)
    p = list(p0)
    for _ in range(L):
        g = grad()
        p = [pi + eps / 2 * gi for pi, gi in zip(p, g)]
        for j, i in enumerate(idx):
            x[i] += eps * p[j]
        g = grad()
        p = [pi + eps / 2 * gi for pi, gi in zip(p, g)]
    return x, p, l0, logp(x)


# ------------------------------------------------------------------ check


def _driver_line(case, P, h, c0, mask, p0):
    def row(tag, vals):
        return "(" + " ".join(([tag] if tag else []) + [fr_sx(v) for v in vals]) + ")"

    return ("(hmc (mask" + "".join(" T" if b else " F" for b in mask) + ") (P"
            + "".join(" " + row("", r) for r in P) + ") " + row("h", h)
            + f" (c0 {fr_sx(Fr(c0))}) " + row("x0", [F(v) for v in case["x0"]]) + " " + row("p0", [Fr(v) for v in p0])
            + f" (eps {case['eps']}) (L {case['L']}) (lognorm {fr_sx(Fr(-LOG2PI / 2))}))")


def _parse_res(sx):
    d = {}
    for item in sx[1:]:
        d[item[0]] = [float(Fr(v)) for v in item[1:]]
    return {"x": d["x"], "p": d["p"], "alpha": d["alpha"][0], "s0": d["s0"][0], "sL": d["sL"][0]}


def _close(a, b, scale):
    return len(a) == len(b) and all(abs(x - y) <= RTOL * scale for x, y in zip(a, b))


def _maxdiff(a, b):
    return max((abs(x - y) for x, y in zip(a, b)), default=0.0)


def _shape_of(case):
    return json.dumps([case["fam"], case["par"].get("n"), [p[0] for p in case["par"].get("nodes", [])], case["sel"],
                       case.get("selform"), case["L"], case.get("jit", True)])


def evaluate(ctx: Ctx, tagged: list) -> int:
    """Run (label, case) pairs on implementation and model, compare, record.  Label `edge` marks
    requests outside the property's quantifier (an implementation error is then allowed).
    Returns #predicate failures."""
    if not tagged:
        return 0
    labels = [l for l, _ in tagged]
    cases = [c for _, c in tagged]
    groups: dict[str, list] = {}
    for i, c in enumerate(cases):
        groups.setdefault(_shape_of(c), []).append(i)
    batches_idx = list(groups.values())
    batches = [[cases[i] for i in b] for b in batches_idx]
    import time as _t

    t_impl = _t.time()
    res_b = common.run_impl_parallel("harness.props.c28", "impl_batch", batches)
    ctx.notes["impl_wall_s"] = round(ctx.notes.get("impl_wall_s", 0) + _t.time() - t_impl, 1)
    ctx.notes["impl_batch_s_max"] = max([ctx.notes.get("impl_batch_s_max", 0)] + [rb[-1]["batch_s"] for rb in res_b if isinstance(rb, list) and rb and "batch_s" in rb[-1]])
    impl = [None] * len(cases)
    for idxs, rb in zip(batches_idx, res_b):
        if isinstance(rb, dict) and ("__harness_error__" in rb or "__worker_lost__" in rb):
            raise common.Infra(rb.get("__harness_error__", rb.get("__worker_lost__", "")) + rb.get("tb", ""))
        for i, r in zip(idxs, rb):
            impl[i] = r
    prepared, lines = [], []
    for case, im in zip(cases, impl):
        nodes, addrs = describe(case)
        P, h, c0 = quadratic(nodes)
        n = len(nodes)
        mask = [False] * n
        if case.get("selform") != "none":
            for a in case["sel"]:
                for c in addrs[a][1]:
                    mask[c] = True
        prepared.append((P, h, c0, mask))
        if "error" not in im:
            if len(im["p0"]) != sum(mask):
                raise common.Infra(f"momenta read-back has {len(im['p0'])} coordinates for {sum(mask)} selected")
            lines.append(_driver_line(case, P, h, c0, mask, im["p0"]))
    t_drv = _t.time()
    model_out = iter(ask_driver(lines))
    ctx.notes["driver_wall_s"] = round(ctx.notes.get("driver_wall_s", 0) + _t.time() - t_drv, 1)
    nfail = 0
    for label, case, im, (P, h, c0, mask) in zip(labels, cases, impl, prepared):
        edge = label == "edge"
        ctx.count(label)
        ctx.count("fam:" + case["fam"])
        ctx.count(f"L:{case['L']}")
        ctx.count("eps:" + case["eps"])
        ctx.count(f"selected_coords:{sum(mask)}/{len(mask)}")
        ctx.count("jit" if case.get("jit", True) else "eager")
        if "error" in im:
            ctx.case_done(case, False, {"case": case["fam"], "impl_error": im["error"]})
            ctx.count("impl_error:" + im["error"])
            if edge:
                continue  # outside the property's quantifier (L = 0, empty selection, …): an error is allowed
            ctx.fail("predicate", case, {"impl_error": im}, {"call": "HMC.edit", "feature": "exception:" + im["error"]},
                     "HMC.edit raises on a valid request")
            nfail += 1
            continue
        ctx.traces_validated += 1
        if im.get("p0_ref") and im["p0_ref"] != im["p0"]:
            ctx.fail("predicate", case, {"momenta": im["p0"], "independent_draws": im["p0_ref"]},
                     {"call": "sample_momenta", "feature": "momenta-not-independent-per-leaf"},
                     "momentum refresh: leaf i is a standard-normal draw from fold_in(key, i)")
            nfail += 1
        mo_raw = next(model_out)
        mo_sx = common.parse_sx(mo_raw)
        if mo_sx[0] != "ok":
            raise common.Infra(f"driver rejected a well-formed request: {mo_raw[:200]}")
        aw, rep, spec = (_parse_res(s) for s in mo_sx[1:4])
        n = len(mask)
        Pf = [[float(v) for v in r] for r in P]
        hf = [float(v) for v in h]
        x0f = [float(F(v)) for v in case["x0"]]
        epsf = float(F(case["eps"]))
        rx, rp, rl0, rlL = ref_leapfrog(Pf, hf, mask, x0f, im["p0"], epsf, case["L"])
        # harness self-consistency: Lean's hmcSpec vs the float64 reference
        if _maxdiff(rx, spec["x"]) > 1e-9 * (1 + max(map(abs, rx))) or abs((rlL - rl0) - (spec["sL"] - spec["s0"])) > 1e-8 * (1 + abs(rlL) + abs(rl0)):
            raise common.Infra("float64 reference and Lean hmcSpec disagree: harness bug")
        if rep["x"] != spec["x"] or rep["p"] != spec["p"]:
            raise common.Infra("Lean hmcEdit(repaired) != hmcSpec, contradicting C28_trace_level_repaired")
        K0 = 0.5 * sum(v * v for v in im["p0"])
        scale_x = 1 + max(abs(v) for v in (rx + aw["x"] + im["xL"]))
        sel_idx = [i for i in range(n) if mask[i]]
        unsel_idx = [i for i in range(n) if not mask[i]]
        # --- observations
        start_ok = _close(im["x0"], x0f, 1.0)
        unselected_fixed = all(abs(im["xL"][i] - im["x0"][i]) <= 1e-6 * (1 + abs(im["x0"][i])) for i in unsel_idx)
        pos_spec = _close([im["xL"][i] for i in sel_idx], [rx[i] for i in sel_idx], scale_x)
        pos_aw = _close([im["xL"][i] for i in sel_idx], [aw["x"][i] for i in sel_idx], scale_x)
        d_score = im["sL"] - im["s0"]
        KL_spec = 0.5 * sum(v * v for v in rp)
        KL_aw = 0.5 * sum(v * v for v in aw["p"])
        scale_a = 1 + abs(im["s0"]) + abs(im["sL"]) + K0 + max(KL_spec, KL_aw)
        # H(start) - H(end) from the REAL trace scores and the momenta of the matching dynamics
        alpha_spec = abs(im["alpha"] - (d_score + K0 - KL_spec)) <= RTOL * scale_a
        alpha_aw = abs(im["alpha"] - (d_score + K0 - KL_aw)) <= RTOL * scale_a
        score_ok = (abs(im["s0"] - (rl0 + c0)) <= RTOL * scale_a
                    and (abs(im["sL"] - (aw["sL"])) <= RTOL * scale_a if pos_aw else True)
                    and (abs(im["sL"] - (rlL + c0)) <= RTOL * scale_a if pos_spec else True))
        g_model = [hf[i] - sum(Pf[i][k] * x0f[k] for k in range(n)) for i in sel_idx]
        grad_ok = _close(im["g0"], g_model, 1 + max((abs(v) for v in g_model), default=0.0)) and _close(im["q0"], [x0f[i] for i in sel_idx], 1.0)
        predicate = start_ok and unselected_fixed and pos_spec and alpha_spec
        discriminating = _maxdiff(aw["x"], rx) > 20 * RTOL * scale_x
        ctx.count("models_differ" if discriminating else "models_coincide_within_tol")
        nontrivial = case["L"] >= 1 and sum(mask) > 0 and epsf != 0 and any(v != 0 for v in im["p0"])
        ctx.case_done(case, nontrivial, {"case": {k: case[k] for k in ("fam", "sel", "eps", "L")}, "impl_xL": im["xL"][:3],
                                         "model_aw_xL": aw["x"][:3], "spec_xL": rx[:3], "alpha": im["alpha"]})
        detail = {"impl": im, "asWritten": aw, "spec": {"x": rx, "p": rp, "alpha": d_score + K0 - KL_spec},
                  "checks": {"start_ok": start_ok, "unselected_fixed": unselected_fixed, "pos_spec": pos_spec, "pos_aw": pos_aw,
                             "alpha_spec": alpha_spec, "alpha_aw": alpha_aw, "score_ok": score_ok, "grad_ok": grad_ok}}
        if predicate:
            ctx.count("impl_matches:spec" + ("+asWritten" if pos_aw and alpha_aw else ""))
            if not (score_ok and grad_ok):
                ctx.fail("correspondence", case, detail, {"call": "selection_gradient/get_score", "fam": case["fam"]},
                         "quadTarget (score, gradient) vs gen_fn.assess / selection_gradient")
            continue
        nfail += 1
        if not start_ok:
            feat = "initial_choices_not_as_constrained"
        elif not unselected_fixed:
            feat = "unselected_choice_moved"
        elif pos_aw and alpha_aw and case["L"] >= 2 and sum(mask) > 0 and score_ok and grad_ok:
            ctx.count("impl_matches:asWritten_only")
            ctx.fail("predicate", case, detail, dict(STALE_SIG), "C28_full (refuted: C28_refuted / C28_asWritten_characterisation)")
            continue
        elif pos_spec or pos_aw:
            feat = "weight_is_not_H_start_minus_H_end"
        else:
            feat = "trajectory_is_neither_leapfrog_nor_as_written"
        ctx.count("violation:" + feat)
        ctx.fail("predicate", case, detail, {"call": "HMC.edit", "feature": feat, "L": "1" if case["L"] <= 1 else ">=2"},
                 "C28 predicate")
    return nfail


# ------------------------------------------------------------------ generators


def _x0(rng, n):
    return [fr_sx(Fr(rng.randint(-8, 8), 4)) for _ in range(n)]


def gen_shape(rng):
    """A (family, structure, selection, L, jit) shape without instance data."""
    fam = rng.choice(["static", "static", "nested", "vec", "scan"])
    c = {"fam": fam, "selform": "union", "jit": True}  # eager runs are slow: covered by fixed/edge cases
    if fam == "static":
        n = rng.randint(1, 5)
        c["par"] = {"nodes": [[None if i == 0 or rng.random() < 0.25 else rng.randrange(i), None, None, None] for i in range(n)]}
        naddr = n
    elif fam == "nested":
        c["par"] = {}
        naddr = 4
    elif fam == "vec":
        c["par"] = {}
        naddr = 3
    else:
        c["par"] = {"n": rng.randint(2, 4)}
        naddr = 2
    k = rng.randint(1, naddr)
    c["sel"] = sorted(rng.sample(range(naddr), k))
    if fam == "nested" and 1 in c["sel"] and 2 in c["sel"] and rng.random() < 0.5:
        c["selform"] = "prefix"
    elif rng.random() < 0.05:
        c["selform"] = "ghost"
    c["L"] = rng.choice([1, 1, 2, 2, 3, 4, 5, 8])
    return c


def instantiate(rng, shape):
    c = json.loads(json.dumps(shape))
    fam = c["fam"]
    if fam == "static":
        c["par"]["nodes"] = [[p, rng.choice(COEF), rng.choice(MEAN), rng.choice(SIGMA)] for (p, _, _, _) in c["par"]["nodes"]]
    elif fam == "nested":
        c["par"] = {**{k: rng.choice(COEF) for k in "cdef"}, "m": [rng.choice(MEAN) for _ in range(4)],
                    "s": [rng.choice(SIGMA) for _ in range(4)]}
    elif fam == "vec":
        c["par"] = {**{k: rng.choice(COEF) for k in ("a1", "a2", "b1", "b3")}, "m": [rng.choice(MEAN) for _ in range(5)],
                    "s": [rng.choice(SIGMA) for _ in range(5)]}
    else:
        n = c["par"]["n"]
        c["par"] = {"n": n, "a": rng.choice(["1", "1/2", "-1/2", "1"]), "z0": rng.choice(MEAN), "sx": rng.choice(SIGMA),
                    "sy": rng.choice(SIGMA), "ms": [rng.choice(MEAN) for _ in range(n)]}
    nodes, _ = describe(c)
    P, _, _ = quadratic(nodes)
    pmax = max(P[i][i] for i in range(len(nodes)))
    ok = [e for e in EPS if F(e) * F(e) * pmax <= 2] or [EPS[-1]]
    c["eps"] = rng.choice(ok[:2] if rng.random() < 0.7 else ok)  # favour the larger (more discriminating) steps
    c["x0"] = _x0(rng, len(nodes))
    c["key"] = rng.randrange(1 << 30)
    return c


def fixed_cases():
    """Hand-picked cases run first on every run: the test-suite's shapes, in small."""
    linked = {"nodes": [[None, "1", "0", "1"], [0, "1", "0", "1/2"]]}
    out = []
    for L, sel in ((1, [0]), (1, [0, 1]), (2, [0]), (2, [1]), (2, [0, 1]), (3, [0]), (3, [0, 1])):
        if True:
            out.append({"fam": "static", "par": linked, "sel": sel, "selform": "union", "x0": ["1/2", "3"], "eps": "1/4",
                        "L": L, "key": 314159 + L, "jit": True})
    scan = {"n": 4, "a": "1", "z0": "0", "sx": "1", "sy": "1/2", "ms": ["0", "0", "0", "0"]}
    for L in (1, 10):
        out.append({"fam": "scan", "par": scan, "sel": [0], "selform": "union", "x0": ["1", "2", "3", "2", "3", "3", "3", "3"],
                    "eps": "1/8", "L": L, "key": 7 + L, "jit": True})
    indep = {"nodes": [[None, "1", "0", "1"], [None, "1", "1", "2"], [None, "1", "-1", "1/2"]]}
    out.append({"fam": "static", "par": indep, "sel": [0, 2], "selform": "union", "x0": ["1", "-1", "1/2"], "eps": "1/4", "L": 4,
                "key": 11, "jit": False})
    return out


def edge_cases(rng):
    base = {"fam": "static", "par": {"nodes": [[None, "1", "0", "1"], [0, "1", "0", "1/2"]]}, "x0": ["1/2", "3"], "key": rng.randrange(1 << 20),
            "jit": True}
    return [
        {**base, "sel": [0], "selform": "union", "eps": "1/4", "L": 0},      # zero steps
        {**base, "sel": [0], "selform": "union", "eps": "0", "L": 3},        # zero step size: nothing moves, alpha = 0
        {**base, "sel": [], "selform": "none", "eps": "1/4", "L": 2},        # empty selection
        {**base, "sel": [1], "selform": "ghost", "eps": "1/4", "L": 1},      # selection mentions an address never traced
        {**base, "sel": [0, 1], "selform": "union", "eps": "1/4", "L": 1, "jit": False},
    ]


def driver_rejects():
    bad = [
        "(hmc (mask T F) (P (1)) (h 0) (c0 0) (x0 1) (p0 0) (eps 2) (L 2) (lognorm 0))",
        "(hmc (mask T) (P (1)) (h 0) (c0 0) (x0 1) (p0 0 0) (eps 2) (L 2) (lognorm 0))",
        "(hmc (mask T) (P (1)) (h 0) (c0 0) (x0 1) (p0 0) (eps 1/0) (L 2) (lognorm 0))",
        "(hmc (mask T) (P (1)) (h 0) (c0 0) (x0 1) (p0 0) (eps 2) (L -1) (lognorm 0))",
        "(hmc (mask T) (P (1)) (h 0) (x0 1) (p0 0) (eps 2) (L 2) (lognorm 0))",
    ]
    for line, resp in zip(bad, ask_driver(bad)):
        if not resp.startswith("(err"):
            raise common.Infra(f"driver accepted malformed request {line}: {resp}")
    good = ask_driver(["(hmc (mask T) (P (1)) (h 0) (c0 0) (x0 1) (p0 0) (eps 2) (L 2) (lognorm 0))"])[0]
    # the witness of C28_refuted: leapfrog returns to q = 1, the code as written reaches q = -3
    if "(aw (x -3)" not in good or "(spec (x 1)" not in good:
        raise common.Infra("driver does not reproduce the C28_refuted witness: " + good)


def known_replays():
    f = common.VERIF / "tools" / "findings" / "C28.json"
    seen, out = set(), []
    for e in (json.loads(f.read_text()) if f.exists() else []) + common.load_known("C28"):
        r = e.get("replay", {}).get("case")
        if r is not None and json.dumps(r, sort_keys=True) not in seen:
            seen.add(json.dumps(r, sort_keys=True))
            out.append(r)
    return out


def neighbours(rng, case, k=8):
    out = []
    for _ in range(k):
        c = json.loads(json.dumps(case))
        c["L"] = rng.choice([1, 2, 3])
        c["key"] = rng.randrange(1 << 30)
        c["x0"] = _x0(rng, len(c["x0"]))
        out.append(c)
    return out


def run(ctx: Ctx):
    ctx.rule = ("linear-Gaussian gen fns (static chains/forests with 1-5 addresses, nested call, vector-valued mv_normal_diag, "
                "scan of length 2-4), any non-empty subset of addresses selected, eps in {1/2..1/16} (stable range), "
                "L in {1,2,3,4,5,8}, under jax.jit (eager only in the fixed and edge cases); every case runs the real HMC.edit and the Lean hmcEdit/hmcSpec on the same "
                "exact data; non-trivial = L >= 1, non-empty selection, non-zero momenta; distinct by full case text")
    driver_rejects()
    first = ([("known-finding-replay", c) for c in known_replays()] + [("fixed", c) for c in fixed_cases()]
             + [("edge", c) for c in edge_cases(ctx.rng)])
    n_shapes, per = (28, 4) if ctx.tier == "quick" else (960, 4)
    if os.environ.get("VERIF_C28_SHAPES"):  # developer knob (mutant runs on a loaded machine)
        n_shapes = int(os.environ["VERIF_C28_SHAPES"])
    rounds = 1 if ctx.tier == "quick" else 8
    for r in range(rounds):
        if r > 0 and ctx.budget_s - ctx.time_left() > 660:  # keep the thorough tier under ~20 min on a loaded machine
            ctx.notes["stopped_early_round"] = r
            break
        cases = first if r == 0 else []
        for _ in range(n_shapes // rounds):
            sh = gen_shape(ctx.rng)
            cases.extend(("random", instantiate(ctx.rng, sh)) for _ in range(per))
        before = len(ctx.failures)
        evaluate(ctx, cases)
        corr = [f for f in ctx.failures[before:] if f.kind == "correspondence"]
        if corr and not any(f.kind == "predicate" and f.signature != STALE_SIG for f in ctx.failures):
            # search the neighbourhood of the first disagreement for an input on which the predicate fails
            evaluate(ctx, [("neighbour-search", c) for c in neighbours(ctx.rng, corr[0].case)])


def replay(ctx: Ctx, payload: dict):
    evaluate(ctx, [("replay", payload["case"])])


SPEC = Spec(
    prop_id="C28",
    modules=["GenjaxVerif.Props.C28"],
    theorems=[
        "GenjaxVerif.Leapfrog.C28_repaired_eq_leapfrog",
        "GenjaxVerif.Leapfrog.C28_first_step_agrees",
        "GenjaxVerif.Leapfrog.C28_asWritten_characterisation",
        "GenjaxVerif.Leapfrog.C28_asWritten_eq_leapfrog_partial",
        "GenjaxVerif.Leapfrog.C28_asWritten_eq_leapfrog_partial_const",
        "GenjaxVerif.Leapfrog.C28_refuted",
        "GenjaxVerif.Leapfrog.C28_alpha_def",
        "GenjaxVerif.Leapfrog.C28_alpha_flip_invariant",
        "GenjaxVerif.Leapfrog.C28_leapfrog_reversible",
        "GenjaxVerif.Leapfrog.C28_unselected_fixed",
        "GenjaxVerif.Leapfrog.C28_trace_level_asWritten",
        "GenjaxVerif.Leapfrog.C28_trace_level_repaired",
        "GenjaxVerif.Leapfrog.C28_alpha_trace",
    ],
    strength="partial",
    run=run,
    replay=replay,
    assumptions=[
        "the gradient is an oracle g : Vec -> Vec (jax.grad of gen_fn.assess is not modelled); the correspondence uses "
        "quadratic log-densities, for which the harness knows the exact gradient",
        "momenta are taken as given (recomputed with the repo's own sample_momenta and HMC.edit's key derivation)",
        "volume preservation and the measure-theoretic step to invariance under accept/reject are outside the model",
        "float32 arithmetic is compared with a 1e-4 relative tolerance against exact rational arithmetic",
    ],
)
