"""C19 — Mask algebra matches its truth tables for concrete and traced flags.

Correspondence: every case is run through the real `genjax.Mask` API (|, ^, ~, build,
maybe_mask, flatten, unmask, or_n, xor_n, the constructor) with each flag in one of the staging
modes {python bool, jnp array, argument of jax.jit, batched argument of jax.vmap}, and through
the Lean model (driver command `mask`).  Compared: CANONICAL observations — result kind
(None / bare value / Mask), flag truth values, payload only where the flag is true, errors as
an enum.  Never compared: payloads under a false flag, concreteness of result flags, classes.

Predicate (implementation alone): the documented truth table evaluated directly on the case
(`spec`): `|` = first valid operand, `^` = the operand valid alone, `~` = negated flag,
build = conjunction, flatten/maybe_mask = None / bare / Mask by concreteness, unmask(default)
= payload or default; vectorised flags mask whole leading-axis slices.  The spec does not
depend on staging modes, so agreeing with it in every mode is mode invariance.
"""

from __future__ import annotations

import copy
import os
import itertools
import json
from pathlib import Path

import numpy as np

from harness import common
from harness import mask_util as mu
from harness.common import Ctx, Spec, ask_driver, parse_sx, sx

MODES = ["py", "arr", "jit", "vmap"]
VMODES = ["arr", "jit", "vmap"]

# ------------------------------------------------------------------ descriptors


def m_flags(m):
    v = m["v"]
    return v if isinstance(v, bool) else mu.flat_bools(v)


def slices_of(p, n):
    def leaf_flat(q):
        return np.array(q[1]).reshape(-1).tolist()

    def at(q, i):
        return leaf_flat(q)[i] if q[0] == "arr" else [at(r, i) for r in q[1:]]

    return [at(p, i) for i in range(n)]


def p_slices(p, cls, n=None):
    if cls == "s":
        return mu.payload_nested(p)
    if cls == "v":
        return slices_of(p, n)
    return p[1]  # r2: rows


def m_slices(m):
    fl = m_flags(m)
    return p_slices(m["p"], m["cls"], None if isinstance(fl, bool) else len(fl))


def shape_of(n):
    if isinstance(n, list):
        return [shape_of(x) for x in n]
    return 0


def mask_sx(m):
    if m["cls"] == "s":
        return ["m", mu.flag_sx(m), mu.tree_sx(m_slices(m))]
    if m["cls"] == "v":
        return ["m1", ["v"] + m_flags(m), [mu.tree_sx(s) for s in m_slices(m)]]
    return ["m2", ["v"] + m_flags(m), m["p"][1]]


def val_sx(p, cls, n=None):
    if cls == "s":
        return ["val", mu.tree_sx(mu.payload_nested(p))]
    if cls == "v":
        return ["val1", [mu.tree_sx(s) for s in slices_of(p, n)]]
    return ["val2", p[1]]


def case_sx(c):
    op = c["op"]
    if op in ("or", "xor"):
        return ["mask", op, mask_sx(c["a"]), mask_sx(c["b"])]
    if op in ("inv", "flatten"):
        return ["mask", op, mask_sx(c["a"])]
    if op in ("build", "maybe"):
        x = c["x"]
        xs = mask_sx(x) if "v" in x else val_sx(x["p"], x["cls"], x.get("n"))
        return ["mask", op, xs, mu.flag_sx(c["f"])]
    if op == "unmask":
        a = c["a"]
        fl = m_flags(a)
        d = "none" if c["d"] is None else ["some", val_sx(c["d"], a["cls"], None if isinstance(fl, bool) else len(fl))]
        return ["mask", "unmask", mask_sx(a), d, bool(c["ck"])]
    if op in ("orn", "xorn"):
        return ["mask", op] + [mask_sx(m) for m in c["ms"]]
    if op == "init":
        k = c["kind"]
        if k == "absent":
            return ["mask", "init", ["val", mu.tree_sx(mu.payload_nested(c["p"]))], "absent"]
        if k == "none":
            return ["mask", "init", ["val", mu.tree_sx(mu.payload_nested(c["p"]))], "none"]
        if k == "nested":
            return ["mask", "init", mask_sx(c["a"]), mu.flag_sx(c["f"])]
        return ["mask", "init", ["val", mu.tree_sx(mu.payload_nested(c["p"]))], mu.flag_sx(c["f"])]
    raise ValueError(op)


# ------------------------------------------------------------------ the documented table (predicate)


def canon_mask(cls, flags, slices):
    if cls == "s":
        return ["mask", flags, slices if flags else None]
    tag = "mask1" if cls == "v" else "mask2"
    return [tag, flags, [s if f else None for f, s in zip(flags, slices)]]


def compatible(a, b):
    if a["cls"] != b["cls"]:
        return False
    fa, fb = m_flags(a), m_flags(b)
    if isinstance(fa, bool) != isinstance(fb, bool):
        return False
    if not isinstance(fa, bool) and (len(fa) != len(fb) or np.shape(a["v"]) != np.shape(b["v"])):
        return False
    return shape_of(mu.payload_nested(a["p"])) == shape_of(mu.payload_nested(b["p"])) and _tree_kind(a["p"]) == _tree_kind(b["p"])


def _tree_kind(p):
    return "a" if p[0] == "arr" else ["t"] + [_tree_kind(q) for q in p[1:]]


def wf(m):
    """_validate_init: a vector flag's shape is a prefix of every leaf shape."""
    if m["cls"] == "s":
        return isinstance(m["v"], bool)
    fs = np.shape(m["v"])

    def ok(p):
        if p[0] == "arr":
            return np.shape(p[1])[: len(fs)] == fs
        return all(ok(q) for q in p[1:])

    return ok(m["p"])


def spec_bin(op, a, b):
    if not (wf(a) and wf(b)) or not compatible(a, b):
        return ["err", "shape"]
    fa, fb, sa, sb = m_flags(a), m_flags(b), m_slices(a), m_slices(b)
    if a["cls"] == "s":
        f = (fa or fb) if op == "or" else (fa != fb)
        return canon_mask("s", f, sa if fa else sb)
    f = [(x or y) if op == "or" else (x != y) for x, y in zip(fa, fb)]
    return canon_mask(a["cls"], f, [x if p else y for p, x, y in zip(fa, sa, sb)])


def spec_build(x, f):
    """Returns (cls, flags, slices, concrete?) or an error canonical."""
    fv = f["v"]
    f_scalar = isinstance(fv, bool)
    if "v" in x:  # an existing mask
        if not wf(x):
            return ["err", "shape"]
        g = m_flags(x)
        if x["cls"] == "s":
            if not f_scalar:
                return ["err", "shape"]
            return ("s", fv and g, m_slices(x), f["mode"] == "py" and x["mode"] == "py")
        if f_scalar:
            return (x["cls"], [fv and y for y in g], m_slices(x), False)
        ff = mu.flat_bools(fv)
        if np.shape(fv) != np.shape(x["v"]):
            return ["err", "shape"]
        return (x["cls"], [p and q for p, q in zip(ff, g)], m_slices(x), False)
    # bare value
    if f_scalar:
        return ("s", fv, mu.payload_nested(x["p"]), f["mode"] == "py")
    m = {"cls": x["cls"], "v": fv, "p": x["p"], "mode": f["mode"]}
    if x["cls"] == "s" or not wf(m):
        return ["err", "shape"]
    return (x["cls"], mu.flat_bools(fv), m_slices(m), False)


def spec(c):
    op = c["op"]
    if op in ("or", "xor"):
        return spec_bin(op, c["a"], c["b"])
    if op == "inv":
        a = c["a"]
        if not wf(a):
            return ["err", "shape"]
        fl = m_flags(a)
        return canon_mask(a["cls"], (not fl) if isinstance(fl, bool) else [not x for x in fl], m_slices(a))
    if op == "flatten":
        a = c["a"]
        if not wf(a):
            return ["err", "shape"]
        fl = m_flags(a)
        if a["cls"] == "s" and a["mode"] == "py":
            return ["bare", m_slices(a)] if fl else ["none"]
        return canon_mask(a["cls"], fl, m_slices(a))
    if op in ("build", "maybe"):
        r = spec_build(c["x"], c["f"])
        if isinstance(r, list):
            return r
        cls, fl, sl, conc = r
        if op == "maybe" and conc:
            return ["bare", sl] if fl else ["none"]
        return canon_mask(cls, fl, sl)
    if op == "unmask":
        a = c["a"]
        if not wf(a):
            return ["err", "shape"]
        fl, sl = m_flags(a), m_slices(a)
        allv = fl if isinstance(fl, bool) else all(fl)
        tag = {"s": "val", "v": "val1", "r2": "val2"}[a["cls"]]
        if c["d"] is None:
            if c["ck"] and not allv:
                return ["err", "invalid-unmask"]
            return [tag, sl] if allv else [tag, "unobserved"]
        ds = p_slices(c["d"], a["cls"], None if isinstance(fl, bool) else len(fl))
        if shape_of(mu.payload_nested(a["p"])) != shape_of(mu.payload_nested(c["d"])) or _tree_kind(a["p"]) != _tree_kind(c["d"]):
            return ["err", "shape"]
        if isinstance(fl, bool):
            return [tag, sl if fl else ds]
        return [tag, [x if f else y for f, x, y in zip(fl, sl, ds)]]
    if op in ("orn", "xorn"):
        ms = c["ms"]
        cur = None  # (flags, slices)
        for i, m in enumerate(ms):
            if not wf(m) or (i and not compatible(ms[0], m)):
                return ["err", "shape"]
            fl, sl = m_flags(m), m_slices(m)
            if cur is None:
                cur = (fl, sl)
            elif isinstance(fl, bool):
                f0 = cur[0]
                cur = ((f0 or fl) if op == "orn" else (f0 != fl), cur[1] if f0 else sl)
            else:
                f0 = cur[0]
                cur = ([(x or y) if op == "orn" else (x != y) for x, y in zip(f0, fl)], [s if p else t for p, s, t in zip(f0, cur[1], sl)])
        return canon_mask(ms[0]["cls"], cur[0], cur[1])
    if op == "init":
        k = c["kind"]
        if k == "absent":
            return ["mask", True, mu.payload_nested(c["p"])]
        if k == "none":
            return ["err", "type"]
        if k == "nested":
            return ["err", "nested"]
        return canon_mask("s", c["f"]["v"], mu.payload_nested(c["p"]))
    raise ValueError(op)


# ------------------------------------------------------------------ implementation side


def canon_impl(r, cls, off, n=None, unmask=False, unobserved=False):
    from genjax import Mask
    import jax.tree_util as jtu

    if unmask:
        tag = {"s": "val", "v": "val1", "r2": "val2"}[cls]
        if unobserved:
            return [tag, "unobserved"]
        if cls == "s":
            return [tag, mu.sub_offset(mu.obj_nested(r), off)]
        if cls == "r2":
            return [tag, mu.sub_offset(np.asarray(r).tolist(), off)]
        flat = jtu.tree_map(lambda x: np.asarray(x).reshape(-1), r)
        return [tag, [mu.sub_offset(mu.obj_nested(jtu.tree_map(lambda x: x[i], flat)), off) for i in range(n)]]
    if r is None:
        return ["none"]
    if isinstance(r, Mask):
        fl = np.asarray(r.flag)
        if fl.shape == ():
            ok = bool(fl)
            return ["mask", ok, mu.sub_offset(mu.obj_nested(r.value), off) if ok else None]
        flags = fl.reshape(-1).tolist()
        if cls == "r2":
            rows = mu.sub_offset(np.asarray(r.value).tolist(), off)
            return ["mask2", flags, [rows[i] if (i < len(flags) and flags[i]) else None for i in range(len(rows))]]
        flat = jtu.tree_map(lambda x: np.asarray(x).reshape(-1), r.value)
        sl = [mu.sub_offset(mu.obj_nested(jtu.tree_map(lambda x: x[i], flat)), off) if flags[i] else None for i in range(len(flags))]
        return ["mask1", flags, sl]
    return ["bare", mu.sub_offset(mu.obj_nested(r), off)]


def _mk(m, fl, pl):
    from genjax import Mask

    return Mask(pl, fl)


def impl_case(c):
    from genjax import Mask

    op = c["op"]
    ck = False
    unmask = False
    unobserved = False
    cls, n = "s", None
    if op in ("or", "xor"):
        a, b = c["a"], c["b"]
        flags, pls = [a, b], [a["p"], b["p"]]
        core = (lambda fl, pl, ix: Mask(pl[0], fl[0]) | Mask(pl[1], fl[1])) if op == "or" else (lambda fl, pl, ix: Mask(pl[0], fl[0]) ^ Mask(pl[1], fl[1]))
        cls = a["cls"]
    elif op in ("inv", "flatten"):
        a = c["a"]
        flags, pls = [a], [a["p"]]
        core = (lambda fl, pl, ix: ~Mask(pl[0], fl[0])) if op == "inv" else (lambda fl, pl, ix: Mask(pl[0], fl[0]).flatten())
        cls = a["cls"]
    elif op in ("build", "maybe"):
        x, f = c["x"], c["f"]
        fn = Mask.build if op == "build" else Mask.maybe_mask
        if "v" in x:
            flags, pls = [x, f], [x["p"]]
            core = lambda fl, pl, ix: fn(Mask(pl[0], fl[0]), fl[1])  # noqa: E731
        else:
            flags, pls = [f], [x["p"]]
            core = lambda fl, pl, ix: fn(pl[0], fl[0])  # noqa: E731
        cls = x["cls"]
    elif op == "unmask":
        a = c["a"]
        cls = a["cls"]
        fl0 = m_flags(a)
        n = None if isinstance(fl0, bool) else len(fl0)
        unmask = True
        ck = bool(c["ck"])
        if c["d"] is None:
            flags, pls = [a], [a["p"]]
            core = lambda fl, pl, ix: Mask(pl[0], fl[0]).unmask()  # noqa: E731
            unobserved = not (fl0 if isinstance(fl0, bool) else all(fl0))
        else:
            flags, pls = [a], [a["p"], c["d"]]
            core = lambda fl, pl, ix: Mask(pl[0], fl[0]).unmask(default=pl[1])  # noqa: E731
    elif op in ("orn", "xorn"):
        ms = c["ms"]
        flags, pls = ms, [m["p"] for m in ms]
        red = Mask.or_n if op == "orn" else Mask.xor_n
        core = lambda fl, pl, ix: red(*[Mask(p, f) for p, f in zip(pl, fl)])  # noqa: E731
        cls = ms[0]["cls"]
    elif op == "init":
        k = c["kind"]
        if k == "absent":
            flags, pls = [], [c["p"]]
            core = lambda fl, pl, ix: Mask(pl[0])  # noqa: E731
        elif k == "none":
            flags, pls = [], [c["p"]]
            core = lambda fl, pl, ix: Mask(pl[0], None)  # noqa: E731
        elif k == "nested":
            flags, pls = [c["a"], c["f"]], [c["a"]["p"]]
            core = lambda fl, pl, ix: Mask(Mask(pl[0], fl[0]), fl[1])  # noqa: E731
        else:
            flags, pls = [c["f"]], [c["p"]]
            core = lambda fl, pl, ix: Mask(pl[0], fl[0])  # noqa: E731
    else:
        raise ValueError(op)
    try:
        outs = mu.run_modes(core, flags, pls, ck=ck)
        return {"obs": [canon_impl(r, cls, off, n=n, unmask=unmask, unobserved=unobserved) for r, off in outs]}
    except Exception as e:  # noqa: BLE001
        return {"obs": [["err", mu.err_enum(e)]], "msg": f"{type(e).__name__}: {str(e)[:160]}"}


def impl_batch(batch):
    out = []
    for c in batch:
        try:
            out.append(impl_case(c))
        except Exception as e:  # noqa: BLE001  (harness bug: canonicalisation failed)
            out.append({"obs": [["weird", f"{type(e).__name__}: {str(e)[:200]}"]]})
    return out


# ------------------------------------------------------------------ model side


def canon_model(line, c):
    s = parse_sx(line)
    if s[0] == "err":
        return ["err", mu.model_err(s[1])]
    r = s[1]
    return _canon_model_obj(r, c)


def _bools(v):
    return [x == "T" for x in v[1:]]


def _canon_model_obj(r, c):
    if r == "none":
        return ["none"]
    tag = r[0]
    if tag == "bare":
        return ["bare", _model_val(r[1])[1]]
    if tag in ("val", "val1", "val2"):
        if c["op"] == "unmask" and c["d"] is None:
            fl = m_flags(c["a"])
            if not (fl if isinstance(fl, bool) else all(fl)):
                return [tag, "unobserved"]
        return _model_val(r)
    if tag == "m":
        ok = r[1][1] == "T"
        return ["mask", ok, mu.sx_tree_nested(r[2]) if ok else None]
    if tag == "m1":
        fl = _bools(r[1])
        sl = [mu.sx_tree_nested(x) for x in r[2]]
        return ["mask1", fl, [s if f else None for f, s in zip(fl, sl)]]
    if tag == "m2":
        fl = _bools(r[1])
        rows = [[int(x) for x in row] for row in r[2]]
        return ["mask2", fl, [rows[i] if (i < len(fl) and fl[i]) else None for i in range(len(rows))]]
    return ["weird-model", r]


def _model_val(r):
    tag = r[0]
    if tag == "val":
        return ["val", mu.sx_tree_nested(r[1])]
    if tag == "val1":
        return ["val1", [mu.sx_tree_nested(x) for x in r[1]]]
    return ["val2", [[int(x) for x in row] for row in r[1]]]


# ------------------------------------------------------------------ generators


def rnd_arr(rng, shape):
    return ["arr", np.array([rng.randint(1, 99) for _ in range(int(np.prod(shape)) or 1)]).reshape(shape).tolist()]


def payload_shapes_scalar(rng, k):
    """Three payload families for scalar flags: scalar leaf, tuple pytree, rank-2 leaf."""
    if k == 0:
        return rnd_arr(rng, ())
    if k == 1:
        return ["tup", rnd_arr(rng, ()), ["tup", rnd_arr(rng, (2,))]]
    return rnd_arr(rng, (2, 3))


def smask(rng, mode, v, k):
    return {"cls": "s", "mode": mode, "v": v, "p": payload_shapes_scalar(rng, k)}


def vmask(rng, mode, flags, tup=False, fshape=None):
    n = len(flags)
    shp = tuple(fshape) if fshape else (n,)
    p = ["tup", rnd_arr(rng, shp), rnd_arr(rng, shp)] if tup else rnd_arr(rng, shp)
    v = np.array(flags).reshape(shp).tolist()
    return {"cls": "v", "mode": mode, "v": v, "p": p}


def r2mask(rng, mode, flags, m):
    return {"cls": "r2", "mode": mode, "v": list(flags), "p": rnd_arr(rng, (len(flags), m))}


def gen_scalar(rng):
    cases = []
    TV = [False, True]
    for k in range(3):
        for ma, mb in itertools.product(MODES, MODES):
            for fa, fb in itertools.product(TV, TV):
                for op in ("or", "xor"):
                    cases.append({"op": op, "a": smask(rng, ma, fa, k), "b": smask(rng, mb, fb, k)})
                for op in ("build", "maybe"):
                    cases.append({"op": op, "x": smask(rng, ma, fa, k), "f": {"mode": mb, "v": fb}})
        for ma in MODES:
            for fa in TV:
                for op in ("inv", "flatten"):
                    cases.append({"op": op, "a": smask(rng, ma, fa, k)})
                for op in ("build", "maybe"):
                    cases.append({"op": op, "x": {"cls": "s", "p": payload_shapes_scalar(rng, k)}, "f": {"mode": ma, "v": fa}})
                a = smask(rng, ma, fa, k)
                cases.append({"op": "unmask", "a": a, "d": payload_shapes_scalar(rng, k), "ck": False})
                for ck in (False, True):
                    cases.append({"op": "unmask", "a": smask(rng, ma, fa, k), "d": None, "ck": ck})
                cases.append({"op": "init", "kind": "given", "p": payload_shapes_scalar(rng, k), "f": {"mode": ma, "v": fa}})
    for op in ("orn", "xorn"):
        for _ in range(40):
            k = rng.randrange(3)
            ms = [smask(rng, rng.choice(MODES), rng.random() < 0.5, k) for _ in range(rng.randint(2, 4))]
            cases.append({"op": op, "ms": ms})
    cases.append({"op": "init", "kind": "absent", "p": rnd_arr(rng, ())})
    cases.append({"op": "init", "kind": "none", "p": rnd_arr(rng, ())})
    for ma in ("py", "arr"):
        cases.append({"op": "init", "kind": "nested", "a": smask(rng, ma, True, 0), "f": {"mode": "py", "v": True}})
    return cases


def gen_vector(rng, n_random):
    cases = []
    TV = [False, True]
    # exhaustive over flag pairs at n = 2, all mode pairs
    for ma, mb in itertools.product(VMODES, VMODES):
        for fa in itertools.product(TV, TV):
            for fb in itertools.product(TV, TV):
                tup = rng.random() < 0.3
                for op in ("or", "xor"):
                    cases.append({"op": op, "a": vmask(rng, ma, fa, tup), "b": vmask(rng, mb, fb, tup)})
    for _ in range(n_random):
        n = rng.choice([1, 3, 4, 5])
        fa = [rng.random() < 0.5 for _ in range(n)]
        fb = [rng.random() < 0.5 for _ in range(n)]
        ma, mb = rng.choice(VMODES), rng.choice(VMODES)
        tup = rng.random() < 0.3
        fshape = (2, 2) if n == 4 and rng.random() < 0.5 else None
        a, b = vmask(rng, ma, fa, tup, fshape), vmask(rng, mb, fb, tup, fshape)
        kind = rng.randrange(8)
        if kind <= 1:
            cases.append({"op": rng.choice(["or", "xor"]), "a": a, "b": b})
        elif kind == 2:
            cases.append({"op": rng.choice(["inv", "flatten"]), "a": a})
        elif kind == 3:
            cases.append({"op": rng.choice(["build", "maybe"]), "x": a, "f": {"mode": rng.choice(MODES), "v": rng.random() < 0.5}})
        elif kind == 4 and not fshape:
            cases.append({"op": rng.choice(["build", "maybe"]), "x": a, "f": {"mode": mb, "v": fb}})
        elif kind == 5 and not fshape:
            cases.append({"op": "build", "x": {"cls": "v", "p": a["p"], "n": n}, "f": {"mode": ma, "v": fa}})
        elif kind == 6:
            cases.append({"op": "unmask", "a": a, "d": b["p"], "ck": False})
        else:
            cases.append({"op": "unmask", "a": a, "d": None, "ck": rng.random() < 0.5})
        if rng.random() < 0.15:
            cases.append({"op": rng.choice(["orn", "xorn"]), "ms": [a, b, vmask(rng, rng.choice(VMODES), [rng.random() < 0.5 for _ in range(n)], tup, fshape)]})
    return cases


R2_SHAPES = [(1, 3), (1, 1), (2, 2), (3, 3), (3, 2), (2, 3), (3, 1), (2, 1)]


def gen_rank2(rng, reps):
    """Rank-1 flag over a rank-2 payload leaf: the region of the known finding (model follows
    the code there, so the correspondence is still checked)."""
    cases = []
    for (n, m) in R2_SHAPES:
        for _ in range(reps):
            fa = [rng.random() < 0.5 for _ in range(n)]
            fb = [rng.random() < 0.5 for _ in range(n)]
            ma, mb = rng.choice(["arr", "jit"]), rng.choice(["arr", "jit"])
            a, b = r2mask(rng, ma, fa, m), r2mask(rng, mb, fb, m)
            cases.append({"op": "or", "a": a, "b": b})
            cases.append({"op": "xor", "a": r2mask(rng, ma, fa, m), "b": r2mask(rng, mb, fb, m)})
            cases.append({"op": "unmask", "a": r2mask(rng, ma, fa, m), "d": rnd_arr(rng, (n, m)), "ck": False})
            cases.append({"op": "inv", "a": r2mask(rng, ma, fa, m)})
            cases.append({"op": "build", "x": r2mask(rng, ma, fa, m), "f": {"mode": mb, "v": fb}})
            cases.append({"op": "build", "x": {"cls": "r2", "p": a["p"]}, "f": {"mode": ma, "v": fa}})
            cases.append({"op": "unmask", "a": r2mask(rng, ma, fa, m), "d": None, "ck": rng.random() < 0.5})
    # the same payloads under vmap with scalar flags are the reference behaviour (class s, vmap mode)
    return cases


def gen_malformed(rng):
    """Shape / structure mismatches and constructor misuse: the implementation must raise."""
    cases = []
    for op in ("or", "xor"):
        for ma in ("py", "arr"):
            # different tree structures; different leaf shapes
            cases.append({"op": op, "a": smask(rng, ma, True, 0), "b": smask(rng, "arr", True, 1)})
            cases.append({"op": op, "a": smask(rng, ma, False, 2), "b": {"cls": "s", "mode": "arr", "v": True, "p": rnd_arr(rng, (3, 2))}})
        # vector lengths differ
        cases.append({"op": op, "a": vmask(rng, "arr", [True, False]), "b": vmask(rng, "arr", [True, False, True])})
        # scalar flag against vector flag over the same payload shape
        cases.append({"op": op, "a": {"cls": "s", "mode": "arr", "v": True, "p": rnd_arr(rng, (3,))}, "b": vmask(rng, "arr", [True, False, True])})
        cases.append({"op": op, "a": {"cls": "s", "mode": "py", "v": False, "p": rnd_arr(rng, (3,))}, "b": vmask(rng, "jit", [True, False, True])})
    # vector flag on a scalar-flag mask / on a scalar payload / of the wrong length
    cases.append({"op": "build", "x": {"cls": "s", "mode": "arr", "v": True, "p": rnd_arr(rng, (3,))}, "f": {"mode": "arr", "v": [True, False, True]}})
    cases.append({"op": "build", "x": {"cls": "s", "p": rnd_arr(rng, ())}, "f": {"mode": "arr", "v": [True, False]}})
    cases.append({"op": "build", "x": vmask(rng, "arr", [True, False, True]), "f": {"mode": "arr", "v": [True, False]}})
    cases.append({"op": "build", "x": {"cls": "v", "p": rnd_arr(rng, (3,)), "n": 3}, "f": {"mode": "arr", "v": [True, False]}})
    cases.append({"op": "maybe", "x": vmask(rng, "arr", [True, False, True]), "f": {"mode": "arr", "v": [True, False]}})
    return cases


def nontrivial(c):
    return c["op"] != "init"


def flag_refs(c):
    """All flag descriptors of a case (for the neighbourhood search)."""
    out = []
    for k in ("a", "b", "x", "f"):
        if k in c and isinstance(c[k], dict) and "v" in c[k]:
            out.append(c[k])
    out += list(c.get("ms", []))
    return out


def neighbours(c, rng, limit=48):
    """Same operation and payloads, other staging modes / truth values."""
    res = []
    refs = flag_refs(c)
    if not refs:
        return res
    for _ in range(limit):
        d = copy.deepcopy(c)
        for f in flag_refs(d):
            scalar = isinstance(f["v"], bool)
            if rng.random() < 0.7:
                f["mode"] = rng.choice(MODES if scalar else VMODES)
            if scalar:
                if rng.random() < 0.5:
                    f["v"] = not f["v"]
            else:
                arr = np.array(f["v"], dtype=bool)
                flip = np.array([rng.random() < 0.3 for _ in range(arr.size)]).reshape(arr.shape)
                f["v"] = np.logical_xor(arr, flip).tolist()
        res.append(d)
    return res


# ------------------------------------------------------------------ check


def signature(c, want, got):
    a = c.get("a") or c.get("x") or (c.get("ms") or [{}])[0]
    cls = a.get("cls", "s")
    if cls == "s":
        fr = 0
        p = a.get("p") or c.get("p")
        leaf = p
        while leaf and leaf[0] == "tup":
            leaf = leaf[1]
        vr = int(np.ndim(leaf[1])) if leaf else 0
    elif cls == "v":
        fr = int(np.ndim(a["v"])) if "v" in a else 1
        vr = fr
    else:
        fr, vr = 1, 2
    if got and got[0] == "err":
        symptom = "payload-misaligned" if (got[1] == "shape" and cls == "r2" and want[0] != "err") else "error:" + str(got[1])
    elif want and want[0] == "err":
        symptom = "no-error"
    elif got and want and got[0] != want[0]:
        symptom = "kind"
    elif got and want and len(got) > 1 and len(want) > 1 and got[1] != want[1] and got[0].startswith("mask"):
        symptom = "flag"
    else:
        symptom = "payload-misaligned" if cls == "r2" else "value"
    return {"op": c["op"], "flag_rank": fr, "value_rank": vr, "symptom": symptom}


def _run_cases(ctx: Ctx, cases: list, label, search: bool = True):
    """`label` is one string or a list with one label per case (all streams of a run go through
    ONE worker pool so that the implementation is imported only once per worker)."""
    if not cases:
        return
    labels = label if isinstance(label, list) else [label] * len(cases)
    Bsz = 16
    order = list(range(len(cases)))
    # interleave so that slow (jit / vmap) cases are spread over the batches
    batches_idx = [order[i::max(1, (len(cases) + Bsz - 1) // Bsz)] for i in range(max(1, (len(cases) + Bsz - 1) // Bsz))]
    batches = [[cases[i] for i in b] for b in batches_idx]
    res = common.run_impl_parallel("harness.props.c19", "impl_batch", batches)
    impl = [None] * len(cases)
    for bi, r in zip(batches_idx, res):
        if isinstance(r, dict) and ("__harness_error__" in r or "__worker_lost__" in r):
            raise common.Infra(str(r.get("__harness_error__") or r.get("__worker_lost__")) + r.get("tb", ""))
        if not isinstance(r, list) or len(r) != len(bi):
            raise common.Infra(f"worker returned a malformed batch result: {str(r)[:200]}")
        for i, x in zip(bi, r):
            impl[i] = x
    model = ask_driver([sx(case_sx(c)) for c in cases])
    to_search = []
    for c, im, mo, lab in zip(cases, impl, model, labels):
        ctx.count(lab)
        ctx.count("op:" + c["op"])
        modes = "+".join(f.get("mode", "-") for f in flag_refs(c)) or "none"
        ctx.count("modes:" + modes)
        cls = (c.get("a") or c.get("x") or (c.get("ms") or [{}])[0]).get("cls", "s")
        ctx.count("class:" + cls)
        ctx.case_done(c, nontrivial(c), {"request": sx(case_sx(c))[:200], "model": mo[:120], "impl": json.dumps(im["obs"][0])[:120]})
        ctx.traces_validated += 1
        want = spec(c)
        cm = canon_model(mo, c)
        ctx.count("outcome:" + (want[0] if want[0] != "err" else "err-" + want[1]))
        bad_pred = next((o for o in im["obs"] if o != want), None)
        if bad_pred is not None:
            sig = signature(c, want, bad_pred)
            ctx.fail("predicate", {"case": c}, {"required": want, "observed": bad_pred, "model": cm, "impl_msg": im.get("msg")}, sig, "C19 truth table (" + c["op"] + ")")
            # inside the finding's region the model must still describe the code
            if cm != bad_pred:
                ctx.fail("correspondence", {"case": c}, {"model": cm, "impl": bad_pred}, {"op": c["op"]}, "MaskModel." + c["op"] + " vs genjax.Mask (in a failing region)")
            continue
        bad_corr = next((o for o in im["obs"] if o != cm), None)
        if bad_corr is not None:
            to_search.append((c, cm, bad_corr))
    if to_search and search:
        # model != implementation although the table holds there: look around for a table failure
        nb = [d for c, _, _ in to_search[:5] for d in neighbours(c, ctx.rng)]
        before = len([f for f in ctx.failures if f.kind == "predicate"])
        _run_cases(ctx, nb, "neighbour-search", search=False)
        after = len([f for f in ctx.failures if f.kind == "predicate"])
        if after == before:
            for c, cm, got in to_search[:5]:
                ctx.fail("correspondence", {"case": c}, {"model": cm, "impl": got, "searched_neighbours": len(nb)}, {"op": c["op"]}, "MaskModel." + c["op"] + " vs genjax.Mask")
    elif to_search:
        for c, cm, got in to_search[:3]:
            ctx.fail("correspondence", {"case": c}, {"model": cm, "impl": got}, {"op": c["op"]}, "MaskModel." + c["op"] + " vs genjax.Mask")


def known_replays():
    """Dedicated replays of the known findings (run first on every run)."""
    out, seen = [], set()
    entries = [e for e in common.load_known("C19") if e.get("property") == "C19"]
    p = Path(__file__).resolve().parent.parent.parent / "tools" / "findings" / "C19.json"
    if p.exists():
        entries += json.loads(p.read_text())
    for e in entries:
        if e.get("id") in seen or "replay" not in e:
            continue
        seen.add(e.get("id"))
        out.append(e["replay"]["case"])
    return out


def run(ctx: Ctx):
    ctx.rule = ("one case = one Mask operation with concrete flags' truth values, a staging mode per flag "
                "(py / arr / jit / vmap), and random integer payloads; scalar-flag space enumerated completely "
                "(ops x modes^k x truth^k x 3 payload families), vector flags exhaustive at n=2 plus random n in {1,3,4,5} "
                "incl. rank-2 flags, rank-1-flag-over-rank-2-payload shapes (known-finding region), malformed shapes; "
                "non-trivial = every case but constructor calls; distinct by full case (op, modes, flags, payloads)")
    thorough = ctx.tier == "thorough"
    streams = [
        ("known-finding-replay", known_replays()),
        ("scalar-exhaustive", gen_scalar(ctx.rng)),
        ("vector", gen_vector(ctx.rng, 1500 if thorough else 250)),
        ("rank2-payload", gen_rank2(ctx.rng, 6 if thorough else 2)),
        ("malformed", gen_malformed(ctx.rng)),
    ]
    if thorough:
        extra = []
        for _ in range(3):
            extra += gen_scalar(ctx.rng)
        streams.append(("scalar-exhaustive-repayload", extra))
    ctx.exhaustive = True
    ctx.notes["exhaustive_space"] = ("scalar flags: {or,xor,build,maybe_mask on masks} x 4x4 modes x 2x2 truth values x 3 payload families; "
                                     "{invert,flatten,build,maybe_mask on values,unmask(default),unmask() with/without checkify} x 4 modes x 2 x 3; "
                                     "vector flags n=2: {or,xor} x 3x3 modes x 4x4 flag vectors")
    cases = [c for _, cs in streams for c in cs]
    labels = [lab for lab, cs in streams for _ in cs]
    scale = float(os.environ.get("VERIF_SCALE") or 1)
    if scale < 1:  # developer switch (mutant runs on a loaded machine); the registered commands never set it
        keep = [i for i, lab in enumerate(labels) if lab == "known-finding-replay" or ctx.rng.random() < scale]
        cases, labels = [cases[i] for i in keep], [labels[i] for i in keep]
        ctx.exhaustive = False
        ctx.notes["subsampled"] = scale
    _run_cases(ctx, cases, labels)


def replay(ctx: Ctx, payload: dict):
    c = payload["case"]["case"] if "case" in payload.get("case", {}) else payload["case"]
    _run_cases(ctx, [c], "replay")


SPEC = Spec(
    prop_id="C19",
    modules=["GenjaxVerif.Props.C19"],
    theorems=[
        "GenjaxVerif.MaskModel.C19_or_table", "GenjaxVerif.MaskModel.C19_invert_involutive", "GenjaxVerif.MaskModel.C19_or_assoc_obs", "GenjaxVerif.MaskModel.C19_or_invert_self", "GenjaxVerif.MaskModel.C19_xor_table", "GenjaxVerif.MaskModel.C19_invert",
        "GenjaxVerif.MaskModel.C19_build_val", "GenjaxVerif.MaskModel.C19_build_and", "GenjaxVerif.MaskModel.C19_flatten",
        "GenjaxVerif.MaskModel.C19_flatten_obs", "GenjaxVerif.MaskModel.C19_maybeMask_val", "GenjaxVerif.MaskModel.C19_maybeMask_obs",
        "GenjaxVerif.MaskModel.C19_unmask_default", "GenjaxVerif.MaskModel.C19_unmask_nodefault", "GenjaxVerif.MaskModel.C19_init",
        "GenjaxVerif.MaskModel.C19_orN", "GenjaxVerif.MaskModel.C19_xorN", "GenjaxVerif.MaskModel.C19_mode_invariance",
        "GenjaxVerif.MaskModel.C19_vec_or", "GenjaxVerif.MaskModel.C19_vec_xor", "GenjaxVerif.MaskModel.C19_vec_shape_error",
        "GenjaxVerif.MaskModel.C19_vec_invert", "GenjaxVerif.MaskModel.C19_vec_build", "GenjaxVerif.MaskModel.C19_vec_unmask_default",
        "GenjaxVerif.MaskModel.C19_vec_unmask_nodefault", "GenjaxVerif.MaskModel.C19_rank2_refuted",
        "GenjaxVerif.MaskModel.C19_rank2_unmask_refuted", "GenjaxVerif.MaskModel.C19_rank2_shape_error",
        "GenjaxVerif.MaskModel.C19_rank2_or_partial", "GenjaxVerif.MaskModel.C19_rank2_flags",
    ],
    strength="partial",
    run=run,
    replay=replay,
    assumptions=[
        "a flag in 'arr', 'jit' or 'vmap' mode is modelled by the single mode `dyn` (JAX tracing/batching of elementwise ops is trusted)",
        "payloads are integer arrays / tuples of them; a pytree is selected leaf by leaf by jax.tree_util (trusted)",
        "Diff-wrapped flags, Mask.__getitem__, zero-length axes, and unmask(default) with a merely broadcastable default are outside the model",
        "full for scalar flags and for vector flags whose payload leaves have the flag's shape; for a rank-1 flag over a rank-2 leaf "
        "the table is refuted for the model (C19_rank2_refuted) exactly as for the code (known finding) — only the one-row case is proved",
    ],
)
