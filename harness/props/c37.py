"""C37 — DiscreteHMM posterior density and sampler are exact.

Implementation side (public path `genjax.DiscreteHMM`, `genjax.DiscreteHMMConfiguration`; the
forward filters through `forward_filtering_backward_sampling`, the anchored mechanism):

  for every small configuration (linear_grid_dim 2..5, adjacency distances 0..2 (+3 for N>=4),
  several (sigma_trans, sigma_obs) pairs) and every observation sequence of length 1..4
  (all of them while N^L <= 64, a seeded sample beyond):
    estimate_logpdf(v) for EVERY latent sequence v, data_logpdf, the forward filters,
    and for a few (configuration, observation) pairs 20000 draws of random_weighted.

Correspondence: the REAL tensors (softmax of config.transition_tensor() / observation_tensor(),
prior = softmax(tt[int(N/2)])) are converted float32 -> Q exactly and sent to the Lean model
(driver command `hmm`); compared in the probability domain (1e-5 abs + 1e-4 rel):
  exp(estimate_logpdf) vs seqPosterior, exp(data_logpdf) vs dataLik, exp(forward_filters) vs
  `filters`, sampler frequencies vs ffbsDist (total variation, loose), errors vs `estimate`;
  config.transition_tensor() vs `circulant (source N k eps delta)` for exactly representable sigma.

Predicate (implementation alone, float64 numpy brute force from the tensors):
  sum_v exp(estimate_logpdf(v)) = 1;  exp(estimate_logpdf(v)) = joint(v) / sum joint;
  exp(data_logpdf) = sum joint;  forward filters = brute-force filtering distributions;
  random_weighted's weight = estimate_logpdf of its own sample; its samples follow the posterior
  (total variation, statistical, loose threshold).
"""

from __future__ import annotations

import itertools
import json
import math
import os
import time
from concurrent.futures import ThreadPoolExecutor
from fractions import Fraction
from pathlib import Path

from harness import common
from harness.common import Ctx, Spec, ask_driver, parse_sx, sx

SIGMA_PAIRS = [(0.5, 0.7), (0.5, 0.5), (1.5, 0.3), (1.0, 2.0), (0.25, 0.25), (0.8, 1.2)]
EXACT_SIGMAS = [0.5, 0.25, 2.0, 1.5, 1.0]  # powers and reciprocal exact in float32
N_SAMPLES = 20000
ATOL, RTOL = 1e-5, 1e-4
FINDING_SIG = {
    "call": "forward_filtering_backward_sampling.forward_pass.t_branch",
    "feature": "asymmetric_transition_matrix",
}
FINDINGS_FILE = Path(__file__).resolve().parent.parent.parent / "tools" / "findings" / "C37.json"


def structurally_asymmetric(N, kt, st):
    """scaled_circulant's source satisfies c[m] = c[N-m] unless the band wraps (2k > N)."""
    return N >= 3 and 2 * kt > N and st != 1.0


def all_seqs(N, L):
    return [list(p) for p in itertools.product(range(N), repeat=L)]


# ------------------------------------------------------------------ implementation side


def _cfg(N, kt, ko, st, so):
    import jax.numpy as jnp
    from genjax import DiscreteHMMConfiguration

    return DiscreteHMMConfiguration(jnp.array(N), jnp.array(kt), jnp.array(ko), jnp.array(st), jnp.array(so))


def _tensors(cfg, N):
    """The tensors exactly as the implementation forms them (float32 softmax)."""
    import jax
    import jax.numpy as jnp
    import numpy as np

    tt = jnp.asarray(cfg.transition_tensor())
    ot = jnp.asarray(cfg.observation_tensor())
    T = np.asarray(jax.nn.softmax(tt), dtype=np.float64)
    O = np.asarray(jax.nn.softmax(ot), dtype=np.float64)
    init = np.asarray(jax.nn.softmax(tt[int(N / 2), :]), dtype=np.float64)
    return np.asarray(tt, dtype=np.float64), np.asarray(ot, dtype=np.float64), T, O, init


def _brute_joint(T, O, init, seqs, obs):
    """joint[o, s] in float64 for every observation sequence o and latent sequence s."""
    import numpy as np

    seqs = np.asarray(seqs)
    obs = np.asarray(obs)
    L = seqs.shape[1]
    j = init[seqs[:, 0]][None, :] * O[seqs[:, 0]][:, obs[:, 0]].T
    for t in range(1, L):
        j = j * T[seqs[:, t - 1], seqs[:, t]][None, :] * O[seqs[:, t]][:, obs[:, t]].T
    return j


def _brute_filters(T, O, init, N, obs):
    """P(x_t | y_1..t) by enumeration of all prefixes (no recursion shared with the code)."""
    import numpy as np

    obs = np.asarray(obs)
    L = obs.shape[1]
    out = np.zeros((obs.shape[0], L, N))
    for t in range(1, L + 1):
        pre = np.asarray(all_seqs(N, t))
        j = _brute_joint(T, O, init, pre, obs[:, :t])
        for x in range(N):
            out[:, t - 1, x] = j[:, pre[:, -1] == x].sum(axis=1)
        out[:, t - 1, :] /= out[:, t - 1, :].sum(axis=1, keepdims=True)
    return out


def _close(a, b):
    import numpy as np

    return np.abs(a - b) <= ATOL + RTOL * np.abs(b)


def _expected_tv(p, S):
    import numpy as np

    return 0.5 * float(np.sqrt(2 * p * (1 - p) / (math.pi * S)).sum())


def _run_config(c, N, L, obs_list, sampler_obs, seqs):
    import jax
    import jax.numpy as jnp
    import numpy as np
    from genjax import DiscreteHMM
    from genjax._src.generative_functions.distributions.custom import discrete_hmm as M

    kt, ko, st, so = c
    cfg = _cfg(N, kt, ko, st, so)
    tt, ot, T, O, init = _tensors(cfg, N)
    key = jax.random.key(0)
    seqs_j = jnp.asarray(seqs, dtype=jnp.int32)
    obs_j = jnp.asarray(obs_list, dtype=jnp.int32)
    est = jax.vmap(jax.vmap(lambda v, o: DiscreteHMM.estimate_logpdf(key, v, cfg, o), in_axes=(0, None)), in_axes=(None, 0))(
        seqs_j, obs_j
    )
    data = jax.vmap(lambda o: DiscreteHMM.data_logpdf(cfg, o))(obs_j)
    filt = jax.vmap(lambda o: M.forward_filtering_backward_sampling(key, cfg, o)[1][1])(obs_j)
    est = np.asarray(est, dtype=np.float64)
    data = np.asarray(data, dtype=np.float64)
    filt = np.asarray(filt, dtype=np.float64)

    # ---- predicate on the implementation alone
    pred = []
    joint = _brute_joint(T, O, init, seqs, obs_list)
    Z = joint.sum(axis=1)
    post = joint / Z[:, None]
    p_est = np.exp(est)
    tot = p_est.sum(axis=1)
    for o in np.nonzero(~(np.abs(tot - 1.0) <= 1e-4))[0][:3]:
        pred.append({"check": "normalised", "obs": obs_list[o], "got": float(tot[o]), "want": 1.0})
    bad = ~_close(p_est, post)
    for o, s in list(zip(*np.nonzero(bad)))[:3]:
        pred.append({"check": "estimate_logpdf", "obs": obs_list[o], "seq": seqs[s], "got": float(est[o, s]), "want": float(np.log(post[o, s]))})
    badd = ~_close(np.exp(data), Z)
    for o in np.nonzero(badd)[0][:3]:
        pred.append({"check": "data_logpdf", "obs": obs_list[o], "got": float(data[o]), "want": float(np.log(Z[o]))})
    tf = _brute_filters(T, O, init, N, obs_list)
    badf = ~_close(np.exp(filt), tf)
    for o in np.nonzero(badf.any(axis=(1, 2)))[0][:3]:
        pred.append({"check": "filters", "obs": obs_list[o], "got": np.exp(filt[o]).round(6).tolist(), "want": tf[o].round(6).tolist()})

    # ---- sampler
    samp = []
    for oi in sampler_obs:
        keys = jax.random.split(jax.random.key(1000 + 17 * oi + 7919 * kt + 104729 * ko), N_SAMPLES)
        w, v = jax.vmap(lambda k: DiscreteHMM.random_weighted(k, cfg, obs_j[oi]))(keys)
        v = np.asarray(v)
        w = np.asarray(w, dtype=np.float64)
        idx = (v * (N ** np.arange(L - 1, -1, -1))[None, :]).sum(axis=1)
        ok_range = bool(((v >= 0) & (v < N)).all())
        counts = np.bincount(idx, minlength=N**L) if ok_range else np.zeros(N**L, dtype=int)
        wdiff = float(np.abs(w - est[oi][idx]).max()) if ok_range else float("inf")
        freq = counts / N_SAMPLES
        tv = 0.5 * float(np.abs(freq - post[oi]).sum())
        thr = 0.03 + 3.0 * _expected_tv(post[oi], N_SAMPLES)
        if wdiff > 1e-4:
            pred.append({"check": "weight", "obs": obs_list[oi], "got": wdiff, "want": 0.0})
        if tv > thr:
            pred.append({"check": "sampler", "obs": obs_list[oi], "got": tv, "want": f"<= {thr:.4f}"})
        samp.append({"obs_index": oi, "counts": counts.tolist(), "tv_posterior": tv, "thr": thr, "wdiff": wdiff})

    sym_defect = float(np.abs(T - T.T).max())
    return {
        "T": T.tolist(), "O": O.tolist(), "init": init.tolist(), "tt": tt.tolist(), "ot": ot.tolist(),
        "est": p_est.tolist(), "data": np.exp(data).tolist(), "filt": np.exp(filt).tolist(),
        "pred": pred, "samp": samp, "sym_defect": sym_defect,
        "finite": bool(np.isfinite(est).all() and np.isfinite(data).all()),
    }


def impl_batch(batch):
    """One (N, L) unit: every configuration on the same shapes (eager-mode caches stay warm)."""
    if batch.get("kind") == "misc":
        return _misc_batch(batch)
    N, L = batch["N"], batch["L"]
    seqs = all_seqs(N, L)
    out = []
    stop = min(batch["deadline"], time.time() + batch.get("share", 1e9))
    for i, (c, sampler_obs) in enumerate(zip(batch["configs"], batch["sampler"])):
        if i >= batch.get("must", 0) and time.time() > stop:
            out.append({"skipped": True})
            continue
        try:
            out.append(_run_config(tuple(c), N, L, batch["obs"], sampler_obs, seqs))
        except Exception as e:  # noqa: BLE001
            out.append({"error": type(e).__name__, "msg": str(e)[:300]})
    return out


def _classify(x):
    import numpy as np

    x = np.asarray(x, dtype=np.float64)
    if np.isnan(x).any():
        return "nan"
    if np.isinf(x).any():
        return "inf"
    return "finite"


def _misc_batch(batch):
    """Edge stream (errors, sigma <= 0, out-of-range indices) and the logits of the tensors."""
    import jax
    import jax.numpy as jnp
    import numpy as np
    from genjax import DiscreteHMM

    key = jax.random.key(0)
    out = {"edge": [], "circ": []}
    for e in batch["edge"]:
        N, kt, ko, st, so = e["cfg"]
        try:
            cfg = _cfg(N, kt, ko, st, so)
            if e["op"] == "estimate":
                r = DiscreteHMM.estimate_logpdf(key, jnp.asarray(e["seq"], dtype=jnp.int32), cfg, jnp.asarray(e["obs"], dtype=jnp.int32))
            elif e["op"] == "data":
                r = DiscreteHMM.data_logpdf(cfg, jnp.asarray(e["obs"], dtype=jnp.int32))
            else:
                r, _ = DiscreteHMM.random_weighted(key, cfg, jnp.asarray(e["obs"], dtype=jnp.int32))
            tens = None
            if e.get("tensors"):
                _, _, T, O, init = _tensors(cfg, N)
                tens = {"T": T.tolist(), "O": O.tolist(), "init": init.tolist()}
            out["edge"].append({"value": float(r), "class": _classify(r), "tensors": tens})
        except Exception as ex:  # noqa: BLE001
            out["edge"].append({"error": type(ex).__name__, "msg": str(ex)[:200]})
    for N, k, s in batch["circ"]:
        try:
            cfg = _cfg(N, k, k, s, s)
            out["circ"].append({"tt": np.asarray(cfg.transition_tensor(), dtype=np.float64).tolist(),
                                "ot": np.asarray(cfg.observation_tensor(), dtype=np.float64).tolist()})
        except Exception as ex:  # noqa: BLE001
            out["circ"].append({"error": type(ex).__name__, "msg": str(ex)[:200]})
    return out


# ------------------------------------------------------------------ model side


def _rat(x: float) -> str:
    f = Fraction(x)
    return str(f.numerator) if f.denominator == 1 else f"{f.numerator}/{f.denominator}"


def _num(a: str) -> float:
    if "/" in a:
        p, q = a.split("/")
        return int(p) / int(q)
    return float(int(a))


def _hmm_line(variant, r, obs_list):
    return sx(["hmm", variant, ["init"] + [_rat(x) for x in r["init"]],
               ["trans"] + [[_rat(x) for x in row] for row in r["T"]],
               ["obs"] + [[_rat(x) for x in row] for row in r["O"]],
               ["yss"] + [list(o) for o in obs_list]])


def _ask_parallel(lines, threads=8):
    if not lines:
        return []
    chunks = [lines[i::threads] for i in range(threads)]
    with ThreadPoolExecutor(threads) as ex:
        res = list(ex.map(lambda ch: ask_driver(ch) if ch else [], chunks))
    out = [None] * len(lines)
    for k, r in enumerate(res):
        for j, x in enumerate(r):
            out[k + j * threads] = x
    return out


def _parse_model(resp):
    """-> (flags, [case dict of float arrays]) or raises ValueError on (err ...)."""
    import numpy as np

    t = parse_sx(resp)
    if t[0] != "ok":
        raise ValueError(resp[:200])
    flags = {x[0]: x[1] for x in t[1:6]}
    cases = []
    for c in t[6:]:
        d = {x[0]: x[1:] for x in c[1:]}
        cases.append({
            "lik": _num(d["lik"][0]), "fwd": _num(d["fwd"][0]),
            "filters": np.array([[_num(a) for a in row] for row in d["filters"]]),
            "post": np.array([_num(a) for a in d["post"]]),
            "ffbs": np.array([_num(a) for a in d["ffbs"]]),
        })
    return flags, cases


# ------------------------------------------------------------------ check


def _compare_config(ctx: Ctx, N, L, c, obs_list, r, model_w, model_t):
    """Correspondence + relabelled predicate failures for one configuration on one (N, L)."""
    import numpy as np

    kt, ko, st, so = c
    base = {"N": N, "kt": kt, "ko": ko, "st": st, "so": so}
    asym = structurally_asymmetric(N, kt, st)
    flags, cw = model_w
    ct = model_t[1] if model_t is not None else None
    est, data, filt = np.array(r["est"]), np.array(r["data"]), np.array(r["filt"])
    label = "asym" if asym else "sym"
    ctx.count(f"config:{label}")
    ctx.count(f"N={N}")
    ctx.count(f"L={L}")
    ctx.count(f"kt={kt}")
    ctx.count(f"ko={ko}")
    ctx.count(f"sigma={st}/{so}")
    if flags["pos"] != "T" or flags["stoch"] == "T":
        # float32 softmax rows are positive; they sum to one only up to rounding (so `stoch` is
        # normally F on the exact rationals) — recorded, not required
        ctx.count(f"model-flags:pos={flags['pos']},stoch={flags['stoch']}")
    if not asym and r["sym_defect"] > 1e-6:
        ctx.fail("correspondence", {**base, "obs": obs_list[0]}, {"why": "2*kt <= N but softmax(transition_tensor) is not symmetric", "max_abs": r["sym_defect"]},
                 {**base, "check": "symmetry"}, "C37_config_trans_symm vs softmax(scaled_circulant)")
    impl_variant = "written"
    filt_matches_written = True
    for oi, obs in enumerate(obs_list):
        case = {**base, "obs": list(obs)}
        m = cw[oi]
        ctx.traces_validated += 1
        ctx.case_done(case, L >= 2, {"case": case, "model_lik": m["lik"], "impl_lik": float(data[oi])} if oi == 0 else None)
        if not _close(est[oi], m["post"]).all():
            s = int(np.argmax(np.abs(est[oi] - m["post"])))
            ctx.fail("correspondence", case, {"seq_index": s, "impl": float(est[oi][s]), "model": float(m["post"][s])}, {**base, "check": "estimate_logpdf"}, "HMM.seqPosterior vs DiscreteHMM.estimate_logpdf")
        if not _close(data[oi], m["lik"]):
            ctx.fail("correspondence", case, {"impl": float(data[oi]), "model": m["lik"]}, {**base, "check": "data_logpdf"}, "HMM.dataLik vs DiscreteHMM.data_logpdf")
        okw = bool(_close(filt[oi], m["filters"]).all())
        okt = ct is not None and bool(_close(filt[oi], ct[oi]["filters"]).all())
        if not okw:
            filt_matches_written = False
            if okt:
                impl_variant = "textbook"
            else:
                ctx.fail("correspondence", case, {"impl": filt[oi].round(7).tolist(), "model_written": m["filters"].round(7).tolist()}, {**base, "check": "filters"}, "HMM.filters vs forward_filtering_backward_sampling")
        if not asym:
            # theorem C37_ffbs_eq_posterior_partial / C37_forward_total on the real tensors: the symmetry
            # hypothesis holds up to float rounding, so must the conclusions
            if not (np.abs(m["ffbs"] - m["post"]) <= 1e-5).all() or abs(m["fwd"] - m["lik"]) > 1e-5 * m["lik"]:
                ctx.fail("correspondence", case, {"why": "model: ffbsDist != posterior on a structurally symmetric configuration", "max": float(np.abs(m["ffbs"] - m["post"]).max())}, {**base, "check": "model-symmetry"}, "C37_ffbs_eq_posterior_partial hypothesis on real tensors")
    ctx.count(f"{label}:impl-forward={impl_variant}")
    # sampler frequencies against the model's table (supporting evidence, loose)
    for s in r["samp"]:
        oi = s["obs_index"]
        table = (ct if impl_variant == "textbook" and ct is not None else cw)[oi]["ffbs"]
        freq = np.array(s["counts"]) / N_SAMPLES
        tv = 0.5 * float(np.abs(freq - table).sum())
        ctx.count("sampler-runs")
        ctx.notes["max_sampler_tv_vs_model"] = max(ctx.notes.get("max_sampler_tv_vs_model", 0.0), round(tv, 4))
        if tv > s["thr"] + 0.02:
            ctx.fail("correspondence", {**base, "obs": list(obs_list[oi])}, {"tv": tv, "threshold": s["thr"] + 0.02, "n": N_SAMPLES}, {**base, "check": "sampler-vs-model"}, "HMM.ffbsDist vs random_weighted frequencies")
    # predicate failures found by the worker
    for p in r["pred"]:
        case = {**base, "obs": list(p["obs"])}
        sig = {**base, "check": p["check"], "L": L}
        if asym and L >= 2 and p["check"] in ("filters", "sampler") and filt_matches_written:
            sig = {**FINDING_SIG, **sig}
            ctx.count("known-finding-region-failures")
        ctx.fail("predicate", case, p, sig, {"filters": "forward filters = filtering distributions", "sampler": "random_weighted ~ posterior",
                                             "weight": "random_weighted weight = estimate_logpdf(sample)", "normalised": "C37_posterior_normalised",
                                             "estimate_logpdf": "C37_estimate_ok", "data_logpdf": "C37_data_logpdf_spec"}.get(p["check"], p["check"]))


def _configs(ctx: Ctx, N, pairs, quick):
    """-> (configs, must): the first `must` configurations are run whatever the time budget
    (one plain, one with a wrapping = asymmetric transition band), the rest in seeded order."""
    kts = [0, 1, 2] + ([3] if N >= 4 else [])
    st0, so0 = pairs[0]
    first = [(1, 1, st0, so0), (2 if N == 3 else 3 if N >= 4 else 0, 1, st0, so0)]
    rest = [(kt, ko, st0, so0) for kt in kts for ko in (0, 1, 2)]
    for pr in pairs[1:]:
        more = [(kt, ko, pr[0], pr[1]) for kt in kts for ko in (0, 1, 2)]
        rest += ctx.rng.sample(more, 4) if quick else more
    rest = [c for c in rest if c not in first]
    ctx.rng.shuffle(rest)
    return first + rest, len(first)


def _run_units(ctx: Ctx, units, misc=None):
    """units: list of dict(N, L, configs, obs, sampler)."""
    deadline = time.time() + max(45.0, ctx.time_left() - 75.0)
    procs = max(1, min(16, int(os.environ.get("VERIF_PROCS", "16"))))
    share = max(20.0, (deadline - time.time()) * min(1.0, procs / max(1, len(units) + 1)))
    for u in units:
        u["deadline"] = deadline
        u["share"] = share  # every unit gets its slice of the budget even when units queue for workers
    units.sort(key=lambda u: -(len(u["configs"]) * (len(u["obs"]) + 20) * u["N"] ** u["L"]))
    res = common.run_impl_parallel("harness.props.c37", "impl_batch", units + ([misc] if misc else []))
    if misc:
        _misc_compare(ctx, misc, res[-1])
        res = res[:-1]
    lines, where = [], []
    for ui, (u, rs) in enumerate(zip(units, res)):
        if isinstance(rs, dict) and "__harness_error__" in rs:
            raise common.Infra(rs["__harness_error__"] + rs.get("tb", ""))
        if isinstance(rs, dict) and "__worker_lost__" in rs:
            raise common.Infra(f"worker for unit N={u['N']} L={u['L']} lost: {rs['__worker_lost__']}")
        for ci, (c, r) in enumerate(zip(u["configs"], rs)):
            if r.get("skipped"):
                ctx.count("skipped-for-time")
                continue
            if "error" in r:
                ctx.fail("predicate", {"N": u["N"], "kt": c[0], "ko": c[1], "st": c[2], "so": c[3], "obs": list(u["obs"][0])}, {"impl_error": r},
                         {"N": u["N"], "kt": c[0], "ko": c[1], "check": "raises"}, "DiscreteHMM runs on a valid configuration")
                continue
            if not r["finite"]:
                ctx.fail("predicate", {"N": u["N"], "kt": c[0], "ko": c[1], "st": c[2], "so": c[3], "obs": list(u["obs"][0])}, {"why": "non-finite log density on a valid configuration"},
                         {"N": u["N"], "kt": c[0], "ko": c[1], "check": "finite"}, "DiscreteHMM finite on sigma > 0")
                continue
            lines.append(_hmm_line("written", r, u["obs"]))
            where.append((ui, ci, "w"))
            if structurally_asymmetric(u["N"], c[0], c[2]):
                lines.append(_hmm_line("textbook", r, u["obs"]))
                where.append((ui, ci, "t"))
    resp = _ask_parallel(lines)
    parsed = {}
    for w, rp in zip(where, resp):
        try:
            parsed[w] = _parse_model(rp)
        except ValueError as e:
            ctx.fail("correspondence", {"unit": w[:2]}, {"model_error": str(e)}, {"check": "driver"}, "driver hmm")
    for ui, u in enumerate(units):
        for ci, c in enumerate(u["configs"]):
            if (ui, ci, "w") in parsed:
                _compare_config(ctx, u["N"], u["L"], tuple(c), u["obs"], res[ui][ci], parsed[(ui, ci, "w")], parsed.get((ui, ci, "t")))


def _obs_for(ctx: Ctx, N, L, limit):
    seqs = all_seqs(N, L)
    if len(seqs) <= 64:
        return seqs, True
    return ctx.rng.sample(seqs, limit), False


def _pick_sampler(ctx: Ctx, N, L, configs, obs, n_cfg):
    """choose which (configuration, observation) pairs get a sampling run: L >= 2, prefer
    non-palindromic observation sequences (so a reversed output cannot go unnoticed)."""
    out = [[] for _ in configs]
    if L < 2:
        return out
    nonpal = [i for i, o in enumerate(obs) if list(o) != list(o)[::-1]] or list(range(len(obs)))
    for ci in [0] + ctx.rng.sample(range(1, len(configs)), min(n_cfg, len(configs) - 1)):
        out[ci] = [ctx.rng.choice(nonpal)]
    return out


def _misc_batch_spec():
    edge = [
        {"name": "length-mismatch", "op": "estimate", "cfg": (3, 1, 1, 0.5, 0.7), "seq": [0, 1], "obs": [0]},
        {"name": "length-mismatch", "op": "estimate", "cfg": (4, 1, 0, 0.5, 0.7), "seq": [2], "obs": [0, 3, 1]},
        {"name": "empty", "op": "estimate", "cfg": (3, 1, 1, 0.5, 0.7), "seq": [], "obs": []},
        {"name": "empty", "op": "data", "cfg": (3, 1, 1, 0.5, 0.7), "obs": []},
        {"name": "latent-out-of-range", "op": "estimate", "cfg": (3, 1, 1, 0.5, 0.7), "seq": [0, 5], "obs": [0, 1]},
        {"name": "obs-out-of-range", "op": "estimate", "cfg": (3, 1, 1, 0.5, 0.7), "seq": [0, 1], "obs": [0, 7]},
        {"name": "single-state", "op": "estimate", "cfg": (1, 0, 0, 0.5, 0.5), "seq": [0, 0], "obs": [0, 0]},
        {"name": "sigma_trans<=0,in-band", "op": "estimate", "cfg": (3, 1, 1, 0.0, 0.7), "seq": [1, 1], "obs": [0, 1]},
        {"name": "sigma_trans<=0,out-of-band", "op": "estimate", "cfg": (5, 1, 1, 0.0, 0.7), "seq": [2, 2], "obs": [0, 1]},
        {"name": "sigma_trans<0,out-of-band", "op": "data", "cfg": (5, 1, 1, -1.0, 0.7), "obs": [0, 1]},
        {"name": "sigma_obs<=0,out-of-band", "op": "estimate", "cfg": (5, 1, 1, 0.5, 0.0), "seq": [0, 1], "obs": [0, 1]},
        {"name": "sigma_obs<=0,sampler", "op": "sample", "cfg": (5, 1, 1, 0.5, -1.0), "obs": [2, 3]},
    ]
    circ = [(N, k, s) for N in range(2, 7) for k in range(0, 4) for s in EXACT_SIGMAS]
    return {"kind": "misc", "edge": edge, "circ": circ}


def _misc_compare(ctx: Ctx, spec, r):
    import numpy as np

    edge, circ = spec["edge"], spec["circ"]
    if "__harness_error__" in r:
        raise common.Infra(r["__harness_error__"] + r.get("tb", ""))
    if "__worker_lost__" in r:
        raise common.Infra("worker for the edge/logits batch lost: " + r["__worker_lost__"])
    # edge stream: errors are compared as errors; everything else is only recorded
    lines, idx = [], []
    for i, (e, o) in enumerate(zip(edge, r["edge"])):
        cls = "error:" + o["error"] if "error" in o else o["class"]
        ctx.count(f"edge:{e['name']}:{cls}")
        ctx.case_done({"edge": e["name"], "cfg": e["cfg"]}, False)
        if e["name"] in ("length-mismatch", "empty") and e["op"] == "estimate":
            n = e["cfg"][0]  # only the lengths matter for these errors: a uniform HMM of the right size
            u = f"1/{n}"
            lines.append(sx(["hmmest", ["init"] + [u] * n, ["trans"] + [[u] * n] * n, ["obs"] + [[u] * n] * n, ["seq"] + e["seq"], ["ys"] + e["obs"]]))
            idx.append(i)
    for i, mo in zip(idx, ask_driver(lines)):
        e, o = edge[i], r["edge"][i]
        ctx.traces_validated += 1
        model_err = mo.startswith("(err")
        impl_err = "error" in o
        if model_err != impl_err:
            kind = "predicate" if not impl_err else "correspondence"
            ctx.fail(kind, {"edge": e["name"], "cfg": list(e["cfg"]), "seq": e["seq"], "obs": e["obs"]}, {"model": mo, "impl": o},
                     {"check": "error-" + e["name"]}, "C37_estimate_errors")
    # logits: scaled_circulant vs circulant (source N k sigma 1/sigma)
    lines = [sx(["hmmcirc", N, k, _rat(s), _rat(1.0 / s)]) for (N, k, s) in circ]
    for (N, k, s), mo, o in zip(circ, ask_driver(lines), r["circ"]):
        ctx.count("circulant-logits")
        ctx.traces_validated += 1
        ctx.case_done({"circ": [N, k, s]}, True)
        if "error" in o:
            ctx.fail("predicate", {"circ": [N, k, s]}, {"impl_error": o}, {"check": "circ-raises", "N": N, "k": k}, "transition_tensor runs")
            continue
        t = parse_sx(mo)
        if t[0] != "ok":
            ctx.fail("correspondence", {"circ": [N, k, s]}, {"model": mo[:200]}, {"check": "circ"}, "HMM.circulant")
            continue
        m = np.array([[_num(a) for a in row] for row in t[1:]])
        for name in ("tt", "ot"):
            a = np.array(o[name])
            if a.shape != m.shape or not (np.abs(a - m) <= 1e-6 * (1 + np.abs(m))).all():
                ctx.fail("correspondence", {"circ": [N, k, s], "tensor": name}, {"impl": a.tolist(), "model": m.tolist()}, {"check": "circ", "N": N, "k": k, "sigma": s},
                         "HMM.circulant/source vs scaled_circulant")
        sym = bool((np.array(o["tt"]) == np.array(o["tt"]).T).all())
        if sym != (not structurally_asymmetric(N, k, s)):
            ctx.fail("correspondence", {"circ": [N, k, s]}, {"impl_symmetric": sym, "rule_says_asymmetric": structurally_asymmetric(N, k, s)}, {"check": "circ-symmetry", "N": N, "k": k, "sigma": s},
                     "C37_config_trans_symm (2k <= N) vs transition_tensor")


def _finding_replays():
    if not FINDINGS_FILE.exists():
        return []
    return [e["replay"] for e in json.loads(FINDINGS_FILE.read_text()) if e.get("property") == "C37"]


def run(ctx: Ctx):
    ctx.rule = ("configuration (linear_grid_dim 2..5, adjacency_distance_trans 0..2 (+3 for N>=4), adjacency_distance_obs 0..2, "
                "(sigma_trans, sigma_obs) pairs incl. equal/unequal/1.0) x observation sequence of length 1..4 (all sequences while N^L <= 64, "
                "a seeded sample beyond); each case evaluates estimate_logpdf on ALL N^L latent sequences, data_logpdf and the forward "
                "filters; non-trivial = length >= 2; distinct by (configuration, observation sequence)")
    quick = ctx.tier == "quick"
    if quick:
        pairs = [SIGMA_PAIRS[0]] + ctx.rng.sample(SIGMA_PAIRS[1:], 1)
        obs_limit, n_samp = 8, 2
    else:
        pairs = list(SIGMA_PAIRS)
        obs_limit, n_samp = 16, 5
    ctx.notes["sigma_pairs"] = pairs
    units = []
    exhaustive_all = True
    replays = _finding_replays()
    for N in (2, 3, 4, 5):
        for L in (1, 2, 3, 4):
            configs, must = _configs(ctx, N, pairs, quick)
            for rp in replays:  # known-finding replays run every time
                c = (rp["kt"], rp["ko"], rp["st"], rp["so"])
                if rp["N"] == N and len(rp["obs"]) == L and c not in configs[:must]:
                    configs = [c] + [x for x in configs if x != c]
                    must += 1
            obs, ex = _obs_for(ctx, N, L, obs_limit if N**L <= 256 else 8)
            exhaustive_all &= ex
            for rp in replays:
                if rp["N"] == N and len(rp["obs"]) == L and list(rp["obs"]) not in [list(o) for o in obs]:
                    obs.append(list(rp["obs"]))
            units.append({"N": N, "L": L, "configs": configs, "must": must, "obs": obs, "sampler": _pick_sampler(ctx, N, L, configs, obs, n_samp)})
    _run_units(ctx, units, _misc_batch_spec())
    ctx.notes["exhaustive_space"] = ("all observation sequences and all latent sequences for every listed configuration with N^L <= 64; "
                                     f"{obs_limit} seeded observation sequences x all latent sequences beyond")
    ctx.exhaustive = False  # the configuration space (sigmas) is sampled; observation/latent spaces are exhaustive where stated


def replay(ctx: Ctx, payload: dict):
    case = payload["case"]
    if "edge" in case or "circ" in case or "unit" in case:
        spec = _misc_batch_spec()
        _misc_compare(ctx, spec, common.run_impl_parallel("harness.props.c37", "impl_batch", [spec], procs=1)[0])
        return
    N, obs = case["N"], list(case["obs"])
    c = (case["kt"], case["ko"], case["st"], case["so"])
    _run_units(ctx, [{"N": N, "L": len(obs), "configs": [c], "obs": [obs], "sampler": [[0] if len(obs) >= 2 else []]}])


SPEC = Spec(
    prop_id="C37",
    modules=["GenjaxVerif.Props.C37"],
    theorems=[
        "GenjaxVerif.HMM.C37_estimate_logpdf_spec", "GenjaxVerif.HMM.C37_estimate_ok", "GenjaxVerif.HMM.C37_estimate_errors",
        "GenjaxVerif.HMM.C37_data_logpdf_spec", "GenjaxVerif.HMM.C37_posteriorTable_spec", "GenjaxVerif.HMM.C37_posterior_normalised",
        "GenjaxVerif.HMM.C37_dataLik_pos", "GenjaxVerif.HMM.C37_forward_total", "GenjaxVerif.HMM.C37_forward_total_repaired",
        "GenjaxVerif.HMM.C37_ffbs_eq_posterior_partial", "GenjaxVerif.HMM.C37_ffbs_repaired_eq_posterior",
        "GenjaxVerif.HMM.C37_ffbsDist_eq_posterior", "GenjaxVerif.HMM.C37_witness_values", "GenjaxVerif.HMM.C37_refuted",
        "GenjaxVerif.HMM.C37_refuted_without_symmetry", "GenjaxVerif.HMM.C37_circulant_symm", "GenjaxVerif.HMM.C37_config_trans_symm",
    ],
    strength="partial",
    run=run,
    replay=replay,
    assumptions=[
        "tfd.HiddenMarkovModel.log_prob is specified by HMM.dataLik (brute-force marginal); tied numerically on every case, not modelled",
        "float32 log-domain arithmetic (logsumexp, softmax, log) is modelled by exact rational arithmetic in the probability domain; 1e-5 abs + 1e-4 rel tolerance",
        "jax.random.categorical(key, logits) returns s with probability softmax(logits)[s], independently across split keys (statistical check only)",
        "FFBS = posterior is proved for the code as written only for symmetric transition matrices (C37_refuted shows it is false otherwise); "
        "DiscreteHMMConfiguration is symmetric iff N < 3 or 2*adjacency_distance_trans <= N or sigma_trans = 1",
        "latent / observation indices are in range (JAX clamps out-of-range indices silently; the model rejects them)",
    ],
    extra_trusted=["TFP HiddenMarkovModel.log_prob", "NumPy float64 brute-force enumeration used by the predicate"],
)
