"""C29 — ADEV estimators are correct derivative estimators (PARTIAL).

Programs are generated from a small grammar (θ-polynomial parameters kept inside (0,1) for
probabilities, dyadic constants; arithmetic, `jnp.where` and `jax.lax.cond` on sampled booleans,
`add_cost`, sampling inside `cond` branches) over the exported primitives, built with the REAL
`genjax.adev` API (`expectation`, `flip_enum`, `flip_reinforce`, `normal_reparam`,
`normal_reinforce`, `baseline`, `add_cost`, …) and run through `Expectation.jvp_estimate`,
`grad_estimate`, `estimate`.

Correspondence: the Lean model (`Adev.jvpEstimate`, driver command `adev`) is run on the same
program, θ, input tangent and the noise the primitives draw at each key path; primal and tangent
must agree (float32 vs ℚ, relative 4e-5 of the magnitude of the summed terms).

Predicate (on the implementation alone, against an exact-polynomial specification oracle):
  * primal = the program's value for the sampled randomness (enumeration sites averaged);
  * programs whose sites are enumeration / reparameterisation only: tangent = τ · d/dθ of that
    polynomial (exact expectation derivative / pathwise derivative);
  * programs whose flips are REINFORCE / baseline(REINFORCE): every outcome assignment is forced
    through the real `REINFORCE` class (`reinforce(sampler pinned to the outcome, the exported
    logpdf)`) and Σ P(assignment)·tangent = d/dθ of the fully enumerated expectation (unbiasedness
    by exact enumeration);
  * `grad_estimate(key, (θ,))` = tangent of `jvp_estimate(key, Dual(θ, 1))`, same key;
  * `estimate(key, (θ,))` = that primal;
  * every exported primitive returns an estimate (does not raise);
  * distinct sampling sites do not see identical noise (two `normal_reparam` draws differ; a site in
    a `cond` branch and one after it are not perfectly correlated);
  * `mv_normal_diag_reparam` / `mv_normal_reparam`: tangent = c·(μ' + L' ε) for a linear readout.
"""

from __future__ import annotations

import math
from fractions import Fraction

from harness import adev_lib as L
from harness import common
from harness.adev_lib import C
from harness.common import Ctx, Spec, ask_driver, sx

THETAS = [Fraction(k, 8) for k in range(1, 8)]
TAUS = [Fraction(1), Fraction(1), Fraction(1), Fraction(2), Fraction(-1, 2)]

# ------------------------------------------------------------------ generators


def gen_const(rng):
    return C(Fraction(rng.choice([-3, -2, -1, 1, 2, 3, 4, 1, 2]), rng.choice([1, 1, 2, 4])))


def gen_expr(rng, nb, nr, depth):
    k = rng.random()
    if depth == 0 or k < 0.25:
        c = rng.random()
        if c < 0.35:
            return "th"
        if c < 0.6 and nr:
            return ["rv", rng.randrange(nr)]
        return gen_const(rng)
    if k < 0.45:
        return ["add", gen_expr(rng, nb, nr, depth - 1), gen_expr(rng, nb, nr, depth - 1)]
    if k < 0.6:
        return ["sub", gen_expr(rng, nb, nr, depth - 1), gen_expr(rng, nb, nr, depth - 1)]
    if k < 0.8:
        return ["mul", gen_expr(rng, nb, nr, depth - 1), gen_expr(rng, nb, nr, depth - 1)]
    if k < 0.87:
        return ["neg", gen_expr(rng, nb, nr, depth - 1)]
    if k < 0.93:
        return ["div", gen_expr(rng, nb, nr, depth - 1), C(rng.choice([2, 4, -2]))]
    if nb:
        return ["ite", rng.randrange(nb), gen_expr(rng, nb, nr, depth - 1), gen_expr(rng, nb, nr, depth - 1)]
    return ["mul", "th", gen_expr(rng, nb, nr, depth - 1)]


def gen_prob(rng, nb):
    """θ-polynomials with values in (0,1) for θ in [1/8, 7/8]."""
    opts = [
        "th", "th", ["sub", C(1), "th"], ["div", "th", C(2)], ["mul", "th", "th"],
        ["add", ["div", "th", C(4)], C(Fraction(1, 8))], C(Fraction(rng.randint(1, 7), 8)),
        ["mul", "th", ["sub", C(1), "th"]],
    ]
    if nb:
        opts.append(["ite", rng.randrange(nb), C(Fraction(rng.randint(1, 7), 8)), "th"])
        opts.append(["ite", rng.randrange(nb), ["sub", C(1), "th"], ["div", "th", C(2)]])
    return rng.choice(opts)


def gen_sigma(rng):
    return rng.choice([C(1), C(Fraction(1, 2)), C(2), ["add", "th", C(Fraction(1, 2))], "th", ["mul", C(2), "th"]])


def gen_site(rng, family, nb, nr):
    """(prim, args, binds_bool)"""
    flip = rng.random() < 0.6
    if family == "enum":
        prim = "flip_enum" if flip else "normal_reparam"
    elif family == "R":
        prim = "flip_reinforce" if flip else "normal_reparam"
    else:
        prim = rng.choice(["flip_enum", "flip_reinforce"]) if flip else rng.choice(["normal_reparam", "normal_reinforce"])
    args = [gen_prob(rng, nb)] if flip else [gen_expr(rng, nb, nr, 1), gen_sigma(rng)]
    if rng.random() < 0.3:
        prim = ["baseline", prim]
        args = [gen_expr(rng, nb, nr, 1)] + args
    return prim, args, flip


def gen_prog(rng, family, nb, nr, sites, depth):
    k = rng.random()
    if depth == 0 or (sites == 0 and k < 0.5):
        return ["ret", gen_expr(rng, nb, nr, 2)]
    if k < 0.55 and sites > 0:
        prim, args, flip = gen_site(rng, family, nb, nr)
        rest = gen_prog(rng, family, nb + (1 if flip else 0), nr + (0 if flip else 1), sites - 1, depth - 1)
        return ["sample", prim, args, rest]
    if k < 0.7 and (sites > 0 or rng.random() < 0.3):
        return ["cost", gen_expr(rng, nb, nr, 2), gen_prog(rng, family, nb, nr, sites, depth - 1)]
    if k < 0.92 and nb:
        s1 = rng.randint(0, min(1, sites)) if rng.random() < 0.3 else 0
        pt = gen_prog(rng, family, nb, nr, s1, min(depth - 1, 2))
        pf = gen_prog(rng, family, nb, nr, s1, min(depth - 1, 2))
        tv = L.tail_var(pt, nr)
        if tv is not None and tv == L.tail_var(pf, nr):  # both branches forward the same input: see the `forwarded` probe
            pf = L.bump_tail(pf)
        return ["cond", rng.randrange(nb), pt, pf, gen_prog(rng, family, nb, nr + 1, max(0, sites - 1 - s1), depth - 1)]
    return ["ret", gen_expr(rng, nb, nr, 2)]


KE = ["ite", 0, ["mul", C(2), "th"], ["neg", ["div", "th", C(2)]]]


def canonical():
    """One small program per primitive and continuation form (always run)."""
    out = []
    for prim, args in [
        ("flip_enum", ["th"]), ("flip_reinforce", ["th"]),
        (["baseline", "flip_reinforce"], [C(3), "th"]), (["baseline", "flip_enum"], [["mul", C(2), "th"], "th"]),
        (["baseline", "flip_reinforce"], [["mul", "th", "th"], ["sub", C(1), "th"]]),
    ]:
        out.append(["sample", prim, args, ["ret", KE]])
        out.append(["sample", prim, args, ["cond", 0, ["ret", ["mul", C(2), "th"]], ["cost", ["mul", "th", "th"], ["ret", C(-1)]],
                                           ["ret", ["mul", ["rv", 0], ["rv", 0]]]]])
        out.append(["cost", ["mul", "th", "th"], ["sample", prim, args, ["cond", 0, ["cost", ["mul", C(3), "th"], ["ret", "th"]],
                                                                     ["ret", ["neg", ["div", "th", C(2)]]], ["ret", ["rv", 0]]]]])
    for prim, args in [
        ("normal_reparam", ["th", ["mul", C(2), "th"]]), ("normal_reinforce", ["th", ["mul", C(2), "th"]]),
        (["baseline", "normal_reparam"], [C(1), "th", C(1)]), (["baseline", "normal_reinforce"], ["th", C(0), ["add", "th", C(1)]]),
    ]:
        out.append(["sample", prim, args, ["ret", ["add", ["mul", ["rv", 0], ["rv", 0]], "th"]]])
        out.append(["sample", prim, args, ["sample", "flip_enum", ["th"], ["ret", ["ite", 0, ["mul", ["rv", 0], "th"], ["rv", 0]]]]])
    # sampling inside a cond branch, then after the cond
    out.append(["sample", "flip_enum", [C(Fraction(1, 2))],
                ["cond", 0, ["sample", "flip_reinforce", ["th"], ["ret", ["ite", 1, C(1), C(0)]]], ["ret", "th"],
                 ["sample", "flip_reinforce", [["sub", C(1), "th"]], ["ret", ["add", ["mul", C(10), ["rv", 0]], ["ite", 1, "th", C(0)]]]]]])
    out.append(["sample", "normal_reparam", [C(0), C(1)], ["sample", "normal_reparam", ["th", C(1)],
                                                          ["ret", ["mul", ["rv", 0], ["rv", 1]]]]])
    return out


def raising_programs():
    return [
        ("flip_mvd", ["sample", "flip_mvd", ["th"], ["ret", KE]]),
        ("flip_enum_parallel", ["sample", "flip_enum_parallel", ["th"], ["ret", KE]]),
        ("categorical_enum_parallel", ["sample", "categorical_enum_parallel", ["th", ["sub", C(1), "th"]],
                                       ["ret", ["mul", ["rv", 0], "th"]]]),
        ("uniform", ["sample", "uniform", [], ["ret", ["mul", ["rv", 0], "th"]]]),
    ]


def forwarded_program():
    """`cond` whose branches both return the same operand unchanged (JAX forwards it, the branch
    jaxprs have no outputs)."""
    return ["sample", "flip_enum", ["th"], ["cond", 0, ["ret", "th"], ["ret", "th"], ["ret", ["mul", ["rv", 0], C(2)]]]]


def family_of(P):
    ps = [L.base_prim(p) for p in L.prims_of(P)]
    if any(p in L.RAISING for p in ps):
        return "raises"
    if all(p in ("flip_enum", "normal_reparam") for p in ps):
        return "enum"
    if all(p in ("flip_reinforce", "normal_reparam") for p in ps):
        return "R"
    return "mixed"


# ------------------------------------------------------------------ implementation side

_NOISE_CACHE: dict = {}


def _noise(seed):
    import jax

    if seed not in _NOISE_CACHE:
        root = jax.random.key(seed)
        nz = L.noise_table(root)
        _NOISE_CACHE[seed] = (nz, L.check_noise_against_samplers(root, nz))
    return _NOISE_CACHE[seed]


def _f(x):
    return float(x)


def run_program_case(case):
    import jax
    import numpy as np
    from genjax.adev import Dual, expectation

    P = case["prog"]
    th, tau = Fraction(*case["theta"]), Fraction(*case["tau"])
    root = jax.random.key(case["seed"])
    out: dict = {"pred": []}
    fam = family_of(P)

    def jvp(prog_fn, t):
        e = expectation(prog_fn)
        fn = jax.jit(e.jvp_estimate) if case.get("jit") else e.jvp_estimate
        d = fn(root, Dual(np.float32(float(th)), np.float32(float(t))))
        return e, float(d.primal), float(d.tangent)

    try:
        e, pr, tg = jvp(L.build(P, operand_style=case.get("opstyle", False)), tau)
        out["primal"], out["tangent"] = pr, tg
    except Exception as ex:  # noqa: BLE001
        out["error"] = L.classify_exc(ex)
        out["msg"] = str(ex)[:160].replace("\n", " ")
        if fam == "raises":
            return out
        fwd = L.forwarding_cond(P) and out["error"] == "ValueError" and "unpack" in out["msg"]
        out["pred"].append({"feature": "forwarded_output_raises" if fwd else "raises", "call": "ADInterpreter.cond" if fwd else None,
                            "detail": out["error"] + ": " + out["msg"]})
        return out
    if fam == "raises":
        return out  # repaired upstream: nothing required beyond not raising

    nz, tie = _noise(case["seed"])
    out["noise_tie"] = tie
    out["noise"] = {t: [[list(p), v.numerator, v.denominator] for p, v in nz[t].items()] for t in ("u", "eps")}

    # --- specification oracle
    S = L.spec_cps(P, th, nz, [], [], [], lambda v: v)
    val, scale = S.at(th), S.mag(th)
    out["spec_value"] = _f(val)
    inb = L.sites_in_branches(P)
    Sw = L.spec_cps(P, th, nz, [], [], [], lambda v: v, as_written=True) if inb else None

    def cond_defect(got_p, got_t=None, W=None):
        """Is this exactly what reducing a cond branch to one value before applying the rest of the
        program (the code as written) yields?"""
        W = W or Sw
        if W is None or not L.close(got_p, _f(W.at(th)), W.mag(th)):
            return False
        return got_t is None or L.close(got_t, _f(tau * W.deriv().at(th)), abs(_f(tau)) * W.deriv().mag(th))

    if not L.close(pr, _f(val), scale):
        feat = "cond_branch_sites" if cond_defect(pr) else "primal"
        out["pred"].append({"feature": feat, "call": "ADInterpreter.cond" if feat != "primal" else None,
                            "detail": f"primal {pr} != program value {_f(val)} for the sampled randomness"})
    if fam == "enum":
        D = S.deriv()
        want = _f(tau * D.at(th))
        if not L.close(tg, want, abs(_f(tau)) * D.mag(th)):
            feat = "cond_branch_sites" if cond_defect(pr, tg) else "tangent"
            out["pred"].append({"feature": feat, "call": "ADInterpreter.cond" if feat != "tangent" else None,
                                "detail": f"tangent {tg} != tau * d/dtheta of the exact value = {want}"})
    if fam == "R" and case.get("forced", True):
        asg = L.enum_assignments(P, th, nz)
        if len(asg) <= (4 if case.get("quick") else 8):
            tot, ptot, mag = 0.0, Fraction(0), 0.0
            for forced, prob in asg:
                _, fp, ft = jvp(L.build(P, forced=forced, operand_style=case.get("opstyle", False)), Fraction(1))
                Sf = L.spec_cps(P, th, nz, [], [], [], lambda v: v, forced=forced)
                if not L.close(fp, _f(Sf.at(th)), Sf.mag(th)):
                    Sfw = L.spec_cps(P, th, nz, [], [], [], lambda v: v, forced=forced, as_written=True) if inb else None
                    feat = "cond_branch_sites" if Sfw is not None and cond_defect(fp, None, Sfw) else "primal"
                    out["pred"].append({"feature": feat, "call": "ADInterpreter.cond" if feat != "primal" else None,
                                        "detail": f"forced outcomes {sorted(forced.items())}: primal {fp} != value {_f(Sf.at(th))}"})
                tot += float(prob) * ft
                mag += float(prob) * abs(ft)
                ptot += prob
            if not inb:  # with sites inside cond branches the code's estimate is not the derivative of anything
                E = L.full_expectation(P, th, nz)
                want = _f(E.deriv().at(th))
                out["unbiased"] = [tot, want, len(asg)]
                if ptot != 1 or not L.close(tot, want, max(mag, E.deriv().mag(th))):
                    out["pred"].append({"feature": "unbiased", "detail": f"sum_x P(x) tangent(x) = {tot} over {len(asg)} outcome assignments, d/dtheta E = {want}"})
    # --- grad vs jvp (tangent 1, same key)
    if case.get("grad"):
        try:
            if tau != 1:
                _, _, tg1 = jvp(L.build(P, operand_style=case.get("opstyle", False)), Fraction(1))
            else:
                tg1 = tg
            (g,) = e.grad_estimate(root, (np.float32(float(th)),))
            out["grad"] = float(g)
            if not L.close(float(g), tg1, abs(tg1)):
                out["pred"].append({"feature": "grad_vs_jvp", "detail": f"grad_estimate {float(g)} != jvp tangent {tg1}"})
            if tau != 1 and not L.close(tg, float(tau) * tg1, abs(tg1) * abs(float(tau))):
                out["pred"].append({"feature": "tangent_linear", "detail": f"tangent at tau={tau}: {tg} != tau * {tg1}"})
        except Exception as ex:  # noqa: BLE001
            out["pred"].append({"feature": "grad_raises", "detail": L.classify_exc(ex) + ": " + str(ex)[:120]})
    # --- Expectation.estimate
    if case.get("estimate"):
        try:
            v = float(e.estimate(root, (np.float32(float(th)),)))
            out["estimate"] = v
            if not L.close(v, pr, scale):
                out["pred"].append({"feature": "estimate_value", "detail": f"estimate {v} != jvp primal {pr}"})
        except Exception as ex:  # noqa: BLE001
            out["pred"].append({"feature": "estimate_raises", "call": "Expectation.estimate",
                                "detail": L.classify_exc(ex) + ": " + str(ex)[:100].replace("\n", " ")})
    return out


def run_keyprobe(case):
    """Distinct sites must not see identical noise."""
    import jax
    import jax.numpy as jnp
    import numpy as np
    from genjax.adev import Dual, expectation, flip_enum, flip_reinforce, normal_reparam

    out = {"pred": []}
    if case["which"] == "tailcall":
        @expectation
        def prog(t):
            x1 = normal_reparam(0.0, 1.0)
            x2 = normal_reparam(0.0, 1.0)
            return (x1 - x2) * t

        fn = jax.jit(prog.jvp_estimate)
        vals = [float(fn(jax.random.key(s), Dual(np.float32(1.0), np.float32(1.0))).primal) for s in case["seeds"]]
        out["values"] = vals
        if all(v == 0.0 for v in vals):
            out["pred"].append({"feature": "key_reuse", "call": "TailCallADEVPrimitive.jvp_estimate",
                                "detail": f"two consecutive normal_reparam draws are identical for all {len(vals)} keys"})
    else:
        @expectation
        def prog(t):
            b0 = flip_enum(0.5)

            def br(t):
                b1 = flip_reinforce(t)
                return jnp.where(b1, 10.0, 0.0)

            r = jax.lax.cond(b0, br, br, t)
            b2 = flip_reinforce(t)
            return r + jnp.where(b2, 1.0, 0.0)

        fn = jax.jit(prog.jvp_estimate)
        vals = [round(float(fn(jax.random.key(s), Dual(np.float32(0.5), np.float32(1.0))).primal)) for s in case["seeds"]]
        out["values"] = vals
        if all(v in (0, 11) for v in vals):
            out["pred"].append({"feature": "key_reuse", "call": "ADInterpreter.cond",
                                "detail": f"a flip inside a cond branch and a flip after the cond agree for all {len(vals)} keys (independent: 2^-{len(vals)})"})
    return out


def run_mvprobe(case):
    """mv_normal_diag_reparam / mv_normal_reparam with a linear readout c·x: the tangent must be
    c·(μ' + L' ε), ε being the standard normals the primitive draws from split(key)[1]."""
    import jax
    import jax.numpy as jnp
    import numpy as np
    from genjax.adev import Dual, expectation, mv_normal_diag_reparam, mv_normal_reparam
    from tensorflow_probability.substrates import jax as tfp

    tfd = tfp.distributions
    out = {"pred": []}
    th = float(Fraction(*case["theta"]))
    c = jnp.array([2.0, -3.0])
    root = jax.random.key(case["seed"])
    sub = jax.random.split(root)[1]
    if case["which"] == "diag":
        @expectation
        def prog(t):
            x = mv_normal_diag_reparam(jnp.array([1.0, 0.0]) * t, jnp.array([1.0, 0.0]) * t + jnp.array([0.5, 2.0]))
            return jnp.sum(c * x)

        eps = np.asarray(tfd.Normal(loc=0.0, scale=1.0).sample(sample_shape=(2,), seed=sub))
        mu, dmu = np.array([th, 0.0]), np.array([1.0, 0.0])
        Lm, dL = np.array([th + 0.5, 2.0]), np.array([1.0, 0.0])
        call = "mv_normal_diag_reparam"
    else:
        @expectation
        def prog(t):
            L_ = jnp.array([[1.0, 0.0], [0.0, 0.0]]) * t + jnp.array([[0.5, 0.0], [0.0, 2.0]])
            x = mv_normal_reparam(jnp.array([1.0, 0.0]) * t, L_ @ L_.T)
            return jnp.sum(c * x)

        eps = np.asarray(tfd.Normal(loc=0.0, scale=1.0).sample(2, seed=sub))
        mu, dmu = np.array([th, 0.0]), np.array([1.0, 0.0])
        Lm, dL = np.array([th + 0.5, 2.0]), np.array([1.0, 0.0])
        call = "mv_normal_reparam"
    try:
        d = prog.jvp_estimate(root, Dual(np.float32(th), np.float32(1.0)))
    except Exception as ex:  # noqa: BLE001
        out["pred"].append({"feature": "raises", "call": call, "detail": L.classify_exc(ex)})
        return out
    cn = np.asarray(c)
    want_p = float(np.sum(cn * (mu + Lm * eps)))
    want_t = float(np.sum(cn * (dmu + dL * eps)))
    out.update(primal=float(d.primal), tangent=float(d.tangent), want=[want_p, want_t])
    if not L.close(float(d.primal), want_p, 20.0, rtol=1e-4):
        out["pred"].append({"feature": "primal", "call": call, "detail": f"primal {float(d.primal)} != c.(mu + L eps) = {want_p}"})
    elif not L.close(float(d.tangent), want_t, 20.0, rtol=1e-4):
        # which wrong formula is it?  (tangents read from the primals)
        feat = "tangent"
        if case["which"] == "full":
            # as written the tangents are read from the primals: d/dh [mu + chol(cov (1+h)) eps] = mu + L eps / 2
            alt = float(np.sum(cn * (mu + 0.5 * Lm * eps)))
            if abs(alt - float(d.tangent)) <= 2e-2 * max(1.0, abs(alt)):
                feat = "tangent_from_primal"
        out["pred"].append({"feature": feat, "call": call, "detail": f"tangent {float(d.tangent)} != c.(mu' + L' eps) = {want_t}"})
    return out


def impl_batch(batch):
    out = []
    for case in batch:
        kind = case.get("kind", "program")
        try:
            if kind == "program":
                out.append(run_program_case(case))
            elif kind == "keyprobe":
                out.append(run_keyprobe(case))
            else:
                out.append(run_mvprobe(case))
        except Exception as ex:  # noqa: BLE001  harness-level problem: surface it
            import traceback

            out.append({"__harness_error__": f"{type(ex).__name__}: {ex}", "tb": traceback.format_exc()[-1500:]})
    return out


# ------------------------------------------------------------------ check


def driver_line(case, noise):
    u = "(u" + "".join(f" ((k {' '.join(map(str, p))}) {n} {d})" for p, n, d in noise["u"]) + ")"
    e = "(eps" + "".join(f" ((k {' '.join(map(str, p))}) {n} {d})" for p, n, d in noise["eps"]) + ")"
    return f"(adev {sx(case['prog'])} (th {case['theta'][0]} {case['theta'][1]}) (tau {case['tau'][0]} {case['tau'][1]}) {u} {e} (ln))"


def signature_for(case, feature, call=None):
    if call is None:
        ps = sorted({L.prim_name(p) for p in L.prims_of(case["prog"])}) if case.get("kind", "program") == "program" else []
        call = "+".join(ps) if ps else "program"
    return {"call": call, "feature": feature}


def neighbours(ctx: Ctx, case):
    out = []
    for th in THETAS[::2]:
        for seed in (case["seed"], case["seed"] + 101):
            c = dict(case)
            c.update(theta=L.q(th), seed=seed, grad=True, estimate=False)
            out.append(c)
    return out[:8]


def _evaluate(ctx: Ctx, cases, label, search=True):
    B = max(1, min(6, len(cases) // 16 + 1))
    batches = [cases[i:i + B] for i in range(0, len(cases), B)]
    res = L.flatten_batches(batches, common.run_impl_parallel("harness.props.c29", "impl_batch", batches))
    lines, idx = [], []
    for i, (case, im) in enumerate(zip(cases, res)):
        if "__harness_error__" in im:
            raise common.Infra(im["__harness_error__"] + "\n" + im.get("tb", ""))
        if case.get("kind", "program") == "program":
            if "noise" in im:
                lines.append(driver_line(case, im["noise"]))
                idx.append(i)
            elif family_of(case["prog"]) == "raises" or "error" in im:
                lines.append(driver_line(case, {"u": [], "eps": []}))
                idx.append(i)
    model = dict(zip(idx, ask_driver(lines)))
    corr_fail = []
    for i, (case, im) in enumerate(zip(cases, res)):
        kind = case.get("kind", "program")
        ctx.count(label)
        ctx.count("kind:" + kind)
        ctx.traces_validated += 1
        fam = family_of(case["prog"]) if kind == "program" else kind
        ctx.count("family:" + fam)
        if kind == "program":
            for p in L.prims_of(case["prog"]):
                ctx.count("prim:" + L.prim_name(p))
            for opn in ("cond", "cost"):
                if L.has_op(case["prog"], opn):
                    ctx.count("op:" + opn)
        sample = {"case": sx(case["prog"])[:200] if kind == "program" else case, "impl": {k: im.get(k) for k in ("primal", "tangent", "error", "grad")},
                  "model": model.get(i, "")[:80]}
        ctx.case_done(case, kind == "program" and bool(L.prims_of(case["prog"])), sample)
        had_pred = False
        for pf in im["pred"]:
            had_pred = True
            ctx.count("predicate-failure:" + pf["feature"])
            ctx.fail("predicate", case, {"why": pf["detail"], "impl": {k: v for k, v in im.items() if k not in ("noise", "pred")}},
                     signature_for(case, pf["feature"] if pf["feature"] != "estimate_raises" else "raises", pf.get("call")), "C29:" + pf["feature"])
        if kind != "program":
            continue
        mo = model.get(i)
        if fam == "raises":
            if "error" in im:
                ctx.count("raises:" + L.base_prim(L.prims_of(case["prog"])[0]))
                ctx.fail("predicate", case, {"why": "exported primitive raises for every input: " + im["error"] + ": " + im.get("msg", "")},
                         {"call": L.base_prim(L.prims_of(case["prog"])[0]), "feature": "raises"}, "C29_full")
                if mo is None or not mo.startswith("(err raises"):
                    corr_fail.append((case, {"model": mo, "impl": im["error"]}, "Adev.primJvp raises vs implementation"))
            else:
                ctx.count("raising-primitive-no-longer-raises")
            continue
        if "error" in im:
            continue  # already a predicate failure
        if im.get("noise_tie"):
            corr_fail.append((case, {"noise": im["noise_tie"]}, "noise table vs primitives' own samplers"))
            continue
        ok = L.parse_ok(mo or "")
        if ok is None:
            corr_fail.append((case, {"model": mo, "impl": [im["primal"], im["tangent"]]}, "Adev.jvpEstimate vs Expectation.jvp_estimate"))
            continue
        mp, mt, mv = ok
        scale = abs(im.get("spec_value", 0.0)) + 1.0
        if not (L.close(im["primal"], float(mp), scale) and L.close(im["tangent"], float(mt), max(scale, abs(float(mt))))):
            if not had_pred:
                corr_fail.append((case, {"model": [float(mp), float(mt)], "impl": [im["primal"], im["tangent"]]},
                                  "Adev.jvpEstimate vs Expectation.jvp_estimate"))
        elif mp != mv and not L.sites_in_branches(case["prog"]):
            corr_fail.append((case, {"model_primal": str(mp), "model_value": str(mv)}, "C29_primal_prog on the driver"))
    # correspondence failures: search the neighbourhood for a failing input first
    if corr_fail and search:
        nb = []
        for case, _, _ in corr_fail[:4]:
            nb += neighbours(ctx, case)
        before = len([f for f in ctx.failures if f.kind == "predicate"])
        _evaluate(ctx, nb, "neighbour-search", search=False)
        found = len([f for f in ctx.failures if f.kind == "predicate"]) > before
        ctx.notes["neighbour_search"] = {"cases": len(nb), "found_failing_input": found}
    for case, detail, name in corr_fail:
        ctx.fail("correspondence", case, detail, signature_for(case, "correspondence"), name)


def make_cases(ctx: Ctx, n_rand):
    rng = ctx.rng
    cases = []

    def mk(P, **kw):
        c = {"kind": "program", "prog": P, "theta": L.q(rng.choice(THETAS)), "tau": L.q(rng.choice(TAUS)),
             "seed": rng.randrange(8), "jit": rng.random() < 0.2, "opstyle": rng.random() < 0.5,
             "grad": rng.random() < 0.4, "estimate": False, "quick": ctx.tier == "quick"}
        c.update(kw)
        return c

    for P in canonical():
        cases.append(mk(P, grad=True))
        cases.append(mk(P, tau=L.q(1)))
    cases[0]["estimate"] = True
    cases[3]["estimate"] = True
    for name, P in raising_programs():
        for th in (THETAS[1], THETAS[4]):
            cases.append(mk(P, theta=L.q(th), jit=False))
    cases.append(mk(forwarded_program(), forwarded=True, opstyle=True, jit=False))
    seeds = list(range(24))
    cases.append({"kind": "keyprobe", "which": "tailcall", "seeds": seeds[:8]})
    cases.append({"kind": "keyprobe", "which": "cond", "seeds": seeds})
    for which in ("diag", "full"):
        for th in (THETAS[2], THETAS[5]):
            cases.append({"kind": "mvprobe", "which": which, "theta": L.q(th), "seed": rng.randrange(1000)})
    for _ in range(n_rand):
        fam = rng.choice(["enum", "enum", "R", "R", "mixed"])
        P = gen_prog(rng, fam, 0, 0, rng.randint(1, 3), rng.randint(2, 5))
        if not L.prims_of(P) and rng.random() < 0.8:
            prim, args, flip = gen_site(rng, fam, 0, 0)
            P = ["sample", prim, args, gen_prog(rng, fam, 1 if flip else 0, 0 if flip else 1, 1, 3)]
        cases.append(mk(P))
    return cases


def run(ctx: Ctx):
    ctx.rule = ("ADEV programs over {flip_enum, flip_reinforce, normal_reparam, normal_reinforce, baseline(.)} with arithmetic, "
                "jnp.where / lax.cond on sampled booleans (sampling and add_cost inside branches), add_cost; theta in k/8, input "
                "tangent in {1, 2, -1/2}, 24 keys; plus one program per raising primitive, two key-independence probes and the "
                "mv_normal probes; non-trivial = at least one sampling site; distinct by (program, theta, tau, key, flags)")
    n = 80 if ctx.tier == "quick" else 2000
    cases = make_cases(ctx, n)
    chunk = 96 if ctx.tier == "quick" else 480
    for i in range(0, len(cases), chunk):
        if i > 0 and ctx.time_left() < (90 if ctx.tier == "quick" else 300):
            ctx.notes["stopped_early_at"] = i
            break
        _evaluate(ctx, cases[i:i + chunk], "generated")


def replay(ctx: Ctx, payload: dict):
    _evaluate(ctx, [payload["case"]], "replay")


SPEC = Spec(
    prop_id="C29",
    modules=["GenjaxVerif.Props.C29"],
    theorems=[
        "GenjaxVerif.Adev.C29_primal", "GenjaxVerif.Adev.C29_primal_prog_partial", "GenjaxVerif.Adev.C29_primal_prog_refuted", "GenjaxVerif.Adev.C29_flip_enum_exact",
        "GenjaxVerif.Adev.C29_categorical_enum_exact", "GenjaxVerif.Adev.C29_categorical_two",
        "GenjaxVerif.Adev.C29_reinforce_unbiased", "GenjaxVerif.Adev.C29_baseline_unbiased", "GenjaxVerif.Adev.C29_baseline_enum",
        "GenjaxVerif.Adev.C29_mvd_unbiased_partial", "GenjaxVerif.Adev.C29_mvd_as_written_biased",
        "GenjaxVerif.Adev.C29_reparam_sample", "GenjaxVerif.Adev.C29_reparam_pathwise",
        "GenjaxVerif.Adev.C29_add_cost_linear", "GenjaxVerif.Adev.C29_add_cost_enum",
        "GenjaxVerif.Adev.C29_tangent_linear", "GenjaxVerif.Adev.C29_grad_eq_jvp",
        "GenjaxVerif.Adev.C29_raises", "GenjaxVerif.Adev.C29_refuted", "GenjaxVerif.Adev.C29_no_raise_partial",
        "GenjaxVerif.Adev.C29_keys_refuted", "GenjaxVerif.Adev.C29_keys_refuted_cond", "GenjaxVerif.Adev.C29_keys_distinct_partial",
    ],
    strength="partial",
    run=run,
    replay=replay,
    assumptions=[
        "continuous expectations (unbiasedness of normal_reinforce / normal_reparam in eps) are outside the model",
        "the dual-number tangent of a polynomial continuation is its derivative (forward-mode AD of +,-,*,/ by JAX) — checked numerically against exact polynomial derivatives, not proved",
        "jax.grad of the custom_jvp rule returns the coefficient of the (linear) tangent map; checked numerically per case",
        "tfd.Bernoulli samples as `uniform(key) < p`, tfd.Normal as `mu + sigma * normal(key)`: re-checked on every run against the primitives' own `sample`",
        "geometric_reinforce, beta_implicit, categorical softmax weights are outside the model",
    ],
    extra_trusted=["float32 arithmetic of the implementation vs exact rationals, compared at 4e-5 relative to the summed magnitudes"],
)
