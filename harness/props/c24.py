"""C24 — Distribution wrappers agree with their TFP densities (PARTIAL).

Two streams.

(1) Wrapper-logic correspondence (`kind == "wl"`): integer-valued test densities defined through
    the public `genjax.exact_density(sample, logpdf, name)` (sample = a deterministic function of
    `jax.random.key_data(key)`, logpdf = an integer polynomial of (value, args) returned as float32,
    scalar / vector / matrix shaped) are driven through every GFI method of `Distribution`
    (simulate, assess, importance with none / value / Mask constraints with Python-bool and array
    flags, update with and without constraint under NoChange / UnknownChange argdiffs, Regenerate
    with selected / unselected selections, edit_empty, an unsupported request, project) with
    positional and `(args, kwargs)` argument packages, and compared EXACTLY with the Lean model
    (`Model/Dist.lean` via driver command `dist`).  Change tags are compared one-way
    (implementation NoChange => model NoChange); payloads under an invalid mask are not compared.
    Independently of the model, the property predicate is evaluated on the implementation's own
    outputs with a NumPy reference of the test log-densities: every score is the sum of the
    log-density leaves of the trace's value, importance / update / regenerate / project weights
    follow from those scores.

(2) TFP oracle sweep (`kind == "tfp"`; this is the property predicate proper): every distribution
    exported from the tensorflow_probability wrapper module (introspected) x the parameter grid of
    `harness/dist_table.py` (scalar, batched, keyword-only and sample_shape invocations): simulate
    score, assess, importance (full constraint, array-flag mask, no constraint), update (new value,
    changed arguments), project are compared with direct `tfd.X(params).log_prob` sums (1e-5),
    samples are checked for support / dtype / shape, keyword and positional invocations must give
    identical results for the same key.  Wrappers without a grid are listed in the evidence.
"""

from __future__ import annotations

import itertools
import json

from harness import common
from harness.common import Ctx, Spec, ask_driver, sx

TIDS = ["s7", "v3", "m22", "bl", "ns"]
VLEN = {"s7": 1, "v3": 3, "m22": 2, "bl": 1, "ns": 1}
VMOD = {"s7": 7, "v3": 5, "m22": 3, "bl": 2, "ns": 7}
FLAGS = ["cT", "cF", "dT", "dF"]
SEL_T = ["all", "leaf", "notx"]
SEL_F = ["none", "atx"]
WMOD = "genjax._src.generative_functions.distributions.tensorflow_probability"

# =====================================================================================
# reference (NumPy / pure python) of the test densities — used by the predicate only
# =====================================================================================


def _bind_ab(args, need_b=True):
    """Python binding of an argument package to (a, b=0); None when the call would raise."""
    pos, kw = args, {}
    if len(args) == 2 and isinstance(args[1], list) and args[1] and args[1][0] == "d":
        a0 = args[0]
        if isinstance(a0, list) and a0 and a0[0] == "t":
            pos, kw = list(a0[1:]), {k: v for k, v in args[1][1:]}
        elif isinstance(a0, list) and a0 and a0[0] == "d" and len(a0) == 1:
            pos, kw = [], {k: v for k, v in args[1][1:]}
        else:
            return None
    if any(not isinstance(x, int) for x in pos):
        return None
    names = ["a", "b"] if need_b else ["a"]
    if len(pos) > len(names) or any(k not in names for k in kw):
        return None
    out = {}
    for n, x in zip(names, pos):
        out[n] = x
    for k, v in kw.items():
        if k in out:
            return None
        out[k] = v
    if "a" not in out:
        return None
    return out["a"], out.get("b", 0)


def ref_leaves(tid, v, args):
    b = _bind_ab(args)
    if b is None:
        return None
    a, b = b
    if tid == "s7":
        return [1009 + 17 * v[0] + 5 * a * v[0] + 3 * a + 11 * b]
    if tid == "v3":
        return [211 + 13 * x + 7 * a * x + 2 * b + i for i, x in enumerate(v)]
    if tid == "m22":
        return [101 + 3 * v[i] + 5 * a * j + b + 7 * i * j for i in range(2) for j in range(2)]
    if tid == "bl":
        return [307 + 19 * v[0] + 3 * a + 2 * b]
    if tid == "ns":
        return [503 + 23 * v[0] + 7 * a * v[0] + 5 * a + 13 * b]
    raise ValueError(tid)


def ref_total(tid, v, args):
    l = ref_leaves(tid, v, args)
    return None if l is None else sum(l)


# =====================================================================================
# implementation side (runs in worker processes)
# =====================================================================================

_CACHE = {}


def _densities():
    if "d" in _CACHE:
        return _CACHE["d"]
    import jax
    import jax.numpy as jnp

    import genjax

    def kd(key):
        return jax.random.key_data(key)[1]

    def i32(x):
        return x.astype(jnp.int32)

    D = {}
    D["s7"] = genjax.exact_density(
        lambda key, a, b=0: (i32(kd(key) % 7) + a) % 7,
        lambda v, a, b=0: jnp.asarray(1009 + 17 * v + 5 * a * v + 3 * a + 11 * b, jnp.float32),
        "verif_s7",
    )
    D["v3"] = genjax.exact_density(
        lambda key, a, b=0: (i32(kd(key) % 5) + jnp.arange(3) * a + jnp.arange(3)) % 5,
        lambda v, a, b=0: jnp.asarray(211 + 13 * v + 7 * a * v + 2 * b + jnp.arange(3), jnp.float32),
        "verif_v3",
    )

    def m22_lp(v, a, b=0):
        i = jnp.arange(2)[:, None]
        j = jnp.arange(2)[None, :]
        return jnp.asarray(101 + 3 * v[:, None] + 5 * a * j + b + 7 * i * j, jnp.float32)

    D["m22"] = genjax.exact_density(
        lambda key, a, b=0: (i32(kd(key) % 3) + jnp.arange(2) + a) % 3, m22_lp, "verif_m22"
    )
    D["bl"] = genjax.exact_density(
        lambda key, a, b=0: ((i32(kd(key) % 2) + a) % 2).astype(jnp.bool_),
        lambda v, a, b=0: jnp.asarray(307 + 19 * i32(v) + 3 * a + 2 * b, jnp.float32),
        "verif_bl",
    )
    D["ns"] = genjax.exact_density(
        lambda key, a: (i32(kd(key) % 7) + a) % 7,
        lambda v, a, b=0: jnp.asarray(503 + 23 * v + 7 * a * v + 5 * a + 13 * b, jnp.float32),
        "verif_ns",
    )
    _CACHE["d"] = D
    return D


def _pyargs(args):
    out = []
    for x in args:
        if isinstance(x, int):
            out.append(x)
        elif x[0] == "t":
            out.append(tuple(x[1:]))
        elif x[0] == "d":
            out.append({k: v for k, v in x[1:]})
        else:
            raise ValueError(x)
    return tuple(out)


def _args_canon(a):
    """Canonical text of a trace's stored argument package."""
    import numpy as np

    out = []
    for x in a:
        if isinstance(x, tuple):
            out.append(["t"] + [int(np.asarray(y)) for y in x])
        elif isinstance(x, dict):
            out.append(["d"] + [[k, int(np.asarray(v))] for k, v in x.items()])
        else:
            out.append(int(np.asarray(x)))
    return out


def _val(tid, ints):
    import jax.numpy as jnp

    if tid == "bl":
        return jnp.asarray(bool(ints[0]))
    if VLEN[tid] == 1:
        return jnp.asarray(ints[0], jnp.int32)
    return jnp.asarray(ints, jnp.int32)


def _val_canon(v):
    import numpy as np

    return [int(x) for x in np.asarray(v).astype(np.int64).reshape(-1)]


def _int_exact(x, what):
    import numpy as np

    f = float(np.asarray(x))
    if f != round(f):
        raise AssertionError(f"{what} is not an exact integer: {f}")
    return int(round(f))


def _chm(tid, c):
    import jax.numpy as jnp

    from genjax import ChoiceMap, Mask

    if c == "none":
        return ChoiceMap.empty()
    if c[0] == "v":
        return ChoiceMap.choice(_val(tid, c[1]))
    flag = {"cT": True, "cF": False, "dT": jnp.asarray(True), "dF": jnp.asarray(False)}[c[1]]
    if c[0] == "mk":
        return ChoiceMap.choice(_val(tid, c[2])).mask(flag)
    if c[0] == "m":  # a Mask placed in a Choice without going through Choice.build
        from genjax._src.core.generative.choice_map import Choice

        return Choice(Mask(_val(tid, c[2]), flag))
    raise ValueError(c)


def _bwd_canon(chm):
    from genjax import Mask

    v = chm.get_value()
    if v is None:
        return "none"
    if isinstance(v, Mask):
        if bool(v.primal_flag()):
            return ["m", "T", _val_canon(v.value)]
        return ["m", "F", "_"]
    return ["v", _val_canon(v)]


def _sel(name):
    from genjax import Selection

    return {
        "all": Selection.all(), "leaf": Selection.leaf(), "notx": ~Selection.at["x"],
        "none": Selection.none(), "atx": Selection.at["x"],
    }[name]


def _err(e, missing_ctx=False):
    from genjax._src.core.generative.concepts import NotSupportedEditRequest

    if isinstance(e, NotSupportedEditRequest):
        return "unsupported"
    if missing_ctx:
        return "missing"
    if isinstance(e, TypeError):
        return "type"
    return "other:" + type(e).__name__


def _argdiffs(args, tag):
    from genjax import Diff

    return Diff.no_change(args) if tag == "nc" else Diff.unknown_change(args)


def _tag(rd):
    from genjax import Diff

    return "nc" if Diff.static_check_no_change(rd) else "uc"


def wl_case(case):
    """Run one history on the implementation; return canonical steps + key data."""
    import jax

    from genjax import Regenerate, Update

    tid = case["tid"]
    d = _densities()[tid]
    keys = {}

    def key(seed):
        k = jax.random.key(seed)
        keys[str(seed)] = int(jax.random.key_data(k)[1])
        return k

    key(case["init"][1])
    for op in case["ops"]:
        if op[0] == "regen":
            key(op[1])
    key(0)
    steps = []
    init = case["init"]
    tr = None

    def route(args):
        """`via == closure`: a keyword package is delivered the way users write it, `d(*pos, **kw).method(…, ())`
        (GenerativeFunctionClosure -> handle_kwargs); otherwise the package is handed to the distribution itself."""
        a = _pyargs(args)
        if case.get("via") == "closure" and len(a) == 2 and isinstance(a[0], tuple) and isinstance(a[1], dict) and a[1]:
            return d(*a[0], **a[1]), ()
        return d, a

    try:
        if init[0] == "sim":
            k = key(init[1])
            g, a = route(init[2])
            tr = g.simulate(k, a)
            steps.append(["tr", _args_canon(tr.get_args()), _val_canon(tr.get_retval()), _int_exact(tr.get_score(), "score")])
        else:
            k = key(init[1])
            g, a = route(init[3])
            tr, w = g.importance(k, _chm(tid, init[2]), a)
            steps.append(["tr", _args_canon(tr.get_args()), _val_canon(tr.get_retval()), _int_exact(tr.get_score(), "score"),
                          _int_exact(w, "weight")])
    except Exception as e:  # noqa: BLE001
        steps.append(["err", _err(e)])
        return {"steps": steps, "keys": keys, "msg": f"{type(e).__name__}: {str(e)[:160]}"}
    msg = None
    for op in case["ops"]:
        try:
            kind = op[0]
            if kind in ("upd", "regen", "empty", "other"):
                if kind == "upd":
                    ntr, w, rd, bwd = tr.update(key(0), _chm(tid, op[1]), _argdiffs(_pyargs(op[2]), op[3]))
                elif kind == "regen":
                    ntr, w, rd, req = tr.edit(key(op[1]), Regenerate(_sel(op[5])), _argdiffs(_pyargs(op[3]), op[4]))
                    assert isinstance(req, Update), type(req)
                    bwd = req.constraint
                elif kind == "empty":
                    ntr, w, rd, req = d.edit_empty(tr, _argdiffs(_pyargs(op[1]), op[2]))
                    bwd = req.constraint
                else:
                    import jax.numpy as jnp

                    from genjax import ChoiceMap
                    from genjax._src.core.generative.concepts import IndexRequest

                    ntr, w, rd, req = tr.edit(key(0), IndexRequest(jnp.asarray(0), Update(ChoiceMap.empty())),
                                              _argdiffs(_pyargs(op[1]), op[2]))
                    bwd = req.constraint
                steps.append(["ed", _args_canon(ntr.get_args()), _val_canon(ntr.get_retval()),
                              _int_exact(ntr.get_score(), "score"), _int_exact(w, "weight"), _tag(rd), _bwd_canon(bwd)])
                tr = ntr
            elif kind == "proj":
                w = tr.project(key(0), _sel(op[2]))
                steps.append(["w", _int_exact(w, "weight")])
            elif kind == "assess":
                try:
                    g, a = route(op[2])
                    s, v = g.assess(_chm(tid, op[1]), a)
                except Exception as e:  # noqa: BLE001
                    steps.append(["err", _err(e, missing_ctx=_chm(tid, op[1]).get_value() is None)])
                    msg = f"{type(e).__name__}: {str(e)[:160]}"
                    break
                steps.append(["as", _int_exact(s, "score"), _val_canon(v)])
            else:
                raise ValueError(op)
        except AssertionError:
            raise
        except Exception as e:  # noqa: BLE001
            steps.append(["err", _err(e)])
            msg = f"{type(e).__name__}: {str(e)[:160]}"
            break
    return {"steps": steps, "keys": keys, "msg": msg}


# --------------------------------------------------------------------------- TFP sweep


def _table():
    if "t" not in _CACHE:
        from harness import dist_table

        _CACHE["t"] = dist_table.table()
    return _CACHE["t"]


def tfp_exports(_=None):
    import importlib
    import warnings

    warnings.filterwarnings("ignore")
    import genjax  # noqa: F401
    from genjax._src.generative_functions.distributions.distribution import ExactDensity

    M = importlib.import_module(WMOD)
    names = sorted(n for n, o in vars(M).items() if isinstance(o, ExactDensity))
    T = _table()
    info = {}
    for n in names:
        if n in T:
            e = T[n]
            info[n] = {"grid": len(e["grid"]), "kwgrid": len(e["kwgrid"]), "batchable": e["batchable"],
                       "sample_shape": e["sample_shape"], "names": list(e["names"]), "heavy": e["heavy"]}
    import genjax as G

    return {"exported": names, "gridded": info, "not_toplevel": [n for n in names if not hasattr(G, n)],
            "genjax_file": G.__file__}


def _arr(x):
    import jax.numpy as jnp

    if isinstance(x, (list, tuple)):
        return jnp.asarray(x, jnp.float32)
    return x


def _close(a, b, scale=1.0):
    import numpy as np

    a, b = float(np.asarray(a)), float(np.asarray(b))
    if np.isnan(a) and np.isnan(b):
        return True  # TFP's own NaN reproduced by the wrapper
    if not (np.isfinite(a) and np.isfinite(b)):
        return a == b
    return abs(a - b) <= 1e-5 * scale + 1e-5 * max(abs(a), abs(b))


def tfp_case(case):
    """All C24 checks for one (distribution, invocation).  The GFI calls run under `jax.jit` (a handful
    of compiled functions per case: eager TFP samplers with rejection loops are far too slow); the
    comparisons happen on the returned arrays.  level 0: simulate only; 1: + assess / importance /
    update / discard / project (+ keyword-vs-positional when `kw`); 2: + unconstrained and array-flag
    mask importance / update, changed-argument updates, mixed keyword calls."""
    import importlib
    import warnings

    warnings.filterwarnings("ignore")
    import jax
    import jax.numpy as jnp
    import numpy as np

    from genjax import ChoiceMap, Diff, Selection

    M = importlib.import_module(WMOD)
    name, mode, gi, seed = case["name"], case["mode"], case["gi"], case["seed"]
    level = case.get("level", 2)
    ent = _table()[name]
    d = getattr(M, name)
    fails, feats = [], []

    def bad(check, detail):
        fails.append({"check": check, "detail": str(detail)[:300]})

    # ---- build the invocation
    kw, sshape = {}, ()
    if mode == "kwonly":
        pos = ()
        kw = {k: _arr(v) for k, v in ent["kwgrid"][gi].items()}
    elif mode == "batched":
        g0, g1 = ent["grid"][0], ent["grid"][1]
        pos = tuple(jnp.asarray([a, b], jnp.float32) for a, b in zip(g0, g1))
    else:
        pos = tuple(_arr(x) for x in ent["grid"][gi])
    if mode == "sshape":
        sshape = (3,)
    alt = None
    if mode == "pos" and level >= 2:
        cand = tuple(_arr(x) for x in ent["grid"][(gi + 1) % len(ent["grid"])])
        if all(np.shape(a) == np.shape(b) for a, b in zip(cand, pos)):
            alt = cand

    orc = ent["oracle"](*pos, **kw)
    key, key2 = jax.random.key(seed), jax.random.key(seed + 7919)
    P = {n: np.asarray(x) for n, x in zip(ent["names"], pos)}
    P.update({k: np.asarray(x) for k, x in kw.items()})

    def total(o, v):
        return jnp.sum(o.log_prob(v))

    def target(p, k):
        """the generative function to call GFI methods on, and the args tuple"""
        kk = dict(k)
        if sshape:
            kk["sample_shape"] = sshape
        if kk:
            return d(*p, **kk), ()
        return d, p

    gf, args = target(pos, kw)

    # ---- simulate (one compiled function, several keys)
    @jax.jit
    def f_sim(k):
        tr = gf.simulate(k, args)
        return tr.get_retval(), tr.get_score(), total(orc, tr.get_retval()), tr.project(k, Selection.all()), tr.project(k, Selection.none())

    v, score, ref, p_all, p_none = f_sim(key)
    vnp = np.asarray(v)
    nonfinite = False

    def check_sim(vv, ss, rr, pa, pn):
        nonlocal nonfinite
        if jnp.shape(ss) != ():
            bad("simulate.score_scalar", jnp.shape(ss))
        if np.isnan(float(rr)):
            nonfinite = True  # TFP's own log_prob is NaN at a value TFP's own sampler produced: recorded, not judged
        elif not np.isfinite(float(rr)):
            bad("simulate.value_outside_support", float(rr))
        if not _close(ss, rr):
            bad("simulate.score", (float(ss), float(rr)))
        if not _close(pa, ss) or float(pn) != 0.0:
            bad("project", (float(pa), float(pn)))
        if not ent["support"](np.asarray(vv), P):
            bad("sample.support", np.asarray(vv).tolist())

    check_sim(v, score, ref, p_all, p_none)
    want_shape = tuple(sshape) + tuple(orc.batch_shape) + tuple(orc.event_shape)
    if tuple(jnp.shape(v)) != want_shape:
        bad("sample.shape", (jnp.shape(v), want_shape))
    kind = ent["dtype"]
    if kind == "bool" and vnp.dtype != np.bool_:
        bad("sample.dtype", vnp.dtype)
    if kind == "int" and not np.issubdtype(vnp.dtype, np.integer):
        bad("sample.dtype", vnp.dtype)
    if kind == "float" and not np.issubdtype(vnp.dtype, np.floating):
        bad("sample.dtype", vnp.dtype)
    if vnp.dtype != np.dtype(orc.dtype):
        bad("sample.dtype_vs_tfp", (vnp.dtype, orc.dtype))
    # a second draw: more support / score evidence, and the in-support value used as constraint below
    v2, s2, ref2, pa2, pn2 = f_sim(key2)
    check_sim(v2, s2, ref2, pa2, pn2)
    v2np = np.asarray(v2)
    if level >= 2:
        check_sim(*f_sim(jax.random.key(seed + 1)))

    if level >= 1:
        # ---- constraints; the old trace is rebuilt from its value (no sampler inside this function)
        @jax.jit
        def f_cons(k, v, v2, fT, fF):
            o = {}
            chm2 = ChoiceMap.choice(v2)
            o["as_s"], o["as_r"] = gf.assess(chm2, args)
            tr2, w2 = gf.importance(k, chm2, args)
            o["im_w"], o["im_s"], o["im_v"] = w2, tr2.get_score(), tr2.get_retval()
            tr, _ = gf.importance(k, ChoiceMap.choice(v), args)
            tr3, w3, _rd, disc = tr.update(k, chm2)
            o["up_w"], o["up_s"], o["up_v"] = w3, tr3.get_score(), tr3.get_retval()
            dv = disc.get_value()
            o["up_d"] = dv if dv is not None else jnp.zeros((0,))
            if level >= 2:
                trU, wU, _, _ = tr.update(k, chm2.mask(fT))
                o["uT_w"], o["uT_v"] = wU, trU.get_retval()
                trV, wV, _, _ = tr.update(k, chm2.mask(fF))
                o["uF_w"], o["uF_v"] = wV, trV.get_retval()
            return o

        o = f_cons(key, v, v2, jnp.asarray(True), jnp.asarray(False))
        scale = max(1.0, abs(float(ref)), abs(float(ref2)))
        if not _close(o["as_s"], ref2):
            bad("assess.score", (float(o["as_s"]), float(ref2)))
        if not np.array_equal(np.asarray(o["as_r"]), v2np):
            bad("assess.retval", None)
        if not (_close(o["im_w"], ref2) and _close(o["im_s"], ref2)):
            bad("importance.weight", (float(o["im_w"]), float(o["im_s"]), float(ref2)))
        if not np.array_equal(np.asarray(o["im_v"]), v2np):
            bad("importance.value", None)
        if not _close(o["up_w"], float(ref2) - float(ref), scale):
            bad("update.weight", (float(o["up_w"]), float(ref2) - float(ref)))
        if not _close(o["up_s"], ref2):
            bad("update.score", (float(o["up_s"]), float(ref2)))
        if not np.array_equal(np.asarray(o["up_v"]), v2np):
            bad("update.value", None)
        if not np.array_equal(np.asarray(o["up_d"]), vnp):
            bad("update.discard", None)
        feats.append("constraints")
        if level >= 2:
            if not (_close(o["uT_w"], float(ref2) - float(ref), scale) and np.array_equal(np.asarray(o["uT_v"]), v2np)):
                bad("update.mask_true", (float(o["uT_w"]), float(ref2) - float(ref)))
            if not (_close(o["uF_w"], 0.0, scale) and np.array_equal(np.asarray(o["uF_v"]), vnp)):
                bad("update.mask_false", float(o["uF_w"]))

            # ---- importance without constraint and under an array-flag mask (one sampler each)
            @jax.jit
            def f_empty(k):
                tr0, w0 = gf.importance(k, ChoiceMap.empty(), args)
                return w0, tr0.get_score(), tr0.get_retval(), total(orc, tr0.get_retval())

            w0, s0, v0, r0 = f_empty(key)
            if float(w0) != 0.0 or not _close(s0, r0):
                bad("importance.unconstrained", (float(w0), float(s0), float(r0)))
            if not np.array_equal(np.asarray(v0), vnp):
                bad("importance.unconstrained_value_vs_simulate", None)

            @jax.jit
            def f_mask(k, v2, flag):
                trm, wm = gf.importance(k, ChoiceMap.choice(v2).mask(flag), args)
                return wm, trm.get_score(), trm.get_retval(), total(orc, trm.get_retval())

            wT, sT, vT, _ = f_mask(key, v2, jnp.asarray(True))
            if not (_close(wT, ref2) and _close(sT, ref2) and np.array_equal(np.asarray(vT), v2np)):
                bad("importance.mask_true", (float(wT), float(ref2)))
            wF, sF, vF, rF = f_mask(key, v2, jnp.asarray(False))
            if float(wF) != 0.0 or not _close(sF, rF) or not np.array_equal(np.asarray(vF), vnp):
                bad("importance.mask_false", (float(wF), float(sF), float(rF)))
            feats.append("masks")

        # ---- update with changed arguments (no constraint, and to the new value)
        if alt is not None:
            orc_alt = ent["oracle"](*alt)

            @jax.jit
            def f_alt(k, v, v2):
                tr, _ = d.importance(k, ChoiceMap.choice(v), pos)
                tr4, w4, _, _ = tr.update(k, ChoiceMap.empty(), Diff.unknown_change(alt))
                tr5, w5, _, _ = tr.update(k, ChoiceMap.choice(v2), Diff.unknown_change(alt))
                return total(orc_alt, v), total(orc_alt, v2), w4, tr4.get_retval(), tr4.get_score(), w5, tr5.get_score()

            ra, ra2, w4, v4, s4, w5, s5 = f_alt(key, v, v2)
            if np.isfinite(float(ra)):
                if not _close(w4, float(ra) - float(ref), max(scale, abs(float(ra)))) or not _close(s4, ra):
                    bad("update.args_weight", (float(w4), float(ra) - float(ref)))
                if not np.array_equal(np.asarray(v4), vnp):
                    bad("update.args_value", None)
                feats.append("update.args")
            if np.isfinite(float(ra2)):
                if not _close(w5, float(ra2) - float(ref), max(scale, abs(float(ra2)))) or not _close(s5, ra2):
                    bad("update.args_value_weight", (float(w5), float(ra2) - float(ref)))
                feats.append("update.args+value")

        # ---- keyword vs positional, same key
        names = ent["names"]
        if case.get("kw", level >= 2) and mode in ("pos", "batched", "sshape") and len(names) == len(pos):
            kk = dict(zip(names, pos))
            if sshape:
                kk["sample_shape"] = sshape
            kk2 = dict(list(kk.items())[1:])

            @jax.jit
            def f_kw(k, v, v2):
                chm2 = ChoiceMap.choice(v2)
                trk = d(**kk).simulate(k, ())
                sk, _ = d(**kk).assess(chm2, ())
                trh, wh = d(pos[0], **kk2).importance(k, ChoiceMap.choice(v), ())
                _, wh3, _, _ = trh.update(k, chm2)
                return trk.get_retval(), trk.get_score(), sk, wh, wh3

            kv, ks, sk, wh, wh3 = f_kw(key, v, v2)
            if not np.array_equal(np.asarray(kv), vnp):
                bad("kwargs.value", (np.asarray(kv).tolist(), vnp.tolist()))
            if not _close(ks, score):
                bad("kwargs.score", (float(ks), float(score)))
            if not _close(sk, ref2):
                bad("kwargs.assess", (float(sk), float(ref2)))
            if not _close(wh, ref):
                bad("kwargs.mixed_importance", (float(wh), float(ref)))
            if not _close(wh3, float(ref2) - float(ref), scale):
                bad("kwargs.mixed_update", (float(wh3), float(ref2) - float(ref)))
            feats.append("kwargs")
    if nonfinite:
        feats.append("oracle-nan")
    return {"fails": fails, "feats": feats, "score": float(score), "ref": float(ref)}


def impl_batch(batch):
    import resource

    out = []
    for case in batch:
        try:
            if case["kind"] == "wl":
                out.append(wl_case(case))
            else:
                r0 = resource.getrusage(resource.RUSAGE_SELF)
                res = tfp_case(case)
                r1 = resource.getrusage(resource.RUSAGE_SELF)
                res["cpu_s"] = round(r1.ru_utime + r1.ru_stime - r0.ru_utime - r0.ru_stime, 2)
                out.append(res)
        except AssertionError as e:
            out.append({"assert": str(e)[:300]})
        except Exception as e:  # noqa: BLE001
            import traceback

            out.append({"error": f"{type(e).__name__}: {str(e)[:300]}", "tb": traceback.format_exc()[-1200:]})
    return out


# =====================================================================================
# main-process side: generators, model lines, comparison, predicate
# =====================================================================================


def _leafless(args):
    """No array/number leaf anywhere in the package: `Diff.static_check_no_change` is then vacuously true whatever
    tag the caller asked for, so the model's tag (defined as that check's outcome) is NoChange."""
    return all(isinstance(x, list) and len(x) == 1 for x in args)


def line_of(case, keys):
    def k(seed):
        return keys[str(seed)]

    init = case["init"]
    parts = ["dist", case["tid"]]
    if init[0] == "sim":
        parts.append(["sim", k(init[1]), init[2]])
    else:
        parts.append(["gen", k(init[1]), init[2], init[3]])
    for op in case["ops"]:
        if op[0] == "regen":
            parts.append(["regen", k(op[1]), op[2], op[3], "nc" if _leafless(op[3]) else op[4]])
        elif op[0] == "proj":
            parts.append(["proj", op[1]])
        else:
            parts.append(list(op))
    return sx(parts)


def _sx_of(x):
    """nested python (ints / strs / lists) -> the parse_sx shape (all atoms strings)."""
    if isinstance(x, list):
        return [_sx_of(y) for y in x]
    return sx(x)


def _resolve(c, old):
    if c == "none":
        return old, False
    if c[0] == "v":
        return c[1], True
    return (c[2], True) if c[1] in ("cT", "dT") else (old, False)


def predicate(case, steps):
    """C24 on the implementation's own outputs (NumPy reference log-densities, no model)."""
    tid = case["tid"]
    if not steps:
        return "no output"
    plan = [case["init"]] + list(case["ops"])
    prev = None  # (args, value, score)
    for op, st in zip(plan, steps):
        if st[0] == "err":
            return None  # error behaviour is correspondence-only
        if st[0] in ("tr", "ed"):
            args, v, score = st[1], st[2], st[3]
            want = ref_total(tid, v, args)
            if want is None:
                return f"{op[0]}: trace exists although its arguments do not bind"
            if score != want:
                return f"{op[0]}: score {score} != sum of log-density leaves {want} (value {v}, args {args})"
        if st[0] == "tr" and op[0] == "gen":
            newv, over = _resolve(op[2], None)
            w = st[4]
            if over and (st[2] != newv or w != st[3]):
                return f"importance constrained: value {st[2]} / weight {w} vs constraint {newv} / score {st[3]}"
            if not over and w != 0:
                return f"importance unconstrained: weight {w} != 0"
        if st[0] == "ed":
            w = st[4]
            if w != st[3] - prev[2]:
                return f"{op[0]}: weight {w} != new score {st[3]} - old score {prev[2]}"
            if op[0] == "upd":
                newv, over = _resolve(op[1], prev[1])
                if st[2] != newv:
                    return f"update: value {st[2]} != constraint applied to old value {newv}"
                b = st[6]
                if over and not (isinstance(b, list) and b[0] in ("v", "m") and b[-1] == prev[1] and (b[0] == "v" or b[1] == "T")):
                    return f"update: discard {b} does not carry the overwritten value {prev[1]}"
                if not over and not (b == "none" or (isinstance(b, list) and b[0] == "m" and b[1] == "F")):
                    return f"update: discard {b} is not empty although nothing was overwritten"
            if op[0] in ("empty",) or (op[0] == "regen" and op[2] == "F"):
                if st[2] != prev[1]:
                    return f"{op[0]}: value changed from {prev[1]} to {st[2]} although unselected"
                if op[0] == "regen" and op[4] == "nc" and (w != 0 or st[1] != prev[0]):
                    return "regenerate unselected/NoChange: not the identity"
        if st[0] == "w":
            want = prev[2] if op[1] == "T" else 0
            if st[1] != want:
                return f"project({op[2]}): {st[1]} != {want}"
        if st[0] == "as":
            c = op[1]
            v = c[1] if c[0] == "v" else c[2]
            want = ref_total(tid, v, op[2])
            if st[1] != want or st[2] != v:
                return f"assess: {st[1]} != sum of log-density leaves {want}"
        if st[0] in ("tr", "ed"):
            prev = (st[1], st[2], st[3])
    return None


def compare(model_line, steps):
    """None when the canonical observations agree (tags one-way), else a description."""
    if not model_line.startswith("(ok"):
        return f"model rejected the request: {model_line}"
    m = common.parse_sx(model_line)[1:]
    i = _sx_of(steps)
    if len(m) != len(i):
        return f"step count: model {len(m)} impl {len(i)}"
    for n, (a, b) in enumerate(zip(m, i)):
        if a[0] == "ed" and b[0] == "ed" and len(a) == len(b) == 7:
            if a[:5] + a[6:] != b[:5] + b[6:]:
                return f"step {n}: model {sx(a)} impl {sx(b)}"
            if b[5] == "nc" and a[5] != "nc":
                return f"step {n}: implementation tags NoChange, model tags a change"
        elif a != b:
            return f"step {n}: model {sx(a)} impl {sx(b)}"
    return None


# ----- generators


def _rand_val(rng, tid):
    return [rng.randrange(VMOD[tid]) for _ in range(VLEN[tid])]


def _rand_args(rng, tid, malformed=False):
    a, b = rng.randint(-2, 4), rng.randint(0, 3)
    if malformed:
        return rng.choice([
            [a, b, 1], [["t", a], ["d", ["c", 1]]], [["t", a, b], ["d", ["b", 1]]], [5, ["d", ["b", 1]]],
            [], [["t"], ["d", ["b", b]]], [["t", a, b, 1], ["d"]], [["d", ["a", 1]], ["d", ["b", 1]]],
        ])
    forms = [[a], [a, b], [["t", a], ["d", ["b", b]]], [["t"], ["d", ["a", a], ["b", b]]], [["t", a, b], ["d"]],
             [["t"], ["d", ["a", a]]], [["d"], ["d", ["a", a], ["b", b]]]]
    if tid == "ns":
        forms = [[a], [["t", a], ["d"]], [["t"], ["d", ["a", a]]], [a, b]]  # the last: sampler rejects b
    return rng.choice(forms)


def _rand_constraint(rng, tid):
    k = rng.random()
    if k < 0.2:
        return "none"
    if k < 0.45:
        return ["v", _rand_val(rng, tid)]
    if k < 0.85:
        return ["mk", rng.choice(FLAGS), _rand_val(rng, tid)]
    return ["m", rng.choice(FLAGS), _rand_val(rng, tid)]


def _rand_op(rng, tid, args):
    k = rng.random()
    mal = rng.random() < 0.06
    nargs = args if rng.random() < 0.4 else _rand_args(rng, tid, mal)
    tag = rng.choice(["nc", "uc"])
    if k < 0.4:
        return ["upd", _rand_constraint(rng, tid), nargs, tag]
    if k < 0.65:
        chk = rng.choice(["T", "F"])
        return ["regen", rng.randrange(1 << 16), chk, nargs, tag, rng.choice(SEL_T if chk == "T" else SEL_F)]
    if k < 0.72:
        return ["empty", nargs, tag]
    if k < 0.76:
        return ["other", nargs, tag]
    if k < 0.88:
        chk = rng.choice(["T", "F"])
        return ["proj", chk, rng.choice(SEL_T if chk == "T" else SEL_F)]
    c = _rand_constraint(rng, tid)
    return ["assess", c, nargs]


def rand_case(rng):
    tid = rng.choice(TIDS)
    args = _rand_args(rng, tid, rng.random() < 0.08)
    if rng.random() < 0.4:
        init = ["sim", rng.randrange(1 << 16), args]
    else:
        init = ["gen", rng.randrange(1 << 16), _rand_constraint(rng, tid), args]
    ops = [_rand_op(rng, tid, args) for _ in range(rng.randint(1, 4))]
    return {"kind": "wl", "tid": tid, "init": init, "ops": ops, "via": rng.choice(["direct", "closure"])}


def exhaustive_cases():
    """Every branch of the wrapper once per density and argument-package form: each initial constraint kind;
    each update constraint kind x argdiff tag x (same | changed) arguments (the arms of edit_update do not depend on
    how the old trace was made, so the two families are not multiplied); regenerate / project per selection kind x tag x
    arguments; edit_empty; assess per constraint kind; the unsupported request; the arity-restricted sampler."""
    out = []
    for tid in TIDS:
        v1 = [(i + 1) % VMOD[tid] for i in range(VLEN[tid])]
        v2 = [(2 * i + 2) % VMOD[tid] for i in range(VLEN[tid])]
        cons = lambda v: ["none", ["v", v]] + [["mk", f, v] for f in FLAGS] + [["m", f, v] for f in FLAGS]  # noqa: E731
        argsets = [[2], [["t", 2], ["d", ["b", 1]]]] if tid != "ns" else [[2], [["t"], ["d", ["a", 2]]]]
        newargs = [[3], [["t"], ["d", ["a", 1], ["b", 2]]]] if tid != "ns" else [[3], [["t", 1], ["d"]]]
        for ai, args in enumerate(argsets):
            for c0 in cons(v1):
                out.append({"kind": "wl", "tid": tid, "init": ["gen", 11 + ai, c0, args],
                            "ops": [["upd", ["v", v2], newargs[ai], "uc"], ["proj", "T", "all"]]})
            for c1 in cons(v2):
                for tag in ("nc", "uc"):
                    out.append({"kind": "wl", "tid": tid, "init": ["sim", 12 + ai, args],
                                "ops": [["upd", c1, args, tag], ["upd", c1, newargs[ai], tag], ["upd", "none", args, tag]]})
            for chk, sels in (("T", SEL_T), ("F", SEL_F)):
                for sel in sels:
                    for tag in ("nc", "uc"):
                        out.append({"kind": "wl", "tid": tid, "init": ["sim", 5, args],
                                    "ops": [["regen", 77, chk, args, tag, sel], ["proj", chk, sel], ["regen", 78, chk, newargs[ai], tag, sel],
                                            ["empty", newargs[ai], tag], ["assess", ["v", v2], args], ["other", args, tag]]})
            out.append({"kind": "wl", "tid": tid, "init": ["sim", 9, args], "ops": [["assess", c, args] for c in cons(v1) if _has_value(c)]})
            for c in cons(v1):
                if not _has_value(c):
                    out.append({"kind": "wl", "tid": tid, "init": ["sim", 9, args], "ops": [["assess", c, args]]})
        if tid == "ns":  # the sampler rejects two arguments: plain constraint fine, mask must fail (both arms traced)
            for c0 in cons(v1):
                out.append({"kind": "wl", "tid": tid, "init": ["gen", 3, c0, [2, 1]], "ops": [["proj", "T", "all"]]})
                out.append({"kind": "wl", "tid": tid, "init": ["sim", 3, [2]], "ops": [["upd", c0, [2, 1], "uc"], ["regen", 4, "T", [2, 1], "uc", "all"]]})
    for c in list(out):  # the keyword packages again, delivered through GenerativeFunctionClosure
        if any(isinstance(x, list) and x[0] == "d" and len(x) > 1 for x in c["init"][-1]):
            out.append({**c, "via": "closure"})
    return out


def _has_value(c):
    return c != "none" and not (c[0] == "mk" and c[1] == "cF")


def tfp_cases(exports, tier, rng):
    """quick: per wrapper the first grid point at level 2 for a third of the wrappers (rotating with the seed) and
    level 1 + keyword-vs-positional for the others, every keyword-only invocation and ONE other invocation (another
    grid point / batched / sample_shape, rotating) at level 1.  thorough: every invocation at level 2, plus a second
    seed at level 1 on the first grid point and the keyword-only forms.
    `heavy` wrappers (log_prob / sampler cost minutes of XLA compilation) run that many levels lower."""
    cases = []
    quick = tier == "quick"
    rot = rng.randrange(3)
    for idx, (name, info) in enumerate(sorted(exports["gridded"].items())):
        heavy = int(info.get("heavy") or 0)

        def lvl(base):
            return min(2, max(0, base - heavy))

        for s in range(1 if quick else 2):
            seed = rng.randrange(1 << 20)
            others = [("pos", gi) for gi in range(1, info["grid"])]
            if info["batchable"] and info["grid"] >= 2:
                others.append(("batched", 0))
            if info["sample_shape"]:
                others.append(("sshape", 0))
            if quick:
                others = [rng.choice(others)] if others and not heavy else []
            elif s == 1:
                others = []  # second thorough seed: first grid point and keyword-only forms only
            deep = 3 if s == 0 else 1  # thorough: first seed full battery, second seed level 1
            first = lvl(deep) if not quick else lvl(2 if (idx + rot) % 3 == 0 else 1)
            cases.append({"kind": "tfp", "name": name, "mode": "pos", "gi": 0, "seed": seed, "level": first, "kw": True})
            for gi in range(info["kwgrid"]):
                cases.append({"kind": "tfp", "name": name, "mode": "kwonly", "gi": gi, "seed": seed + 31 + gi, "level": lvl(1 if quick else deep)})
            for mode, gi in others:
                cases.append({"kind": "tfp", "name": name, "mode": mode, "gi": gi, "seed": seed + 57 + gi, "level": lvl(1 if quick else deep),
                              "kw": mode != "pos"})
    # expensive cases first so the pool's tail is short
    cases.sort(key=lambda c: -c["level"])
    return cases


def _chunks(xs, n):
    return [xs[i:i + n] for i in range(0, len(xs), n)]


def _impl_many(groups, per_call=10 ** 9):
    """groups: [(cases, chunk)] -> [results].  As few worker pools as possible (start-up dominates), but at most
    `per_call` batches per pool so that one pool call stays well inside common's per-call worker timeout."""
    batches, owner = [], []
    for gi, (cases, chunk) in enumerate(groups):
        for b in _chunks(cases, chunk):
            batches.append(b)
            owner.append(gi)
    res = []
    for i in range(0, len(batches), per_call):
        part = batches[i:i + per_call]
        res.extend(common.run_impl_parallel("harness.props.c24", "impl_batch", part, procs=None))
    outs = [[] for _ in groups]
    for gi, r in zip(owner, res):
        if isinstance(r, dict) and ("__harness_error__" in r or "__worker_lost__" in r):
            raise common.Infra(str(r.get("__harness_error__") or r.get("__worker_lost__")) + r.get("tb", ""))
        outs[gi].extend(r)
    return outs


def _impl(cases, chunk):
    return _impl_many([(cases, chunk)])[0]


def _neighbours(case):
    """Mutation neighbourhood of a history (for the failing-input search)."""
    out = []
    for tid in TIDS:
        if tid != case["tid"] and VLEN[tid] == VLEN[case["tid"]]:
            out.append({**case, "tid": tid})
    for i in range(len(case["ops"])):
        out.append({**case, "ops": case["ops"][: i + 1]})
        op = case["ops"][i]
        if op[0] in ("upd",):
            for tag in ("nc", "uc"):
                out.append({**case, "ops": case["ops"][:i] + [[op[0], op[1], op[2], tag]]})
            for c in ("none", ["v", [0] * VLEN[case["tid"]]], ["mk", "dT", [1] * VLEN[case["tid"]]], ["mk", "dF", [1] * VLEN[case["tid"]]]):
                out.append({**case, "ops": case["ops"][:i] + [["upd", c, op[2], op[3]]]})
    return out[:40]


def run_wl(ctx: Ctx, cases, label, search=True, impl=None):
    impl = _impl(cases, 40) if impl is None else impl
    todo = []
    for c, r in zip(cases, impl):
        if "error" in r:
            raise common.Infra("harness error in wrapper-logic case: " + r["error"] + r.get("tb", ""))
        todo.append((c, r))
    lines = [line_of(c, r["keys"]) if "assert" not in r else "(ping)" for c, r in todo]
    model = ask_driver(lines)
    for (c, r), ml, req in zip(todo, model, lines):
        ctx.count(label)
        ctx.count("density:" + c["tid"])
        ctx.count("init:" + c["init"][0] + ("" if c["init"][0] == "sim" else ":" + (c["init"][2] if isinstance(c["init"][2], str) else c["init"][2][0] + (c["init"][2][1] if c["init"][2][0] != "v" else ""))))
        for op in c["ops"]:
            ctx.count("op:" + op[0])
        sig = {"stream": "wrapper-logic", "density": c["tid"], "ops": "+".join([c["init"][0]] + [o[0] for o in c["ops"]])}
        if "assert" in r:
            ctx.case_done(c, True)
            ctx.fail("predicate", c, {"why": r["assert"]}, sig, "C24 integer exactness")
            continue
        steps = r["steps"]
        for st in steps:
            if st[0] == "err":
                ctx.count("error:" + st[1])
        ctx.traces_validated += 1
        ctx.case_done(c, len(c["ops"]) > 0, {"request": req[:300], "model": ml[:200], "impl": sx(["ok"] + steps)[:200]})
        why = predicate(c, steps)
        if why is not None:
            ctx.fail("predicate", c, {"why": why, "impl": sx(["ok"] + steps), "model": ml, "impl_msg": r.get("msg")}, sig,
                     "C24_*_weight / C24_simulate_score")
            continue
        diff = compare(ml, steps)
        if diff is not None:
            found = None
            if search and ctx.time_left() > 30:
                nb = _neighbours(c)
                for nc, nr in zip(nb, _impl(nb, 10)):
                    if "steps" in nr:
                        w = predicate(nc, nr["steps"])
                        if w is not None:
                            found = (nc, w, nr)
                            break
            if found:
                ctx.fail("predicate", found[0], {"why": found[1], "impl": sx(["ok"] + found[2]["steps"]), "found_from": c}, sig,
                         "C24 (found by neighbourhood search)")
            else:
                ctx.fail("correspondence", c, {"diff": diff, "model": ml, "impl": sx(["ok"] + steps), "impl_msg": r.get("msg"),
                                               "request": line_of(c, r["keys"])}, sig, "Dist.{simulate,generate,edit,assess,project} vs Distribution")


def run_tfp(ctx: Ctx, cases, impl=None):
    impl = _impl(cases, 4) if impl is None else impl
    for c, r in zip(cases, impl):
        ctx.count("tfp:" + c["mode"])
        ctx.count("tfp-dist:" + c["name"])
        if "error" in r or "assert" in r:
            # the wrapper (or the oracle) raised on a valid-domain invocation: the property fails here
            ctx.case_done(c, True)
            ctx.fail("predicate", c, {"why": "exception on a valid invocation", "error": r.get("error") or r.get("assert"), "tb": r.get("tb")},
                     {"stream": "tfp", "dist": c["name"], "check": "exception", "mode": c["mode"]}, "C24 oracle sweep")
            continue
        ctx.traces_validated += 1
        for f in r["feats"]:
            ctx.count("tfp-feature:" + f)
        ctx.case_done(c, True, {"case": c, "score": r["score"], "tfp": r["ref"]} if len(ctx.samples) < 2 else None)
        for f in r["fails"]:
            ctx.fail("predicate", c, {"why": f["check"], "detail": f["detail"]},
                     {"stream": "tfp", "dist": c["name"], "check": f["check"], "mode": c["mode"]}, "C24 oracle sweep")


def bind_cases(rng, n):
    """Python call-binding model (`Dist.bind`) vs CPython itself (no genjax involved)."""
    out = []
    for _ in range(n):
        params = rng.choice([["a", "b=0"], ["a", "b"], ["a"], ["a=1", "b=2", "c=3"], ["a", "b", "c=5"]])
        pos = [rng.randint(-3, 3) for _ in range(rng.randint(0, 4))]
        names = rng.sample(["a", "b", "c", "z"], rng.randint(0, 3))
        kw = [[k, rng.randint(-3, 3)] for k in names]
        out.append((params, pos, kw))
    return out


def run_bind(ctx: Ctx, cases):
    lines, want = [], []
    for params, pos, kw in cases:
        src = "def f(" + ", ".join(params) + "): return [" + ", ".join(p.split("=")[0] for p in params) + "]"
        ns = {}
        exec(src, ns)  # noqa: S102 - harness-generated text only
        try:
            want.append("(ok " + " ".join(str(x) for x in ns["f"](*pos, **dict(map(tuple, kw)))) + ")")
        except TypeError:
            want.append("(err type)")
        lines.append(sx(["kwbind", params, pos, kw]))
    for ln, w, m in zip(lines, want, ask_driver(lines)):
        ctx.count("bind")
        if m.replace("(ok )", "(ok)") != w.replace("(ok )", "(ok)"):
            ctx.fail("correspondence", {"line": ln}, {"model": m, "cpython": w}, {"stream": "bind"}, "Dist.bind vs CPython call binding")


def run(ctx: Ctx):
    ctx.rule = ("(1) histories init+<=4 ops on 5 integer test densities (scalar/vector/matrix log-density, bool value, "
                "arity-restricted sampler) x constraint kinds {none,value,mask x {py-bool,array} x {T,F}, raw Mask} x argdiff tags x "
                "positional/(args,kwargs)/malformed packages: exhaustive over branch combinations + random; non-trivial = has >=1 op; "
                "(2) every exported TFP wrapper x grid (positional, keyword-only, batched, sample_shape) x all C24 checks; distinct by case")
    exports = common.run_impl_parallel("harness.props.c24", "tfp_exports", [None, None], procs=2)[0]  # two items: stay out of process
    if "__harness_error__" in exports or "__worker_lost__" in exports:
        raise common.Infra(str(exports.get("__harness_error__") or exports.get("__worker_lost__")) + exports.get("tb", ""))
    ctx.notes["genjax_file"] = exports["genjax_file"]
    ctx.notes["exported_wrappers"] = exports["exported"]
    ctx.notes["ungridded_wrappers"] = [n for n in exports["exported"] if n not in exports["gridded"]]
    ctx.notes["grid_entries_without_wrapper"] = [n for n in _table_names() if n not in exports["exported"]]
    ctx.notes["wrappers_not_reexported_at_top_level"] = exports["not_toplevel"]

    ex = exhaustive_cases()
    n_rand = 600 if ctx.tier == "quick" else 4000
    rnd = [rand_case(ctx.rng) for _ in range(n_rand)]
    tcs = tfp_cases(exports, ctx.tier, ctx.rng)
    # one pool for everything (worker start-up dominates)
    if ctx.tier == "quick":  # three pools (2 x TFP sweep, wrapper logic): each stays well inside common's per-call timeout
        (r_tfp,) = _impl_many([(tcs, 2)], per_call=27)
        r_ex, r_rnd = _impl_many([(ex, 40), (rnd, 40)])
    else:  # several pools: each call must finish inside common's per-call worker timeout
        import os

        os.environ.setdefault("VERIF_WORKER_TIMEOUT", "1800")  # thorough tier: XLA compilation of the heavy samplers under load
        (r_tfp,) = _impl_many([(tcs, 2)], per_call=16)
        r_ex, r_rnd = _impl_many([(ex, 40), (rnd, 40)], per_call=120)
    run_tfp(ctx, tcs, r_tfp)
    run_wl(ctx, ex, "wl-exhaustive", impl=r_ex)
    ctx.exhaustive = True
    ctx.notes["exhaustive_space"] = ("per test density x {positional,(args,kwargs)} package: 10 initial constraint kinds; 10 update constraint kinds x "
                                     "{NoChange,Unknown} x {same,changed args}; regenerate/project per selection kind x tag x args; edit_empty; assess per "
                                     "constraint kind; unsupported request (branch coverage of Distribution/ExactDensity, not a product of all of them)")
    run_wl(ctx, rnd, "wl-random", impl=r_rnd)
    run_bind(ctx, bind_cases(ctx.rng, 400 if ctx.tier == "quick" else 4000))


def _table_names():
    import ast
    from pathlib import Path

    src = (Path(__file__).resolve().parent.parent / "dist_table.py").read_text()
    names = []
    for node in ast.walk(ast.parse(src)):
        if isinstance(node, ast.Call) and getattr(node.func, "id", None) == "add" and node.args and isinstance(node.args[0], ast.Constant):
            names.append(node.args[0].value)
    return names


def replay(ctx: Ctx, payload: dict):
    case = payload["case"]
    if "line" in case:
        return
    if case.get("kind") == "tfp":
        run_tfp(ctx, [case])
    else:
        run_wl(ctx, [case], "replay", search=False)


SPEC = Spec(
    prop_id="C24",
    modules=["GenjaxVerif.Props.C24"],
    theorems=["GenjaxVerif.Dist." + t for t in [
        "C24_simulate_score", "C24_total_is_sum", "C24_simulate_error", "C24_assess", "C24_assess_masked", "C24_assess_none",
        "C24_importance_value", "C24_importance_none", "C24_importance_masked", "C24_importance_weight",
        "C24_importance_concrete_mask", "C24_update_weight", "C24_discard_exact", "C24_update_weight_coherent",
        "C24_update_error", "C24_update_roundtrip", "C24_regenerate_selected", "C24_regenerate_unselected_nochange",
        "C24_regenerate_unselected_changed", "C24_edit_empty", "C24_edit_dispatch", "C24_project", "C24_kwargs_equiv",
        "C24_kwargs_equiv_simulate", "C24_kwargs_errors", "C24_tfp_logpdf_ignores_sample_shape", "C24_partial",
        "C24_full_sensitive",
    ]],
    strength="partial",
    run=run,
    replay=replay,
    assumptions=[
        "TFP (tensorflow_probability.substrates.jax 0.23) log_prob / sample are the oracle: the Lean theorems cover the wrapper logic "
        "for an arbitrary base; that each wrapper's base IS the documented tfd distribution is checked numerically (1e-5) on the grid only",
        "oracle parameter order / names in harness/dist_table.py were written from the TFP documentation, not from the wrapper module",
        "optional checkify checks are off (default): assess scores a masked sample on its payload",
    ],
    extra_trusted=["harness/dist_table.py (independent oracle table: tfd constructors, parameter order, supports, dtypes)"],
)
