"""C01 — every trace agrees with assess on its own choices and arguments."""
from harness import gfi_check
from harness.common import Spec


def run(ctx):
    gfi_check.standard_run(ctx, props={"C01"}, opts={"assessSelf": 2.0})


def replay(ctx, payload):
    gfi_check.replay_case(ctx, payload, {"C01"})


SPEC = Spec(prop_id="C01", modules=["GenjaxVerif.Props.C18"], theorems=["GenjaxVerif.Sel.C18_mem_eq_den"], strength="full", run=run, replay=replay)
