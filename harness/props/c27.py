"""C27 — Rejuvenate returns the Metropolis-Hastings log acceptance ratio.

Cases: a straight-line model over integer-valued test distributions (sample =
key_data(key)[-1] % m, logpdf = c0 + c1 v + c2 a v, exact in float32), a trace of it, a
proposal program over a subset of the model's addresses whose positional arguments are
computed by an argument mapping from a choice map (`get addr` / constants), a key.

Correspondence: Lean `Infer.rejuvenate` on `progGF` (driver command `infer … (rejuv …)`) vs
`Rejuvenate(proposal, argmap).edit(key, tr, no-change)` — new choices, new score and weight,
exact integer equality (the model reproduces the sampled proposal through its threefry).

Predicate (implementation only): w == score(new) + assess_q(old values; argmap(NEW choices))
- score(old) - assess_q(new values; argmap(OLD choices)), with every term recomputed by
`assess` on the model / proposal; untouched addresses keep their values; the new score is
the assess score of the new choices.  A second mode applies `Rejuvenate(dist, argmap)` to one
site through `StaticRequest` (random-walk on a single address) — predicate only.
"""

from __future__ import annotations

import os

from harness import common, infer_gen as G
from harness.common import Ctx, Spec, ask_driver, parse_sx

KNOWN_SIG = {"call": "Rejuvenate.edit", "feature": "proposal_args_depend_on_choices"}


# ------------------------------------------------------------------ generation


def gen_case(rng, i):
    n = rng.randint(1, 4)
    nargs = rng.randint(0, 1)
    prog = G.rand_prog(rng, n, nargs)
    args = [rng.randint(0, 3) for _ in range(nargs)]
    addrs = [s[0] for s in prog]
    cons = G.rand_chm(rng, prog, [a for a in addrs if rng.random() < 0.3])
    mode = "site" if rng.random() < 0.2 else "trace"
    if mode == "site":
        a = rng.choice(addrs)
        qa = [a]
    else:
        qa = sorted(rng.sample(addrs, rng.randint(1, min(2, n))), key=addrs.index)
    kind = rng.choice(["const", "walk", "walk", "walk_other"]) if mode == "trace" else rng.choice(["const", "walk"])
    if kind == "const":
        amap = [["c", rng.randint(0, 3)] for _ in range(rng.randint(0, 2))]
    elif kind == "walk":
        amap = [["get", rng.choice(qa)] for _ in range(rng.randint(1, 2))]
        if rng.random() < 0.3:
            amap.append(["c", rng.randint(0, 3)])
    else:  # reads an address the proposal does not propose
        others = [a for a in addrs if a not in qa]
        if not others:
            kind, amap = "walk", [["get", rng.choice(qa)]]
        else:
            amap = [["get", rng.choice(others)], ["get", rng.choice(qa)]]
    qprog = []
    for j, a in enumerate(qa):
        s = G.rand_site(rng, a, j, len(amap))
        if kind != "const" and len(amap) and rng.random() < 0.7:
            s[5] = ["a", rng.randrange(len(amap))]
            if s[4] == 0:
                s[4] = rng.choice([3, 5, 7])
        qprog.append(s)
    return {"id": i, "mode": mode, "kind": kind, "seed": rng.randrange(1000), "prog": prog, "args": args,
            "k0": G.rand_key(rng), "c": cons, "qprog": qprog, "amap": amap, "k": G.rand_key(rng)}


def op_of(case):
    return ["rejuv", case["prog"], case["args"], case["k0"], case["c"], case["qprog"],
            [list(x) for x in case["amap"]], case["k"]]


# ------------------------------------------------------------------ implementation side


def impl_one(case):
    import jax.numpy as jnp
    from genjax import ChoiceMapBuilder, Diff, StaticRequest
    from genjax._src.inference.requests.rejuvenate import Rejuvenate
    from harness import infer_impl as I

    prog, qprog, amap = case["prog"], case["qprog"], case["amap"]
    addrs = [s[0] for s in prog]
    qaddrs = [s[0] for s in qprog]
    gf = I.build_prog(prog)
    args = tuple(jnp.int32(a) for a in case["args"])
    tr, _ = gf.importance(I.key_at(case["seed"], case["k0"]), I.build_chm(case["c"]), args)
    old = dict(map(tuple, I.obs_chm(tr.get_choices(), addrs)))
    old_score = I.exact_int(tr.get_score())
    key = I.key_at(case["seed"], case["k"])
    if case["mode"] == "site":
        qd = I.dist(*qprog[0][1:5])
        aspec = qprog[0][5]

        def argmap(chm):
            pos = [chm.get_value() if x[0] == "get" else x[1] for x in amap]
            return ((pos[aspec[1]] if aspec[0] == "a" else aspec[1]),)

        req = StaticRequest({qaddrs[0]: Rejuvenate(qd, argmap)})
        new_tr, w, _, _ = req.edit(key, tr, Diff.no_change(args))

        def q_assess(vals, ctx):
            pos = [ctx[x[1]] if x[0] == "get" else x[1] for x in amap]
            a = pos[aspec[1]] if aspec[0] == "a" else aspec[1]
            s, _ = qd.assess(ChoiceMapBuilder.v(jnp.int32(vals[qaddrs[0]])), (jnp.int32(a),))
            return I.exact_int(s)
    else:
        q = I.build_prog(qprog)

        def argmap(chm):
            return tuple(chm[x[1]] if x[0] == "get" else jnp.int32(x[1]) for x in amap)

        req = Rejuvenate(q, argmap)
        new_tr, w, _, _ = req.edit(key, tr, Diff.no_change(args))

        def q_assess(vals, ctx):
            pos = tuple(jnp.int32(ctx[x[1]] if x[0] == "get" else x[1]) for x in amap)
            s, _ = q.assess(I.build_chm([[a, vals[a]] for a in qaddrs]), pos)
            return I.exact_int(s)

    new = dict(map(tuple, I.obs_chm(new_tr.get_choices(), addrs)))
    new_score = I.exact_int(new_tr.get_score())
    w = I.exact_int(w)
    # ---- predicate, every term recomputed through assess
    s_new, _ = gf.assess(I.build_chm([[a, new[a]] for a in addrs]), args)
    s_old, _ = gf.assess(I.build_chm([[a, old[a]] for a in addrs]), args)
    s_new, s_old = I.exact_int(s_new), I.exact_int(s_old)
    bwd = q_assess(old, new)   # q(old | new): arguments computed from the NEW trace
    fwd = q_assess(new, old)   # q(new | old)
    required = s_new + bwd - s_old - fwd
    why = None
    if new_score != s_new or old_score != s_old:
        why = f"trace score {new_score} != assess {s_new}"
    elif any(new[a] != old[a] for a in addrs if a not in qaddrs):
        why = "an address outside the proposal changed"
    elif w != required:
        why = f"weight {w} != MH log ratio {required} (= {s_new} + {bwd} - {s_old} - {fwd}); with backward args from the old values it would be {s_new + q_assess(old, old) - s_old - fwd}"
    return {"old": [[a, old[a]] for a in addrs], "old_score": old_score, "new": [[a, new[a]] for a in addrs],
            "new_score": new_score, "w": w, "pred": why, "required": required}


def impl_batch(batch):
    from harness import infer_impl as I

    out = []
    for case in batch:
        try:
            out.append(impl_one(case))
        except Exception as e:  # noqa: BLE001
            out.append({"error": I.err_enum(e), "msg": str(e)[:300]})
    return out


# ------------------------------------------------------------------ check


def _signature(case):
    dep = any(x[0] == "get" for x in case["amap"])
    return {"call": "Rejuvenate.edit", "feature": "proposal_args_depend_on_choices" if dep else "constant_proposal_args"}


def _run_cases(ctx: Ctx, cases, label):
    v = G.variant()
    B = max(1, (len(cases) + 31) // 32)
    batches = [cases[i:i + B] for i in range(0, len(cases), B)]
    res = common.run_impl_parallel("harness.props.c27", "impl_batch", batches)
    impl = []
    for b, r in zip(batches, res):
        if isinstance(r, dict) and ("__harness_error__" in r or "__worker_lost__" in r):
            raise common.Infra(str(r.get("__harness_error__") or r.get("__worker_lost__")) + r.get("tb", ""))
        impl.extend(r)
    # the model is asked about trace-mode cases on which its (variant of the) code is defined
    in_model = [c for c in cases if c["mode"] == "trace" and (v["rejuvFix"] or c["kind"] != "walk_other")]
    model = dict(zip([c["id"] for c in in_model], ask_driver([G.infer_line(v, c["seed"], op_of(c)) for c in in_model])))
    for case, im in zip(cases, impl):
        ctx.count(label)
        ctx.count("mode:" + case["mode"])
        ctx.count("argmap:" + case["kind"])
        ctx.count(f"sites:{len(case['prog'])}")
        sig = _signature(case)
        mo = model.get(case["id"])
        sample = {"case": {k: case[k] for k in ("prog", "qprog", "amap", "k")}, "model": (mo or "")[:80], "impl": str(im)[:80]}
        ctx.case_done(case, True, sample)
        if "error" in im:
            ctx.count("impl-error:" + im["error"])
            ctx.fail("predicate", case, {"impl_error": im, "why": "Rejuvenate.edit raised"}, sig, "C27_rejuvenate_weight")
            continue
        ctx.traces_validated += 1
        if im["pred"] is not None:
            ctx.count("predicate-fail")
            ctx.fail("predicate", case, {"why": im["pred"], "impl": im, "model": mo}, sig, "C27_rejuvenate_weight")
        if mo is None:
            continue
        r = parse_sx(mo)
        if r[0] != "ok":
            ctx.fail("correspondence", case, {"model": mo, "impl": im}, sig, "Infer.rejuvenate vs Rejuvenate.edit")
            continue
        m_old, m_new, m_w = r[1], r[2], int(r[3])
        mine = (G.parse_chm(m_old[0]), int(m_old[1]), G.parse_chm(m_new[0]), int(m_new[1]), m_w)
        theirs = (im["old"], im["old_score"], im["new"], im["new_score"], im["w"])
        if mine != theirs and im["pred"] is None:
            ctx.fail("correspondence", case, {"model": mine, "impl": theirs}, sig, "Infer.rejuvenate vs Rejuvenate.edit")
        elif mine != theirs:
            ctx.count("model-differs-where-predicate-fails")


def run(ctx: Ctx):
    ctx.rule = ("random straight-line models (1-4 sites, integer test distributions), a generated trace (random partial "
                "constraints), a proposal over 1-2 of the model's addresses with constant / random-walk / other-address "
                "argument mappings, whole-trace and single-site (StaticRequest) application; non-trivial = every case "
                "(a proposal is always made); distinct by full case text")
    n = 240 if ctx.tier == "quick" else 3000
    n = max(16, int(n * float(os.environ.get("VERIF_CASES_SCALE") or 1)))
    cases = [gen_case(ctx.rng, i) for i in range(n)]
    _run_cases(ctx, cases, "random")


def replay(ctx: Ctx, payload: dict):
    _run_cases(ctx, [payload["case"]], "replay")


T = "GenjaxVerif.Infer."
SPEC = Spec(
    prop_id="C27",
    modules=["GenjaxVerif.Props.C27"],
    theorems=[T + n for n in (
        "C27_rejuvenate_weight_repaired", "C27_refuted", "C27_rejuvenate_weight_partial", "C27_weight_as_written",
        "C27_proposed_choices", "C27_prog_update_lawful", "C27_prog_repaired")],
    strength="partial",
    run=run,
    replay=replay,
    assumptions=[
        "the model program satisfies the Update law (weight = new score - old score, discard = old values of the "
        "constrained addresses, new choices = old choices overridden by the constraint): hypothesis `UpdateLawful`, "
        "proved for the concrete straight-line programs, the subject of C05/C06 for the combinators",
        "single-site application through StaticRequest is covered by the predicate only",
    ],
)
