"""C30 — VI objective gradient estimators are unbiased for their objectives (PARTIAL).

Closed-form model / guide pairs, built with the REAL API (`genjax.gen`, `genjax.marginal`,
`genjax.Target`, `genjax.vi.ELBO / IWELBO / PWake / QWake`, `genjax.vi.flip_enum`,
`genjax.vi.normal_reparam`, `genjax.vi.adev_distribution(genjax.adev.flip_reinforce, …)`):

  (a) enumerable:  x ~ flip(px(θ)); obs ~ flip(x ? a : b), obs observed;  guide x ~ flip_*(g(θ))
  (b) conjugate Gaussian:  mu ~ N(m0, s0); v ~ N(mu, s1), v observed;  guide mu ~ normal_reparam(gμ(θ), gσ(θ))

Predicate (implementation vs closed forms in float64):
  * ELBO + flip_enum guide: the gradient estimate equals d/dθ(−ELBO(θ)) EXACTLY (any key);
  * ELBO + flip_reinforce guide: both outcomes forced through the real REINFORCE class, Σ q(x)·estimate(x)
    equals that gradient (unbiasedness by exact enumeration);
  * ELBO + normal_reparam guide: per key, the estimate equals the pathwise formula at the ε the
    primitive draws:  ((x−m0)/s0² + (x−v)/s1²)(μ' + σ' ε) − σ'/σ,  x = μ + σ ε;
  * PWake with an enumerable posterior approximation: exactly d/dθ(−E_q[log p_θ(x, obs)]);
    with a fixed sampler: −d/dθ log p_θ(x, obs) at one of the outcomes;
  * IWELBO(N = 1) reduces to ELBO; QWake with a fixed sampler and a flip_enum proposal: −d/dθ log q_θ(x) at one
    of the outcomes; IWELBO / QWake return an estimate (do not raise).
Correspondence: the Lean model's `elboLoss` / `pwakeLoss` programs (driver command `vi`) on the same
pair, θ and noise; the guide-weight mode (`selected` = log q, `complement` = what
`Marginal.random_weighted` returns on the pinned tree) is OBSERVED from the implementation's own
`random_weighted`, so the comparison stays meaningful whether or not C25 is repaired.
"""

from __future__ import annotations

import math
from fractions import Fraction

from harness import adev_lib as L
from harness import common
from harness.adev_lib import C, Poly
from harness.common import Ctx, Spec, ask_driver, sx

THETAS = [Fraction(k, 8) for k in range(1, 8)]
HALF_LOG_2PI = Fraction(0.5 * math.log(2 * math.pi))

G_FLIP = ["th", ["sub", C(1), "th"], ["div", "th", C(2)], ["mul", "th", "th"], ["add", ["div", "th", C(4)], C(Fraction(1, 8))]]
PX = [C(Fraction(3, 10)), "th", ["sub", C(1), ["div", "th", C(2)]], C(Fraction(3, 4))]
AB = [(Fraction(9, 10), Fraction(1, 5)), (Fraction(1, 4), Fraction(3, 4))]
G_MU = ["th", ["sub", ["mul", C(2), "th"], C(1)], ["mul", "th", "th"]]
G_SIGMA = [C(Fraction(1, 2)), "th", ["add", "th", C(Fraction(1, 2))], C(Fraction(1, 10))]


def pv(e, th):
    """value and θ-derivative of a θ-polynomial term, as floats"""
    p = L.poly_expr(e, [], [])
    return float(p.at(th)), float(p.deriv().at(th))


# ------------------------------------------------------------------ closed forms (float64)


def enum_closed(case):
    th = Fraction(*case["theta"])
    px, dpx = pv(case["px"], th)
    g, dg = pv(case["g"], th)
    a, b = (float(Fraction(*x)) for x in case["ab"])
    la = math.log(a if case["obs"] else 1 - a)
    lb = math.log(b if case["obs"] else 1 - b)
    AT, AF = math.log(px) + la, math.log(1 - px) + lb
    dAT, dAF = dpx / px, -dpx / (1 - px)
    elbo = -(dg * ((AT - math.log(g)) - (AF - math.log(1 - g))) + g * dAT + (1 - g) * dAF)
    noq = -(dg * (AT - AF) + g * dAT + (1 - g) * dAF)
    return {"elbo": elbo, "noq": noq, "q": g, "per_x": {True: -dAT, False: -dAF}}


def gauss_closed(case, eps):
    th = Fraction(*case["theta"])
    mu, dmu = pv(case["gmu"], th)
    sg, dsg = pv(case["gsigma"], th)
    m0, s0, v, s1 = (float(Fraction(*case[k])) for k in ("m0", "s0", "v", "s1"))
    x = mu + sg * eps
    path = ((x - m0) / s0**2 + (x - v) / s1**2) * (dmu + dsg * eps)
    return {"elbo": path - dsg / sg, "noq": path, "x": x}


# ------------------------------------------------------------------ implementation side


def _pair(case, guide_kind, forced=None):
    import genjax
    import genjax.adev as A
    import jax.numpy as jnp
    from genjax import ChoiceMapBuilder as Cb
    from tensorflow_probability.substrates import jax as tfp

    tfd = tfp.distributions

    def flip_lp(v, p):
        return tfd.Bernoulli(probs=p).log_prob(v)

    if case["pair"] == "enum":
        a, b = (float(Fraction(*x)) for x in case["ab"])

        @genjax.gen
        def model(th):
            x = genjax.flip(L.ev(case["px"], th, [], [])) @ "x"
            _ = genjax.flip(jnp.where(x, a, b)) @ "obs"

        if guide_kind == "flip_enum":
            dist = genjax.vi.flip_enum
        elif guide_kind == "flip_reinforce":
            prim = A.flip_reinforce
            if forced is not None:
                prim = A.reinforce(lambda key, p: jnp.array(bool(forced)), A.flip_reinforce.differentiable_logpdf)
            dist = genjax.vi.adev_distribution(prim, flip_lp, "flip_reinforce")
        elif guide_kind == "fixed":
            dist = None
        else:
            raise ValueError(guide_kind)

        @genjax.marginal()
        @genjax.gen
        def guide(target):
            (th,) = target.args
            if dist is None:
                _ = genjax.flip(0.5) @ "x"
            else:
                _ = dist(L.ev(case["g"], th, [], [])) @ "x"

        obs = Cb["obs"].set(bool(case["obs"]))
        return model, guide, (lambda th: genjax.Target(model, (th,), obs)), "x"

    m0, s0, v, s1 = (float(Fraction(*case[k])) for k in ("m0", "s0", "v", "s1"))

    @genjax.gen
    def model(th):
        mu = genjax.normal(m0, s0) @ "mu"
        _ = genjax.normal(mu, s1) @ "v"

    @genjax.marginal()
    @genjax.gen
    def guide(target):
        (th,) = target.args
        _ = genjax.vi.normal_reparam(L.ev(case["gmu"], th, [], []), L.ev(case["gsigma"], th, [], [])) @ "mu"

    obs = Cb["v"].set(v)
    return model, guide, (lambda th: genjax.Target(model, (th,), obs)), "mu"


def _guide_weight_mode(case, guide, mk, addr):
    """What does `Marginal.random_weighted` return as the weight of the guide's sample?"""
    import jax
    import numpy as np

    th = float(Fraction(*case["theta"]))
    w, ch = guide.random_weighted(jax.random.key(11), mk(np.float32(th)))
    w = float(w)
    x = ch[addr]
    if case["pair"] == "enum":
        g, _ = pv(case["g"], Fraction(*case["theta"]))
        lq = math.log(g) if bool(x) else math.log(1 - g)
    else:
        mu, _ = pv(case["gmu"], Fraction(*case["theta"]))
        sg, _ = pv(case["gsigma"], Fraction(*case["theta"]))
        lq = -0.5 * ((float(x) - mu) / sg) ** 2 - math.log(sg) - 0.5 * math.log(2 * math.pi)
    if abs(w - lq) <= 1e-4 * max(1.0, abs(lq)):
        return "selected"
    if w == 0.0:
        return "complement"
    return f"other({w} vs log q = {lq})"


def _classify(got, cf, tol_scale=1.0):
    if L.close(got, cf["elbo"], tol_scale, rtol=3e-5):
        return None
    if L.close(got, cf["noq"], tol_scale, rtol=3e-5):
        return "guide_weight_dropped"
    return "gradient"


def run_case(case):
    import genjax
    import jax
    import numpy as np

    out: dict = {"pred": []}
    th = np.float32(float(Fraction(*case["theta"])))
    key = jax.random.key(case["seed"])
    obj = case["objective"]
    gk = case.get("guide", "flip_enum")

    def call(fn):
        try:
            (g,) = fn(key, (th,))
            return float(g), None
        except Exception as ex:  # noqa: BLE001
            return None, L.classify_exc(ex) + ": " + str(ex)[:120].replace("\n", " ")

    if obj == "elbo":
        model, guide, mk, addr = _pair(case, gk)
        out["mode"] = _guide_weight_mode(case, guide, mk, addr)
        fn = genjax.vi.ELBO(guide, mk)
        fn = jax.jit(fn) if case.get("jit") else fn
        g, err = call(fn)
        if err:
            out["error"] = err
            out["pred"].append({"feature": "raises", "call": "ELBO", "detail": err})
            return out
        out["grad"] = g
        nz = L.noise_table(key)
        out["noise"] = {t: [[list(p), v.numerator, v.denominator] for p, v in nz[t].items()] for t in ("u", "eps")}
        if case["pair"] == "enum":
            cf = enum_closed(case)
            out["closed"] = [cf["elbo"], cf["noq"]]
            if gk == "flip_enum":
                f = _classify(g, cf, abs(cf["elbo"]) + abs(cf["noq"]))
                if f:
                    out["pred"].append({"feature": f, "detail": f"ELBO estimate {g}: closed-form d(-ELBO)/dtheta = {cf['elbo']}, without log q = {cf['noq']}"})
            else:
                tot, mag = 0.0, 0.0
                for x in (True, False):
                    _, gx, mkx, _ = _pair(case, gk, forced=x)
                    gx_, err = call(genjax.vi.ELBO(gx, mkx))
                    if err:
                        out["pred"].append({"feature": "raises", "call": "ELBO", "detail": err})
                        return out
                    q = cf["q"] if x else 1 - cf["q"]
                    tot += q * gx_
                    mag += q * abs(gx_)
                out["unbiased"] = [tot, cf["elbo"]]
                if not L.close(tot, cf["elbo"], mag, rtol=3e-5):
                    f = "guide_weight_dropped" if L.close(tot, cf["noq"], mag, rtol=3e-5) else "unbiased"
                    out["pred"].append({"feature": f, "detail": f"sum_x q(x) estimate(x) = {tot}: d(-ELBO)/dtheta = {cf['elbo']}, without log q = {cf['noq']}"})
        else:
            eps = float(nz["eps"][(1,)])
            cf = gauss_closed(case, eps)
            out["closed"] = [cf["elbo"], cf["noq"]]
            scale = abs(cf["noq"]) + abs(cf["elbo"]) + 1.0
            if not L.close(g, cf["elbo"], scale, rtol=1e-4):
                f = "guide_weight_dropped" if L.close(g, cf["noq"], scale, rtol=1e-4) else "gradient"
                out["pred"].append({"feature": f, "detail": f"ELBO estimate {g}: pathwise d(-ELBO)/dtheta at eps={eps} is {cf['elbo']}, without log q = {cf['noq']}"})
        return out

    if obj == "pwake":
        model, guide, mk, addr = _pair(case, gk)
        g, err = call(genjax.vi.PWake(guide, mk))
        if err:
            out["error"] = err
            out["pred"].append({"feature": "raises", "call": "PWake", "detail": err})
            return out
        out["grad"] = g
        cf = enum_closed(case)
        if gk == "flip_enum":
            out["closed"] = [cf["noq"]]
            if not L.close(g, cf["noq"], abs(cf["noq"]) + 1, rtol=3e-5):
                out["pred"].append({"feature": "gradient", "call": "PWake", "detail": f"PWake estimate {g} != d(-E_q log p)/dtheta = {cf['noq']}"})
        else:
            out["closed"] = [cf["per_x"][True], cf["per_x"][False]]
            if not any(L.close(g, v, abs(v) + 1, rtol=3e-5) for v in cf["per_x"].values()):
                out["pred"].append({"feature": "gradient", "call": "PWake", "detail": f"PWake estimate {g} is -dlog p/dtheta at neither outcome {cf['per_x']}"})
        return out

    if obj == "iwelbo":
        model, guide, mk, addr = _pair(case, gk)
        g, err = call(genjax.vi.IWELBO(guide, mk, case["N"]))
        if err:
            out["error"] = err
            out["pred"].append({"feature": "raises_adev_guide" if gk != "fixed" else "raises", "call": "IWELBO", "detail": err})
            return out
        out["grad"] = g
        cf = enum_closed(case)
        if case["N"] == 1:
            if gk == "flip_enum":
                f = _classify(g, cf, abs(cf["elbo"]) + abs(cf["noq"]))
                if f:
                    out["pred"].append({"feature": f, "call": "IWELBO", "detail": f"IWELBO(N=1) {g} vs ELBO closed form {cf['elbo']}"})
            elif not any(L.close(g, v, abs(v) + 1, rtol=3e-5) for v in cf["per_x"].values()):
                out["pred"].append({"feature": "gradient", "call": "IWELBO", "detail": f"IWELBO(N=1) {g}: -dlog p/dtheta at neither outcome {cf['per_x']}"})
        elif not math.isfinite(g):
            out["pred"].append({"feature": "gradient", "call": "IWELBO", "detail": f"IWELBO(N={case['N']}) not finite"})
        return out

    if obj == "qwake":
        model, guide, mk, addr = _pair(case, "flip_enum")
        _, fixed, _, _ = _pair(case, "fixed")
        g, err = call(genjax.vi.QWake(guide, fixed, mk))
        if err:
            out["error"] = err
            out["pred"].append({"feature": "raises", "call": "QWake", "detail": err})
        else:
            out["grad"] = g
            th_ = Fraction(*case["theta"])
            gq, dgq = pv(case["g"], th_)
            want = {True: -dgq / gq, False: dgq / (1 - gq)}  # -d/dtheta log q(x; theta) at the sampled x
            out["closed"] = [want[True], want[False]]
            if not any(L.close(g, v, abs(v) + 1, rtol=3e-5) for v in want.values()):
                out["pred"].append({"feature": "gradient", "call": "QWake", "detail": f"QWake estimate {g} is -dlog q/dtheta at neither outcome {want}"})
        return out
    raise ValueError(obj)


def impl_batch(batch):
    out = []
    for case in batch:
        try:
            out.append(run_case(case))
        except Exception as ex:  # noqa: BLE001
            import traceback

            out.append({"__harness_error__": f"{type(ex).__name__}: {ex}", "tb": traceback.format_exc()[-1500:]})
    return out


# ------------------------------------------------------------------ model side


def lnC(x: Fraction):
    return ["log", C(x)]


def driver_prefix(case, mode):
    if case["pair"] == "enum":
        a, b = (Fraction(*x) for x in case["ab"])
        la = lnC(a if case["obs"] else 1 - a)
        lb = lnC(b if case["obs"] else 1 - b)
        logp = ["add", ["flp", 0, case["px"]], ["ite", 0, la, lb]]
        if case["objective"] == "pwake":
            return f"(vi pwake flip_enum ({sx(case['g'])}) {sx(logp)}"
        logq = ["flp", 0, case["g"]]
        prim = case.get("guide", "flip_enum")
        return f"(vi elbo {mode} {prim} ({sx(case['g'])}) {sx(logp)} {sx(logq)}"
    c = HALF_LOG_2PI
    m0, s0, v, s1 = (Fraction(*case[k]) for k in ("m0", "s0", "v", "s1"))
    logp = ["add", ["nlp", c.numerator, c.denominator, ["rv", 0], C(m0), C(s0)],
            ["nlp", c.numerator, c.denominator, C(v), ["rv", 0], C(s1)]]
    logq = ["nlp", c.numerator, c.denominator, ["rv", 0], case["gmu"], case["gsigma"]]
    return f"(vi elbo {mode} normal_reparam ({sx(case['gmu'])} {sx(case['gsigma'])}) {sx(logp)} {sx(logq)}"


def ask_model(cases_modes_noise):
    """Query the driver, supplying ln values on demand (`(err no-ln n d)` → add the entry, retry)."""
    n = len(cases_modes_noise)
    lns = [dict() for _ in range(n)]
    res = [None] * n
    pending = list(range(n))
    for _ in range(16):
        if not pending:
            break
        lines = []
        for i in pending:
            case, mode, noise = cases_modes_noise[i]
            u = "(u" + "".join(f" ((k {' '.join(map(str, p))}) {a} {b})" for p, a, b in noise["u"]) + ")"
            e = "(eps" + "".join(f" ((k {' '.join(map(str, p))}) {a} {b})" for p, a, b in noise["eps"]) + ")"
            ln = "(ln" + "".join(" " + v for v in lns[i].values()) + ")"
            lines.append(f"{driver_prefix(case, mode)} (th {case['theta'][0]} {case['theta'][1]}) (tau 1 1) {u} {e} {ln})")
        out = ask_driver(lines)
        nxt = []
        for i, r in zip(pending, out):
            if r.startswith("(err no-ln"):
                t = r.replace("(", " ").replace(")", " ").split()
                fr = Fraction(int(t[2]), int(t[3]))
                if fr <= 0 or fr in lns[i]:
                    res[i] = r
                else:
                    lns[i][fr] = L.ln_entry(fr)
                    nxt.append(i)
            else:
                res[i] = r
        pending = nxt
    return res


# ------------------------------------------------------------------ check


def make_cases(ctx: Ctx, n_enum, n_gauss):
    rng = ctx.rng
    cases = []

    def enum_case(**kw):
        c = {"pair": "enum", "objective": "elbo", "guide": "flip_enum", "px": rng.choice(PX), "g": rng.choice(G_FLIP),
             "ab": [L.q(x) for x in rng.choice(AB)], "obs": rng.random() < 0.5, "theta": L.q(rng.choice(THETAS)),
             "seed": rng.randrange(1000), "jit": rng.random() < 0.15}
        c.update(kw)
        return c

    def gauss_case(**kw):
        c = {"pair": "gauss", "objective": "elbo", "guide": "normal_reparam", "gmu": rng.choice(G_MU), "gsigma": rng.choice(G_SIGMA),
             "m0": L.q(0), "s0": L.q(rng.choice([2, 4, 10])), "v": L.q(rng.choice([3, -1, Fraction(1, 2)])),
             "s1": L.q(rng.choice([Fraction(1, 2), 1, Fraction(1, 10)])), "theta": L.q(rng.choice(THETAS)),
             "seed": rng.randrange(1000), "jit": rng.random() < 0.15}
        c.update(kw)
        return c

    # fixed anchors (the repo's own test shape; the two shapes of the task statement)
    cases.append(enum_case(px=C(Fraction(3, 10)), g="th", ab=[L.q(Fraction(9, 10)), L.q(Fraction(1, 5))], obs=True, theta=L.q(Fraction(3, 8))))
    cases.append(enum_case(px=C(Fraction(3, 10)), g="th", ab=[L.q(Fraction(9, 10)), L.q(Fraction(1, 5))], obs=True, theta=L.q(Fraction(3, 8)), guide="flip_reinforce"))
    cases.append(gauss_case(gmu="th", gsigma=C(Fraction(1, 10)), s0=L.q(10), v=L.q(3), s1=L.q(Fraction(1, 10))))
    cases.append(gauss_case(gmu="th", gsigma=["add", "th", C(Fraction(1, 2))], s0=L.q(2), v=L.q(3), s1=L.q(1)))
    for _ in range(n_enum):
        cases.append(enum_case(guide=rng.choice(["flip_enum", "flip_enum", "flip_reinforce"])))
    for _ in range(n_gauss):
        cases.append(gauss_case())
    for _ in range(max(3, n_enum // 4)):
        cases.append(enum_case(objective="pwake", guide=rng.choice(["flip_enum", "flip_enum", "fixed"]), jit=False))
    cases.append(enum_case(objective="iwelbo", N=1, guide="flip_enum", jit=False))
    cases.append(enum_case(objective="iwelbo", N=2, guide="flip_enum", jit=False))
    cases.append(enum_case(objective="iwelbo", N=1, guide="fixed", px="th", jit=False))
    cases.append(enum_case(objective="iwelbo", N=2, guide="fixed", px="th", jit=False))
    cases.append(enum_case(objective="qwake", jit=False))
    return cases


def _signature(case, pf):
    feat = pf["feature"]
    if feat == "guide_weight_dropped":
        return {"call": "Marginal.random_weighted", "feature": "guide_weight_dropped"}
    call = pf.get("call") or {"elbo": "ELBO", "pwake": "PWake", "iwelbo": "IWELBO", "qwake": "QWake"}[case["objective"]]
    return {"call": call, "feature": feat, "guide": case.get("guide")} if feat not in ("raises", "raises_adev_guide") else {"call": call, "feature": feat}


def _evaluate(ctx: Ctx, cases, label, search=True):
    B = max(1, min(4, len(cases) // 16 + 1))
    batches = [cases[i:i + B] for i in range(0, len(cases), B)]
    res = L.flatten_batches(batches, common.run_impl_parallel("harness.props.c30", "impl_batch", batches))
    todo = []
    for i, (case, im) in enumerate(zip(cases, res)):
        if "__harness_error__" in im:
            raise common.Infra(im["__harness_error__"] + "\n" + im.get("tb", ""))
        if "grad" in im and (case["objective"] == "elbo" or (case["objective"] == "pwake" and case.get("guide") == "flip_enum")):
            mode = im.get("mode", "selected")
            if mode in ("selected", "complement") or case["objective"] == "pwake":
                noise = im.get("noise") or {"u": [], "eps": []}
                todo.append((i, (case, mode if mode in ("selected", "complement") else "selected", noise)))
    model = dict(zip([i for i, _ in todo], ask_model([t for _, t in todo])))
    corr = []

    def corr_fail(case, detail, sig, name):
        corr.append((case, detail, sig, name))

    for i, (case, im) in enumerate(zip(cases, res)):
        ctx.count(label)
        ctx.count("objective:" + case["objective"])
        ctx.count("pair:" + case["pair"])
        ctx.count("guide:" + str(case.get("guide")))
        if "mode" in im:
            ctx.count("guide-weight-mode:" + im["mode"].split("(")[0])
        ctx.traces_validated += 1
        ctx.case_done(case, True, {"case": {k: (sx(v) if isinstance(v, list) else v) for k, v in case.items()},
                                   "impl": {k: im.get(k) for k in ("grad", "closed", "mode", "error", "unbiased")}, "model": (model.get(i) or "")[:80]})
        had = False
        for pf in im["pred"]:
            had = True
            ctx.count("predicate-failure:" + pf["feature"])
            ctx.fail("predicate", case, {"why": pf["detail"], "impl": {k: v for k, v in im.items() if k not in ("noise", "pred")}},
                     _signature(case, pf), "C30:" + pf["feature"])
        if im.get("mode", "selected").startswith("other"):
            corr_fail(case, {"guide_weight": im["mode"]}, {"call": "Marginal.random_weighted", "feature": "weight"},
                      "GuideWeight vs Marginal.random_weighted")
        if i in model and "grad" in im:
            ok = L.parse_ok(model[i] or "")
            if ok is None:
                corr_fail(case, {"model": model[i], "impl": im["grad"]}, {"call": case["objective"], "feature": "correspondence"},
                          "Adev.elboLoss / pwakeLoss vs vi." + case["objective"])
                continue
            mp, mt, _ = ok
            if case.get("guide") == "flip_reinforce":
                continue  # the sampled run is compared below only through its forced enumeration (predicate)
            scale = sum(abs(x) for x in im.get("closed", [])) + 1.0
            if not L.close(im["grad"], float(mt), scale, rtol=1e-4) and not had:
                corr_fail(case, {"model_tangent": float(mt), "impl_grad": im["grad"], "mode": im.get("mode")},
                          {"call": case["objective"], "feature": "correspondence"}, "Adev.elboLoss / pwakeLoss vs vi." + case["objective"])
    # correspondence broke but the predicate held: look for a failing input near the case first
    if corr and search:
        nb = []
        for case, _, _, _ in corr[:3]:
            for th in THETAS[::3]:
                for seed in (case["seed"], case["seed"] + 7):
                    c = dict(case)
                    c.update(theta=L.q(th), seed=seed, jit=False)
                    nb.append(c)
        before = len([f for f in ctx.failures if f.kind == "predicate"])
        _evaluate(ctx, nb, "neighbour-search", search=False)
        ctx.notes["neighbour_search"] = {"cases": len(nb), "found_failing_input": len([f for f in ctx.failures if f.kind == "predicate"]) > before}
    for case, detail, sig, name in corr:
        ctx.fail("correspondence", case, detail, sig, name)


def run(ctx: Ctx):
    ctx.rule = ("closed-form pairs: flip(px(theta)) -> flip(x ? a : b) with guides flip_enum / flip_reinforce(g(theta)) through "
                "genjax.marginal; N(m0,s0) -> N(mu,s1) with guide normal_reparam(gmu(theta), gsigma(theta)); objectives ELBO, PWake, "
                "IWELBO(N=1,2), QWake; theta in k/8; distinct by (pair parameters, guide, theta, key)")
    n_enum, n_gauss = (24, 12) if ctx.tier == "quick" else (400, 200)
    cases = make_cases(ctx, n_enum, n_gauss)
    chunk = 64 if ctx.tier == "quick" else 320
    for i in range(0, len(cases), chunk):
        if i > 0 and ctx.time_left() < (90 if ctx.tier == "quick" else 300):
            ctx.notes["stopped_early_at"] = i
            break
        _evaluate(ctx, cases[i:i + chunk], "generated")


def replay(ctx: Ctx, payload: dict):
    _evaluate(ctx, [payload["case"]], "replay")


SPEC = Spec(
    prop_id="C30",
    modules=["GenjaxVerif.Props.C30"],
    theorems=[
        "GenjaxVerif.Adev.C30_elbo_loss", "GenjaxVerif.Adev.C30_elbo_prog_enum", "GenjaxVerif.Adev.C30_elbo_prog_reinforce",
        "GenjaxVerif.Adev.C30_elbo_grad_enumerable", "GenjaxVerif.Adev.C30_elbo_grad_as_written", "GenjaxVerif.Adev.C30_refuted",
        "GenjaxVerif.Adev.C30_elbo_grad_reinforce_unbiased", "GenjaxVerif.Adev.C30_elbo_grad_baseline_unbiased",
        "GenjaxVerif.Adev.C30_normal_logpdf_eval", "GenjaxVerif.Adev.C30_reparam_logq_tangent", "GenjaxVerif.Adev.C30_reparam_logp_tangent",
        "GenjaxVerif.Adev.C30_elbo_gaussian_pathwise", "GenjaxVerif.Adev.C30_pwake_prog_enum",
        "GenjaxVerif.Adev.C29_reinforce_unbiased", "GenjaxVerif.Adev.C29_baseline_unbiased",
    ],
    strength="partial",
    run=run,
    replay=replay,
    assumptions=[
        "`log` is an uninterpreted symbol with forward-mode rule d log q = q'/q; that this is the analytic derivative is outside Lean",
        "the particle-weight bookkeeping of Importance / ChangeTarget / Marginal is modelled for one particle and a fully constrained target (C25/C26 own the general case)",
        "IWELBO with N > 1 (logsumexp), QWake, continuous expectations over eps are outside the model",
    ],
    extra_trusted=["closed forms evaluated in float64 (math.log), compared at 3e-5 .. 1e-4 relative"],
)
