"""C36 — the stateful interpreter is transparent for unhandled primitives.

Same machine-translated program stream as C09 (see harness/ir_translate.py).
Correspondence: `IR.evalPlain` vs `f(*args)` and `IR.evalStateful` (handler `noop`) vs
`genjax._src.core.compiler.interpreters.stateful.stateful(f)(handler, *args)` with a
handler whose `handles()` is always False, on the real staged ClosedJaxpr.

Predicate (implementation only): the stateful result equals `f(*args)`; and equals the
program with every call-like wrapper (nested jit, GenJAX initial-style primitive,
custom_jvp, remat) replaced by a direct call of the wrapped function.
"""

from __future__ import annotations

import os
import time

from harness import common, ir_run
from harness.common import Ctx, Spec


def run(ctx: Ctx):
    ctx.rule = ("corpus/C36 (12 hand-written regression programs) first; then random integer JAX programs (3-8 top-level statements, control flow nested to depth 2: cond, switch, scan, "
                "while, fori, jit, initial-style, custom_jvp, remat; closed-over constants, literals, unused / duplicated / "
                "literal outputs) x one argument vector; non-trivial = the staged jaxpr has at least one equation; distinct "
                "by (program, arguments)")
    n = 96 if ctx.tier == "quick" else 3000
    if os.environ.get("VERIF_IR_N"):  # developer knob (mutant runs on a loaded machine): fewer random programs
        n = int(os.environ["VERIF_IR_N"])
    chunk = 96 if ctx.tier == "quick" else 500
    pending = ir_run.load_corpus("C36", ("plain", "stateful"))  # corpus runs first, in the first pool
    done, per_chunk = 0, 0.0
    while done < n and (done == 0 or ctx.time_left() > max(400.0, 1.3 * per_chunk)):
        k = min(chunk, n - done)
        t_chunk = time.time()
        cases = pending + ir_run.make_cases(ctx.rng, k, modes=("plain", "stateful"), n_alts=0, edge_rate=0.0)
        pending = []
        ir_run.check_cases(ctx, cases, "C36", "translated-program")
        done += k
        per_chunk = time.time() - t_chunk
    ctx.notes["programs_requested"] = n
    ctx.notes["programs_run"] = done


def replay(ctx: Ctx, payload: dict):
    ir_run.replay_case(ctx, payload, "C36")


SPEC = Spec(
    prop_id="C36",
    modules=["GenjaxVerif.Props.C36"],
    theorems=[
        "GenjaxVerif.IR.C36_stateful_eq_plain", "GenjaxVerif.IR.C36_stateful_eq_plain_override",
        "GenjaxVerif.IR.C36_dispatch_irrelevant", "GenjaxVerif.IR.C36_initial_style_step",
        "GenjaxVerif.IR.C36_initial_style_call", "GenjaxVerif.IR.C36_initial_style_program",
    ],
    strength="full",
    run=run,
    replay=replay,
    assumptions=[
        "primitive.bind is a pure function of (primitive, params, argument values): `sem` in the model",
        "an InitialStylePrimitive's `impl` is `initial_style_bind._impl` (split consts, eval_jaxpr on the staged jaxpr); "
        "the translator reads that jaxpr from the closure",
        "int32 arithmetic is modelled by unbounded integers; generators keep |values| < 2^21",
    ],
    extra_trusted=[
        "harness/ir_translate.py: serialisation of jax ClosedJaxpr objects into the driver protocol",
        "Model/IRSem.lean: concrete meaning of the integer JAX primitives used for execution (theorems do not depend on it)",
    ],
)
