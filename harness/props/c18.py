"""C18 — Selections form a Boolean algebra over static addresses.

Correspondence: selection terms are built through the real public API
(Selection.all/none/leaf, Selection.at[...], |, &, ~, extend, __call__) and through the
Lean model's smart constructors (driver command `sel`); the membership tables over all
addresses of length <= 3 (alphabet a, b + the never-mentioned letter z) must coincide.
Only membership is compared, never the shape of the simplified term.

Predicate (on the implementation alone): membership of a compound term equals the Boolean
combination of its operands' own memberships; S(a)[b] == S[a + b].
"""

from __future__ import annotations

import itertools

from harness import common
from harness.common import Ctx, Spec, ask_driver, sx

ALPHA = ["a", "b", "z"]
ADDRS = [list(p) for n in range(0, 4) for p in itertools.product(ALPHA, repeat=n)]

BASE = [
    "all", "none", "leaf",
    ["at", "a"], ["at", "b"], ["at", "a", "b"], ["at", "...", "a"], ["at", "a", "..."], ["at", "..."],
    ["at", "b", "...", "a"],
]


def terms_depth1():
    out = list(BASE)
    for t in BASE:
        out.append(["not", t])
    for a in BASE:
        for b in BASE:
            out.append(["or", a, b])
            out.append(["and", a, b])
    return out


def rand_term(rng, depth):
    if depth == 0 or rng.random() < 0.15:
        return rng.choice(BASE)
    k = rng.random()
    if k < 0.3:
        return ["or", rand_term(rng, depth - 1), rand_term(rng, depth - 1)]
    if k < 0.6:
        return ["and", rand_term(rng, depth - 1), rand_term(rng, depth - 1)]
    if k < 0.8:
        return ["not", rand_term(rng, depth - 1)]
    if k < 0.9:
        n = rng.randint(1, 2)
        return ["ext", rand_term(rng, depth - 1)] + [rng.choice(["a", "b", "..."]) for _ in range(n)]
    n = rng.randint(1, 2)
    return ["call", rand_term(rng, depth - 1)] + [rng.choice(ALPHA) for _ in range(n)]


# ------------------------------------------------------------------ implementation side


def _build(t):
    from genjax import Selection

    if t == "all":
        return Selection.all()
    if t == "none":
        return Selection.none()
    if t == "leaf":
        return Selection.leaf()
    op = t[0]
    if op == "at":
        comps = tuple(Ellipsis if a == "..." else a for a in t[1:])
        return Selection.at[comps]
    if op == "or":
        return _build(t[1]) | _build(t[2])
    if op == "and":
        return _build(t[1]) & _build(t[2])
    if op == "not":
        return ~_build(t[1])
    if op == "ext":
        comps = tuple(Ellipsis if a == "..." else a for a in t[2:])
        return _build(t[1]).extend(*comps)
    if op == "call":
        return _build(t[1])(tuple(t[2:]))
    raise ValueError(t)


def _table(sel):
    return [bool(sel[tuple(p)]) for p in ADDRS]


def _ref_prefix(comps, p):
    if len(p) < len(comps):
        return False
    return all(c == "..." or c == x for c, x in zip(comps, p))


def _predicate(t, tab):
    """Property stated on the implementation: compound membership = Boolean combination of
    the operands' memberships (operands evaluated by the implementation itself)."""
    if isinstance(t, str):
        want = {"all": [True] * len(ADDRS), "none": [False] * len(ADDRS), "leaf": [len(p) == 0 for p in ADDRS]}[t]
        return None if tab == want else f"{t}: constant selection has wrong membership"
    op = t[0]
    if op == "at":
        comps = t[1:]
        want = [_ref_prefix(comps, p) for p in ADDRS]
        return None if tab == want else f"at{comps}: membership is not prefix matching"
    if op in ("or", "and"):
        ta, tb = _table(_build(t[1])), _table(_build(t[2]))
        want = [(x or y) if op == "or" else (x and y) for x, y in zip(ta, tb)]
        if tab != want:
            i = next(i for i in range(len(ADDRS)) if tab[i] != want[i])
            return f"{op}: address {ADDRS[i]} got {tab[i]}, operands say {ta[i]},{tb[i]}"
        return None
    if op == "not":
        ta = _table(_build(t[1]))
        want = [not x for x in ta]
        if tab != want:
            i = next(i for i in range(len(ADDRS)) if tab[i] != want[i])
            return f"not: address {ADDRS[i]} got {tab[i]}, operand says {ta[i]}"
        return None
    if op == "ext":
        inner = _build(t[1])
        comps = t[2:]
        want = [_ref_prefix(comps, p) and bool(inner[tuple(p[len(comps):])]) for p in ADDRS]
        return None if tab == want else f"ext{comps}: not prefix-match-then-inner"
    if op == "call":
        inner = _build(t[1])
        pre = t[2:]
        # S(a)[b] == S[a, b]   (b ranges over addresses short enough to stay in the universe)
        for i, p in enumerate(ADDRS):
            if tab[i] != bool(inner[tuple(pre + p)]):
                return f"call{pre}: S(a)[{p}] != S[a + {p}]"
        return None
    return None


def impl_batch(batch):
    out = []
    for t in batch:
        try:
            sel = _build(t)
            tab = _table(sel)
            pred = _predicate(t, tab)
            out.append({"tab": "".join("T" if x else "F" for x in tab), "pred": pred})
        except Exception as e:  # noqa: BLE001
            out.append({"error": type(e).__name__, "msg": str(e)[:200]})
    return out


# ------------------------------------------------------------------ check


def _depth(t):
    return 0 if isinstance(t, str) or t[0] == "at" else 1 + max(_depth(x) for x in t[1:] if isinstance(x, list) or x in ("all", "none", "leaf"))


def _run_terms(ctx: Ctx, terms: list, label: str):
    B = 200
    batches = [terms[i:i + B] for i in range(0, len(terms), B)]
    impl = [r for b in common.run_impl_parallel("harness.props.c18", "impl_batch", batches) for r in (b if isinstance(b, list) else [b] * B)]
    lines = [sx(["sel", t, ADDRS]) for t in terms]
    model = ask_driver(lines)
    for t, im, mo in zip(terms, impl, model):
        ctx.count(label)
        ctx.count("op:" + (t if isinstance(t, str) else t[0]))
        nontrivial = not isinstance(t, str) and t[0] != "at"
        sample = {"term": sx(t), "model": mo[:60], "impl": str(im.get("tab", im))[:60]}
        ctx.case_done(t, nontrivial, sample)
        if "__harness_error__" in im or "__worker_lost__" in im:
            raise common.Infra(im.get("__harness_error__", im.get("__worker_lost__", "")) + im.get("tb", ""))
        sig = {"op": t if isinstance(t, str) else t[0]}
        if "error" in im:
            ctx.fail("predicate", {"term": t}, {"impl_error": im}, {"term": sx(t)}, "sel-membership")
            continue
        ctx.traces_validated += 1
        mtab = "".join(x for x in mo.split()[1:]).rstrip(")") if mo.startswith("(ok") else mo
        if im["pred"] is not None:
            ctx.fail("predicate", {"term": t, "addresses": ADDRS}, {"why": im["pred"], "impl_table": im["tab"], "model_table": mtab}, {"term": sx(t)}, "C18_mem_*")
        elif mtab != im["tab"]:
            i = next((i for i in range(min(len(mtab), len(im["tab"]))) if mtab[i] != im["tab"][i]), None)
            ctx.fail("correspondence", {"term": t}, {"model": mtab, "impl": im["tab"], "first_diff_addr": ADDRS[i] if i is not None else None}, sig, "Sel.mem vs Selection.__getitem__")


def run(ctx: Ctx):
    ctx.rule = ("selection terms over base selections (all/none/leaf/at[..] with wildcards) closed under |, &, ~, extend, "
                "__call__; exhaustive up to depth 1 (quick) / 2 (thorough) plus random deeper terms; each term's membership is "
                "taken on all 40 addresses of length <= 3 over {a,b,z}; non-trivial = compound term; distinct by term text")
    d1 = terms_depth1()
    _run_terms(ctx, d1, "exhaustive-depth1")
    if ctx.tier == "thorough":
        d2 = []
        for a in d1:
            d2.append(["not", a])
        # exhaustive depth 2 for binary ops over a thinned left operand set would be 2*210^2; do it fully
        for a in d1:
            for b in d1:
                d2.append(["or", a, b])
                d2.append(["and", a, b])
        _run_terms(ctx, d2, "exhaustive-depth2")
        ctx.exhaustive = True
        ctx.notes["exhaustive_space"] = "all terms of depth <= 2 over the 10 base selections"
        n_rand, maxd = 20000, 5
    else:
        ctx.notes["exhaustive_space"] = "all terms of depth <= 1 over the 10 base selections (random beyond)"
        n_rand, maxd = 3000, 4
    rnd = [rand_term(ctx.rng, ctx.rng.randint(2, maxd)) for _ in range(n_rand)]
    _run_terms(ctx, rnd, "random-deep")


def replay(ctx: Ctx, payload: dict):
    t = payload["case"]["term"]
    _run_terms(ctx, [t], "replay")


SPEC = Spec(
    prop_id="C18",
    modules=["GenjaxVerif.Props.C18"],
    theorems=[
        "GenjaxVerif.Sel.C18_mem_eq_den", "GenjaxVerif.Sel.C18_mem_or", "GenjaxVerif.Sel.C18_mem_and",
        "GenjaxVerif.Sel.C18_mem_compl", "GenjaxVerif.Sel.C18_mem_all", "GenjaxVerif.Sel.C18_mem_none",
        "GenjaxVerif.Sel.C18_mem_leaf", "GenjaxVerif.Sel.C18_subs_mem", "GenjaxVerif.Sel.C18_simplifiers_sound",
        "GenjaxVerif.Sel.C18_mem_extend", "GenjaxVerif.Sel.C18_mem_at", "GenjaxVerif.Sel.C18_de_morgan",
        "GenjaxVerif.Sel.C18_compl_involutive", "GenjaxVerif.Sel.C18_excluded_middle", "GenjaxVerif.Sel.C18_distrib",
        "GenjaxVerif.Sel.C18_comm_assoc_idem",
    ],
    strength="full",
    run=run,
    replay=replay,
    assumptions=[
        "Python `==` on selection dataclasses is structural equality (modelled by DecidableEq on Sel)",
        "ChmSel (choice-map backed selections) is outside C18; it is covered with model C",
    ],
)
