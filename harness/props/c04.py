"""C04 — simulate samples the program's distribution and is a function of the key.

(a) the Lean threefry / key-path algebra is compared with JAX on random (seed, path) pairs;
(b) the standard model-E correspondence with simulate / propose heavy histories: the test
    distributions' values ARE key data, so agreement of every sampled value ties each site's key
    path to the model's; determinism is checked by running simulate twice;
(c) the scan key-chain defect (C04_refuted) is replayed on the implementation with a
    key-revealing distribution: a known finding.
"""
from harness import common, gfi_check
from harness.common import Spec

P = "GenjaxVerif.GFI."


def keys_batch(batch):
    import jax

    out = []
    for seed, path in batch:
        k = jax.random.key(seed)
        for j, i in enumerate(path):
            k = jax.random.fold_in(k, i) if j % 2 == 0 else jax.random.split(k, i + 1)[i]
        kd = jax.random.key_data(k)
        out.append([int(kd[0]), int(kd[1])])
    return out


def scan_probe(_):
    """Identical draws at (iteration 1, y/a) and (iteration 2, x) of a scan whose kernel's second site
    is a nested static call: the sample is the full second word of the site's key."""
    import genjax
    import jax
    import jax.numpy as jnp

    reveal = genjax.exact_density(lambda key: jax.random.key_data(key)[..., 1].astype(jnp.uint32),
                                  lambda v: jnp.zeros((), dtype=jnp.float32), "KeyReveal")

    @genjax.gen
    def inner():
        return reveal() @ "a"

    @genjax.gen
    def kernel(c, _):
        u = reveal() @ "x"
        v = inner() @ "y"
        return c, None

    out = []
    for seed in (0, 1, 7, 123):
        tr = kernel.scan(n=3).simulate(jax.random.key(seed), (jnp.zeros(()), None))
        ch = tr.get_choices()
        vals = {"x": [int(ch[i, "x"]) for i in range(3)], "ya": [int(ch[i, "y", "a"]) for i in range(3)]}
        allv = vals["x"] + vals["ya"]
        out.append({"seed": seed, "vals": vals, "distinct": len(set(allv)) == len(allv)})
    return out


def run(ctx):
    n = 2000 if ctx.tier == "quick" else 10000
    pairs = [(ctx.rng.randint(0, 2**31 - 1), [ctx.rng.randint(0, 40) for _ in range(ctx.rng.randint(0, 5))]) for _ in range(n)]
    B = 250
    impl = [x for b in common.run_impl_parallel("harness.props.c04", "keys_batch", [pairs[i:i + B] for i in range(0, n, B)]) for x in b]
    model = common.ask_driver([f"(threefry {s} ({' '.join(map(str, p))}))" for s, p in pairs])
    bad = 0
    for (s, p), im, mo in zip(pairs, impl, model):
        if mo.split() != ["(ok", str(im[0]), str(im[1]) + ")"]:
            bad += 1
            ctx.fail("correspondence", {"seed": s, "path": p}, {"model": mo, "impl": im}, {"op": "threefry"}, "Key.keyData vs jax.random.fold_in/split")
    ctx.count("threefry-pairs", n)
    ctx.notes["threefry_pairs"] = n
    ctx.notes["threefry_mismatches"] = bad
    gfi_check.standard_run(ctx, props={"C04", "C38", "C02", "C22"}, focus={"orelse": 4.0, "switch": 2.0}, opts={"propose": 2.0, "start_gen": 0.0, "upd": 0.3, "regen": 1.0, "proj": 0.0, "assess": 0.0, "py": 0.35}, prop_id="C04")
    probe = common.run_impl_parallel("harness.props.c04", "scan_probe", [None], procs=1)[0]
    if isinstance(probe, dict):
        raise common.Infra(str(probe))
    ctx.notes["scan_key_probe"] = probe
    for pr in probe:
        ctx.case_done({"scan_probe": pr["seed"]}, True)
        if not pr["distinct"]:
            ctx.fail("predicate", {"probe": "scan-nested-static", "seed": pr["seed"]}, pr,
                     {"call": "Scan.simulate", "feature": "chained_keys_nested_static_call"}, "C04_full")


def replay(ctx, payload):
    if "prog" in (payload.get("case") or {}):
        gfi_check.replay_case(ctx, payload, {"C04", "C38"})
    else:
        run(ctx)


SPEC = Spec(
    prop_id="C04",
    modules=["GenjaxVerif.Props.C04"],
    theorems=[P + t for t in ["C04_simulate_deterministic", "C04_site_value", "C04_static_site_key",
                              "C04_children_prefix_free", "C04_vmap_element_key", "C04_refuted"]],
    strength="partial",
    run=run,
    replay=replay,
    assumptions=gfi_check.ASSUMPTIONS + ["statistical quality of threefry and convergence of frequencies are outside the model"],
    extra_trusted=gfi_check.EXTRA_TRUSTED,
)
