"""C21 — Diff and Pytree utilities are structure-preserving round trips (partial).

Cases are *terms* (JSON-able nests) written with the constructors a Python program uses:
    t := int | "none" | "NC" | "UC" | ["tuple", t…] | ["list", t…] | ["dict", [key, t]…]
       | ["const", val] | ["closure", fn, t…] | ["data", cls, ["s", name, val] | ["d", name, t] …]
       | ["diff", t, "NC"|"UC"] | ["v", int…]  (vector leaf, only for nth / vmap)
Each term is built into real objects (tuples, lists, dicts, None, `genjax.Pytree.dataclass`
classes defined here with Pytree.static()/Pytree.field() fields, `Const`, `Closure`, `Diff`),
pushed through the real `Diff.*` helpers, `jax.tree_util` flatten / unflatten / tree_map, `nth`,
`jax.jit`, `jax.make_jaxpr`, `jax.vmap`, and every result is serialised in the *registry view*
(`jtu.default_registry.flatten_one_level`: tag, static aux data, children; leaves as ints;
tangents as NC/UC) — never by Python class shape.  The same term goes to the Lean driver
(`pt-all`, `pt-diff`, `pt-unflat`, `pt-nth`), which runs the model's definitions and prints the
same serialisation.

Predicate (implementation alone): the round-trip / structure / iff statements of the theorems
evaluated on the real objects and compared with facts read off the *term* (its leaves in
flatten order, its tangents), independent of the model.
"""

from __future__ import annotations

import json

from harness import common
from harness.common import Ctx, Spec, ask_driver, sx

# ------------------------------------------------------------------ terms (pure python)

CLASSES = {
    # name -> field declarations in order: (name, kind)
    "A": [("x", "d"), ("s", "s"), ("y", "d")],
    "B": [("k", "s"), ("m", "s")],
    "C": [("tag", "s"), ("v", "d")],
    "E": [],
}
FN_NAMES = ["f0", "f1"]
STATIC_VALS = ["0", "3", "41", "hello", "w", "f0", "f1"]
KEYS = ["a", "b", "c", "ab", "ba", "z", "k"]


def is_op(t, op):
    return isinstance(t, list) and t and t[0] == op


def kids_of(t):
    """Children in flatten order (registry view)."""
    if isinstance(t, int) or isinstance(t, str):
        return []
    op = t[0]
    if op in ("tuple", "list"):
        return t[1:]
    if op == "dict":
        return [v for _, v in sorted(t[1:], key=lambda kv: kv[0])]
    if op == "const" or op == "v":
        return []
    if op == "closure":
        return t[2:]
    if op == "data":
        return [f[2] for f in t[2:] if f[0] == "d"]
    if op == "diff":
        return [t[1], t[2]]
    raise ValueError(t)


def term_leaves(t):
    if isinstance(t, int):
        return [t]
    if is_op(t, "v"):
        return [t]
    out = []
    for k in kids_of(t):
        out.extend(term_leaves(k))
    return out


def has_diff(t):
    return is_op(t, "diff") or any(has_diff(k) for k in kids_of(t))


def has_tan(t):
    return t in ("NC", "UC") or any(has_tan(k) for k in kids_of(t))


def is_plain(t):
    return not has_diff(t) and not has_tan(t)


def is_flat(t):
    """Diff used as documented: Diff(plain, tangent) at the frontier, no free tangents."""
    if t in ("NC", "UC"):
        return False
    if is_op(t, "diff"):
        return is_plain(t[1]) and t[2] in ("NC", "UC")
    return all(is_flat(k) for k in kids_of(t))


def diff_tangents(t):
    """Tangent of every Diff anywhere in the term."""
    if is_op(t, "diff"):
        return diff_tangents(t[1]) + [t[2]]
    out = []
    for k in kids_of(t):
        out.extend(diff_tangents(k))
    return out


def subterms(t):
    out = [t]
    for k in kids_of(t):
        out.extend(subterms(k))
    return out


def depth(t):
    ks = kids_of(t)
    return 0 if not ks else 1 + max(depth(k) for k in ks)


def map_ints(t, f):
    if isinstance(t, int):
        return f(t)
    if isinstance(t, str):
        return t
    op = t[0]
    if op in ("tuple", "list"):
        return [op] + [map_ints(k, f) for k in t[1:]]
    if op == "dict":
        return [op] + [[k, map_ints(v, f)] for k, v in t[1:]]
    if op == "const":
        return t
    if op == "closure":
        return t[:2] + [map_ints(k, f) for k in t[2:]]
    if op == "data":
        return t[:2] + [[x[0], x[1], map_ints(x[2], f)] if x[0] == "d" else x for x in t[2:]]
    if op == "diff":
        return [op, map_ints(t[1], f), map_ints(t[2], f)]
    raise ValueError(t)


# ---- generators


class Gen:
    def __init__(self, rng):
        self.rng = rng
        self.n = 0

    def leaf(self):
        self.n += 1
        return self.rng.choice([self.n, self.rng.randint(-50, 500)])

    def sval(self):
        return self.rng.choice(STATIC_VALS)

    def plain(self, d, allow_diff=0.0, allow_edge=0.0):
        r = self.rng
        if allow_edge and r.random() < allow_edge:
            k = r.random()
            if k < 0.4:
                return r.choice(["NC", "UC"])
            if d > 0:
                # nested Diff / Diff over a tree with free tangents
                return ["diff", self.plain(d - 1, 0.6, 0.3), r.choice(["NC", "UC"])]
        if allow_diff and r.random() < allow_diff:
            return ["diff", self.plain(max(d - 1, 0) if r.random() < 0.35 else 0), r.choice(["NC", "UC"])]
        if d <= 0 or r.random() < 0.2:
            k = r.random()
            if k < 0.7:
                return self.leaf()
            if k < 0.8:
                return "none"
            if k < 0.9:
                return ["const", self.sval()]
            return r.choice([["tuple"], ["list"], ["dict"], ["data", "E"], ["data", "B", ["s", "k", self.sval()], ["s", "m", self.sval()]]])
        sub = lambda: self.plain(d - 1, allow_diff, allow_edge)  # noqa: E731
        k = r.random()
        if k < 0.22:
            return ["tuple"] + [sub() for _ in range(r.randint(0, 3))]
        if k < 0.34:
            return ["list"] + [sub() for _ in range(r.randint(0, 3))]
        if k < 0.54:
            keys = r.sample(KEYS, r.randint(0, 3))
            return ["dict"] + [[key, sub()] for key in keys]
        if k < 0.66:
            return ["closure", r.choice(FN_NAMES)] + [sub() for _ in range(r.randint(0, 2))]
        cls = r.choice(["A", "A", "C", "B", "E"])
        return ["data", cls] + [[kind, name, self.sval() if kind == "s" else sub()] for name, kind in CLASSES[cls]]

    def tangents_for(self, t, p_nc=0.5):
        """A tangent tree tree_diff accepts for the Diff-free term t."""
        if isinstance(t, int):
            return "NC" if self.rng.random() < p_nc else "UC"
        return map_struct(t, lambda k: self.tangents_for(k, p_nc))

    def vec(self, t, n):
        return map_ints(t, lambda x: ["v"] + [x * 10 + j for j in range(n)])


def map_struct(t, f):
    """Rebuild t with f applied to each child (same constructor and static data)."""
    if isinstance(t, str):
        return t
    op = t[0]
    if op in ("tuple", "list"):
        return [op] + [f(k) for k in t[1:]]
    if op == "dict":
        return [op] + [[k, f(v)] for k, v in t[1:]]
    if op in ("const", "v"):
        return t
    if op == "closure":
        return t[:2] + [f(k) for k in t[2:]]
    if op == "data":
        return t[:2] + [[x[0], x[1], f(x[2])] if x[0] == "d" else x for x in t[2:]]
    if op == "diff":
        return [op, f(t[1]), f(t[2])]
    raise ValueError(t)


def mutate_tangent_tree(rng, s):
    """Break a tangent tree somewhere (structure or type)."""
    subs = subterms(s)
    target = rng.choice(subs)
    k = rng.random()
    if target in ("NC", "UC"):
        repl = rng.choice([7, "none", ["tuple", "NC"], ["tuple"], ["diff", 1, "NC"]])
    elif k < 0.3:
        repl = rng.choice(["NC", "UC", 7, "none"])
    elif is_op(target, "tuple") or is_op(target, "list"):
        repl = rng.choice([["list" if target[0] == "tuple" else "tuple"] + target[1:], target + ["NC"], target[:-1] if len(target) > 1 else target + [3]])
    elif is_op(target, "dict"):
        repl = rng.choice([["dict"] + target[2:], target + [["q", "UC"]], ["dict"] + [[k2 + "x", v] for k2, v in target[1:]] if len(target) > 1 else ["tuple"]])
    elif is_op(target, "data"):
        repl = ["data", target[1]] + [[x[0], x[1], "zz"] if x[0] == "s" else x for x in target[2:]]
        if repl == target:
            repl = "none"
    elif is_op(target, "const"):
        repl = ["const", target[1] + "x"]
    elif is_op(target, "closure"):
        repl = ["closure", "f1" if target[1] == "f0" else "f0"] + target[2:]
    else:
        repl = "UC" if target == "none" else "none"
    done = [False]

    def go(t):
        if t is target and not done[0]:
            done[0] = True
            return repl
        if isinstance(t, (int, str)):
            return t
        return map_struct(t, go)

    return go(s)


# ------------------------------------------------------------------ implementation side

_ENV = {}


def _env():
    """Import genjax and define the harness Pytree classes once per worker."""
    if _ENV:
        return _ENV
    import warnings

    warnings.filterwarnings("ignore")
    import jax
    import jax.numpy as jnp
    import jax.tree_util as jtu
    import numpy as np
    from genjax import Closure, Const, Diff, NoChange, Pytree, UnknownChange
    from genjax._src.core.pytree import nth

    @Pytree.dataclass
    class A(Pytree):
        x: object
        s: object = Pytree.static()
        y: object = Pytree.field()

    @Pytree.dataclass
    class B(Pytree):
        k: object = Pytree.static()
        m: object = Pytree.static()

    @Pytree.dataclass
    class C(Pytree):
        tag: object = Pytree.static()
        v: object = Pytree.field()

    @Pytree.dataclass
    class E(Pytree):
        pass

    def f0(*a):
        return a

    def f1(*a):
        return len(a)

    class Star:
        pass

    _ENV.update(dict(jax=jax, jnp=jnp, jtu=jtu, np=np, Closure=Closure, Const=Const, Diff=Diff, NoChange=NoChange,
                     UnknownChange=UnknownChange, Pytree=Pytree, nth=nth, cls={"A": A, "B": B, "C": C, "E": E},
                     fns={"f0": f0, "f1": f1}, STAR=Star()))
    return _ENV


def _sval(v):
    """atom -> python static value"""
    E = _env()
    if v in E["fns"]:
        return E["fns"][v]
    try:
        return int(v)
    except ValueError:
        return v


def _sval_str(v):
    if callable(v):
        return v.__name__
    return str(v)


def build(t):
    E = _env()
    if isinstance(t, bool):
        raise ValueError(t)
    if isinstance(t, int):
        return t
    if t == "none":
        return None
    if t == "NC":
        return E["NoChange"]
    if t == "UC":
        return E["UnknownChange"]
    op = t[0]
    if op == "v":
        return E["np"].asarray(t[1:], dtype=E["np"].int32)
    if op == "tuple":
        return tuple(build(k) for k in t[1:])
    if op == "list":
        return [build(k) for k in t[1:]]
    if op == "dict":
        return {k: build(v) for k, v in t[1:]}  # insertion order as given
    if op == "const":
        return E["Pytree"].const(_sval(t[1]))
    if op == "closure":
        return E["Pytree"].partial(*[build(k) for k in t[2:]])(E["fns"][t[1]])
    if op == "data":
        cls = E["cls"][t[1]]
        return cls(**{f[1]: (_sval(f[2]) if f[0] == "s" else build(f[2])) for f in t[2:]})
    if op == "diff":
        return E["Diff"](build(t[1]), build(t[2]))
    raise ValueError(t)


def _leaf_int(x):
    E = _env()
    if isinstance(x, bool):
        raise TypeError(f"bool leaf {x!r}")
    if isinstance(x, int):
        return x
    a = E["np"].asarray(x)
    if a.dtype.kind not in "iu":
        raise TypeError(f"non-integer leaf {x!r}")
    if a.ndim == 0:
        return int(a)
    if a.ndim == 1:
        return ["v"] + [int(v) for v in a]
    raise TypeError(f"leaf of rank {a.ndim}")


def canon(x):
    """Registry view of a real object: what jax's pytree registry says it is."""
    E = _env()
    if x is E["STAR"]:
        return "*"
    r = E["jtu"].default_registry.flatten_one_level(x)
    if r is None:
        return _leaf_int(x)
    kids, aux = r
    kids = list(kids)
    if x is None:
        assert not kids
        return ["n", "None", []]
    if type(x) is tuple:
        return ["n", "tuple", []] + [canon(k) for k in kids]
    if type(x) is list:
        return ["n", "list", []] + [canon(k) for k in kids]
    if type(x) is dict:
        return ["n", "dict", [str(k) for k in aux]] + [canon(k) for k in kids]
    if isinstance(x, E["Pytree"]):
        names = list(aux.child_field_names)
        statics = [f"{k}={_sval_str(v)}" for k, v in aux.static_fields.items()]
        if isinstance(x, E["Diff"]):
            if names != ["primal", "tangent"] or statics:
                raise TypeError(f"Diff flattens as {names} {statics}")
            return ["D", canon(kids[0]), canon(kids[1])]
        if type(x) is type(E["NoChange"]) or type(x) is type(E["UnknownChange"]):
            if names or statics or kids:
                raise TypeError("change tangent with content")
            return "NC" if type(x) is type(E["NoChange"]) else "UC"
        return ["n", type(x).__name__, names + ["|"] + statics] + [canon(k) for k in kids]
    raise TypeError(f"unexpected registered type {type(x)}")


def _err(e, where):
    if isinstance(e, TypeError):
        return ["err", "typeError"]
    if isinstance(e, ValueError):
        return ["err", "structure" if where == "diff" else "leafCount"]
    return ["err", "other:" + type(e).__name__]


def _try(f, where="x"):
    try:
        return f()
    except Exception as e:  # noqa: BLE001
        return _err(e, where)


def _impl_all(case):
    E = _env()
    jtu, Diff, jax = E["jtu"], E["Diff"], E["jax"]
    t = case["t"]
    obj = build(t)
    leaves, td = jtu.tree_flatten(obj)
    shape = canon(jtu.tree_unflatten(td, [E["STAR"]] * len(leaves)))
    rt_obj = jtu.tree_unflatten(td, leaves)
    nc = Diff.no_change(obj)
    uc = Diff.unknown_change(obj)
    mapped = jtu.tree_map(lambda x: 2 * x + 1, obj)
    ncnc = Diff.no_change(nc)
    ucnc = Diff.unknown_change(nc)
    jaxpr = jax.make_jaxpr(lambda x: x)(obj)
    c = {
        "leaves": [_leaf_int(x) for x in leaves],
        "shape": shape,
        "rt": canon(rt_obj),
        "primal": canon(Diff.tree_primal(obj)),
        "tangent": canon(Diff.tree_tangent(obj)),
        "nc": canon(nc),
        "uc": canon(uc),
        "sctd": bool(Diff.static_check_tree_diff(obj)),
        "scnc": bool(Diff.static_check_no_change(obj)),
        "map": canon(mapped),
        "ncnc": canon(ncnc),
        "ucnc": canon(ucnc),
        "scnc-nc": bool(Diff.static_check_no_change(nc)),
        "scnc-uc": bool(Diff.static_check_no_change(uc)),
        "traced": len(jaxpr.jaxpr.invars),
    }
    obs = ["ok", ["leaves"] + c["leaves"]] + [[k, c[k]] for k in list(c)[1:]]
    self_canon = canon(obj)
    # ---------------- predicate: statements on the implementation alone
    why = []
    tl = term_leaves(t)
    if c["rt"] != self_canon:
        why.append("unflatten(flatten(t)) != t")
    if c["leaves"] != tl:
        why.append(f"tree_leaves(t)={c['leaves']} but the dynamic leaves of the term are {tl} (static data among leaves / leaf lost / order)")
    if c["traced"] != len(tl):
        why.append(f"make_jaxpr(identity) traces {c['traced']} inputs, the term has {len(tl)} dynamic leaves")
    if not E["Pytree"].static_check_tree_structure_equivalence([obj, mapped, rt_obj]) or jtu.tree_structure(mapped) != td:
        why.append("tree_map changed the tree structure")
    if [_leaf_int(x) for x in jtu.tree_leaves(mapped)] != [2 * x + 1 for x in tl]:
        why.append("tree_map did not map the leaves in order")
    if case.get("jit"):
        jo = jax.jit(lambda x: x)(obj)
        if canon(jo) != self_canon:
            why.append("jit(identity)(t) != t")
    # static data is in the treedef: changing one static value changes the treedef, not the leaves
    var = _static_variant(t)
    if var is not None:
        vobj = build(var)
        vl, vtd = jtu.tree_flatten(vobj)
        if [_leaf_int(x) for x in vl] != c["leaves"]:
            why.append("changing a static field changed the leaves")
        if vtd == td:
            why.append("changing a static field did not change the treedef")
    if is_plain(t):
        if c["primal"] != self_canon:
            why.append("tree_primal(t) != t for a Diff-free t")
        if not c["scnc"]:
            why.append("static_check_no_change false on a Diff-free tree")
    if is_flat(t):
        tans = diff_tangents(t)
        want = all(x == "NC" for x in tans)
        if c["scnc"] != want:
            why.append(f"static_check_no_change={c['scnc']} but tangents are {tans}")
        prim = c["primal"]
        if canon(Diff.tree_primal(nc)) != prim:
            why.append("tree_primal(no_change(t)) != tree_primal(t)")
        if canon(Diff.tree_primal(uc)) != prim:
            why.append("tree_primal(unknown_change(t)) != tree_primal(t)")
        if canon(Diff.tree_primal(Diff.tree_primal(obj))) != prim:
            why.append("tree_primal not idempotent")
        if [_leaf_int(x) for x in jtu.tree_leaves(nc)] != tl or [_leaf_int(x) for x in jtu.tree_leaves(uc)] != tl or [_leaf_int(x) for x in jtu.tree_leaves(Diff.tree_primal(obj))] != tl:
            why.append("no_change / unknown_change / tree_primal changed the leaves")
        if not c["scnc-nc"]:
            why.append("static_check_no_change(no_change(t)) is false")
        if c["scnc-uc"] != (len(tl) == 0):
            why.append("static_check_no_change(unknown_change(t)) should be true only for a leafless tree")
        if not Diff.static_check_tree_diff(nc) or not Diff.static_check_tree_diff(uc):
            why.append("no_change / unknown_change left a non-Diff leaf")
        nct = jtu.tree_leaves(Diff.tree_tangent(nc), is_leaf=Diff.is_change_tangent)
        uct = jtu.tree_leaves(Diff.tree_tangent(uc), is_leaf=Diff.is_change_tangent)
        if len(nct) != len(tl) or any(x is not E["NoChange"] and type(x) is not type(E["NoChange"]) for x in nct):
            why.append("no_change: tangents are not one NoChange per leaf")
        if len(uct) != len(tl) or any(type(x) is not type(E["UnknownChange"]) for x in uct):
            why.append("unknown_change: tangents are not one UnknownChange per leaf")
        if c["ncnc"] != c["nc"]:
            why.append("no_change(no_change(t)) != no_change(t)")
        if c["ucnc"] != c["uc"]:
            why.append("unknown_change(no_change(t)) != unknown_change(t)")
        if c["sctd"] != (not any(isinstance(x, int) for x in _frontier(t))):
            why.append("static_check_tree_diff wrong")
    return {"obs": sx(obs), "pred": "; ".join(why) or None}


def _frontier(t):
    """Leaves up to Diff (term side)."""
    if isinstance(t, int):
        return [t]
    if is_op(t, "diff"):
        return ["D"]
    out = []
    for k in kids_of(t):
        out.extend(_frontier(k))
    return out


def _static_variant(t):
    """The same term with the first static value (Const val, data static field, closure fn, dict key)
    changed; None when the term carries no static data."""
    done = [False]

    def go(u):
        if done[0] or isinstance(u, (int, str)):
            return u
        if u[0] == "const":
            done[0] = True
            return ["const", u[1] + "q"]
        if u[0] == "data" and any(f[0] == "s" for f in u[2:]):
            out, first = [], True
            for f in u[2:]:
                if f[0] == "s" and first:
                    out.append(["s", f[1], f[2] + "q"])
                    first = False
                else:
                    out.append(f)
            done[0] = True
            return u[:2] + out
        if u[0] == "closure":
            done[0] = True
            return ["closure", "f1" if u[1] == "f0" else "f0"] + u[2:]
        return map_struct(u, go)

    v = go(t)
    return v if done[0] else None


def _impl_diff(case):
    E = _env()
    Diff, jtu = E["Diff"], E["jtu"]
    t, s = case["t"], case["s"]
    pobj = build(t)
    sobj = build(s)
    try:
        r = Diff.tree_diff(pobj, sobj)
    except Exception as e:  # noqa: BLE001
        return {"obs": sx(_err(e, "diff")), "pred": ("tree_diff rejected a well-formed tangent tree: " + str(e)[:120]) if case.get("valid") else None}
    prim, tang = canon(Diff.tree_primal(r)), canon(Diff.tree_tangent(r))
    obs = ["ok", canon(r), ["primal", prim], ["tangent", tang]]
    why = []
    if not has_diff(t):
        if prim != canon(pobj):
            why.append("tree_primal(tree_diff(t, tan)) != t")
        if tang != canon(sobj):
            why.append("tree_tangent(tree_diff(t, tan)) != tan")
    if case.get("valid"):
        tans = [x for x in subterms(s) if x in ("NC", "UC")]
        if bool(Diff.static_check_no_change(r)) != all(x == "NC" for x in tans):
            why.append("static_check_no_change(tree_diff(t, tan)) != all tangents NoChange")
        if not Diff.static_check_tree_diff(r):
            why.append("tree_diff left a non-Diff leaf")
        if jtu.tree_structure(Diff.tree_primal(r)) != jtu.tree_structure(pobj):
            why.append("tree_diff changed the primal structure")
    return {"obs": sx(obs), "pred": "; ".join(why) or None}


def _impl_unflat(case):
    E = _env()
    jtu = E["jtu"]
    obj = build(case["t"])
    leaves, td = jtu.tree_flatten(obj)
    xs = case["xs"]
    try:
        r = jtu.tree_unflatten(td, xs)
    except Exception as e:  # noqa: BLE001
        return {"obs": sx(_err(e, "unflat")), "pred": "tree_unflatten rejected the right number of leaves" if len(xs) == len(leaves) else None}
    why = []
    if len(xs) != len(leaves):
        why.append("tree_unflatten accepted a wrong number of leaves")
    l2, td2 = jtu.tree_flatten(r)
    if td2 != td or [_leaf_int(x) for x in l2] != xs:
        why.append("flatten(unflatten(td, xs)) != (xs, td)")
    return {"obs": sx(canon(r)), "pred": "; ".join(why) or None}


def _impl_nth(case):
    E = _env()
    jtu, jax = E["jtu"], E["jax"]
    t, i = case["t"], case["i"]
    obj = build(t)
    sl = E["nth"](obj, i)
    td_sl = jtu.tree_structure(sl)
    shape = canon(jtu.tree_unflatten(td_sl, [E["STAR"]] * td_sl.num_leaves))
    obs = ["ok", canon(sl), ["shape", shape]]
    why = []
    if td_sl != jtu.tree_structure(obj):
        why.append("nth changed the tree structure")
    if [_leaf_int(x) for x in jtu.tree_leaves(sl)] != [v[1 + i] for v in term_leaves(t)]:
        why.append("nth did not pick entry i of every leaf")
    if case.get("vmap"):
        seen = []

        def f(x):
            seen.append(jtu.tree_structure(x))
            return x

        out = jax.vmap(f)(obj)
        if canon(out) != canon(obj):
            why.append("vmap(identity)(t) != t")
        if not seen or seen[0] != td_sl:
            why.append("inside vmap the example does not have the tree structure / static data of a slice")
        out2 = jax.vmap(lambda x: jtu.tree_map(lambda v: 2 * v + 1, x))(obj)
        if canon(out2) != canon(jtu.tree_map(lambda v: 2 * v + 1, obj)):
            why.append("vmap of a leaf-wise map differs from the batched leaf-wise map")
    return {"obs": sx(obs), "pred": "; ".join(why) or None}


_IMPL = {"all": _impl_all, "diff": _impl_diff, "unflat": _impl_unflat, "nth": _impl_nth}


def impl_batch(batch):
    out = []
    for case in batch:
        try:
            out.append(_IMPL[case["op"]](case))
        except Exception as e:  # noqa: BLE001
            import traceback

            out.append({"error": type(e).__name__, "msg": str(e)[:300], "tb": traceback.format_exc()[-600:]})
    return out


# ------------------------------------------------------------------ model side


def request(case):
    op = case["op"]
    if op == "all":
        return sx(["pt-all", case["t"]])
    if op == "diff":
        return sx(["pt-diff", case["t"], case["s"]])
    if op == "unflat":
        return sx(["pt-unflat", case["t"], case["xs"]])
    if op == "nth":
        return sx(["pt-nth", case["i"], case["t"]])
    raise ValueError(op)


# ------------------------------------------------------------------ check


def _signature(case):
    t = case["t"]
    feats = sorted({u[0] for u in subterms(t) if isinstance(u, list)})
    cls = "plain" if is_plain(t) else ("flat-diff" if is_flat(t) else "irregular-diff")
    return {"call": "Diff/Pytree." + case["op"], "class": cls, "features": "+".join(feats)}


def _first_diff(model_line, impl_line):
    try:
        m, i = common.parse_sx(model_line), common.parse_sx(impl_line)
    except Exception:  # noqa: BLE001
        return {"model": model_line[:400], "impl": impl_line[:400]}
    if isinstance(m, list) and isinstance(i, list) and len(m) == len(i):
        for a, b in zip(m, i):
            if a != b:
                return {"field": a[0] if isinstance(a, list) and a else "?", "model": sx(a)[:400], "impl": sx(b)[:400]}
    return {"model": model_line[:400], "impl": impl_line[:400]}


def _neighbours(case):
    """Cases near a correspondence failure on which a predicate failure is searched."""
    t = case["t"]
    out = []
    seen = set()
    for u in subterms(t):
        key = json.dumps(u)
        if key in seen or isinstance(u, str) or is_op(u, "v"):
            continue
        seen.add(key)
        out.append({"op": "all", "t": u, "jit": False})
        out.append({"op": "all", "t": ["tuple", u, u], "jit": False})
        if is_plain(u):
            out.append({"op": "all", "t": ["diff", u, "UC"], "jit": False})
            out.append({"op": "all", "t": ["dict", ["k", ["diff", u, "NC"]], ["a", u]], "jit": False})
            g = Gen(__import__("random").Random(len(key)))
            for p in (0.0, 0.5, 1.0):
                out.append({"op": "diff", "t": u, "s": g.tangents_for(u, p), "valid": True})
        if len(out) > 400:
            break
    return out


def _run_cases(ctx: Ctx, cases: list, label: str, search: bool = True):
    if not cases:
        return
    B = 60
    batches = [cases[i:i + B] for i in range(0, len(cases), B)]
    res = common.run_impl_parallel("harness.props.c21", "impl_batch", batches)
    impl = []
    for b, r in zip(batches, res):
        if isinstance(r, dict) and "__harness_error__" in r:
            raise common.Infra(r["__harness_error__"] + r.get("tb", ""))
        impl.extend(r)
    model = ask_driver([request(c) for c in cases])
    corr_fail = []
    for case, im, mo in zip(cases, impl, model):
        t = case["t"]
        ctx.count(label)
        ctx.count("op:" + case["op"])
        for u in {u[0] for u in subterms(t) if isinstance(u, list)}:
            ctx.count("node:" + u)
        ctx.count("depth:" + str(min(depth(t), 6)))
        if "obs" in im:
            ctx.count("outcome:" + case["op"] + ":" + (im["obs"][1:].split(")")[0].replace(" ", "-") if im["obs"].startswith("(err") else "ok"))
        if case["op"] == "all":
            ctx.count("class:" + ("plain" if is_plain(t) else ("flat-diff" if is_flat(t) else "irregular-diff")))
        nontrivial = depth(t) >= 2 or has_diff(t)
        ctx.case_done(case, nontrivial, {"request": request(case)[:300], "model": mo[:200], "impl": str(im.get("obs", im))[:200]})
        if "error" in im:
            # the harness could not even build / serialise the case on the implementation
            ctx.fail("predicate", case, {"impl_error": im}, {"call": "build/serialise", "error": im["error"]}, "C21 harness build")
            continue
        ctx.traces_validated += 1
        if mo.startswith("(err bad-request"):
            raise common.Infra("driver rejected a generated request: " + request(case)[:300])
        if im["pred"] is not None:
            ctx.fail("predicate", case, {"why": im["pred"], "impl": im["obs"][:1500], "model": mo[:1500]}, _signature(case), "C21 predicate")
        elif mo != im["obs"]:
            corr_fail.append((case, _first_diff(mo, im["obs"])))
    if corr_fail:
        found = False
        if search and ctx.time_left() > 30:
            neigh = []
            for case, _ in corr_fail[:5]:
                neigh.extend(_neighbours(case))
            before = len([f for f in ctx.failures if f.kind == "predicate"])
            _run_cases(ctx, neigh[:1500], "neighbour-search", search=False)
            found = len([f for f in ctx.failures if f.kind == "predicate"]) > before
        if not found:
            for case, d in corr_fail[:10]:
                ctx.fail("correspondence", case, d, _signature(case), "Model/Pytree.lean " + case["op"] + " vs genjax")


def _gen_cases(ctx: Ctx, n_all, n_diff, n_unflat, n_nth, n_jit, n_vmap, maxd):
    g = Gen(ctx.rng)
    r = ctx.rng
    cases = []
    # hand-picked corner cases first
    corner = [
        "none", 5, ["tuple"], ["dict"], ["const", "hello"], ["data", "E"], ["closure", "f0"],
        ["diff", "none", "UC"], ["diff", ["tuple"], "NC"], ["diff", ["tuple", 1, 2], "UC"],
        ["tuple", 1, "none", ["diff", 3, "UC"], ["diff", ["tuple", 4, 5], "UC"]],
        ["dict", ["b", 1], ["a", ["diff", 2, "NC"]], ["ab", ["const", "3"]]],
        ["data", "A", ["d", "x", ["diff", 1, "NC"]], ["s", "s", "hello"], ["d", "y", ["tuple", 2, 3]]],
        ["data", "C", ["s", "tag", "41"], ["d", "v", ["closure", "f1", 1, ["list", 2]]]],
        # irregular: nested Diff, free tangents
        ["diff", ["diff", 1, "UC"], "NC"], ["diff", ["diff", 1, "NC"], "UC"], ["tuple", 1, "UC"], ["tuple", "NC", ["diff", 1, "NC"]],
        ["diff", ["tuple", 1, "UC"], "NC"], "NC", "UC",
    ]
    for t in corner:
        cases.append({"op": "all", "t": t, "jit": True})
    for k in range(n_all):
        d = r.randint(1, maxd)
        kind = r.random()
        if kind < 0.25:
            t = g.plain(d)
        elif kind < 0.85:
            t = g.plain(d, allow_diff=r.choice([0.15, 0.3, 0.5]))
        else:
            t = g.plain(d, allow_diff=0.3, allow_edge=0.15)
        cases.append({"op": "all", "t": t, "jit": k < n_jit})
    for _ in range(n_diff):
        t = g.plain(r.randint(0, maxd))
        s = g.tangents_for(t, r.choice([0.0, 0.5, 0.8, 1.0]))
        if r.random() < 0.3:
            s2 = mutate_tangent_tree(r, s)
            cases.append({"op": "diff", "t": t, "s": s2, "valid": False})
        elif r.random() < 0.08:
            # a tree that already holds Diffs, against its own constant tangent tree
            t2 = g.plain(r.randint(1, maxd), allow_diff=0.4)
            cases.append({"op": "diff", "t": t2, "s": map_ints(t2, lambda _x: "NC"), "valid": False})
        else:
            cases.append({"op": "diff", "t": t, "s": s, "valid": True})
    for _ in range(n_unflat):
        t = g.plain(r.randint(0, maxd), allow_diff=0.2)
        n = len(term_leaves(t))
        m = n if r.random() < 0.6 else max(0, n + r.choice([-2, -1, 1, 2]))
        cases.append({"op": "unflat", "t": t, "xs": [r.randint(-9, 99) for _ in range(m)]})
    for k in range(n_nth):
        t = g.plain(r.randint(0, maxd), allow_diff=0.25)
        if not term_leaves(t):
            t = ["tuple", t, g.leaf()]
        if not (is_op(t, "closure") or (is_op(t, "data") and t[1] in ("A", "C"))):
            # `nth(x: Pytree, idx)` is type-checked: the top of the tree must be a Pytree instance
            t = ["data", "C", ["s", "tag", g.sval()], ["d", "v", t]]
        n = r.randint(1, 3)
        cases.append({"op": "nth", "i": r.randint(0, n - 1), "t": g.vec(t, n), "vmap": k < n_vmap})
    return cases


def run(ctx: Ctx):
    ctx.rule = ("random nests (depth <= 4 quick / 6 thorough) of tuples, lists, dicts (random insertion order), None, Const, Closure, "
                "four harness Pytree.dataclass classes with static and dynamic fields, int leaves, Diff leaves over plain sub-trees; "
                "plus irregular trees (nested Diff, free change tangents), broken tangent trees for tree_diff, wrong leaf counts for "
                "unflatten, batched trees for nth/vmap; non-trivial = depth >= 2 or contains a Diff; distinct by case text")
    if ctx.tier == "thorough":
        cases = _gen_cases(ctx, n_all=14000, n_diff=7000, n_unflat=2500, n_nth=2500, n_jit=2500, n_vmap=1200, maxd=6)
    else:
        cases = _gen_cases(ctx, n_all=1800, n_diff=900, n_unflat=300, n_nth=300, n_jit=320, n_vmap=160, maxd=4)
    ctx.notes["exhaustive_space"] = "none (random); 21 hand-picked corner trees always run"
    _run_cases(ctx, cases, "generated")


def replay(ctx: Ctx, payload: dict):
    _run_cases(ctx, [payload["case"]], "replay")


SPEC = Spec(
    prop_id="C21",
    modules=["GenjaxVerif.Props.C21"],
    theorems=["GenjaxVerif.PT." + n for n in [
        "C21_primal_diff", "C21_tangent_diff", "C21_tree_diff_const", "C21_tree_diff_type_error",
        "C21_tree_diff_structure_error", "C21_primal_plain", "C21_primal_leaves", "C21_no_change_eq",
        "C21_unknown_change_eq", "C21_no_change_primal", "C21_unknown_change_primal", "C21_no_change_tangent",
        "C21_unknown_change_tangent", "C21_retag_idem", "C21_no_change_idem", "C21_diff_of_primal_tangent", "C21_static_check_no_change_iff",
        "C21_static_check_no_change_frontier", "C21_refuted", "C21_unflatten_flatten", "C21_flatten_unflatten",
        "C21_unflatten_leaf_count", "C21_boundary_id", "C21_flatten_leaves_no_static", "C21_static_not_traced",
        "C21_const_closure_leaves", "C21_tree_map_structure", "C21_tree_map_id_comp", "C21_tree_map_via_flatten",
        "C21_nth_structure",
    ]],
    strength="partial",
    run=run,
    replay=replay,
    assumptions=[
        "JAX's pytree registry, flatten_up_to, tracing (jit / vmap / make_jaxpr) and penzai's Struct.tree_flatten are modelled, not verified",
        "Diff statements assume Diff is used as documented (flatDiff: no Diff nested in a Diff, tangent a ChangeTangent); C21_refuted shows the unrestricted iff is false of model and code",
        "leaves are integers; static field values are ints, short strings and module-level functions",
    ],
    extra_trusted=["jax.tree_util.default_registry.flatten_one_level as the observation of what a Python object is to JAX"],
)
