"""C33 — invalid_subset reports exactly the constraint addresses a model cannot trace.

Real generative functions (static @gen models with nested addresses, vmap / scan / switch of them)
x choice maps from the C17 builder grammar (valid, invalid and mixed addresses, masked leaves,
index levels, switch maps).  `chm.invalid_subset(model, args)` is compared with the Lean model
(`invalidSubsetF` over the shape of `get_zero_trace(*args).get_choices()`, driver command `inv`)
through lookups only, and with the property predicate evaluated on the implementation alone:
the result is None iff every static address of the reference finite map of `chm` is traceable by
the model; otherwise its lookups are exactly the untraceable entries.
"""

from __future__ import annotations

import os

from harness import chm_lib as L
from harness import common
from harness.common import Ctx, Spec, ask_driver, sx

FLAGS33 = ["cT", "dT", "dF"]
KNOWN_SIG = {"call": "ChoiceMap.invalid_subset", "feature": "switch_chm"}

# model id -> (traceable static addresses, vectorised addresses, shape expression for the Lean model)
MODELS = {
    "flat": ([["x"], ["y"]], []),
    "nested": ([["x"], ["y", "x"], ["y", "z"]], []),
    "deep": ([["x"], ["z", "x"], ["z", "y", "x"], ["z", "y", "z"]], []),
    "vmap": ([["x"], ["y", "x"]], [["y", "x"]]),
    "scan": ([["x"]], [["x"]]),
    "switch": ([["z", "x"], ["z", "y"]], []),
}


def shape_expr(mid):
    addrs, vec = MODELS[mid]
    if mid == "switch":
        return ["entry", ["switch", ["d", 0], [["entry", ["val", 0], ["a", "x"]], ["entry", ["val", 0], ["a", "y"]]]], ["a", "z"]]
    return ["kw", [[["a"] + a, ["val", ["arr", 0, 0, 0] if a in vec else 0]] for a in addrs], 3]


def real_model(mid):
    import genjax
    import jax.numpy as jnp
    from genjax import gen, normal

    @gen
    def flat():
        x = normal(0.0, 1.0) @ "x"
        y = normal(0.0, 1.0) @ "y"
        return x + y

    @gen
    def inner():
        a = normal(0.0, 1.0) @ "x"
        b = normal(0.0, 1.0) @ "z"
        return a + b

    @gen
    def nested():
        x = normal(0.0, 1.0) @ "x"
        y = inner() @ "y"
        return x + y

    @gen
    def deep():
        z = nested() @ "z"
        x = normal(0.0, 1.0) @ "x"
        return x + z

    @gen
    def kernel(m):
        return normal(m, 1.0) @ "x"

    @gen
    def vm():
        x = normal(0.0, 1.0) @ "x"
        y = kernel.vmap(in_axes=(0,))(jnp.zeros(3)) @ "y"
        return x + jnp.sum(y)

    @gen
    def bx():
        return normal(0.0, 1.0) @ "x"

    @gen
    def by():
        return normal(0.0, 1.0) @ "y"

    sw = genjax.switch(bx, by)

    @gen
    def swm(i):
        return sw(i, (), ()) @ "z"

    return {
        "flat": (flat, ()), "nested": (nested, ()), "deep": (deep, ()), "vmap": (vm, ()),
        "scan": (kernel.iterate(n=3), (1.0,)), "switch": (swm, (jnp.array(0),)),
    }[mid]


_CACHE = {}


def _model(mid):
    if mid not in _CACHE:
        _CACHE[mid] = real_model(mid)
    return _CACHE[mid]


def has_dyn_switch(t):
    return any(s[0] == "switch" and s[1][0] == "d" for s in L.subterms(t))


def predicate(mid, t, paths, res_obs):
    """Property on the implementation alone.  res_obs: None (invalid_subset returned None) or the
    lookups of the returned map.  -> None | (why, signature)."""
    try:
        R = L.ref(t)
    except L.RefUnspecified:
        return None
    T = {tuple(a) for a in MODELS[mid][0]}
    bad = {k: e for k, e in R.items() if L.statics(k) not in T}
    if not bad:
        if res_obs is None:
            return None
        empty_result = all(o[0] is False and o[1] == "A" for o in res_obs)
        sig = KNOWN_SIG if (has_dyn_switch(t) and empty_result) else {"call": "ChoiceMap.invalid_subset", "feature": "false-alarm"}
        return ("every address of the map is traceable but invalid_subset did not return None", sig)
    if res_obs is None:
        if any(e[0] for e in bad.values()):
            return (f"untraceable addresses {sorted(map(str, bad))[:3]} but invalid_subset returned None", {"call": "ChoiceMap.invalid_subset", "feature": "missed"})
        return None
    r = L.predicate(t, paths, [[o[0], o[1], o[2], "-"] for o in res_obs], bad)
    if r:
        return ("returned map is not the untraceable part: " + r[0], {"call": "ChoiceMap.invalid_subset", "feature": "wrong-part"})
    return None


def impl_case(case):
    mid, t = case
    paths = L.universe(t, extra_names=("w",))
    try:
        chm = L.build(t)
    except Exception as e:  # noqa: BLE001
        return {"builderr": L.err_enum(e)}
    gf, args = _model(mid)
    try:
        res = chm.invalid_subset(gf, args)
    except Exception as e:  # noqa: BLE001
        return {"builderr": L.err_enum(e), "where": "invalid_subset", "msg": str(e)[:160]}
    obs = None if res is None else L.observe(res, paths)
    return {"none": res is None, "obs": None if obs is None else [L.obs_text(o) for o in obs],
            "pred": predicate(mid, t, paths, obs)}


def shape_check(mid):
    """Lookups of the real zero-trace choice map (the shape) over all static paths."""
    gf, args = _model(mid)
    shape = gf.get_zero_trace(*args).get_choices()
    paths = L.universe(shape_expr(mid))
    stat = [p for p in paths if all(isinstance(c, str) for c in p)]
    return {"shape_in": [bool(tuple(p) in shape) for p in stat], "paths": stat}


def impl_batch(batch):
    out = []
    for c in batch:
        try:
            out.append(shape_check(c[1]) if c[0] == "__shape__" else impl_case(c))
        except Exception as e:  # noqa: BLE001
            import traceback

            out.append({"__harness_error__": f"{type(e).__name__}: {e}", "tb": traceback.format_exc()[-1500:]})
    return out


def gen_case(rng, k):
    mid = rng.choice(list(MODELS))
    addrs = MODELS[mid][0]
    r = rng.random()
    if r < 0.25:
        # built around the model's own addresses: valid / one extra / nested extra
        pairs = []
        for a in addrs:
            if rng.random() < 0.75:
                pairs.append([["a"] + a, ["val", rng.randint(1, 9)]])
        if rng.random() < 0.6:
            bad = list(rng.choice(addrs))
            bad[rng.randrange(len(bad))] = rng.choice(["w", "x", "y", "z"])
            pairs.append([["a"] + bad, ["val", 77]])
        t = ["kw", pairs, 3] if pairs else "empty"
        if t != "empty" and rng.random() < 0.3:
            t = ["mask", t, rng.choice(FLAGS33)]
        return [mid, t]
    static_only = k % 3 != 0
    while True:
        t = L.rand_expr(rng, rng.randint(1, 3), flags=FLAGS33, static_only=static_only)
        # keep this stream out of C17's known-finding region (get_selection() below index levels):
        # there the constraint map itself is not the one the reference describes
        if not (L.has_index_level(t) and any(s[0] == "filterchm" for s in L.subterms(t))):
            return [mid, t]


def known_finding_cases():
    return [["flat", ["switch", ["d", 1], [["entry", ["val", 5], ["a", "x"], 0], ["entry", ["val", 6], ["a", "y"], 0]]]]]


def _run(ctx: Ctx, cases):
    shapes = [["__shape__", m] for m in MODELS]
    allc = shapes + cases
    B = max(1, min(20, len(allc) // 64 + 1))
    batches = [allc[i:i + B] for i in range(0, len(allc), B)]
    res = []
    for b, r in zip(batches, common.run_impl_parallel("harness.props.c33", "impl_batch", batches)):
        if isinstance(r, dict):
            raise common.Infra(r.get("__harness_error__", "worker failure") + r.get("tb", ""))
        res.extend(r)
    for r in res:
        if "__harness_error__" in r:
            raise common.Infra(r["__harness_error__"] + r.get("tb", ""))
    # shapes: the hand-written shape expressions must have the real zero-trace's addresses
    lines = [sx(["chm", L.to_model(shape_expr(m)), [L.path_sx(p) for p in r["paths"]]]) for (_, m), r in zip(shapes, res)]
    for (_, m), r, mo in zip(shapes, res, ask_driver(lines)):
        mod = [o[0] == "T" for o in common.parse_sx(mo)[1:]]
        want = [list(p) in MODELS[m][0] for p in r["paths"]]
        ctx.count("shape-check")
        if r["shape_in"] != want or mod != want:
            ctx.fail("correspondence", {"model": m}, {"impl": r["shape_in"], "model": mod, "declared": want}, {"corr": "shape"},
                     "shape of get_zero_trace(..).get_choices() vs declared addresses")
    impl = res[len(shapes):]
    lines = [sx(["inv", L.to_model(t), L.to_model(shape_expr(mid)), [L.path_sx(p) for p in L.universe(t)]]) for mid, t in cases]
    model = ask_driver(lines)
    for (mid, t), im, mo in zip(cases, impl, model):
        ctx.count("model:" + mid)
        for f in L.features(t):
            ctx.count(f)
        ctx.case_done([mid, t], len(L.features(t)) > 1, {"model": mid, "expr": sx(L.to_model(t)), "lean": mo[:60], "impl": str(im)[:60]})
        ctx.traces_validated += 1
        m = common.parse_sx(mo)
        if m[0] == "err":
            raise common.Infra("driver rejected request: " + mo)
        if im.get("pred"):
            why, sig = im["pred"]
            ctx.count("pred-fail")
            ctx.fail("predicate", {"model": mid, "expr": t}, {"why": why, "expr": sx(L.to_model(t))}, sig, "C33 predicate")
            continue
        if "builderr" in im:
            ctx.count("builderr:" + im["builderr"])
            if m[0] != "builderr" :
                ctx.fail("correspondence", {"model": mid, "expr": t}, {"impl": im, "model": mo[:200]}, {"corr": "error"}, "invalidSubsetF vs invalid_subset")
            continue
        if m[0] == "builderr":
            if m[1] not in ("misaligned", "indexOutOfRange"):
                ctx.fail("correspondence", {"model": mid, "expr": t}, {"impl": "ok", "model": mo[:200]}, {"corr": "error"}, "invalidSubsetF vs invalid_subset")
            continue
        ctx.count("result:none" if im["none"] else "result:some")
        if (m[1] == "none") != im["none"]:
            ctx.fail("correspondence", {"model": mid, "expr": t}, {"impl_none": im["none"], "model": mo[:200]}, {"corr": "none-vs-some"}, "invalidSubsetF vs invalid_subset")
            continue
        if not im["none"]:
            from harness.props.c17 import _loose

            for k, (a, b) in enumerate(zip(m[2:], im["obs"])):
                bo = common.parse_sx(b)
                if not all(_loose(x, y) for x, y in zip(a[:3], bo[:3])):
                    ctx.fail("correspondence", {"model": mid, "expr": t}, {"path_index": k, "model": sx(a), "impl": b}, {"corr": "lookup"}, "invalidSubsetF vs invalid_subset")
                    break


def run(ctx: Ctx):
    ctx.rule = ("(model, choice map): 6 real generative functions (flat, nested, 3-deep, vmap inside static, scan, switch inside "
                "static) x choice maps built around the model's addresses (each present with p=.75, optionally one corrupted "
                "address, optionally masked) or random builder expressions of depth <= 3 (1/3 with index levels / switch); "
                "non-trivial = more than one feature; distinct by case text")
    n = 240 if ctx.tier == "quick" else 6000
    n = int(os.environ.get("VERIF_N") or n)  # developer aid (mutant runs)
    cases = known_finding_cases() + [gen_case(ctx.rng, k) for k in range(n)]
    _run(ctx, cases)


def replay(ctx: Ctx, payload: dict):
    c = payload["case"]
    _run(ctx, [[c["model"], c["expr"]]])


P = "GenjaxVerif.Chm."
SPEC = Spec(
    prop_id="C33",
    modules=["GenjaxVerif.Props.C33"],
    theorems=[P + n for n in ("C33_shapeSelection_mem", "C33_none_iff_partial", "C33_some_denote_partial",
                              "C33_some_addrs_partial", "C33_refuted")],
    strength="partial",
    run=run,
    replay=replay,
    assumptions=[
        "the shape choice map of a model is get_zero_trace(*args).get_choices(); the hand-written shape expressions are checked against it on every run",
        "theorems cover constraint maps of the static-address fragment (no Switch/Indexed/Or node); C33_refuted records the Switch defect",
        "model recursion is fuel-bounded; theorems hold for every fuel whenever the model returns a result",
    ],
)
