"""C17 — Choice map queries agree with a finite-map model.

Correspondence: builder expressions (depth <= 4, alphabet x, y, z + the never-used name w) are
built through the REAL public API (ChoiceMap.empty/kw/d/from_mapping/entry/choice, C[...].set,
extend, |, merge, +, mask with Python-bool and jnp flags, filter(Selection), filter(get_selection()),
&, switch with int and traced index, get_submap / __call__, at[...].set / update, jax.vmap of a
builder lambda) and through the Lean model's smart constructors (driver command `chm`).  Only
lookups over a path universe are observed and compared: `p in chm`, `chm[p]` (canonical
(valid, value-if-valid)), `chm.get_submap(p).static_is_empty()`, `chm.get_selection()[p]`;
exceptions are mapped to an enum.  Python class shapes are never compared.

Predicate (implementation alone): an independent reference finite map computed from the same
expression (left-biased union, mask(False) = empty, filter = keep selected static parts,
extend = prefix, get_submap = strip prefix, switch = only branch idx valid, get_selection =
the static parts of the map's addresses) must agree with the real lookups.
"""

from __future__ import annotations

import os

import json

from harness import chm_lib as L
from harness import common
from harness.common import Ctx, Spec, ask_driver, sx

FINDINGS = json.loads((common.VERIF / "tools" / "findings" / "C17.json").read_text()) if (common.VERIF / "tools" / "findings" / "C17.json").exists() else []
KNOWN_SIG = {"call": "ChoiceMap.get_selection", "feature": "indexed_level"}


# ------------------------------------------------------------------ implementation side


def impl_case(t):
    paths = L.universe(t)
    try:
        chm = L.build(t)
    except Exception as e:  # noqa: BLE001
        return {"builderr": L.err_enum(e), "msg": str(e)[:160]}
    obs = L.observe(chm, paths)
    try:
        pred = L.predicate(t, paths, obs)
    except L.RefUnspecified:
        pred = None
    return {"obs": [L.obs_text(o) for o in obs], "pred": pred}


def impl_batch(batch):
    out = []
    for t in batch:
        try:
            out.append(impl_case(t))
        except Exception as e:  # noqa: BLE001  (harness-level problem for this case only)
            import traceback

            out.append({"__harness_error__": f"{type(e).__name__}: {e}", "tb": traceback.format_exc()[-1500:]})
    return out


# ------------------------------------------------------------------ comparison


def _split_obs(s):
    return common.parse_sx(s)


def _loose(m, i):
    """Is model component m compatible with implementation component i?"""
    if m == i:
        return True
    if isinstance(m, list) and m and m[0] == "E":
        if m[1] in ("misaligned", "indexOutOfRange"):
            return True  # outside the theorems' hypotheses (Aligned / in-range): not compared
        return isinstance(i, list) and i and i[0] == "E"  # error classes of lookups: any error
    return False


def compare(mo: str, im: dict):
    """-> None | (what, detail)."""
    m = common.parse_sx(mo)
    if m[0] == "err":
        raise common.Infra("driver rejected a generated request: " + mo)
    if m[0] == "builderr":
        if m[1] == "fuel":
            raise common.Infra("model ran out of fuel")
        if "builderr" in im:
            if im["builderr"] == m[1] or m[1] in ("misaligned", "indexOutOfRange"):
                return None
            return ("build-error-kind", {"model": m[1], "impl": im["builderr"], "msg": im.get("msg")})
        if m[1] in ("misaligned", "indexOutOfRange"):
            return None
        return ("model-raises-impl-does-not", {"model": m[1]})
    if "builderr" in im:
        return ("impl-raises-model-does-not", {"impl": im["builderr"], "msg": im.get("msg")})
    mobs = m[1:]
    if len(mobs) != len(im["obs"]):
        raise common.Infra("observation count mismatch")
    for k, (a, b) in enumerate(zip(mobs, im["obs"])):
        bo = common.parse_sx(b)
        for name, x, y in zip(("in", "val", "emp", "sel"), a, bo):
            if not _loose(x, y):
                return ("lookup", {"path_index": k, "obs": name, "model": sx(x), "impl": sx(y)})
    return None


def neighbours(t, rng, n=40):
    """Sub-expressions and small wrappers of a case: searched for a predicate failure before a
    correspondence break is reported."""
    out = [s for s in L.subterms(t) if s is not t][:n]
    for f in L.FLAGS:
        out.append(["mask", t, f])
    out.append(["or", t, t, 0])
    for nm in L.NAMES:
        out.append(["sub", t, ["p", nm], 0])
        out.append(["entry", t, ["a", nm], 0])
        out.append(["filter", t, ["at", nm]])
    out.append(["filterchm", t, t, 0])
    return out[: 2 * n]


def _run_cases(ctx: Ctx, labelled: list, search=True):
    """labelled: [(label, case)].  ONE pool of workers for the whole list."""
    if not labelled:
        return
    cases = [t for _, t in labelled]
    B = max(1, min(25, len(cases) // 64 + 1))
    batches = [cases[i:i + B] for i in range(0, len(cases), B)]
    res = common.run_impl_parallel("harness.props.c17", "impl_batch", batches)
    impl = []
    for b, r in zip(batches, res):
        if isinstance(r, dict):
            raise common.Infra(r.get("__harness_error__", "worker failure") + r.get("tb", ""))
        impl.extend(r)
    lines = [sx(["chm", L.to_model(t), [L.path_sx(p) for p in L.universe(t)]]) for t in cases]
    model = ask_driver(lines)
    broken = []
    for (label, t), im, mo in zip(labelled, impl, model):
        if "__harness_error__" in im:
            raise common.Infra(im["__harness_error__"] + im.get("tb", ""))
        feats = L.features(t)
        ctx.count(label)
        for f in feats:
            ctx.count(f)
        ctx.case_done(t, len(feats) > 2, {"expr": sx(L.to_model(t)), "model": mo[:80], "impl": str(im.get("obs", im))[:80]})
        ctx.traces_validated += 1
        if "builderr" in im:
            ctx.count("builderr:" + im["builderr"])
        if im.get("pred"):
            why, sig = im["pred"]
            ctx.fail("predicate", {"expr": t}, {"why": why, "expr": sx(L.to_model(t))}, sig, "C17 reference-map predicate")
            continue
        c = compare(mo, im)
        if c is not None:
            ctx.count("correspondence-break")
            broken.append((t, c))
    # search the neighbourhood of every correspondence break for a predicate failure (one more pool)
    if broken and search:
        nbs = [neighbours(t, ctx.rng) for t, _ in broken[:20]]
        flat = [n for ns in nbs for n in ns]
        B2 = max(1, len(flat) // 48 + 1)
        nb_batches = [flat[i:i + B2] for i in range(0, len(flat), B2)]
        nres = [r for b in common.run_impl_parallel("harness.props.c17", "impl_batch", nb_batches) for r in (b if isinstance(b, list) else [])]
        pos = 0
        for (t, (what, detail)), ns in zip(broken[:20], nbs):
            rs = nres[pos:pos + len(ns)]
            pos += len(ns)
            found = next(((nb, r["pred"]) for nb, r in zip(ns, rs) if r.get("pred")), None)
            if found:
                nb, (why, sig) = found
                ctx.fail("predicate", {"expr": nb}, {"why": why, "expr": sx(L.to_model(nb)), "found_from": sx(L.to_model(t))}, sig, "C17 reference-map predicate")
            else:
                ctx.fail("correspondence", {"expr": t}, {"what": what, **detail, "expr": sx(L.to_model(t))},
                         {"corr": what}, "Chm model (evalF/getSubmapF/getValue/selMemF) vs ChoiceMap public API")
    elif broken:
        for t, (what, detail) in broken:
            ctx.fail("correspondence", {"expr": t}, {"what": what, **detail, "expr": sx(L.to_model(t))},
                     {"corr": what}, "Chm model (evalF/getSubmapF/getValue/selMemF) vs ChoiceMap public API")


# ------------------------------------------------------------------ exhaustive small space


def small_space():
    """All expressions of depth <= 2 over a small base: every binary/unary combinator applied to
    base maps (static fragment, complete)."""
    base = [
        "empty",
        ["entry", ["val", 1], ["a", "x"], 0],
        ["entry", ["val", 2], ["a", "y"], 1],
        ["entry", ["val", 3], ["a", "x", "y"], 2],
        ["entry", ["mval", "dF", 4], ["a", "x"], 0],
        ["entry", ["mval", "dT", 5], ["a", "x", "y"], 0],
        ["kw", [[["a", "x"], ["val", 6]], [["a", "y"], ["entry", ["val", 7], ["a", "z"], 0]]], 0],
        ["entry", ["val", ["arr", 1, 2, 3]], ["a", "x"], 0],
    ]
    d1 = list(base)
    for a in base:
        for f in L.FLAGS:
            d1.append(["mask", a, f])
        for s in L.SEL_BASE:
            d1.append(["filter", a, s])
        for nm in ("x", "y"):
            d1.append(["sub", a, ["p", nm], 0])
            d1.append(["entry", a, ["a", nm], 2])
        for b in base:
            d1.append(["or", a, b, 0])
            d1.append(["filterchm", a, b, 0])
            d1.append(["atset", a, ["a", "x"], b, 0])
    return base, d1


def index_grid():
    """Deterministic cases that put `Indexed` levels next to each other and next to static entries, so
    that `Or` nodes, `Indexed.filter`, `Indexed.get_inner_map` and `Or.get_inner_map` are always exercised."""
    e = lambda v, *comps: ["entry", ["val", v], ["a"] + list(comps), 1]
    ib = [
        e(1, "x", ["c", 1]), e(2, "x", ["c", 2]), e(3, "x", ["d", 1]), e(4, ["c", 0], "x"), e(5, "y"),
        e(6, "x", ["c", 1], "y"), ["vmap", ["x"], [0, 1, 2], [], [10, 20, 30]], ["vmap", [], [2, 0, 1], ["y"], [7, 8, 9]],
    ]
    out = list(ib)
    for a in ib:
        for b in ib:
            out.append(["or", a, b, 0])
        for f in L.FLAGS:
            out.append(["mask", a, f])
        out.append(["filter", a, ["at", "x"]])
        out.append(["filter", a, ["not", ["at", "x"]]])
        out.append(["sub", a, ["p", "x"], 0])
        out.append(["sub", a, ["p", "x", 1], 1])
    for a in ib[:4]:
        for b in ib[:4]:
            out.append(["sub", ["or", a, b, 0], ["p", "x"], 0])
            out.append(["or", ["or", a, b, 0], e(9, "y"), 0])
    return out


def switch_grid():
    """Deterministic cases with a `ChoiceMap.switch` (concrete and traced index) as the left and as the
    right operand of `|`, the other operand defining some of the same addresses: the union must stay
    left-biased whichever side the switch is on (`Or.build` has a separate code path for each)."""
    e = lambda v, *comps: ["entry", ["val", v], ["a"] + list(comps), 0]
    kw = lambda a, b: ["kw", [[["a", "x"], ["val", a]], [["a", "y"], ["val", b]]], 0]
    plain = [e(1, "x"), e(2, "y"), kw(3, 4), e(5, "x", "y"), ["entry", ["mval", "dT", 6], ["a", "x"], 0],
             ["entry", ["mval", "dF", 7], ["a", "x"], 0]]
    out = []
    for kind in ("c", "d"):
        for i in (0, 1):
            for br in ([e(10, "x"), e(11, "x")], [kw(12, 13), e(14, "y")], [e(15, "x", "y"), kw(16, 17)],
                       [e(18, "z"), "empty"]):
                sw = ["switch", [kind, i], br]
                out.append(sw)
                for q in plain:
                    out.append(["or", q, sw, 0])
                    out.append(["or", sw, q, 0])
                    out.append(["filterchm", q, sw, 0])
                out.append(["or", sw, ["switch", [kind, 1 - i], list(reversed(br))], 0])
                out.append(["mask", ["or", plain[2], sw, 0], "dT"])
                out.append(["sub", ["or", plain[3], sw, 0], ["p", "x"], 0])
    return out


def known_finding_cases():
    return [
        ["entry", ["val", 5], ["a", "x", ["c", 2]], 1],
        ["filterchm", ["entry", ["val", 5], ["a", "x", ["c", 2]], 1], ["entry", ["val", 5], ["a", "x", ["c", 2]], 1], 0],
        ["vmap", ["x"], [0, 1, 2], [], [10, 20, 30]],
    ]


def run(ctx: Ctx):
    ctx.rule = ("builder expressions over {x,y,z} (+ never-used w): leaves (bare / Mask with bool and jnp flags, scalar and "
                "1-D array), kw/d/from_mapping, entry/C[..].set/extend with static, int and traced index components, "
                "|/merge/+, mask, filter(Selection), filter(get_selection())/&, switch (int / traced), get_submap, "
                "at[..].set/update, jax.vmap of a builder lambda; every case observed on its path universe (all static "
                "paths of length <= 3 + index variants) by `in`, `[]`, static_is_empty, get_selection; non-trivial = "
                "at least 3 distinct features; distinct by case text")
    work = [("known-finding-replay", t) for t in known_finding_cases()]
    # exhaustive small space (static fragment)
    base, d1 = small_space()
    work += [("exhaustive-depth1", t) for t in d1]
    work += [("index-grid", t) for t in index_grid()]
    work += [("switch-grid", t) for t in switch_grid()]
    if ctx.tier == "thorough":
        for a in d1[:: 3]:
            for b in base:
                work.append(("depth2-grid", ["or", a, b, 1]))
                work.append(("depth2-grid", ["or", b, a, 2]))
                work.append(("depth2-grid", ["filterchm", a, b, 1]))
            for s in L.SEL_BASE:
                work.append(("depth2-grid", ["filter", a, s]))
            for f in L.FLAGS:
                work.append(("depth2-grid", ["mask", a, f]))
    ctx.exhaustive = True
    ctx.notes["exhaustive_space"] = "all unary/binary combinators over 8 base maps (depth <= 1 over the base), static fragment"
    # random deeper expressions; the static fragment gets half of the stream.  Index levels under
    # get_selection are the known finding's region: cases whose reference predicate fails there carry the
    # specific signature and are reported as KNOWN-FINDING by common.
    n_rand = 260 if ctx.tier == "quick" else 9000
    n_rand = int(os.environ.get("VERIF_N") or n_rand)  # developer aid (mutant runs)
    for k in range(n_rand):
        work.append(("random", L.rand_expr(ctx.rng, ctx.rng.randint(1, 4), static_only=(k % 2 == 0))))
    _run_cases(ctx, work)


def replay(ctx: Ctx, payload: dict):
    _run_cases(ctx, [("replay", payload["case"]["expr"])])


THEOREMS = ["GenjaxVerif.Chm." + n for n in (
    "C17_denote_getInner_partial", "C17_denote_getInner_idx_partial", "C17_denote_getSubmap_partial", "C17_denote_or_partial", "C17_denote_maskFalse_partial",
    "C17_denote_maskTrue_partial", "C17_denote_filter_partial", "C17_denote_extend", "C17_denote_extend_path",
    "C17_denote_extend_idx", "C17_built_base", "C17_built_extend", "C17_denote_atSet_partial", "C17_switch_conc", "C17_getSelection_mem_partial",
    "C17_getSelection_refuted", "C17_filter_own_selection_partial")]

SPEC = Spec(
    prop_id="C17",
    modules=["GenjaxVerif.Props.C17"],
    theorems=THEOREMS,
    strength="partial",
    run=run,
    replay=replay,
    assumptions=[
        "leaves are integer scalars or 1-D integer arrays; mask flags are scalars (vectorised flags, rank >= 2 leaves, slices, out-of-range indices are outside the model)",
        "jax.vmap of a builder lambda batches scalar tracers into arrays without changing the choice-map structure (checked by the correspondence on vmap cases)",
        "model recursion is fuel-bounded; theorems hold for every fuel whenever the model returns a result; the driver's fuel (1000) is never exhausted on generated cases (an exhausted run is an infrastructure failure)",
    ],
)
