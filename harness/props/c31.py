"""C31 — the time-travel debugger records and replays executions faithfully.

Programs are machine-translated: `harness/tt_lib.py` generates random integer JAX functions
(the statement grammar of `harness/ir_translate.py`: arithmetic, comparisons, indexing, slicing,
reductions, sort / split, cond, switch, scan, while, fori, nested jit, ... plus `rec(callable, tag)`
record points nested up to depth 3 and `tag(v, name)` marks, with repeated / missing / empty tags
and the reserved names `_enter` / `exit` used as user tags), stages them with GenJAX's own `stage`
and serialises the REAL ClosedJaxpr — every `record_p` equation with its staged callable and its
static debug tag — for the Lean driver (`tt` command), which runs the model's `timeMachine`
(`instrument`, the hybrid CPS interpreter, the `_record` loop) and then the same random session of
`jump` / `fwd` / `bwd` / `remix` operations (`Debugger.step`), with the concrete semantics `semF`.

Correspondence, per case: `IR.evalPlain` vs `f(*args)`; `TT.timeMachine` vs
`genjax.time_travel.time_machine(f)(*args)` — final_retval, every frame's (args, local_retval),
jump_points, ptr, `frame()`'s tag; after every operation of the session the same observation of
`TT.Debugger.step` vs the real `TimeTravelingDebugger` method (errors as KeyError / error; a
failed operation leaves the session on the previous debugger).  Integer data only: exact equality.

Predicate (implementation only): final_retval == f(*args); frames == the call log of an
instrumented plain Python run (a wrapper that logs each recorded call in pre-order: arguments and
return value), bracketed by the `_enter` / `exit` frames; jump_points == the last frame of each
truthy tag; 0 <= ptr < len(frames) after every operation; jump / fwd / bwd move as documented and
never change the recording; remix at frame k keeps the frames before k, and its final_retval and
frames from k on equal those of re-running f with the k-th recorded call's arguments replaced
(that call's result recomputed); ill-formed requests (unknown tag, wrong arity) raise.
"""

from __future__ import annotations

import os
import time

from harness import common, tt_run
from harness.common import Ctx, Spec


def run(ctx: Ctx):
    ctx.rule = ("random integer JAX programs (1-6 top-level statements; record points nested to depth <= 3, tags "
                "repeated / None / '' / reserved; control flow inside and around recorded callables) x one argument "
                "vector x one random debugger session of 3-8 operations (30% remix with fresh arguments, 30% jump, "
                "fwd / bwd; ~8% of jumps name an unknown tag and ~8% of remixes have the wrong arity); ~6% of programs "
                "have no record point at all; non-trivial = the program has at least one record point of its own "
                "(more than the _enter / exit frames); distinct by (program, arguments, session)")
    n = 36 if ctx.tier == "quick" else 640
    if os.environ.get("VERIF_TT_N"):  # developer knob (mutant runs on a loaded machine)
        n = int(os.environ["VERIF_TT_N"])
    chunk = 36 if ctx.tier == "quick" else 128
    done, per_chunk = 0, 0.0
    while done < n and (done == 0 or ctx.time_left() > max(300.0, 1.3 * per_chunk)):
        k = min(chunk, n - done)
        t_chunk = time.time()
        tt_run.check_cases(ctx, tt_run.make_cases(ctx.rng, k), "translated-program")
        done += k
        per_chunk = time.time() - t_chunk
    ctx.notes["programs_requested"] = n
    ctx.notes["programs_run"] = done


def replay(ctx: Ctx, payload: dict):
    tt_run.replay_case(ctx, payload)


SPEC = Spec(
    prop_id="C31",
    modules=["GenjaxVerif.Props.C31"],
    theorems=[
        "GenjaxVerif.TT.C31_record_is_the_call_log", "GenjaxVerif.TT.C31_frames_are_the_call_log",
        "GenjaxVerif.TT.C31_final_eq_plain", "GenjaxVerif.TT.C31_record_final_eq_plain",
        "GenjaxVerif.TT.C31_record_error_is_program_error", "GenjaxVerif.TT.C31_no_record_points",
        "GenjaxVerif.TT.C31_step_preserves_inv", "GenjaxVerif.TT.C31_pointer_in_range",
        "GenjaxVerif.TT.C31_initial_in_range", "GenjaxVerif.TT.C31_remix_spec", "GenjaxVerif.TT.C31_remix_final",
        "GenjaxVerif.TT.C31_remix_out_of_range", "GenjaxVerif.TT.C31_remix_pointer",
    ],
    strength="full",
    run=run,
    replay=replay,
    assumptions=[
        "primitive.bind is a pure function of (primitive, params, argument values): `sem` in the model",
        "RecSem: binding a record_p equation evaluates its staged callable (initial_style_bind's _impl) — a hypothesis "
        "on `sem`, satisfied by JAX",
        "JAX tracing is outside the model: a re-staged continuation `_cont` is represented by the stack of code segments "
        "it denotes (callable body, then the remaining equations of each enclosing jaxpr)",
        "a recorded callable that closes over a traced value, and record points inside cond / scan / while / jit bodies "
        "(executed plainly, never recorded — the interpreter only walks top-level equations), are outside the grammar",
        "int32 arithmetic is modelled by unbounded integers; generators keep |values| < 2^21",
    ],
    extra_trusted=[
        "harness/ir_translate.py + harness/tt_lib.py: serialisation of jax ClosedJaxpr objects (with debug tags) into the "
        "driver protocol",
        "Model/IRSem.lean: concrete meaning of the integer JAX primitives used for execution (theorems do not depend on it)",
    ],
)
