"""C09 — the incremental interpreter computes the same values, with sound change tags.

Programs are machine-translated: `harness/ir_translate.py` generates random integer JAX
functions (arithmetic, comparisons, where/select_n, static and dynamic indexing, slicing,
reductions, sort/split (multi-result), cond, switch, scan, while, fori, nested jit,
GenJAX initial-style primitives, custom_jvp, remat, closed-over constant arrays, Python
literals, unused / duplicated / literal outputs), stages them with GenJAX's own `stage`
and serialises the REAL ClosedJaxpr for the Lean driver (`ir` command), which runs the
model's `evalPlain` / `evalIncr` with the concrete semantics `semF`.

Correspondence: (a) `IR.evalPlain` vs `f(*args)`; (b) `IR.evalIncr` primals and tags vs
`genjax.incremental(f)(handler, primals, tangents)` for handler = None and a handler that
handles nothing (a raw output counts as NoChange on both sides; any tag difference is
reported, and named "unsound" when the implementation says NoChange where the model says
UnknownChange).

Predicate (implementation only): primal outputs equal `f(*args)`; after re-running with new
values at the UnknownChange inputs, every output tagged NoChange is unchanged (both in the
incremental run and in plain evaluation) and tags are unchanged; with every input NoChange
every output is NoChange.
"""

from __future__ import annotations

import os
import time

from harness import common, ir_run
from harness.common import Ctx, Spec


def run(ctx: Ctx):
    ctx.rule = ("corpus/C09 (12 hand-written regression programs under every tagging) first; then random integer JAX programs (3-8 top-level statements, control flow nested to depth 2) x one tagging x "
                "3 argument vectors (original + 2 perturbations of the UnknownChange inputs) + the all-NoChange tagging; "
                "non-trivial = the staged jaxpr has at least one equation; distinct by (program, arguments, tags); ~8% of "
                "cases carry a tangent tuple of the wrong length (error stream)")
    n = 48 if ctx.tier == "quick" else 2400
    if os.environ.get("VERIF_IR_N"):  # developer knob (mutant runs on a loaded machine): fewer random programs
        n = int(os.environ["VERIF_IR_N"])
    chunk = 48 if ctx.tier == "quick" else 400
    pending = ir_run.load_corpus("C09", ("plain", "incr"))  # corpus runs first, in the first pool
    done, per_chunk = 0, 0.0
    while done < n and (done == 0 or ctx.time_left() > max(400.0, 1.3 * per_chunk)):
        k = min(chunk, n - done)
        t_chunk = time.time()
        cases = pending + ir_run.make_cases(ctx.rng, k, modes=("plain", "incr"))
        pending = []
        ir_run.check_cases(ctx, cases, "C09", "translated-program")
        done += k
        per_chunk = time.time() - t_chunk
    ctx.notes["programs_requested"] = n
    ctx.notes["programs_run"] = done


def replay(ctx: Ctx, payload: dict):
    ir_run.replay_case(ctx, payload, "C09")


SPEC = Spec(
    prop_id="C09",
    modules=["GenjaxVerif.Props.C09"],
    theorems=[
        "GenjaxVerif.IR.C09_incr_primal", "GenjaxVerif.IR.C09_incr_tag_mismatch", "GenjaxVerif.IR.C09_noninterference",
        "GenjaxVerif.IR.C09_noninterference_pointwise", "GenjaxVerif.IR.C09_tags_value_independent",
        "GenjaxVerif.IR.C09_tags_monotone", "GenjaxVerif.IR.C09_nohandle_eq_none", "GenjaxVerif.IR.C09_default_rule",
    ],
    strength="full",
    run=run,
    replay=replay,
    assumptions=[
        "primitive.bind is a pure function of (primitive, params, argument values): `sem` in the model",
        "noninterference compares two successful runs (a primitive whose result arity varied with values would make "
        "one run fail in safe_map)",
        "int32 arithmetic is modelled by unbounded integers; generators keep |values| < 2^21",
        "custom propagation rules (`custom_rules`) are unused by the implementation and not modelled",
    ],
    extra_trusted=[
        "harness/ir_translate.py: serialisation of jax ClosedJaxpr objects into the driver protocol",
        "Model/IRSem.lean: concrete meaning of the integer JAX primitives used for execution (theorems do not depend on it)",
    ],
)
