"""Shared engine for the model-E properties: generate histories, run them on the Lean model
(driver) and on the implementation (workers), compare canonical observations, collect the
property predicates' verdicts, search neighbours when only the correspondence breaks.
"""

from __future__ import annotations

import copy
import json
import os

from harness import common, gfi
from harness.common import Ctx, ask_driver
from harness.gfi_gen import NO_PROJECT, NO_REGEN, SWITCHY, G, has_node
from harness.gfi_ref import infer


# --------------------------------------------------------------------------- protocol


def sx_e(e):
    """Expression AST -> protocol text."""
    if isinstance(e, int):
        return str(e)
    op = e[0]
    if op == "var":
        return f"(var {e[1]})"
    if op == "proj":
        return f"(proj {sx_e(e[1])} {e[2]})"
    if op == "zeros":
        return f"(zeros {e[1]})"
    return "(" + " ".join([op] + [sx_e(x) for x in e[1:]]) + ")"


def sx_pre(pre):
    if isinstance(pre, str):
        return pre
    return "(" + " ".join([pre[0]] + [sx_e(x) for x in pre[1:]]) + ")"


def sx_prog(p):
    op = p[0]
    if op == "dist":
        return f"(dist {p[1]})"
    if op == "static":
        return f"(static {sx_body(p[1])})"
    if op == "vmap":
        return f"(vmap {sx_prog(p[1])} ({' '.join(('1' if a == "ax1" else 'T') if a else 'F' for a in p[2])}))"
    if op == "scan":
        return f"(scan {sx_prog(p[1])} {p[2]})"
    if op == "switch":
        return "(switch " + " ".join(sx_prog(q) for q in p[1:]) + ")"
    if op == "mask":
        return f"(mask {sx_prog(p[1])})"
    if op == "dimap":
        return f"(dimap {sx_pre(p[1])} {sx_prog(p[2])} {sx_e(p[3])})"
    if op == "map":
        return f"(map {sx_prog(p[1])} {sx_e(p[2])})"
    if op == "contramap":
        return f"(contramap ({' '.join(sx_e(e) for e in p[1])}) {sx_prog(p[2])})"
    if op in ("repeat", "iterate", "iterate_final"):
        return f"({op} {sx_prog(p[1])} {p[2]})"
    if op == "orelse":
        return f"(orelse {sx_prog(p[1])} {sx_prog(p[2])})"
    if op in ("accumulate", "reduce", "masked_iterate", "masked_iterate_final"):
        return f"({op} {sx_prog(p[1])})"
    if op == "closure":
        return f"(closure {sx_prog(p[1])} ({' '.join(str(x) for x in p[2])}) {p[3]})"
    raise ValueError(p)


def sx_body(b):
    if b[0] == "ret":
        return f"(ret {sx_e(b[1])})"
    _, addr, sp, aes, rest = b
    return f"(bind ({' '.join(addr)}) {sx_prog(sp)} ({' '.join(sx_e(e) for e in aes)}) {sx_body(rest)})"


def sx_cmap(c):
    return gfi.show_cmap([(tuple(p), v) for p, v in c])


def sx_sel(t):
    return common.sx(t)


def sx_op(op):
    k = op[0]
    if k == "sim":
        return f"(sim {op[1]} {gfi.show_val(op[2])})"
    if k == "gen":
        return f"(gen {op[1]} {sx_cmap(op[2])} {gfi.show_val(op[3])})"
    if k == "assess":
        return f"(assess {sx_cmap(op[1])} {gfi.show_val(op[2])})"
    if k == "assessSelf":
        return "(assessSelf)"
    if k == "upd":
        return f"(upd {op[1]} {sx_cmap(op[2])} {gfi.show_val(op[3])} {'T' if op[4] else 'F'})"
    if k == "bwd":
        return f"(bwd {op[1]} {gfi.show_val(op[2])} {'T' if op[3] else 'F'})"
    if k == "regen":
        return f"(regen {op[1]} {sx_sel(op[2])} {gfi.show_val(op[3])})"
    if k == "proj":
        return f"(proj {sx_sel(op[1])})"
    if k == "idx":
        payload = sx_cmap(op[4]) if op[3] == "upd" else sx_sel(op[4])
        return f"(idx {op[1]} {op[2]} {op[3]} {payload})"
    if k == "sreq":
        ents = []
        for e in op[2]:
            a = "(" + " ".join(e[0]) + ")"
            ents.append(f"({a} upd {sx_cmap(e[2])})" if e[1] == "upd" else f"({a} regen {sx_sel(e[2])})" if e[1] == "regen" else f"({a} empty)")
        return f"(sreq {op[1]} ({' '.join(ents)}) {gfi.show_val(op[3])} {'T' if op[4] else 'F'})"
    if k == "reclose":
        return f"(reclose {sx_prog(op[1])})"
    if k == "propose":
        return f"(propose {op[1]} {gfi.show_val(op[2])})"
    if k == "empty":
        nochange = all(t == "N" for t in op[3])
        return f"(empty {op[1]} {gfi.show_val(op[2])} {'T' if nochange else 'F'} {'T' if (op[3] and op[3][0] == 'U') else 'F'})"
    if k == "subtrace":
        return "(subtrace " + " ".join(op[1]) + ")"
    raise ValueError(op)


def case_line(case):
    return f"(gfi {sx_prog(case['prog'])} ({' '.join(sx_op(o) for o in case['ops'])}))"


def parse_model(resp):
    """Driver response -> list of per-op observations in the implementation's vocabulary."""
    sx = common.parse_sx(resp)
    out = []
    if sx and sx[0] == "err":
        return [{"err": "driver:" + " ".join(map(str, sx[1:]))}]
    for r in sx:
        if r[0] == "err":
            out.append({"err": r[1]})
            continue
        o = {"ok": True}
        for part in r[1:]:
            tag = part[0]
            if tag == "tr":
                ch = gfi.parse_cmap(part[4])
                o["tr"] = {"args": gfi.parse_val(part[1]), "ret": gfi.canon_val(gfi.parse_val(part[2])),
                           "score": int(part[3]), "choices": gfi.canon_choices(ch),
                           "all_paths": [p for p, _ in ch]}
            elif tag == "w":
                o["w"] = int(part[1])
            elif tag == "ret":
                o["ret"] = gfi.canon_val(gfi.parse_val(part[1]))
            elif tag == "bwd":
                o["bwd"] = gfi.canon_choices(gfi.parse_cmap(part[1]))
            elif tag == "choices":
                o["choices"] = gfi.canon_choices(gfi.parse_cmap(part[1]))
            elif tag == "bwdok":
                o["bwdok"] = part[1] == "T"
        out.append(o)
    return out


def diff_op(mo, im):
    """Compare one op's observations; returns a list of human-readable differences."""
    d = []
    if "err" in mo or "err" in im:
        me, ie = mo.get("err"), im.get("err")
        if me == "no-trace" and ie == "no-trace":
            return d
        if me != ie:
            d.append(f"error: model={me} impl={ie} {im.get('msg', '')[:120]}")
        return d
    if "tr" in mo:
        mt, it = mo["tr"], im.get("tr")
        if it is None:
            return ["impl has no trace"]
        for k in ("args", "ret", "score"):
            if mt[k] != it[k]:
                d.append(f"{k}: model={mt[k]} impl={it[k]}")
        if mt["choices"] != it["choices"]:
            ks = sorted(set(mt["choices"]) | set(it["choices"]), key=str)
            bad = [(k, mt["choices"].get(k), it["choices"].get(k)) for k in ks if mt["choices"].get(k) != it["choices"].get(k)]
            d.append(f"choices differ at {bad[:4]}")
    if "w" in mo and mo["w"] != im.get("w"):
        d.append(f"weight: model={mo['w']} impl={im.get('w')}")
    if "ret" in mo and mo["ret"] != im.get("ret"):
        d.append(f"assess retval: model={mo['ret']} impl={im.get('ret')}")
    if "choices" in mo and mo["choices"] != im.get("choices"):
        d.append(f"choices: model={mo['choices']} impl={im.get('choices')}")
    if "bwd" in mo and mo.get("bwdok", True) and "bwd" in im and mo["bwd"] != im["bwd"]:
        d.append(f"bwd: model={mo['bwd']} impl={im['bwd']}")
    return d


# --------------------------------------------------------------------------- histories


def make_case(g: G, depth, opts):
    """One random program + history.  opts: dict of operation weights / switches."""
    r = g.rng
    for _ in range(50):
        try:
            prog, atys, rty = g.any_prog(depth)
            infer(prog, atys)
            if _dup_addrs(prog) and has_node(prog, SWITCHY):
                continue      # every branch of a switch is staged: a duplicate in an unselected branch raises too
            break
        except Exception:  # noqa: BLE001  (an ill-typed draw; try again)
            continue
    else:
        raise common.Infra("generator failed to produce a well-typed program")
    _, universe = infer(prog, atys)
    args = g.args_for(prog, atys)
    ops = []
    seed = r.randint(0, 2**31 - 1)
    masked = opts.get("masked", 0.0)
    if r.random() < opts.get("start_gen", 0.4):
        ops.append(["gen", seed, g.constraint(universe, masked=masked, bogus=0.1 if prog[0] == "static" else 0.0), args])
    else:
        ops.append(["sim", seed, args])
    nested_switch = has_node(prog[1:], SWITCHY) and not _switch_ok_for_update(prog)
    kinds, ws = [], []
    static_addrs = _top_static_addrs(prog)
    for k, w in (("assessSelf", 1.0), ("upd", 1.0), ("regen", 1.0), ("proj", 1.0), ("gen", 0.3), ("assess", 0.5),
                 ("propose", 0.0), ("empty", 0.0), ("subtrace", 0.0), ("idx", 0.0), ("sreq", 0.0), ("reclose", 0.0)):
        w = opts.get(k, w)
        if k == "upd" and nested_switch:
            w = 0
        if k == "regen" and has_node(prog, NO_REGEN) and r.random() < 0.85:
            w = 0
        if k == "proj" and has_node(prog, NO_PROJECT) and r.random() < 0.85:
            w = 0
        if k == "empty" and nested_switch:
            w = 0
        if k == "subtrace" and not static_addrs:
            w = 0
        if k == "idx" and not _index_editable(prog, atys):
            w = 0
        if k == "sreq" and (prog[0] != "static" or has_node(prog, SWITCHY)):
            w = 0
        if k == "reclose" and (prog[0] != "closure" or has_node(prog, SWITCHY)):
            w = 0
        if w > 0:
            kinds.append(k)
            ws.append(w)
    n_ops = r.randint(1, opts.get("max_ops", 3))
    cur_args = args
    for _ in range(n_ops):
        k = r.choices(kinds, weights=ws)[0]
        s = r.randint(0, 2**31 - 1)
        if k == "assessSelf":
            ops.append(["assessSelf"])
        elif k == "assess":
            c_full = g.constraint(universe, coverage=1.0, bogus=0.0)
            if (opts.get("assess_partial") and r.random() < opts["assess_partial"] and prog[0] == "static"
                    and not has_node(prog, SWITCHY + ("vmap", "scan", "repeat", "accumulate", "reduce", "iterate",
                                                      "iterate_final", "masked_iterate", "masked_iterate_final", "mask"))):
                # a partial sample: both sides must raise MissingAddress (or accept it if nothing is missing)
                ops.append(["assess", g.constraint(universe, coverage=r.choice([0.0, 0.5, 0.8]), bogus=0.0), cur_args])
            elif len(c_full) == len(universe):
                ops.append(["assess", c_full, cur_args])
            else:
                # branches with incompatible address shapes cannot all be given a sample, and the
                # implementation stages every branch of a switch (MissingAddress at trace time)
                ops.append(["assessSelf"])
        elif k == "gen":
            ops.append(["gen", s, g.constraint(universe, masked=masked), cur_args])
        elif k == "proj":
            ops.append(["proj", g.selection(universe)])
        elif k == "idx":
            n_el = _vec_length(prog, atys)
            kk = r.randrange(n_el)
            if prog[0] == "scan" and n_el >= 2 and r.random() < 0.7:
                kk = r.randrange(n_el - 1)      # a non-final iteration: the next one is re-scored on the new carry
            sub_univ = [q[1:] for q in universe if q and q[0] == kk]
            if prog[0] == "scan" and r.random() < 0.3:
                ops.append(["idx", s, kk, "regen", g.selection(sub_univ)])
            else:
                ops.append(["idx", s, kk, "upd", g.constraint(sub_univ, coverage=r.choice([0.0, 0.5, 1.0, 1.0]))])
            if r.random() < 0.7:
                ops.append(["assessSelf"])      # the edited trace's score is still the density of its choices
            if r.random() < 0.6 * opts.get("bwd", 0.5):
                ops.append(["bwd", r.randint(0, 2**31 - 1), cur_args, False, ["N"] * len(atys)])   # undo the index edit
        elif k == "sreq":
            # a StaticRequest: per top-level address an Update, a Regenerate, an explicit EmptyRequest or
            # nothing (= EmptyRequest); the dict is built in a shuffled order
            entries = []
            body = prog[1]
            while body[0] == "bind":
                addr, sub = body[1], body[2]
                sub_univ = [q[len(addr):] for q in universe if list(q[:len(addr)]) == list(addr)]
                u = r.random()
                if u < 0.4:
                    entries.append([addr, "upd", g.constraint(sub_univ, coverage=r.choice([0.0, 0.5, 1.0]), masked=masked)])
                elif u < 0.7:
                    if has_node(sub, NO_REGEN):
                        entries.append([addr, "upd", g.constraint(sub_univ, coverage=1.0)])
                    else:
                        entries.append([addr, "regen", g.selection(sub_univ)])
                elif u < 0.8:
                    entries.append([addr, "empty"])
                body = body[4]
            r.shuffle(entries)
            keep = r.random() < 0.5
            new_args = cur_args if keep else _perturb(g, prog, atys, cur_args)
            same = [a == b for a, b in zip(new_args[1:], cur_args[1:])]
            tags = ["N" if (sm and r.random() < 0.6) else "U" for sm in same]
            ops.append(["sreq", s, entries, new_args, False, tags])
            cur_args = new_args
            if r.random() < opts.get("bwd", 0.5):
                back = _prev_args(ops)
                bsame = [a == b for a, b in zip(back[1:], cur_args[1:])]
                btags = ["N" if (sm and r.random() < 0.6) else "U" for sm in bsame]
                ops.append(["bwd", r.randint(0, 2**31 - 1), back, False, btags])
                cur_args = back
        elif k == "reclose":
            # edit the trace through a closure with OTHER stored arguments, the call arguments tagged
            # unchanged: must equal the wrapped function's edit with (new stored ++ call arguments)
            new_stored = [v + r.choice([-1, 1, 2]) if r.random() < 0.7 else v for v in prog[2]]
            ops.append(["reclose", ["closure", prog[1], new_stored, prog[3]]])
            tags = ["N"] * len(atys)
            u = r.random()
            if u < 0.7 and not has_node(prog, NO_REGEN):
                ops.append(["regen", s, g.selection(universe), cur_args, tags])
            else:
                ops.append(["upd", s, g.constraint(universe, coverage=r.choice([0.0, 0.0, 0.3])), cur_args, False, tags])
            ops.append(["assessSelf"])
        elif k == "propose":
            ops.append(["propose", s, cur_args])
        elif k == "subtrace":
            ops.append(["subtrace", r.choice(static_addrs)])
        elif k == "empty":
            keep = r.random() < 0.5
            new_args = cur_args if keep else _perturb(g, prog, atys, cur_args)
            same = [a == b for a, b in zip(new_args[1:], cur_args[1:])]
            tags = ["N" if all(same) and r.random() < 0.7 else "U"] * len(atys)
            ops.append(["empty", s, new_args, tags])
            cur_args = new_args
        elif k == "regen":
            if r.random() < opts.get("regen_args", 0.0) and not has_node(prog, SWITCHY):
                # regenerate together with an argument change (every argument tagged UnknownChange)
                cur_args = _perturb(g, prog, atys, cur_args)
                ops.append(["regen", s, g.selection(universe), cur_args, ["U"] * len(atys)])
                continue
            ops.append(["regen", s, g.selection(universe), cur_args])
            if r.random() < 0.6 * opts.get("bwd", 0.5):
                # the backward request of a regenerate restores the old trace (same arguments)
                ops.append(["bwd", r.randint(0, 2**31 - 1), cur_args, False, ["N"] * len(atys)])
        elif k == "upd":
            keep = r.random() < 0.4
            new_args = cur_args if keep else _perturb(g, prog, atys, cur_args)
            same = [a == b for a, b in zip(new_args[1:], cur_args[1:])]
            if has_node(prog, SWITCHY):
                allN = all(same) and r.random() < 0.5
                tags = ["N" if allN else "U"] * len(atys)
            else:
                tags = ["N" if (sm and r.random() < 0.6) else "U" for sm in same]
            changed = tags[0] == "U" if tags else False
            ops.append(["upd", s, g.constraint(universe, coverage=r.choice([0.0, 0.3, 0.7]), masked=masked), new_args, changed, tags])
            cur_args = new_args
            if r.random() < opts.get("bwd", 0.5):
                back = _prev_args(ops)
                bsame = [a == b for a, b in zip(back[1:], cur_args[1:])]
                if has_node(prog, SWITCHY):
                    btags = ["N" if all(bsame) else "U"] * len(atys)
                else:
                    btags = ["N" if (sm and r.random() < 0.6) else "U" for sm in bsame]
                ops.append(["bwd", r.randint(0, 2**31 - 1), back, (btags[0] == "U") if btags else False, btags])
                cur_args = ops[-1][2]
    dups = _dup_addrs(prog)
    if dups:
        # an address traced twice must raise AddressReuse; a constraint under it, meant for the first
        # site, need not fit the second site's shape (the implementation runs the callee before it
        # records the address): keep such entries out, the reuse is still reached
        def touches(path):
            sp = [k for k in path if isinstance(k, str)]
            return any(sp[i:i + len(a)] == list(a) for a in dups for i in range(len(sp) - len(a) + 1))
        for op in ops:
            for k, x in enumerate(op):
                if isinstance(x, list) and x and all(isinstance(e, list) and len(e) == 2 and isinstance(e[0], list) for e in x) \
                        and op[0] in ("gen", "upd", "assess"):
                    op[k] = [e for e in x if not touches(e[0])]
    case = {"prog": prog, "atys": atys, "ops": ops}
    if opts.get("retag"):
        case["retag"] = True
    if opts.get("derived"):
        case["derived"] = True
    if opts.get("vbatch") and r.random() < opts["vbatch"] and not case.get("py"):
        case["vbatch"] = True
    if opts.get("jit") and r.random() < opts["jit"]:
        case["jit"] = True
    elif opts.get("py") and r.random() < opts["py"]:
        case["py"] = True         # top-level integer arguments as Python ints / bools, eagerly
    return case


def _dup_addrs(prog):
    """Addresses traced twice by one static function, anywhere in the program."""
    out = set()

    def walk(p):
        if not isinstance(p, list):
            return
        if p and p[0] == "static":
            seen, b = set(), p[1]
            while b[0] == "bind":
                a = tuple(b[1])
                if a in seen:
                    out.add(a)
                seen.add(a)
                walk(b[2])
                b = b[4]
            return
        for x in p:
            walk(x)

    walk(prog)
    return out


def _mentions(e, k):
    if isinstance(e, list):
        if e and e[0] == "var":
            return e[1] == k
        if e and e[0] == "all":
            return True
        return any(_mentions(x, k) for x in e[1:])
    return False


def _vec_length(prog, atys):
    if prog[0] == "vmap":
        return next((t[2][1] if ax == "ax1" else t[1]) for t, ax in zip(atys, prog[2]) if ax)
    if prog[0] == "scan":
        return atys[1][1] if atys[1][0] == "arr" else prog[2]
    return 0


def _index_editable(prog, atys):
    """IndexRequest is modelled for a top-level vmap, and for a top-level scan whose kernel's return
    expression does not read the carry (Scan.edit_index asserts the next iteration's return diff is
    NoChange) and has no switch / mask inside."""
    if prog[0] not in ("vmap", "scan") or _vec_length(prog, atys) == 0:
        return False
    if has_node(prog[1], SWITCHY + ("mask", "masked_iterate", "masked_iterate_final")):
        return False
    if prog[0] == "vmap":
        return True
    # change tags are conservative: the carry is tagged changed, and so is the return value of every
    # non-distribution callee that receives a tagged argument (a distribution's value keeps NoChange)
    tainted, b, k = {0}, prog[1][1], len(atys)
    while b[0] == "bind":
        if b[2][0] != "dist" and any(_mentions(e, t) for e in b[3] for t in tainted):
            tainted.add(k)
        b, k = b[4], k + 1
    return not any(_mentions(b[1], t) for t in tainted)


def _top_static_addrs(prog):
    """Addresses traced directly by a top-level static function (through closure / dimap wrappers)."""
    p = prog
    while p[0] in ("closure", "map", "contramap", "dimap"):
        p = p[2] if p[0] in ("dimap", "contramap") else p[1]
    out = []
    if p[0] == "static":
        b = p[1]
        while b[0] == "bind":
            out.append(b[1])
            b = b[4]
    return out


def _prev_args(ops):
    """Arguments in force before the last `upd` (the backward edit restores them)."""
    args = None
    for op in ops[:-1]:
        if op[0] in ("sim",):
            args = op[2]
        elif op[0] in ("gen", "upd", "sreq"):
            args = op[3]
        elif op[0] in ("bwd",):
            args = op[2]
        elif op[0] == "regen":
            args = op[3]
        elif op[0] == "empty":
            args = op[2]
    return args





def _switch_ok_for_update(prog):
    """Switch index tags are modelled when the switch sits at the top, directly under a
    top-level vmap, or inside a scan kernel fed by the kernel's arguments."""
    op = prog[0]
    if op in SWITCHY:
        return not has_node(prog[1:], SWITCHY)
    if op == "vmap" and prog[1][0] in SWITCHY:
        return not has_node(prog[1][1:], SWITCHY)
    return False


def _perturb(g, prog, atys, args):
    new = g.args_for(prog, atys)
    r = g.rng
    out = ["t"]
    for a, b in zip(args[1:], new[1:]):
        out.append(b if r.random() < 0.6 else a)
    return out


# --------------------------------------------------------------------------- running


def features(case):
    f = set()

    def walk(p):
        if isinstance(p, list):
            if p and isinstance(p[0], str) and p[0] in (
                "dist", "static", "vmap", "scan", "switch", "mask", "dimap", "map", "contramap", "repeat", "orelse",
                "accumulate", "reduce", "iterate", "iterate_final", "masked_iterate", "masked_iterate_final", "closure"):
                f.add("prog:" + p[0])
            for x in p:
                walk(x)

    walk(case["prog"])
    for op in case["ops"]:
        f.add("op:" + op[0])
    for flag in ("py", "jit", "retag", "vbatch", "derived"):
        if case.get(flag):
            f.add("case:" + flag)
    if '"ax1"' in json.dumps(case["prog"]):
        f.add("vmap:in_axes=1")
    if case["prog"][0] == "switch":
        a0 = case["ops"][0][-1][1] if case["ops"][0][0] in ("sim", "gen") else None
        if isinstance(a0, int) and not 0 <= a0 < len(case["prog"]) - 1:
            f.add("switch:index-out-of-range")
    return sorted(f)


def run_cases(ctx: Ctx, cases, props, label="random", known_sig=None):
    """Run cases on model and implementation; record failures relevant to `props`
    (a set of property ids whose predicates count for this check)."""
    lines = [case_line(c) for c in cases]
    model = ask_driver(lines)
    B = max(1, min(8, len(cases) // 32 + 1))
    batches = [cases[i:i + B] for i in range(0, len(cases), B)]
    impl = []
    # importing jax + genjax costs ~30 s CPU per worker: do not start more workers than pay off
    nproc = max(2, min(16, (len(cases) + 5) // 6))
    for b, res in zip(batches, common.run_impl_parallel("harness.gfi_run", "impl_batch", batches, procs=nproc)):
        if isinstance(res, dict) and "__harness_error__" in res:
            raise common.Infra(res["__harness_error__"] + res.get("tb", ""))
        if isinstance(res, dict) and "__worker_lost__" in res:
            # a worker died or hung: retry its cases one by one, serially, in-process limits apart
            res = _retry_lost(b, res["__worker_lost__"])
        impl += res
    n_bad = 0
    broken = []
    for case, mresp, im in zip(cases, model, impl):
        ctx.count(case.get("_label", label))
        for ft in features(case):
            ctx.count(ft)
        nontrivial = any(o[0] in ("upd", "regen", "gen", "proj", "assessSelf", "assess", "bwd") for o in case["ops"])
        mo = parse_model(mresp)
        sample = {"request": case_line(case)[:600], "model": mresp[:300]}
        ctx.case_done(case, nontrivial, sample)
        if "fatal" in im:
            # the implementation could not even build/run the program
            if mo and "err" in mo[0] and not str(mo[0]["err"]).startswith("driver"):
                continue
            ctx.fail("correspondence", _jsonable(case), {"impl_fatal": im["fatal"], "msg": im.get("msg"), "tb": im.get("tb", "")[-600:]},
                     {"fatal": im["fatal"]}, "GFI.run vs implementation (build)")
            continue
        ctx.traces_validated += 1
        pred_fail = [f for k, fl in enumerate(im["preds"]) for f in fl if f["prop"] in props
                     and not (f.get("why") == "applying the returned backward request raised"
                              and k < len(mo) and "err" in mo[k])]      # (the model rejects that request too)
        # a traced address whose lookup in the trace's own choice map RAISES (the model holds a value there):
        # a defect of the choice map, not of the operation; reported as a predicate failure of its own
        # and kept out of the comparison of choices
        for m1, i1 in zip(mo, im["results"]):
            errs = (i1.get("tr") or {}).get("lookup_errors") or {}
            hit = [q for q in (m1.get("tr") or {}).get("choices", {}) if q in errs]
            if hit:
                if not any(f["prop"] == "C17" for f in pred_fail):
                    pred_fail.append({"prop": "C17", "why": "looking up a traced address in the trace's own choice map raised",
                                      "paths": [str(q) for q in hit], "error": str(errs[hit[0]])[:160]})
                for q in hit:
                    m1["tr"]["choices"].pop(q, None)
        for f in pred_fail:
            sig = signature(case, f)
            ctx.fail("predicate", _jsonable(case), f, sig, "property predicate on implementation")
        if pred_fail and not all(f["prop"] == "C17" for f in pred_fail):
            continue
        diffs = []
        lookup_defect = any(f["prop"] == "C17" for f in pred_fail)
        for i, (m1, i1) in enumerate(zip(mo, im["results"])):
            if lookup_defect and case["ops"][i][0] in ("assessSelf", "assess") and str(i1.get("err", "")).startswith("other:IndexError"):
                continue    # assess indexes the same un-indexable choice map: the defect already reported above
            dd = diff_op(m1, i1)
            if dd:
                diffs.append({"op": i, "kind": case["ops"][i][0], "diff": dd})
                break   # later ops depend on this one
            if m1.get("bwdok") is False:
                break   # Switch.edit's backward request is branch 0's: what follows a `bwd` is not modelled
        if len(mo) != len(im["results"]) and not diffs:
            diffs.append({"op": -1, "diff": [f"model answered {len(mo)} ops, impl {len(im['results'])}", mresp[:200]]})
        if diffs:
            n_bad += 1
            broken.append((case, diffs, im))
    # A broken correspondence is not by itself a violation: search the neighbourhood of each such
    # history for an input on which a property predicate fails on the implementation.
    if broken and not _searching:
        found = search_neighbours(ctx, [b[0] for b in broken[:12]], props)
        ctx.notes["neighbour_search"] = {"broken_cases": len(broken), "variants_tried": found[1], "predicate_failures_found": found[0]}
    for case, diffs, im in broken:
        ctx.fail("correspondence", _jsonable(case), {"diffs": diffs, "impl": _jsonable(im["results"][diffs[0]["op"]]) if diffs[0]["op"] >= 0 else None},
                 {"op": diffs[0].get("kind")}, "GFI.run vs implementation")
    return n_bad


def _variants(case):
    """Neighbours of a history: the same program with every prefix of the history, each followed by
    assess-on-own-choices, project(all / none), and a backward round trip after updates."""
    ops = case["ops"]
    out = []
    for k in range(1, len(ops) + 1):
        pre = [o for o in ops[:k]]
        extra = [["assessSelf"], ["proj", "all"], ["proj", "none"]]
        if pre[-1][0] == "upd":
            back = _prev_args(pre)
            if back is not None:
                tags = ["U"] * len(case["atys"])
                extra = [["bwd", 4242, back, bool(tags), tags]] + extra
        v = dict(case)
        v["ops"] = pre + extra
        out.append(v)
    return out


def search_neighbours(ctx, cases, props):
    variants = [v for c in cases for v in _variants(c)]
    before = len([f for f in ctx.failures if f.kind == "predicate"])
    global _searching
    _searching = True
    try:
        # predicates only: run on the implementation, ignore the model comparison for the variants
        res = common.run_impl_parallel("harness.gfi_run", "impl_batch", [[v] for v in variants], procs=max(2, min(8, len(variants) // 4)))
    finally:
        _searching = False
    for v, r in zip(variants, res):
        if isinstance(r, dict):
            continue
        im = r[0]
        if "fatal" in im:
            continue
        for fl in im["preds"]:
            for f in fl:
                if f["prop"] in props:
                    ctx.fail("predicate", _jsonable(v), f, signature(v, f), "property predicate on implementation (neighbour search)")
    after = len([f for f in ctx.failures if f.kind == "predicate"])
    return after - before, len(variants)


_searching = False


def _retry_lost(batch, why):
    out = []
    for c in batch:
        r = common.run_impl_parallel("harness.gfi_run", "impl_batch", [[c]], procs=2)[0]
        if isinstance(r, dict):
            out.append({"fatal": "worker-lost", "msg": r.get("__worker_lost__", why)})
        else:
            out += r
    return out


def signature(case, f):
    """Signature of a predicate failure, for matching against known findings."""
    sig = {"prop": f["prop"], "why": f["why"]}
    prog = case["prog"]
    if _has_zero_length(case):
        sig["zero_length"] = True
    if has_node(prog, SWITCHY) and any(o[0] in ("upd", "bwd") and o[-2] is True for o in case["ops"]):
        sig["switch_index_change"] = True
    if case.get("py") and case.get("py_mask") and prog[0] == "mask":
        sig["concrete_mask_flag"] = True
    if f["prop"] == "C06":
        sig = {"prop": "C06"}
        if has_node(prog, SWITCHY):
            idx_changed = any(o[0] in ("upd", "bwd") and o[-2] is True for o in case["ops"])
            sig["feature"] = "switch_index_change" if idx_changed else "switch_backward_request"
        elif has_node(prog, ("mask", "masked_iterate", "masked_iterate_final")):
            sig["feature"] = "mask_flag_drop_with_constraint"
        return sig
    for k in ("masked_iterate_final", "masked_iterate", "switch", "orelse", "scan", "mask", "vmap"):
        if has_node(prog, (k,)):
            sig["has_" + k] = True
    return sig


def _has_zero_length(case):
    def ty0(t):
        return isinstance(t, list) and ((t and t[0] == "arr" and t[1] == 0) or any(ty0(x) for x in t if isinstance(x, list)))

    def p0(p):
        if isinstance(p, list):
            if p and p[0] in ("repeat", "iterate", "iterate_final") and p[-1] == 0:
                return True
            if p and p[0] == "scan" and p[2] == 0:
                return True
            return any(p0(x) for x in p)
        return False

    return any(ty0(t) for t in case["atys"]) or p0(case["prog"])


def _jsonable(x):
    if isinstance(x, dict):
        return {str(k): _jsonable(v) for k, v in x.items()}
    if isinstance(x, (list, tuple)):
        return [_jsonable(v) for v in x]
    return x


def replay_case(ctx: Ctx, payload, props):
    case = payload["case"]
    run_cases(ctx, [case], props, label="replay")


ASSUMPTIONS = [
    "primitive distributions are the harness's integer test distributions (genjax.exact_density): the theorems hold for an "
    "arbitrary sampler and log-density (DistSem), the correspondence is exact integer equality",
    "fold_in(k, i) = split(k, n)[i] = threefry2x32(k, (0, i)) for this JAX build (re-checked by C04)",
    "mask flags and switch indices reach the combinators as traced (array) values; concrete-False mask flags are a recorded finding",
    "tuple and string addresses are not mixed inside one static function (a recorded finding of C23)",
]
EXTRA_TRUSTED = [
    "harness/gfi.py real-API builders and value conversion (array-of-structs <-> pytrees by the program's type)",
    "harness/gfi_ref.py: independent pure-Python oracle of the documented loops, used only by the property predicates",
]


def load_corpus(prop_id):
    d = common.CORPUS / prop_id
    out = []
    if d.is_dir():
        for f in sorted(d.glob("*.json")):
            data = json.loads(f.read_text())
            out += data if isinstance(data, list) else [data]
    return out


def oob_family(n_progs=2):
    """Deterministic cases: switch programs (fixed sub-seed) called with out-of-range indices, once with
    Python-int arguments eagerly and once under jax.jit: the documented clamping must not depend on how
    the index is passed."""
    import random as _random

    g = G(_random.Random(20260922), focus={"switch": 1000.0, "tuple_addr": 0.0})
    progs = []
    for _ in range(400):
        if len(progs) == n_progs:
            break
        try:
            prog, atys, _ = g.any_prog(1)
            infer(prog, atys)
        except Exception:  # noqa: BLE001
            continue
        if prog[0] == "switch" and not has_node(prog[1:], SWITCHY) and not _dup_addrs(prog):
            progs.append((prog, atys))
    cases = []
    for prog, atys in progs:
        n = len(prog) - 1
        base = g.args_for(prog, atys)
        for idx in (-2, -1, n, n + 1):
            args = [base[0], idx] + base[2:]
            for mode in ("py", "jit"):
                ops = [["sim", 1000 + idx, args], ["assessSelf"], ["upd", 2000 + idx, [], args, False, ["N"] * len(atys)]]
                cases.append({"prog": prog, "atys": atys, "ops": ops, mode: True, "_label": "switch-out-of-range-family"})
    return cases


def standard_run(ctx: Ctx, props, focus=None, opts=None, n_quick=64, n_thorough=1200, depth_quick=2, depth_thorough=3,
                 prop_id=None, zero_len=0.0):
    """The standard E check: corpus and known-finding replays first, then random histories."""
    opts = opts or {}
    ctx.rule = ("type-directed random programs over {dist, static, vmap, scan, switch, mask, dimap, repeat, or_else, "
                "accumulate, reduce, iterate(_final), masked_iterate(_final)} with integer test distributions; a history is "
                "simulate|generate followed by 1..k of assess/update(+backward)/regenerate/project/generate; every op's "
                "(args, retval, score, choices, weight, backward constraint) is compared exactly with the Lean model; "
                "non-trivial = at least one op beyond simulate; distinct by (program, history) text")
    corpus = load_corpus(prop_id) if prop_id else []
    for e in common.load_known(prop_id or "", cross=True):
        if e.get("property") == prop_id and "case" in e.get("replay", {}):
            corpus.append(e["replay"]["case"])
    pending = [dict(c, _label="corpus") for c in corpus]
    if opts.get("oob_family"):
        pending += oob_family()
    g = G(ctx.rng, focus=focus, zero_len=zero_len)
    n = n_quick if ctx.tier == "quick" else n_thorough
    if os.environ.get("VERIF_N"):        # developer override
        n = int(os.environ["VERIF_N"])
    depth = depth_quick if ctx.tier == "quick" else depth_thorough
    done = 0
    while done < n and ctx.time_left() > 30:
        k = min(n - done, 256)
        cases = [make_case(g, ctx.rng.choice([1, depth, depth]), opts) for _ in range(k)]
        # drop draws whose arguments do not fit the program (an out-of-range switch index or a
        # shape error at the first operation, as judged by the model): they are generator misses
        first = ask_driver([f"(gfi {sx_prog(c['prog'])} ({sx_op(c['ops'][0])}))" for c in cases])
        kept = [c for c, resp in zip(cases, first) if not (resp.startswith("((err oob") or resp.startswith("((err shape"))]
        ctx.count("discarded-ill-fitting-arguments", len(cases) - len(kept))
        run_cases(ctx, pending + kept, props)      # one worker pool for corpus + fresh cases
        pending = []
        done += k
    if pending:
        run_cases(ctx, pending, props)
