"""Shared runner for the jaxpr-interpreter properties (C09, C36).

`impl_batch(cases)` (worker side) builds the described JAX function, stages it with GenJAX's
own `stage`, translates the real ClosedJaxpr into a driver request, and runs the real
implementation:

    plain      f(*args)
    stateful   genjax..stateful(f)(handler-that-handles-nothing, *args)
    incr       genjax.incremental(f)(None, primals, tangents)           (and with the no-op handler)
    alt runs   the same with new values at the UnknownChange inputs
    allN run   every input tagged NoChange
    inline     the description with call-like wrappers (jit / initial-style / ...) inlined

and evaluates the property predicates on those outputs alone.  `check_cases(ctx, ...)`
(main process) sends the requests to the Lean driver and compares canonical observations.

Canonical observation of a value: (`i32` | `bool`, shape, row-major ints).  Incremental
outputs are observed through `Diff.tree_primal` / `Diff.tree_tangent` semantics: a raw
(untagged) output counts as `NoChange`.
"""

from __future__ import annotations

import json

from harness import common
from harness import ir_translate as T

# --------------------------------------------------------------------------- worker side


def _canon(x):
    import numpy as np

    a = np.asarray(x)
    if a.dtype == np.bool_:
        tag = "bool"
    elif np.issubdtype(a.dtype, np.integer):
        tag = "i32"
    else:
        return ["other:" + str(a.dtype), list(a.shape), [float(v) for v in a.reshape(-1)]]
    return [tag, [int(d) for d in a.shape], [int(v) for v in a.astype(np.int64).reshape(-1)]]


def _flat(tree):
    import jax.tree_util as jtu

    return [_canon(v) for v in jtu.tree_leaves(tree)]


def _flat_diff(tree):
    import jax.tree_util as jtu
    from genjax._src.core.compiler.interpreters.incremental import Diff, _NoChange, _UnknownChange

    out = []
    for leaf in jtu.tree_leaves(tree, is_leaf=lambda v: isinstance(v, Diff)):
        if isinstance(leaf, Diff):
            t = leaf.tangent
            tag = "N" if isinstance(t, _NoChange) else ("U" if isinstance(t, _UnknownChange) else "?")
            out.append(["d", _canon(leaf.primal), tag])
        else:
            out.append(["r", _canon(leaf), "N"])
    return out


def _err(e):
    """Exception -> small enum (messages are never compared)."""
    name = type(e).__name__
    msg = str(e)
    if isinstance(e, ValueError) and ("Unbound variable" in msg):
        return "unbound"
    if isinstance(e, (ValueError, TypeError, AssertionError)) and (
        "length mismatch" in msg or "Tuple arity mismatch" in msg or "arity" in msg or "tree structure" in msg.lower()
        or "Mismatch custom node data" in msg or "List arity mismatch" in msg or "Expected list" in msg
        or "pytree" in msg.lower()
    ):
        return "arity"
    return "other:" + name


def _guard(fn):
    try:
        return {"ok": fn()}
    except Exception as e:  # noqa: BLE001 - implementation exceptions are observations
        return {"err": _err(e), "msg": (type(e).__name__ + ": " + str(e))[:300]}


class _NoopHandler:
    """A StatefulHandler that handles nothing."""

    def __init__(self):
        self.asked = 0

    def handles(self, primitive):
        self.asked += 1
        return False

    def dispatch(self, primitive, *args, **kwargs):
        raise RuntimeError("dispatch called on a handler that handles nothing")


def _values_line(desc, data):
    parts = []
    for (_n, k, sh), d in zip(desc["params"], data):
        parts.append(f"({'bool' if k == 'b' else 'i32'} ({' '.join(map(str, sh))}) ({' '.join(str(int(v)) for v in d)}))")
    return "(" + " ".join(parts) + ")"


def run_case(case):
    """Everything the implementation has to say about one case."""
    from genjax._src.core.compiler.interpreters.incremental import incremental
    from genjax._src.core.compiler.interpreters.stateful import stateful
    from genjax._src.core.compiler.staging import stage

    desc, data, tags = case["desc"], case["args"], case["tags"]
    modes = case.get("modes", ["plain", "stateful", "incr"])
    out = {"pred": []}
    f = T.build(desc)
    args = T.make_args(desc, data)
    # the program as the interpreters see it
    try:
        cj, (_flat_args, _in_tree, _out_tree) = stage(f)(*args)
        out["line"] = f"(ir {T.translate(cj)} {_values_line(desc, data)} ({' '.join(tags)}))"
        out["prims"] = sorted(set(T.prims_of(cj)))
        out["facts"] = T.shape_facts(cj)
        out["neqns"] = len(cj.jaxpr.eqns)
    except T.Untranslatable as e:
        return {"gen_invalid": "untranslatable: " + str(e)}
    except Exception as e:  # noqa: BLE001
        return {"gen_invalid": f"staging failed: {type(e).__name__}: {e}"[:300]}
    plain = _guard(lambda: _flat(f(*args)))
    if "err" in plain:
        return {"gen_invalid": "plain evaluation failed: " + plain["msg"]}
    out["plain"] = plain
    tags_ok = len(tags) == len(desc["params"])

    if "stateful" in modes:
        h = _NoopHandler()
        st = _guard(lambda: _flat(stateful(f)(h, *args)))
        out["stateful"] = st
        out["handler_asked"] = h.asked
        if "err" in st:
            out["pred"].append({"kind": "C36", "why": "stateful raised where plain evaluation succeeds", "msg": st["msg"]})
        elif st["ok"] != plain["ok"]:
            out["pred"].append({"kind": "C36", "why": "stateful output differs from plain evaluation",
                                "stateful": st["ok"], "plain": plain["ok"]})
        if case.get("inline_check", True):
            inl = _guard(lambda: _flat(T.build(desc, inline_calls=True)(*args)))
            out["inline"] = inl
            if "ok" in inl and "ok" in st and inl["ok"] != st["ok"]:
                out["pred"].append({"kind": "C36", "why": "call-like primitive (jit / initial-style / custom_jvp / remat) "
                                    "does not evaluate to its wrapped function", "stateful": st["ok"], "inlined": inl["ok"]})

    if "incr" in modes:
        tang = T.make_tangents(desc, tags)
        inc = _guard(lambda: _flat_diff(incremental(f)(None, args, tang)))
        out["incr"] = inc
        inc_h = _guard(lambda: _flat_diff(incremental(f)(_NoopHandler(), args, tang)))
        out["incr_h"] = inc_h
        if tags_ok:
            for nm, r in (("incremental(None)", inc), ("incremental(no-op handler)", inc_h)):
                if "err" in r:
                    out["pred"].append({"kind": "C09", "why": nm + " raised where plain evaluation succeeds", "msg": r["msg"]})
                elif [d[1] for d in r["ok"]] != plain["ok"]:
                    out["pred"].append({"kind": "C09", "why": nm + ": primal outputs differ from plain evaluation",
                                        "incr": [d[1] for d in r["ok"]], "plain": plain["ok"]})
        if tags_ok and "ok" in inc:
            base = inc["ok"]
            out["alts"] = []
            for alt in case.get("alts", []):
                aargs = T.make_args(desc, alt)
                ai = _guard(lambda: _flat_diff(incremental(f)(None, aargs, tang)))
                ap = _guard(lambda: _flat(f(*aargs)))
                out["alts"].append({"incr": ai, "plain": ap})
                if "err" in ai or "err" in ap:
                    continue
                if len(ai["ok"]) != len(base):
                    out["pred"].append({"kind": "C09", "why": "output arity depends on changed values"})
                    continue
                for i, (b, a) in enumerate(zip(base, ai["ok"])):
                    if b[2] == "N" and (a[1] != b[1] or ap["ok"][i] != plain["ok"][i]):
                        out["pred"].append({"kind": "C09", "why": f"output {i} is tagged NoChange but its value changes "
                                            "when only UnknownChange inputs change", "tags": tags, "args": data,
                                            "alt_args": alt, "value": b[1], "alt_value": a[1], "alt_plain": ap["ok"][i]})
                        break
                    if b[2] != a[2]:
                        out["pred"].append({"kind": "C09", "why": f"tag of output {i} depends on input values"})
                        break
            # all inputs NoChange => all outputs NoChange
            alln = T.make_tangents(desc, ["N"] * len(tags))
            an = _guard(lambda: _flat_diff(incremental(f)(None, args, alln)))
            out["allN"] = an
            if "ok" in an and any(d[2] != "N" for d in an["ok"]):
                out["pred"].append({"kind": "C09", "why": "an output is tagged UnknownChange although every input is NoChange"})
            # an output that is literally an UnknownChange input must not be tagged NoChange: covered by the alt runs
    return out


def impl_batch(batch):
    res = []
    for case in batch:
        try:
            res.append(run_case(case))
        except Exception as e:  # noqa: BLE001
            import traceback

            res.append({"__harness_error__": f"{type(e).__name__}: {e}", "tb": traceback.format_exc()[-1500:]})
    return res


# --------------------------------------------------------------------------- main-process side


def _mval(x):
    """parsed model value `[dt, [dims], [ints]]` -> canonical."""
    return [x[0], [int(d) for d in x[1]], [int(v) for v in x[2]]]


def _mres_vals(x):
    if x[0] == "ok":
        return {"ok": [_mval(v) for v in x[1:]]}
    return {"err": "-".join(x[1:2]) if len(x) > 1 else "err", "raw": x}


def _mres_diffs(x):
    if x[0] == "ok":
        out = []
        for d in x[1:]:
            if d[0] == "d":
                out.append(["d", _mval(d[1]), d[2]])
            else:
                out.append(["r", _mval(d[1]), "N"])
        return {"ok": out}
    return {"err": "-".join(x[1:2]) if len(x) > 1 else "err", "raw": x}


def parse_model(line):
    x = common.parse_sx(line)
    if x[0] != "ok":
        return {"bad": line[:300]}
    return {"plain": _mres_vals(x[1]), "stateful": _mres_vals(x[2]), "incr": _mres_diffs(x[3]),
            "incr_h": _mres_diffs(x[4])}


def _same_err(impl, model):
    return "err" in impl and "err" in model and impl["err"] == model["err"]


def compare(case, im, mo, want):
    """Model vs implementation.  Returns a list of (name, detail) disagreements."""
    diffs = []
    if "bad" in mo:
        return [("driver", {"response": mo["bad"]})]
    # (a) evalPlain vs f(*args)
    if "ok" in mo["plain"]:
        if mo["plain"]["ok"] != im["plain"]["ok"]:
            diffs.append(("IR.evalPlain vs f(*args)", {"model": mo["plain"]["ok"], "impl": im["plain"]["ok"]}))
    else:
        diffs.append(("IR.evalPlain vs f(*args)", {"model": mo["plain"], "impl": "ok"}))
    # (c) evalStateful vs stateful(f)(noop, *args)
    if "stateful" in want and "stateful" in im:
        a, b = im["stateful"], mo["stateful"]
        if not ((("ok" in a) and ("ok" in b) and a["ok"] == b["ok"]) or _same_err(a, b)):
            diffs.append(("IR.evalStateful vs StatefulInterpreter.eval_jaxpr_stateful", {"model": b, "impl": a}))
    # (b) evalIncr vs incremental(f)(h, primals, tangents): primals exactly, tags exactly
    if "incr" in want and "incr" in im:
        for key, nm in (("incr", "IR.evalIncr(none) vs IncrementalInterpreter.eval_jaxpr_incremental"),
                        ("incr_h", "IR.evalIncr(noop) vs IncrementalInterpreter.eval_jaxpr_incremental")):
            a, b = im[key], mo[key]
            if "ok" in a and "ok" in b:
                pa, pb = [d[1] for d in a["ok"]], [d[1] for d in b["ok"]]
                ta, tb = [d[2] for d in a["ok"]], [d[2] for d in b["ok"]]
                if pa != pb:
                    diffs.append((nm + " [primals]", {"model": pb, "impl": pa}))
                elif ta != tb:
                    unsound = any(x == "N" and y != "N" for x, y in zip(ta, tb))
                    diffs.append((nm + (" [tags: impl NoChange where model UnknownChange]" if unsound else
                                        " [tags: impl more conservative than model]"),
                                  {"model": tb, "impl": ta}))
            elif not _same_err(a, b):
                diffs.append((nm, {"model": b, "impl": a}))
    return diffs


def make_cases(rng, n, size_lo=3, size_hi=8, n_alts=2, edge_rate=0.08, modes=("plain", "stateful", "incr"), max_depth=2):
    cases = []
    for i in range(n):
        desc = T.gen_program(rng, size=rng.randint(size_lo, size_hi), max_depth=max_depth)
        data = T.gen_args(rng, desc)
        nparam = len(desc["params"])
        q = rng.random()
        if q < 0.1:
            tags = ["N"] * nparam
        elif q < 0.2:
            tags = ["U"] * nparam
        else:
            tags = [rng.choice("NU") for _ in range(nparam)]
        case = {"desc": desc, "args": data, "tags": tags, "modes": list(modes), "stream": "valid"}
        if "incr" in modes and rng.random() < edge_rate and not desc.get("nest_args"):
            # malformed stream: wrong number of tangents
            case["tags"] = tags[:-1] if (rng.random() < 0.5 and tags) else tags + [rng.choice("NU")]
            case["stream"] = "bad-tangent-arity"
        has_u = "U" in case["tags"]
        case["alts"] = ([T.perturb_args(rng, desc, data, case["tags"]) for _ in range(n_alts)]
                        if case["stream"] == "valid" and has_u else [])
        cases.append(case)
    return cases


def neighbours(rng, case, k=10):
    """Cases near a disagreement: other taggings and other argument values of the same program."""
    desc = case["desc"]
    n = len(desc["params"])
    out = []
    taggings = []
    if n <= 3:
        for m in range(2 ** n):
            taggings.append([("U" if (m >> i) & 1 else "N") for i in range(n)])
    else:
        taggings = [[rng.choice("NU") for _ in range(n)] for _ in range(6)]
    for tg in taggings[:k]:
        data = case["args"] if rng.random() < 0.5 else T.gen_args(rng, desc)
        c = {"desc": desc, "args": data, "tags": tg, "modes": case.get("modes", ["plain", "stateful", "incr"]),
             "stream": "neighbour"}
        c["alts"] = [T.perturb_args(rng, desc, data, tg) for _ in range(3)]
        out.append(c)
    return out


def _sig(kind, why, im):
    return {"check": kind, "why": why.split(":")[0][:80]}


def check_cases(ctx, cases, prop, label, search=True):
    """Run cases on the implementation and the model; record predicate / correspondence failures
    for property `prop` ('C09' or 'C36')."""
    want = {"C09": ("plain", "incr"), "C36": ("plain", "stateful")}[prop]
    B = max(1, min(6, len(cases) // 48 or 1))
    batches = [cases[i:i + B] for i in range(0, len(cases), B)]
    results = []
    for b, r in zip(batches, common.run_impl_parallel("harness.ir_run", "impl_batch", batches)):
        if isinstance(r, dict) and "__harness_error__" in r:
            raise common.Infra(r["__harness_error__"] + r.get("tb", ""))
        results.extend(r)
    idx = [i for i, r in enumerate(results) if "line" in r and "gen_invalid" not in r]
    model = common.ask_driver([results[i]["line"] for i in idx])
    mo_by = {i: parse_model(m) for i, m in zip(idx, model)}
    invalid = 0
    corr = []
    for i, (case, im) in enumerate(zip(cases, results)):
        if "__harness_error__" in im:
            raise common.Infra(im["__harness_error__"] + im.get("tb", ""))
        if "gen_invalid" in im:
            invalid += 1
            ctx.count("generator-invalid")
            ctx.notes.setdefault("generator_invalid_examples", [])
            if len(ctx.notes["generator_invalid_examples"]) < 3:
                ctx.notes["generator_invalid_examples"].append(im["gen_invalid"][:200])
            continue
        mo = mo_by[i]
        ctx.count(label if case.get("stream") != "corpus" else "corpus")
        ctx.count("stream:" + case.get("stream", "valid"))
        for p in im.get("prims", []):
            ctx.count("prim:" + p)
        for fct in im.get("facts", []):
            ctx.count("jaxpr:" + fct)
        ctx.count("tags:" + ("allN" if set(case["tags"]) <= {"N"} else "allU" if set(case["tags"]) <= {"U"} else "mixed"))
        nontrivial = im.get("neqns", 0) >= 1
        sample = {"request": im["line"][:400], "model": str(mo.get("incr" if prop == "C09" else "stateful"))[:200],
                  "impl": str(im.get("incr" if prop == "C09" else "stateful"))[:200]}
        ctx.case_done({"d": case["desc"], "a": case["args"], "t": case["tags"]}, nontrivial, sample)
        ctx.traces_validated += 1
        # unsupported primitive in the driver's concrete semantics: a gap in the harness, never silent
        for k in ("plain", "stateful", "incr"):
            r = mo.get(k, {})
            if "raw" in r and len(r["raw"]) > 2 and r["raw"][1] == "prim" and "unsupported" in r["raw"][2]:
                raise common.Infra(f"driver semantics does not cover a generated primitive: {r['raw']} in {im['line'][:300]}")
        preds = [p for p in im["pred"] if p["kind"] == prop]
        small = {"desc": case["desc"], "args": case["args"], "tags": case["tags"], "alts": case.get("alts", []),
                 "modes": case.get("modes")}
        for p in preds:
            ctx.fail("predicate", small, p, _sig(prop, p["why"], im), prop + "-predicate")
        if preds:
            continue
        diffs = compare(case, im, mo, want)
        for name, detail in diffs:
            corr.append((case, small, name, detail))
    if invalid > max(3, len(cases) // 10):
        raise common.Infra(f"generator produced {invalid}/{len(cases)} invalid programs: "
                           f"{ctx.notes.get('generator_invalid_examples')}")
    # correspondence breaks: first look for a nearby input on which the property itself fails
    if corr and search:
        seen = set()
        for case, small, name, detail in corr[:4]:
            key = json.dumps(case["desc"], sort_keys=True)
            if key in seen:
                continue
            seen.add(key)
            ctx.count("neighbour-search")
            check_cases(ctx, neighbours(ctx.rng, case), prop, "neighbour", search=False)
    for case, small, name, detail in corr:
        ctx.fail("correspondence", small, detail, {"correspondence": name}, name)
    return results


def load_corpus(prop, modes):
    """Hand-written regression programs (corpus/<prop>/*.json): zero literals, a primitive without
    inputs, multi-result primitives with DropVars, constvars as outputs, closures, call-like
    primitives, ... under every tagging.  Always run first."""
    cases = []
    for f in sorted((common.CORPUS / prop).glob("*.json")):
        for c in json.loads(f.read_text()):
            c = dict(c)
            c["modes"] = list(modes)
            c.setdefault("alts", [])
            c.setdefault("stream", "corpus")
            cases.append(c)
    return cases


def replay_case(ctx, payload, prop):
    case = dict(payload["case"])
    case.setdefault("modes", ["plain", "stateful", "incr"])
    case.setdefault("alts", [])
    case.setdefault("stream", "replay")
    check_cases(ctx, [case], prop, "replay", search=False)
