"""Run one history on the real implementation and evaluate the property predicates on the
implementation's own outputs (independently of the Lean model).

case = {"prog": ast, "atys": [types], "ops": [op...]}
op   = ["sim", seed, args] | ["gen", seed, cmap, args] | ["assess", cmap, args] | ["assessSelf"]
     | ["upd", seed, cmap, args, changed, tags] | ["bwd", seed, args, changed, tags] | ["regen", seed, sel, args] | ["proj", sel]
args = model value ["t", ...];  cmap = list of [path, value];  tags = list of "N"/"U" per argument.

Per op the observation is a dict in the same vocabulary as the driver's response.
Predicate failures are dicts {"prop": "C01", "why": ..., ...}.
"""

from __future__ import annotations

import traceback

from harness import gfi
from harness.gfi_ref import Missing, Unspecified, infer, ref, ref_score, site_lp, static_part


def _obs_trace(tr, atys, rty, universe, stored=None):
    if stored is not None:
        # the trace of a closure is the wrapped function's: its arguments are stored ++ call arguments
        full = gfi.from_jax(tr.get_args(), ["tup", [["int"]] * len(stored) + list(atys)])
        if full[1:1 + len(stored)] != list(stored):
            raise gfi.NotIntegral(f"closure trace does not hold the stored arguments: {full}")
        args = ["t"] + full[1 + len(stored):]
    else:
        args = gfi.from_jax(tr.get_args(), ["tup", atys])
    ret = gfi.canon_val(gfi.from_jax(tr.get_retval(), rty))
    score = gfi._to_int(tr.get_score())
    ch, errs = gfi.observe_choices(tr.get_choices(), universe)
    return {"args": args, "ret": ret, "score": score, "choices": ch, "lookup_errors": errs}


def _flatten_request(req, _in_vector=False):
    """The constraint a (backward) request amounts to, when it is built from Update / EmptyRequest /
    StaticRequest (and one level of scan's VectorRequest) only; None otherwise."""
    from genjax import ChoiceMap, EmptyRequest, StaticRequest, Update

    if isinstance(req, Update):
        return req.constraint
    if isinstance(req, EmptyRequest):
        return ChoiceMap.empty()
    if isinstance(req, StaticRequest):
        out = ChoiceMap.empty()
        for addr, sub in req.addressed.items():
            c = _flatten_request(sub, _in_vector)
            if c is None:
                return None
            out = out | c.extend(*(addr if isinstance(addr, tuple) else (addr,)))
        return out
    if type(req).__name__ == "VectorRequest":
        # Scan's backward request: one request per iteration, stacked along the leading axis
        import jax
        import jax.numpy as jnp

        if _in_vector:
            return None        # nested vector requests: leaves carry two index axes, not observed
        c = _flatten_request(req.request, True)
        if c is None:
            return None
        leaves = jax.tree.leaves(c)
        return c.extend(jnp.arange(leaves[0].shape[0])) if leaves else ChoiceMap.empty()
    return None


def _top_addrs(prog):
    out, b = [], prog[1]
    while b[0] == "bind":
        out.append(b[1])
        b = b[4]
    return out


def _tags_to_argdiffs(args_jax, tags):
    from genjax import Diff

    return tuple(Diff.no_change(a) if t == "N" else Diff.unknown_change(a) for a, t in zip(args_jax, tags))


def _sel_member(sel, path):
    return bool(sel[static_part(path)])


def _valid_constraint(c):
    """dict path -> int of the validly constraining entries of a model cmap."""
    out = {}
    for p, v in c:
        p = tuple(p)
        if isinstance(v, list) and v[0] == "m":
            if v[1] == "T" and p not in out:
                out[p] = v[2]
            elif p not in out:
                out[p] = None  # present but invalid: shadows later entries, constrains nothing
        elif p not in out:
            out[p] = v
    return {p: v for p, v in out.items() if v is not None}


def run_case(case):
    import jax

    prog, atys, ops = case["prog"], case["atys"], case["ops"]
    _pj = __import__("json").dumps(prog)
    case["_has_mask"] = '"mask' in _pj
    case["_has_switch"] = '"switch"' in _pj or '"orelse"' in _pj
    rty, universe = infer(prog, atys)
    universe = list(dict.fromkeys(list(universe) + [tuple(p) for p in case.get("extra_paths", [])]))
    gf = gfi.build(prog)
    stored = list(prog[2]) if prog[0] == "closure" else None
    results, preds = [], []
    cur = None          # real trace
    cur_obs = None
    last_bwd = None     # real backward request of the last edit
    last_edit = None    # (old_obs, w, kind) for the C06 round trip
    jit = case.get("jit", False)

    def J(f):
        return jax.jit(f) if jit else f

    def AJ(args):
        """Argument tuple for the real API; with case["py"] top-level integer arguments are passed as
        Python ints (an or_else flag as a Python bool), as callers commonly do."""
        aj = gfi.to_jax(args, ["tup", atys])
        if case.get("py") and stored is None and (not case.get("_has_mask") or case.get("py_mask")):
            # (a concrete mask flag is normalised away by Mask itself — C19's subject, and a known finding of
            #  C01 replayed with "py_mask" — so generated histories keep mask flags as arrays)
            aj = tuple((bool(int(a)) if (k == 0 and prog[0] == "orelse") else int(a))
                       if t == ["int"] and not (k == 0 and prog[0] == "mask" and not case.get("py_mask")) else a
                       for k, (a, t) in enumerate(zip(aj, atys)))
        return aj

    def check_trace(obs, tr, opname):
        """C01 / C02 on a freshly produced trace."""
        fails = []
        # C01: the trace agrees with assess on its own choices and arguments
        try:
            sc, rv = tr.get_gen_fn().assess(tr.get_choices(), tr.get_args())
            sc = gfi._to_int(sc)
            rv = gfi.canon_val(gfi.from_jax(rv, rty))
            if sc != obs["score"] or rv != obs["ret"]:
                fails.append({"prop": "C01", "why": "assess(choices, args) != (score, retval)", "after": opname,
                              "assess": [sc, rv], "trace": [obs["score"], obs["ret"]]})
        except Exception as e:  # noqa: BLE001
            fails.append({"prop": "C01", "why": f"assess on the trace's own choices raised {type(e).__name__}",
                          "after": opname, "msg": str(e)[:200]})
        # C34 (vector combinators): the stacked subtrace's per-element scores add up to the score
        if prog[0] in ("scan", "vmap") and hasattr(tr, "inner"):
            try:
                import jax.numpy as jnp

                per = jax.vmap(lambda t: t.get_score())(tr.inner)
                tot = gfi._to_int(jnp.sum(per))
                if tot != obs["score"]:
                    fails.append({"prop": "C34", "why": "score != sum of the stacked subtrace's per-element scores",
                                  "after": opname, "score": obs["score"], "sum": tot})
            except Exception as e:  # noqa: BLE001
                fails.append({"prop": "C34", "why": f"stacked subtrace scores not readable: {type(e).__name__}", "after": opname})
        # C02: score is the documented joint log-density of the trace's choices
        try:
            sites, r = ref(prog, obs["args"][1:], obs["choices"])
            rs = ref_score(sites)
            if rs != obs["score"]:
                fails.append({"prop": "C02", "why": "score != sum of log-densities of the choices", "after": opname,
                              "score": obs["score"], "ref": rs})
            if gfi.canon_val(r) != obs["ret"]:
                fails.append({"prop": "C02", "why": "retval != documented return value", "after": opname,
                              "ret": obs["ret"], "ref": gfi.canon_val(r)})
            extra = set(obs["choices"]) - {s[0] for s in sites}
            if extra:
                fails.append({"prop": "C22", "why": "choices hold addresses the program did not visit", "extra": sorted(map(str, extra))})
            obs["_sites"] = sites
        except Unspecified:
            obs["_sites"] = None
        except Missing as e:
            fails.append({"prop": "C22", "why": "a visited address has no valid value in the trace's choices", "path": str(e)})
            obs["_sites"] = None
        return fails

    for op in ops:
        kind = op[0]
        fails = []
        if (cur is None and kind not in ("sim", "gen", "assess", "propose")) or (kind == "bwd" and last_bwd is None):
            results.append({"err": "no-trace"})      # an earlier operation failed: nothing to operate on
            preds.append(fails)
            continue
        try:
            if kind == "reclose":
                # from here on the trace is handled through another closure of the same function
                prog = op[1]
                gf = gfi.build(prog)
                stored = list(prog[2])
                results.append({"ok": True})
            elif kind == "sim":
                _, seed, args = op
                aj = AJ(args)
                tr = J(gf.simulate)(jax.random.key(seed), aj)
                obs = _obs_trace(tr, atys, rty, universe, stored)
                fails += check_trace(obs, tr, kind)
                if case.get("vbatch") and not case.get("py"):
                    # C23: slice i of a jax.vmap over keys / arguments equals the unbatched call on input i
                    import jax.numpy as jnp

                    def sl(t, i):
                        o = _obs_trace(jax.tree.map(lambda v: v[i], t), atys, rty, universe, stored)
                        return (o["choices"], o["score"], o["ret"], o["args"])

                    base = (obs["choices"], obs["score"], obs["ret"], obs["args"])
                    k2 = jax.random.key(seed ^ 0x5BD1)
                    o2 = _obs_trace(gf.simulate(k2, aj), atys, rty, universe, stored)
                    base2 = (o2["choices"], o2["score"], o2["ret"], o2["args"])
                    bk = jax.vmap(lambda k: gf.simulate(k, aj))(jnp.stack([jax.random.key(seed), k2]))
                    if sl(bk, 0) != base or sl(bk, 1) != base2:
                        fails.append({"prop": "C23", "why": "a slice of jax.vmap(simulate) over keys differs from the unbatched call"})
                    if aj:
                        ba = jax.vmap(lambda a: gf.simulate(jax.random.key(seed), a))(jax.tree.map(lambda v: jnp.stack([v, v]), aj))
                        if sl(ba, 0) != base or sl(ba, 1) != base:
                            fails.append({"prop": "C23", "why": "a slice of jax.vmap(simulate) over arguments differs from the unbatched call"})
                cur, cur_obs, last_bwd, last_edit = tr, obs, None, None
                results.append({"ok": True, "tr": obs})
            elif kind == "gen":
                _, seed, c, args = op
                aj = AJ(args)
                chm = gfi.build_cmap(c, case.get("cmap_style", 0))
                tr, w = J(gf.importance)(jax.random.key(seed), chm, aj)
                obs = _obs_trace(tr, atys, rty, universe, stored)
                w = gfi._to_int(w)
                fails += check_trace(obs, tr, kind)
                vc = _valid_constraint(c)
                for p, v in vc.items():   # C03: agrees with the constraint where present
                    if p in obs["choices"] and obs["choices"][p] != v:
                        fails.append({"prop": "C03", "why": "trace disagrees with constraint", "path": str(p)})
                if obs.get("_sites") is not None:
                    want = sum(site_lp(s) for s in obs["_sites"] if s[0] in vc)
                    if w != want:
                        fails.append({"prop": "C03", "why": "weight != sum of log-densities of constrained choices",
                                      "w": w, "want": want})
                    if not vc and w != 0:
                        fails.append({"prop": "C03", "why": "empty constraint but weight != 0", "w": w})
                cur, cur_obs, last_bwd, last_edit = tr, obs, None, None
                results.append({"ok": True, "tr": obs, "w": w})
            elif kind in ("assess", "assessSelf"):
                if kind == "assessSelf":
                    chm, aj = cur.get_choices(), AJ(cur_obs["args"])
                    cdict, argsv = cur_obs["choices"], cur_obs["args"]
                else:
                    _, c, args = op
                    chm = gfi.build_cmap(c, case.get("cmap_style", 0))
                    aj = AJ(args)
                    cdict, argsv = _valid_constraint(c), args
                sc, rv = J(gf.assess)(chm, aj)
                sc = gfi._to_int(sc)
                rv = gfi.canon_val(gfi.from_jax(rv, rty))
                try:   # C02 on assess
                    sites, r = ref(prog, argsv[1:], cdict)
                    if ref_score(sites) != sc or gfi.canon_val(r) != rv:
                        fails.append({"prop": "C02", "why": "assess != documented joint log-density / return value",
                                      "assess": [sc, rv], "ref": [ref_score(sites), gfi.canon_val(r)]})
                except (Unspecified, Missing):
                    pass
                results.append({"ok": True, "w": sc, "ret": rv})
            elif kind in ("upd", "bwd", "regen", "sreq"):
                from genjax import Diff, EmptyRequest, Regenerate, StaticRequest, Update

                old_obs = cur_obs
                if kind == "sreq":
                    _, seed, entries, args, changed, tags = op
                    aj = AJ(args)
                    table = {}
                    for e in entries:
                        # keyed by the address exactly as the program writes it ("x", or ("a", "b"))
                        table[gfi._addr(e[0])] = (Update(gfi.build_cmap(e[2], case.get("cmap_style", 0))) if e[1] == "upd"
                                              else Regenerate(gfi.build_sel(e[2])) if e[1] == "regen" else EmptyRequest())
                    req = StaticRequest(table)
                    ad = _tags_to_argdiffs(aj, tags)
                elif kind == "upd":
                    _, seed, c, args, changed, tags = op
                    aj = AJ(args)
                    req = Update(gfi.build_cmap(c, case.get("cmap_style", 0)))
                    ad = _tags_to_argdiffs(aj, tags)
                elif kind == "bwd":
                    _, seed, args, _changed, btags = op
                    aj = AJ(args)
                    req = last_bwd
                    ad = _tags_to_argdiffs(aj, btags)
                else:
                    _, seed, selt, args = op[:4]
                    aj = AJ(args)
                    sel = gfi.build_sel(selt)
                    req = Regenerate(sel)
                    ad = _tags_to_argdiffs(aj, op[4] if len(op) > 4 else ["U"] * len(atys))
                if stored is not None:
                    # a closure's trace belongs to the wrapped function: edit through the closure's own method
                    tr, w, rd, bwd = J(lambda k, t, a: gf.edit(k, t, req, a))(jax.random.key(seed), cur, ad)
                else:
                    tr, w, rd, bwd = J(lambda k, t, a: req.edit(k, t, a))(jax.random.key(seed), cur, ad)
                obs = _obs_trace(tr, atys, rty, universe, stored)
                w = gfi._to_int(w)
                if case.get("retag") and kind == "upd" and any(t == "N" for t in op[5]) and not case.get("_has_switch"):
                    # (a switch index tagged UnknownChange is the documented resampling trigger: excepted)
                    # C08: an honest NoChange tag must not change the edit (switch indices excepted)
                    ad_u = _tags_to_argdiffs(aj, ["U"] * len(atys))
                    tr_u, w_u, _, bwd_u = (gf.edit(jax.random.key(seed), cur, req, ad_u) if stored is not None
                                           else req.edit(jax.random.key(seed), cur, ad_u))
                    o_u = _obs_trace(tr_u, atys, rty, universe, stored)
                    same = (o_u["choices"], o_u["score"], o_u["ret"], gfi._to_int(w_u)) == (obs["choices"], obs["score"], obs["ret"], w)
                    if same and isinstance(bwd, Update) and isinstance(bwd_u, Update):
                        same = gfi.observe_choices(bwd.constraint, universe)[0] == gfi.observe_choices(bwd_u.constraint, universe)[0]
                    if not same:
                        fails.append({"prop": "C08", "why": "tagging unchanged arguments NoChange instead of UnknownChange changed the edit",
                                      "tags": op[5], "with_tags": [obs["score"], obs["ret"], w], "all_unknown": [o_u["score"], o_u["ret"], gfi._to_int(w_u)]})
                fails += check_trace(obs, tr, kind)
                res = {"ok": True, "tr": obs, "w": w}
                if case.get("derived") and stored is None:
                    # C38: Trace.edit / Trace.update / DiffAnnotate(identity maps) equal the primitive path
                    from genjax import DiffAnnotate

                    def same_as_primitive(out2, what):
                        o2 = _obs_trace(out2[0], atys, rty, universe, stored)
                        if (o2["choices"], o2["score"], o2["ret"], o2["args"], gfi._to_int(out2[1])) != (
                                obs["choices"], obs["score"], obs["ret"], obs["args"], w):
                            fails.append({"prop": "C38", "why": what + " differs from request.edit(key, trace, argdiffs)",
                                          "derived": [o2["score"], o2["ret"], gfi._to_int(out2[1])],
                                          "primitive": [obs["score"], obs["ret"], w]})

                    k2 = jax.random.key(seed)
                    same_as_primitive(cur.edit(k2, req, ad), "Trace.edit(key, request, argdiffs)")
                    same_as_primitive(DiffAnnotate(req).edit(k2, cur, ad), "DiffAnnotate(request) with identity maps")
                    if kind == "upd":
                        same_as_primitive(cur.update(k2, req.constraint, ad), "Trace.update(key, constraint, argdiffs)")
                        same_as_primitive(gf.update(k2, cur, req.constraint, ad), "GenerativeFunction.update")
                # retdiff: primal + NoChange leaves (C08)
                try:
                    prim = gfi.canon_val(gfi.from_jax(Diff.tree_primal(rd), rty))
                    if prim != obs["ret"]:
                        fails.append({"prop": "C08", "why": "retdiff primal != new return value", "primal": prim, "ret": obs["ret"]})
                    if Diff.static_check_no_change(rd) and old_obs is not None and obs["ret"] != old_obs["ret"]:
                        fails.append({"prop": "C08", "why": "retdiff tagged NoChange but the return value changed",
                                      "old": old_obs["ret"], "new": obs["ret"]})
                    res["rd_nochange"] = bool(Diff.static_check_no_change(rd))
                except Exception as e:  # noqa: BLE001
                    res["rd_error"] = type(e).__name__
                # observe the backward request when it is an Update
                bobs = None
                if isinstance(bwd, Update):
                    bobs, berr = gfi.observe_choices(bwd.constraint, universe)
                    res["bwd"] = bobs
                elif kind in ("sreq", "regen"):
                    flat = _flatten_request(bwd)
                    if flat is not None:
                        bobs, berr = gfi.observe_choices(flat, universe)
                        res["bwd"] = bobs
                    if kind == "sreq" and (not isinstance(bwd, StaticRequest) or list(bwd.addressed.keys()) != [gfi._addr(a) for a in _top_addrs(prog)]):
                        fails.append({"prop": "C06", "why": "backward StaticRequest does not address the visited calls in order",
                                      "keys": [str(k) for k in getattr(bwd, "addressed", {}).keys()]})
                if kind == "sreq":
                    # C38 / C05 / C07 per entry: updated entries hold their constraint, everything the
                    # request does not touch keeps its value, and the weight is the score change
                    if obs["args"] != args:
                        fails.append({"prop": "C38", "why": "new trace does not hold the new arguments"})
                    touched = {}
                    for e in entries:
                        if e[1] == "upd":
                            for q, v in _valid_constraint(e[2]).items():
                                touched[tuple(e[0]) + q] = v
                    regen_sel = [(tuple(e[0]), gfi.build_sel(e[2])) for e in entries if e[1] == "regen"]
                    for q, v in obs["choices"].items():
                        if q in touched:
                            if v != touched[q]:
                                fails.append({"prop": "C38", "why": "address updated by its entry does not hold the constraint", "path": str(q)})
                            continue
                        sp = static_part(q)
                        if any(sp[:len(a)] == a and bool(sl[sp[len(a):]]) for a, sl in regen_sel):
                            continue
                        if q in old_obs["choices"] and v != old_obs["choices"][q]:
                            fails.append({"prop": "C38", "why": "a choice no entry touches changed", "path": str(q)})
                    if set(obs["choices"]) == set(old_obs["choices"]) and w != obs["score"] - old_obs["score"]:
                        fails.append({"prop": "C38", "why": "StaticRequest weight != new score - old score", "w": w,
                                      "want": obs["score"] - old_obs["score"]})
                if kind == "upd":
                    vc = _valid_constraint(c)
                    if obs["args"] != args:
                        fails.append({"prop": "C05", "why": "new trace does not hold the new arguments"})
                    for p, v in obs["choices"].items():   # C05: constraint at constrained, previous elsewhere
                        if p in vc:
                            if v != vc[p]:
                                fails.append({"prop": "C05", "why": "constrained address does not hold the constraint", "path": str(p)})
                        elif not changed and p in old_obs["choices"] and v != old_obs["choices"][p]:
                            fails.append({"prop": "C05", "why": "unconstrained address changed", "path": str(p)})
                    new_paths = set(obs["choices"]) - set(old_obs["choices"]) - set(vc)
                    fresh = changed and case.get("_has_switch")     # Switch.edit re-simulates: new random choices
                    if not new_paths and not fresh and w != obs["score"] - old_obs["score"]:
                        fails.append({"prop": "C05", "why": "weight != new score - old score (no new random choice)",
                                      "w": w, "want": obs["score"] - old_obs["score"]})
                    if bobs is not None:
                        want = {p: old_obs["choices"][p] for p in vc if p in old_obs["choices"] and p in obs["choices"]}
                        if case.get("_has_mask"):
                            # a choice hidden under a False flag has no visible previous value: the backward
                            # constraint may carry its hidden value; compare the visible part
                            bobs_cmp = {p: v for p, v in bobs.items() if p in old_obs["choices"]}
                        else:
                            bobs_cmp = bobs
                        if bobs_cmp != want:
                            fails.append({"prop": "C05", "why": "backward constraint != previous values at overwritten addresses",
                                          "bwd": {str(k): v for k, v in bobs.items()}, "want": {str(k): v for k, v in want.items()}})
                if kind == "regen":
                    for p, v in obs["choices"].items():   # C07
                        if not _sel_member(sel, p) and p in old_obs["choices"] and v != old_obs["choices"][p]:
                            fails.append({"prop": "C07", "why": "unselected choice changed", "path": str(p)})
                    if w != obs["score"] - old_obs["score"]:
                        fails.append({"prop": "C07", "why": "weight != new score - old score", "w": w,
                                      "want": obs["score"] - old_obs["score"]})
                if kind == "bwd" and last_edit is not None:
                    o0, w0 = last_edit
                    if obs["choices"] != o0["choices"] or obs["score"] != o0["score"] or obs["ret"] != o0["ret"]:
                        fails.append({"prop": "C06", "why": "backward request did not restore the original trace",
                                      "restored": [obs["score"], obs["ret"]], "original": [o0["score"], o0["ret"]]})
                    if w != -w0:
                        fails.append({"prop": "C06", "why": "backward weight != -forward weight", "fwd": w0, "bwd": w})
                last_edit = (old_obs, w) if kind != "bwd" else None
                cur, cur_obs, last_bwd = tr, obs, bwd
                results.append(res)
            elif kind == "proj":
                _, selt = op
                sel = gfi.build_sel(selt)
                w = gfi._to_int(J(lambda k, t: t.project(k, sel))(jax.random.key(0), cur))
                if case.get("derived"):
                    w_gf = gfi._to_int(cur.get_gen_fn().project(jax.random.key(0), cur, sel))
                    if w_gf != w:
                        fails.append({"prop": "C38", "why": "Trace.project differs from GenerativeFunction.project", "trace": w, "gen_fn": w_gf})
                if cur_obs.get("_sites") is not None:   # C10
                    want = sum(site_lp(s) for s in cur_obs["_sites"] if _sel_member(sel, s[0]))
                    if w != want:
                        fails.append({"prop": "C10", "why": "project != sum of log-densities of the selected choices",
                                      "w": w, "want": want})
                results.append({"ok": True, "w": w})
            elif kind == "idx":
                from genjax import Diff, IndexRequest, Regenerate, Update
                import jax.numpy as jnp

                _, seed, k, sub, payload = op
                old_obs = cur_obs
                inner = Update(gfi.build_cmap(payload, case.get("cmap_style", 0))) if sub == "upd" else Regenerate(gfi.build_sel(payload))
                req = IndexRequest(jnp.asarray(k), inner)
                tr, w, rd, bwd = req.edit(jax.random.key(seed), cur, Diff.no_change(cur.get_args()))
                obs = _obs_trace(tr, atys, rty, universe, stored)
                w = gfi._to_int(w)
                fails += check_trace(obs, tr, kind)     # C01 / C02 after an index edit (C12: "after any ... index edit")
                for p_, v_ in obs["choices"].items():   # C11: only element k is affected
                    if p_ and p_[0] != k and old_obs["choices"].get(p_) != v_:
                        fails.append({"prop": "C11", "why": "an index edit changed another element", "path": str(p_)})
                if w != obs["score"] - old_obs["score"] and sub == "upd":
                    fails.append({"prop": "C05", "why": "index edit weight != new score - old score", "w": w,
                                  "want": obs["score"] - old_obs["score"]})
                res = {"ok": True, "tr": obs, "w": w}
                if isinstance(bwd, IndexRequest) and isinstance(bwd.request, Update):
                    res["bwd"] = {(k,) + p_: v_ for p_, v_ in gfi.observe_choices(bwd.request.constraint, [q[1:] for q in universe if q and q[0] == k])[0].items()}
                cur, cur_obs, last_bwd, last_edit = tr, obs, bwd, (old_obs, w)      # C06: IndexRequest round trip
                results.append(res)
            elif kind == "propose":
                _, seed, args = op
                aj = AJ(args)
                chm, sc, rv = J(gf.propose)(jax.random.key(seed), aj)
                sc = gfi._to_int(sc)
                rv = gfi.canon_val(gfi.from_jax(rv, rty))
                ch, _ = gfi.observe_choices(chm, universe)
                tr = gf.simulate(jax.random.key(seed), aj)   # C38: propose == simulate for the same key
                o2 = _obs_trace(tr, atys, rty, universe, stored)
                if (ch, sc, rv) != (o2["choices"], o2["score"], o2["ret"]):
                    fails.append({"prop": "C38", "why": "propose != (choices, score, retval) of simulate with the same key",
                                  "propose": [sc, rv], "simulate": [o2["score"], o2["ret"]]})
                results.append({"ok": True, "choices": ch, "w": sc, "ret": rv})
            elif kind == "empty":
                from genjax import Diff, EmptyRequest, Update

                _, seed, args, tags = op
                aj = AJ(args)
                ad = _tags_to_argdiffs(aj, tags)
                old_obs = cur_obs
                tr, w, rd, bwd = EmptyRequest().edit(jax.random.key(seed), cur, ad)
                obs = _obs_trace(tr, atys, rty, universe, stored)
                w = gfi._to_int(w)
                fails += check_trace(obs, tr, kind)
                if all(t == "N" for t in tags):
                    if w != 0 or obs["choices"] != old_obs["choices"] or obs["score"] != old_obs["score"] or obs["ret"] != old_obs["ret"]:
                        fails.append({"prop": "C38", "why": "EmptyRequest with unchanged arguments is not the identity with weight 0", "w": w})
                else:   # must equal an empty Update
                    tr2, w2, _, _ = Update(gfi.build_cmap([])).edit(jax.random.key(seed), cur, ad)
                    o2 = _obs_trace(tr2, atys, rty, universe, stored)
                    if (obs["choices"], obs["score"], obs["ret"], w) != (o2["choices"], o2["score"], o2["ret"], gfi._to_int(w2)):
                        fails.append({"prop": "C38", "why": "EmptyRequest with changed arguments != Update(empty)"})
                if case.get("derived") and stored is None:
                    # C38: Trace.edit(key, request, argdiffs) is request.edit(key, trace, argdiffs)
                    tr3, w3, _, _ = cur.edit(jax.random.key(seed), EmptyRequest(), ad)
                    o3 = _obs_trace(tr3, atys, rty, universe, stored)
                    if (o3["choices"], o3["score"], o3["ret"], o3["args"], gfi._to_int(w3)) != (
                            obs["choices"], obs["score"], obs["ret"], obs["args"], w):
                        fails.append({"prop": "C38", "why": "Trace.edit(key, EmptyRequest(), argdiffs) differs from request.edit(key, trace, argdiffs)",
                                      "derived": [o3["score"], o3["ret"], gfi._to_int(w3)], "primitive": [obs["score"], obs["ret"], w]})
                cur, cur_obs, last_bwd, last_edit = tr, obs, bwd, None
                results.append({"ok": True, "tr": obs, "w": w})
            elif kind == "subtrace":
                _, addr = op
                sub = cur.get_subtrace(*[a for a in [gfi._addr(addr)]])
                sub_univ = [p[len(addr):] for p in universe if list(p[: len(addr)]) == list(addr)]
                ch, _ = gfi.observe_choices(sub.get_choices(), sub_univ)
                sc = gfi._to_int(sub.get_score()) if hasattr(sub.get_score(), "shape") and sub.get_score().shape == () else gfi._to_int(sub.get_score().sum())
                want = {p[len(addr):]: v for p, v in cur_obs["choices"].items() if list(p[: len(addr)]) == list(addr)}
                if ch != want:   # C34
                    fails.append({"prop": "C34", "why": "subtrace choices != parent's sub-map at the address",
                                  "sub": {str(k): v for k, v in ch.items()}, "want": {str(k): v for k, v in want.items()}})
                if cur_obs.get("_sites") is not None:
                    share = sum(site_lp(s_) for s_ in cur_obs["_sites"] if list(s_[0][: len(addr)]) == list(addr))
                    if sc != share:
                        fails.append({"prop": "C34", "why": "subtrace score != that call's share of the parent's score", "score": sc, "want": share})
                results.append({"ok": True, "w": sc, "choices": ch})
            else:
                raise ValueError(op)
        except gfi.NotIntegral as e:
            results.append({"err": "other:NotIntegral", "msg": str(e)})
        except Exception as e:  # noqa: BLE001
            results.append({"err": gfi.err_kind(e), "msg": str(e)[:300], "tb": traceback.format_exc()[-1500:]})
            if kind == "bwd" and "harness/" not in traceback.format_exc().splitlines()[-3]:
                # C06: applying the returned backward request must succeed
                fails.append({"prop": "C06", "why": "applying the returned backward request raised",
                              "error": type(e).__name__, "msg": str(e)[:200]})
        preds.append(fails)
    for r in results:
        if "tr" in r:
            r["tr"].pop("_sites", None)
    return {"results": results, "preds": preds, "rty": rty, "universe": [list(p) for p in universe]}


def impl_batch(batch):
    out = []
    for case in batch:
        try:
            out.append(run_case(case))
        except Exception as e:  # noqa: BLE001  (a failure to even build the program)
            out.append({"fatal": gfi.err_kind(e), "msg": str(e)[:300], "tb": traceback.format_exc()[-2000:]})
    return out
