"""Type inference / site universes for program ASTs, and `refspec`: an independent pure-Python
oracle of the DOCUMENTED meaning of programs (plain loops over integers), used by the
property predicates.  It shares no code with the Lean model or with the implementation.
"""

from __future__ import annotations

from harness.gfi import lp_int

INT = ["int"]
UNIT = ["unit"]


class TypeErr(Exception):
    pass


def expr_type(env, e):
    if isinstance(e, int):
        return INT
    op = e[0]
    if op == "var":
        return env[e[1]]
    if op in ("add", "sub", "mul"):
        return INT
    if op == "tup":
        return ["tup", [expr_type(env, x) for x in e[1:]]]
    if op == "proj":
        t = expr_type(env, e[1])
        return t[1][e[2]]
    if op == "sum":
        return INT
    if op == "zeros":
        return ["arr", e[1], INT]
    if op == "cons":
        t = expr_type(env, e[2])
        return ["arr", t[1] + 1, t[2]]
    if op == "not":
        return INT
    if op == "unmask":
        return expr_type(env, e[1])[1]
    if op == "sel":
        return expr_type(env, e[2])
    if op == "all":
        return ["tup", list(env)]
    if op == "stack":
        return ["arr", len(e) - 1, expr_type(env, e[1])]
    raise TypeErr(e)


def pre_types(pre, atys):
    if pre == "id":
        return list(atys)
    if pre == "dropLast":
        return list(atys[:-1])
    if pre == "appendUnit":
        return list(atys) + [UNIT]
    if pre[0] == "exprs":
        return [expr_type(atys, e) for e in pre[1:]]
    if pre[0] == "whole":
        return expr_type(atys, pre[1])[1]
    raise TypeErr(pre)


def mk_mask_ty(t):
    return t if t[0] == "mask" else ["mask", t]


def infer(p, atys):
    """-> (ret_type, list of potential site paths)."""
    op = p[0]
    if op == "dist":
        return INT, [()]
    if op == "static":
        env = list(atys)
        paths = []
        b = p[1]
        while b[0] == "bind":
            _, addr, sp, aes, rest = b
            rt, ps = infer(sp, [expr_type(env, e) for e in aes])
            paths += [tuple(addr) + q for q in ps]
            env.append(rt)
            b = rest
        return expr_type(env, b[1]), paths
    if op == "vmap":
        n = next((t[2][1] if ax == "ax1" else t[1]) for t, ax in zip(atys, p[2]) if ax)
        ets = [(["arr", t[1], t[2][2]] if ax == "ax1" else t[2]) if ax else t for t, ax in zip(atys, p[2])]
        rt, ps = infer(p[1], ets)
        return ["arr", n, rt], [(i,) + q for i in range(n) for q in ps]
    if op == "scan":
        cty, xs = atys
        if xs[0] == "arr":
            n, xty = xs[1], xs[2]
        else:
            n, xty = p[2], UNIT
        rt, ps = infer(p[1], [cty, xty])
        return ["tup", [rt[1][0], ["arr", n, rt[1][1]]]], [(i,) + q for i in range(n) for q in ps]
    if op == "switch":
        rts, paths = [], []
        for q, at in zip(p[1:], atys[1:]):
            rt, ps = infer(q, at[1])
            rts.append(rt)
            paths += [x for x in ps if x not in paths]
        return rts[0], paths
    if op == "mask":
        rt, ps = infer(p[1], atys[1:])
        return mk_mask_ty(rt), ps
    if op == "dimap":
        its = pre_types(p[1], atys)
        rt, ps = infer(p[2], its)
        return expr_type([["tup", list(atys)], ["tup", its], rt], p[3]), ps
    if op == "map":
        rt, ps = infer(p[1], atys)
        return expr_type([UNIT, UNIT, rt], p[2]), ps
    if op == "contramap":
        return infer(p[2], [expr_type(atys, e) for e in p[1]])
    if op == "repeat":
        rt, ps = infer(p[1], atys)
        return ["arr", p[2], rt], [(i,) + q for i in range(p[2]) for q in ps]
    if op == "orelse":
        rt, ps = infer(p[1], atys[1][1])
        _, qs = infer(p[2], atys[2][1])
        return rt, ps + [x for x in qs if x not in ps]
    if op in ("accumulate", "reduce"):
        cty, xs = atys
        n = xs[1]
        rt, ps = infer(p[1], [cty, xs[2]])
        paths = [(i,) + q for i in range(n) for q in ps]
        return (["arr", n + 1, rt] if op == "accumulate" else rt), paths
    if op in ("iterate", "iterate_final"):
        rt, ps = infer(p[1], atys)
        paths = [(i,) + q for i in range(p[2]) for q in ps]
        return (["arr", p[2] + 1, rt] if op == "iterate" else rt), paths
    if op == "closure":
        return infer(p[1], [INT] * len(p[2]) + list(atys))
    if op in ("masked_iterate", "masked_iterate_final"):
        sty, flags = atys
        n = flags[1]
        rt, ps = infer(p[1], [sty])
        paths = [(i,) + q for i in range(n) for q in ps]
        return (["arr", n + 1, rt] if op == "masked_iterate" else rt), paths
    raise TypeErr(p)


# --------------------------------------------------------------------------- refspec


class Unspecified(Exception):
    """The documented semantics does not determine the result (e.g. reading the payload
    of an invalid mask)."""


class Missing(Exception):
    pass


def ev(env, e):
    if isinstance(e, int):
        return e
    op = e[0]
    if op == "var":
        return env[e[1]]
    if op == "add":
        return ev(env, e[1]) + ev(env, e[2])
    if op == "sub":
        return ev(env, e[1]) - ev(env, e[2])
    if op == "mul":
        return ev(env, e[1]) * ev(env, e[2])
    if op == "tup":
        return ["t"] + [ev(env, x) for x in e[1:]]
    if op == "proj":
        return ev(env, e[1])[1 + e[2]]
    if op == "sum":
        return sum(ev(env, e[1])[1:])
    if op == "zeros":
        return ["a"] + [0] * e[1]
    if op == "cons":
        return ["a", ev(env, e[1])] + ev(env, e[2])[1:]
    if op == "not":
        return 1 if ev(env, e[1]) == 0 else 0
    if op == "unmask":
        m = ev(env, e[1])
        if m[1] != "T":
            raise Unspecified("payload of an invalid mask")
        return m[2]
    if op == "sel":
        return ev(env, e[2]) if ev(env, e[1]) != 0 else ev(env, e[3])
    if op == "all":
        return ["t"] + list(env)
    if op == "stack":
        return ["a"] + [ev(env, x) for x in e[1:]]
    raise ValueError(e)


def pre_apply(pre, args):
    if pre == "id":
        return list(args)
    if pre == "dropLast":
        return list(args[:-1])
    if pre == "appendUnit":
        return list(args) + [["t"]]
    if pre[0] == "exprs":
        return [ev(args, e) for e in pre[1:]]
    if pre[0] == "whole":
        return ev(args, pre[1])[1:]
    raise ValueError(pre)


def mk_mask(f, v):
    if isinstance(v, list) and v and v[0] == "m":
        if f and v[1] == "T":
            return ["m", "T", v[2]]
        return ["m", "F", "_"]
    return ["m", "T", v] if f else ["m", "F", "_"]


def ref(p, args, ch, pre=()):
    """Documented meaning: visit the random choices in program order, reading each value from
    `ch` (dict path -> int).  Returns (sites, retval); a site is (path, d, dargs, value)."""
    op = p[0]
    if op == "dist":
        if pre not in ch:
            raise Missing(pre)
        v = ch[pre]
        return [(pre, p[1], list(args), v)], v
    if op == "static":
        env = list(args)
        sites = []
        b = p[1]
        while b[0] == "bind":
            _, addr, sp, aes, rest = b
            ss, r = ref(sp, [ev(env, e) for e in aes], ch, pre + tuple(addr))
            sites += ss
            env.append(r)
            b = rest
        return sites, ev(env, b[1])
    if op == "vmap":
        n = next((len(a[1]) - 1 if ax == "ax1" else len(a) - 1) for a, ax in zip(args, p[2]) if ax)
        sites, rets = [], []
        for i in range(n):  # "N independent calls", each on its slice along the mapped axis
            ea = [((["a"] + [row[1 + i] for row in a[1:]]) if ax == "ax1" else a[1 + i]) if ax else a
                  for a, ax in zip(args, p[2])]
            ss, r = ref(p[1], ea, ch, pre + (i,))
            sites += ss
            rets.append(r)
        return sites, ["a"] + rets
    if op == "scan":
        carry, xs = args
        xl = xs[1:] if xs[0] == "a" else [["t"]] * p[2]
        sites, ys = [], []
        for i, x in enumerate(xl):  # the documented Python loop
            ss, r = ref(p[1], [carry, x], ch, pre + (i,))
            sites += ss
            carry, y = r[1], r[2]
            ys.append(y)
        return sites, ["t", carry, ["a"] + ys]
    if op == "switch":
        k = args[0]
        n = len(p) - 1
        k = min(max(k, 0), n - 1)  # documented: clamped
        return ref(p[1 + k], args[1 + k][1:], ch, pre)
    if op == "mask":
        if args[0] != 0:
            ss, r = ref(p[1], args[1:], ch, pre)
            return ss, mk_mask(True, r)
        return [], ["m", "F", "_"]
    if op == "dimap":
        ia = pre_apply(p[1], args)
        ss, r = ref(p[2], ia, ch, pre)
        return ss, ev([["t"] + list(args), ["t"] + ia, r], p[3])
    if op == "map":
        ss, r = ref(p[1], args, ch, pre)
        return ss, ev([None, None, r], p[2])
    if op == "contramap":
        return ref(p[2], [ev(args, e) for e in p[1]], ch, pre)
    if op == "repeat":
        sites, rets = [], []
        for i in range(p[2]):
            ss, r = ref(p[1], args, ch, pre + (i,))
            sites += ss
            rets.append(r)
        return sites, ["a"] + rets
    if op == "orelse":
        if args[0] != 0:
            return ref(p[1], args[1][1:], ch, pre)
        return ref(p[2], args[2][1:], ch, pre)
    if op in ("accumulate", "reduce"):
        carry, xs = args
        sites, acc = [], [carry]
        for i, x in enumerate(xs[1:]):
            ss, carry = ref(p[1], [carry, x], ch, pre + (i,))
            sites += ss
            acc.append(carry)
        return sites, (["a"] + acc if op == "accumulate" else carry)
    if op in ("iterate", "iterate_final"):
        (state,) = args
        sites, acc = [], [state]
        for i in range(p[2]):
            ss, state = ref(p[1], [state], ch, pre + (i,))
            sites += ss
            acc.append(state)
        return sites, (["a"] + acc if op == "iterate" else state)
    if op == "closure":
        return ref(p[1], list(p[2]) + list(args), ch, pre)
    if op in ("masked_iterate", "masked_iterate_final"):
        state, flags = args
        if op == "masked_iterate" and any(f == 0 for f in flags[1:]):
            # masked_iterate documents "a Masked list of results": what the plain array holds at and
            # after a masked-off step is not specified
            raise Unspecified("masked_iterate values after a masked-off step")
        sites, acc = [], [state]
        for i, f in enumerate(flags[1:]):
            if f != 0:
                ss, state = ref(p[1], [state], ch, pre + (i,))
                sites += ss
            # a masked-off step contributes nothing and leaves the value unchanged
            acc.append(state)
        return sites, (["a"] + acc if op == "masked_iterate" else state)
    raise ValueError(p)


def site_lp(site):
    _, d, dargs, v = site
    return lp_int(d, v, dargs)


def ref_score(sites):
    return sum(site_lp(s) for s in sites)


def static_part(path):
    return tuple(c for c in path if isinstance(c, str))
