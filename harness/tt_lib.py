"""C31 support: JAX programs with record points (`genjax.time_travel.rec` / `tag`), their
execution under the real `time_machine`, an instrumented plain reference run, and the
serialisation of the real ClosedJaxpr (with the static debug tags) for the Lean driver.

Program descriptions extend those of `harness/ir_translate.py` (whose generator, statement
interpreter and serialiser are reused, not copied) by two statements:

    {"op": "rec", "o": [...], "a": [...], "sub": {params, stmts, outs}, "tag": str | None | ""}
        outs = rec(lambda *v: <sub>(v), tag)(*args)      -- the body may contain rec / tag again
    {"op": "tag", "o": [x], "a": [v], "tag": ...}
        x = tag(v, name)

A recorded callable only sees its own parameters and the global constant arrays (a callable that
closes over a traced value cannot be replayed by the debugger at all: the interpreter drops the
hoisted constants, `args[num_consts:]`, and the Python closure still holds the dead tracer).
"""

from __future__ import annotations

from harness import ir_translate as T

TAGS = ["A", "B", "C", "D", "A", "B", None, None, None, "", "exit", "_enter"]

# ------------------------------------------------------------------------------- generator


def _types(vs):
    return [[v["k"], list(v["sh"]), int(v["b"])] for v in vs]


def _gen_block(g, stmts, local, consts, n, rdepth, max_rdepth, p_rec):
    r = g.rng
    for _ in range(n):
        q = r.random()
        if local and q < p_rec and rdepth < max_rdepth:
            _gen_rec(g, stmts, local, consts, rdepth, max_rdepth, p_rec)
        elif local and p_rec > 0 and q < p_rec + 0.12:
            v = r.choice(local)
            o = T._var(g.fresh(), v["k"], v["sh"], v["b"])
            stmts.append({"op": "tag", "o": [o["name"]], "a": [v["name"]], "tag": r.choice(TAGS),
                          "pt": _types([v])})
            local.append(o)
        else:
            T._gen_stmt(g, stmts, local, consts, 0)


def _gen_rec(g, stmts, local, consts, rdepth, max_rdepth, p_rec):
    r = g.rng
    nargs = r.choice([1, 1, 2, 2, 3])
    pool = local + (consts if r.random() < 0.2 else [])
    ops = [r.choice(pool) for _ in range(nargs)]
    pars = [T._var(g.fresh("p"), v["k"], v["sh"], v["b"]) for v in ops]
    bstmts, blocal = [], list(pars)
    _gen_block(g, bstmts, blocal, consts, r.randint(0, 3), rdepth + 1, max_rdepth, p_rec)
    created = [v for v in blocal if v not in pars]
    nouts = r.choice([1, 1, 2])
    outs, ovars = [], []
    for _ in range(nouts):
        q = r.random()
        if q < 0.05:
            lit = r.randint(0, 5)
            outs.append(lit)
            ovars.append(T._var(g.fresh(), "i", (), 5))
            continue
        src = r.choice(created[-4:]) if created and q < 0.85 else r.choice(blocal)
        outs.append(src["name"])
        ovars.append(T._var(g.fresh(), src["k"], src["sh"], src["b"]))
    sub = {"params": [[p["name"], p["k"], list(p["sh"])] for p in pars], "stmts": bstmts, "outs": outs}
    stmts.append({"op": "rec", "o": [o["name"] for o in ovars], "a": [v["name"] for v in ops], "sub": sub,
                  "tag": r.choice(TAGS), "pt": _types(pars)})
    local.extend(ovars)


def gen_tt_program(rng, size=5, max_rdepth=2, p_rec=0.45, control=True):
    """Random program with record points and tags."""
    g = T._G(rng, size, 1 if control else 0)
    r = rng
    nargs = r.choice([1, 2, 2, 3])
    params = []
    for _ in range(nargs):
        k = "b" if r.random() < 0.1 else "i"
        sh = r.choice([(), (), (), (3,), (2,), (2, 3)])
        params.append(T._var(g.fresh("x"), k, sh, T.IN_BOUND if k == "i" else 1))
    consts, cvars = [], []
    for _ in range(r.choice([0, 0, 1, 2])):
        sh = r.choice([(3,), (2,), (), (2, 2)])
        c = T._var(g.fresh("k"), "i", sh, 5)
        consts.append({"name": c["name"], "sh": list(sh), "data": [r.randint(-5, 5) for _ in range(T._size(sh))]})
        cvars.append(c)
    stmts, local = [], list(params)
    _gen_block(g, stmts, local, cvars, r.randint(max(1, size // 2), size), 0, max_rdepth, p_rec)
    created = [v for v in local if v not in params]
    outs, otypes = [], []
    for _ in range(r.choice([1, 1, 2, 3])):
        v = r.choice(created[-5:]) if created and r.random() < 0.85 else r.choice(local)
        outs.append(v["name"])
        otypes.append(v)
    return {"params": [[p["name"], p["k"], list(p["sh"])] for p in params], "pt": _types(params), "consts": consts,
            "stmts": stmts, "outs": outs, "ot": _types(otypes)}


def preorder(desc):
    """Static frame layout of `time_machine(f)`: one descriptor per frame, in order:
    _enter, every rec / tag statement in pre-order, exit.  Each: {"tag", "pt": parameter types}."""
    out = [{"tag": "_enter", "pt": desc["pt"], "kind": "enter"}]

    def walk(stmts):
        for st in stmts:
            if st["op"] == "rec":
                out.append({"tag": st["tag"], "pt": st["pt"], "kind": "rec"})
                walk(st["sub"]["stmts"])
            elif st["op"] == "tag":
                out.append({"tag": st["tag"], "pt": st["pt"], "kind": "tag"})

    walk(desc["stmts"])
    out.append({"tag": "exit", "pt": [[k, sh, 6] for k, sh, _b in desc["ot"]], "kind": "exit"})
    return out


def tags_of(desc):
    return sorted({fr["tag"] for fr in preorder(desc) if fr["tag"]})


def gen_values(rng, pt):
    """Data for a parameter list, within each parameter's bound."""
    out = []
    for k, sh, b in pt:
        n = T._size(sh)
        if k == "b":
            out.append([rng.randint(0, 1) for _ in range(n)])
        else:
            m = max(0, min(int(b), T.IN_BOUND))
            out.append([rng.randint(-m, m) for _ in range(n)])
    return out


def gen_ops(rng, desc, n, remix_rate=0.3, err_rate=0.08):
    """A random debugger session.  The frame layout is static, so the frame under the pointer —
    hence the types of a remix's arguments — is known while generating."""
    frames = preorder(desc)
    nfr = len(frames)
    jumps = {}
    for i, fr in enumerate(frames):
        if fr["tag"]:
            jumps[fr["tag"]] = i
    ptr = 0
    ops = []
    names = sorted(jumps)
    for _ in range(n):
        q = rng.random()
        if q < remix_rate:
            fr = frames[ptr]
            vals = gen_values(rng, fr["pt"])
            op = {"op": "remix", "vals": vals, "types": [[k, sh] for k, sh, _b in fr["pt"]], "frame": ptr}
            if rng.random() < err_rate and fr["kind"] in ("enter", "rec") and len(vals) >= 1:
                op["vals"], op["types"] = vals[:-1], op["types"][:-1]
                op["bad_arity"] = True
            ops.append(op)
        elif q < remix_rate + 0.3:
            if rng.random() < err_rate:
                ops.append({"op": "jump", "tag": "nosuch"})
            else:
                t = rng.choice(names)
                ops.append({"op": "jump", "tag": t})
                ptr = jumps[t]
        elif q < remix_rate + 0.3 + 0.22:
            ops.append({"op": "fwd"})
            ptr = ptr + 1 if ptr + 1 < nfr else ptr
        else:
            ops.append({"op": "bwd"})
            ptr = ptr - 1 if ptr - 1 >= 0 else ptr
    return ops


def features(desc):
    ops = []

    def walk(stmts, d):
        for st in stmts:
            ops.append(st["op"])
            if st["op"] == "rec":
                ops.append(f"rec-depth:{d}")
                walk(st["sub"]["stmts"], d + 1)
            for s in st.get("subs", []):
                for op in T.features(s):
                    ops.append(op)

    walk(desc["stmts"], 0)
    return ops


# ------------------------------------------------------------------------------- builder


class Log:
    """Call log of an instrumented plain run; `override[k]` replaces the arguments of the k-th
    recorded call (pre-order, the `_enter` call is number 0)."""

    def __init__(self, override=None):
        self.entries = []
        self.override = dict(override or {})

    def call(self, fn, tag, args):
        k = len(self.entries)
        if k in self.override:
            args = self.override[k]
        entry = {"tag": tag, "args": args, "ret": None}
        self.entries.append(entry)
        entry["ret"] = fn(*args)
        return entry["ret"]


def build_tt(desc, mode, log=None):
    """The Python function denoted by `desc`.
    mode "real": record points are `genjax.time_travel.rec` / `tag`;
    mode "log":  record points call their function directly and log the call in `log`;
    mode "plain": record points call their function directly."""
    consts = {c["name"]: T._arr("i", c["sh"], c["data"]) for c in desc.get("consts", [])}
    if mode == "real":
        from genjax.time_travel import rec, tag

    def ref(env, x):
        return env[x] if isinstance(x, str) else x

    def plain_stmt(st, env):
        names = list(env.keys())
        mini = {"params": [[n, "i", []] for n in names], "consts": [], "stmts": [st], "outs": list(st["o"]),
                "nest_args": False}
        res = T.build(mini)(*[env[n] for n in names])
        for n, v in zip(st["o"], res):
            env[n] = v

    def make_fn(sub):
        npar = len(sub["params"])

        def fn(*v):
            if len(v) != npar:
                raise TypeError(f"expected {npar} arguments, got {len(v)}")
            e = dict(consts)
            for (name, _k, _sh), x in zip(sub["params"], v):
                e[name] = x
            run_stmts(sub["stmts"], e)
            return tuple(ref(e, o) for o in sub["outs"])

        return fn

    def ident(v):
        return v

    def run_stmts(stmts, env):
        for st in stmts:
            op = st["op"]
            if op == "rec":
                fn = make_fn(st["sub"])
                a = [env[x] for x in st["a"]]
                if mode == "real":
                    res = rec(fn, st["tag"])(*a)
                elif mode == "log":
                    res = log.call(fn, st["tag"], tuple(a))
                else:
                    res = fn(*a)
                for n, v in zip(st["o"], res):
                    env[n] = v
            elif op == "tag":
                v = env[st["a"][0]]
                if mode == "real":
                    res = tag(v, st["tag"])
                elif mode == "log":
                    res = log.call(ident, st["tag"], (v,))
                else:
                    res = v
                env[st["o"][0]] = res
            else:
                plain_stmt(st, env)

    top = make_fn({"params": desc["params"], "stmts": desc["stmts"], "outs": desc["outs"]})
    return top


def run_logged(desc, args, override=None):
    """Instrumented plain run of `time_machine`'s `instrumented`: `tag(rec(f, "_enter")(*args), "exit")`
    with every recorded call logged in pre-order.  Returns (result, entries)."""
    log = Log(override)
    f = build_tt(desc, "log", log)
    res = log.call(f, "_enter", tuple(args))
    res = log.call(lambda v: v, "exit", (res,))
    return res, log.entries


def make_vals(types, data):
    return tuple(T._arr(k, sh, d) for (k, sh), d in zip(types, data))


# ------------------------------------------------------------------------------- translator


def _debug_tag(eqn):
    import jax.tree_util as jtu

    in_tree = eqn.params["in_tree"]
    bp = jtu.tree_unflatten(in_tree, [0] * in_tree.num_leaves)[0]
    return bp.debug_tag


def _ser_tag(t):
    if t is None:
        return "(n)"
    if t == "":
        return "(o)"
    return f"(s {T._san(t)})"


def _impl_jaxpr(v):
    from jax.extend.core import ClosedJaxpr

    for cell in v.__closure__ or ():
        try:
            c = cell.cell_contents
        except ValueError:
            continue
        if isinstance(c, ClosedJaxpr):
            return c
    raise T.Untranslatable("record_p equation without a staged callable")


def ser_jaxpr_tt(j):
    """`ir_translate.ser_jaxpr`, except that a `record_p` equation gets its static debug tag as a
    `tag` param and its staged callable is serialised by this function again (nested tags)."""
    eqns = []
    for e in j.eqns:
        if e.primitive.name == "record_p":
            items = []
            for k, v in sorted(list(e.params.items()) + [("tag", None)]):
                if k == "tag":
                    items.append(f"(tag {_ser_tag(_debug_tag(e))})")
                elif k == "impl":
                    items.append(f"(impl (cj {ser_jaxpr_tt(_impl_jaxpr(v).jaxpr)} ()))")
                else:
                    items.append(f"({T._san(k)} {T._ser_param(k, v, e.primitive)})")
            ps = " ".join(items)
        else:
            ps = " ".join(f"({T._san(k)} {T._ser_param(k, v, e.primitive)})" for k, v in sorted(e.params.items()))
        eqns.append(
            f"(e {T._san(e.primitive.name)} {'T' if e.primitive.multiple_results else 'F'} ({ps}) "
            f"({' '.join(T._ser_atom(v) for v in e.invars)}) ({' '.join(T._ser_binder(v) for v in e.outvars)}))"
        )
    return (
        f"(jaxpr ({' '.join(str(v.count) for v in j.constvars)}) ({' '.join(str(v.count) for v in j.invars)}) "
        f"({' '.join(eqns)}) ({' '.join(T._ser_atom(v) for v in j.outvars)}))"
    )


def translate_tt(cj):
    consts = " ".join(T.ser_val(c, v.aval.dtype) for c, v in zip(cj.consts, cj.jaxpr.constvars))
    return f"(cj {ser_jaxpr_tt(cj.jaxpr)} ({consts}))"


def ser_data(types, data):
    parts = []
    for (k, sh), d in zip(types, data):
        parts.append(f"({'bool' if k == 'b' else 'i32'} ({' '.join(map(str, sh))}) ({' '.join(str(int(v)) for v in d)}))")
    return "(" + " ".join(parts) + ")"


def ser_op(op):
    if op["op"] == "jump":
        return f"(jump {T._san(op['tag'])})"
    if op["op"] == "remix":
        return f"(remix {ser_data(op['types'], op['vals'])})"
    return op["op"]
