"""C31 runner: the real `time_machine` / `TimeTravelingDebugger` on generated programs (worker
side, with the property predicate evaluated on the implementation's own outputs) and the
comparison with the Lean model (`tt` driver command; main-process side).

Canonical observation of a debugger: final_retval leaves, per frame (args leaves, local_retval
leaves), `jump_points` as a dict, `ptr`, and the tag reported by `frame()`.  A value is
(`i32` | `bool`, shape, row-major ints).  Exceptions are observed as `KeyError` or `error`.
"""

from __future__ import annotations

import json

from harness import common
from harness import ir_translate as T
from harness import tt_lib as L
from harness.ir_run import _canon, _flat

# --------------------------------------------------------------------------- worker side


def _obs(d):
    import jax.tree_util as jtu

    tag, _fr = (None, None)
    try:
        tag, _fr = d.frame()
    except Exception as e:  # noqa: BLE001
        tag = "frame() raised " + type(e).__name__
    return {
        "final": _flat(d.final_retval),
        "frames": [[_flat(fr.args), _flat(fr.local_retval)] for fr in d.sequence],
        "jumps": {str(k): int(v) for k, v in d.jump_points.items()},
        "ptr": int(d.ptr),
        "tag": tag,
        "nleaves": [len(jtu.tree_leaves(fr.args)) for fr in d.sequence],
    }


def _entries(entries):
    return [[_flat(e["args"]), _flat(e["ret"])] for e in entries]


def _jumps_of(entries):
    jp = {}
    for i, e in enumerate(entries):
        if e["tag"]:
            jp[e["tag"]] = i
    return jp


def _errname(e):
    return "KeyError" if isinstance(e, KeyError) else "error"


def run_case(case):
    import jax.tree_util as jtu
    from genjax._src.core.compiler.staging import stage
    from genjax.time_travel import time_machine

    desc, data, ops = case["desc"], case["args"], case["ops"]
    out = {"pred": []}
    types = [[k, sh] for _n, k, sh in desc["params"]]
    args = L.make_vals(types, data)
    f = L.build_tt(desc, "real")
    try:
        cj, _ = stage(f)(*args)
        line_head = f"(tt {L.translate_tt(cj)} {L.ser_data(types, data)} "
        out["prims"] = sorted(set(T.prims_of(cj)))
        out["neqns"] = len(cj.jaxpr.eqns)
    except T.Untranslatable as e:
        return {"gen_invalid": "untranslatable: " + str(e)}
    except Exception as e:  # noqa: BLE001
        return {"gen_invalid": f"staging failed: {type(e).__name__}: {e}"[:300]}
    try:
        plain = _flat(L.build_tt(desc, "plain")(*args))
        ref_res, ref_entries = L.run_logged(desc, args)
    except Exception as e:  # noqa: BLE001
        return {"gen_invalid": f"plain evaluation failed: {type(e).__name__}: {e}"[:300]}
    out["plain"] = plain
    out["line"] = line_head + "(" + " ".join(L.ser_op(op) for op in ops) + "))"

    def bad(why, **kw):
        out["pred"].append(dict(why=why, **kw))

    # ---- record
    try:
        d = time_machine(f)(*args)
    except Exception as e:  # noqa: BLE001
        out["states"] = [{"err": _errname(e), "msg": f"{type(e).__name__}: {e}"[:300]}]
        bad("time_machine raised where plain evaluation succeeds", msg=out["states"][0]["msg"], site="record")
        return out
    st = _obs(d)
    out["states"] = [st]
    want_frames = _entries(ref_entries)
    if st["final"] != plain:
        bad("final_retval differs from f(*args)", final=st["final"], plain=plain, site="record")
    if st["final"] != _flat(ref_res):
        bad("final_retval differs from the instrumented plain run", site="record")
    if len(st["frames"]) != len(want_frames):
        bad("number of frames differs from the number of recorded calls", frames=len(st["frames"]),
            calls=len(want_frames), site="record")
    elif st["frames"] != want_frames:
        i = next(i for i, (a, b) in enumerate(zip(st["frames"], want_frames)) if a != b)
        bad(f"frame {i} does not carry its call's arguments / local return value (execution order)",
            frame=st["frames"][i], call=want_frames[i], site="record")
    if st["jumps"] != _jumps_of(ref_entries):
        bad("jump_points do not point at the tagged calls", jumps=st["jumps"], want=_jumps_of(ref_entries), site="record")
    if not (0 <= st["ptr"] < len(st["frames"])):
        bad("initial pointer outside the recorded frames", ptr=st["ptr"], site="record")

    # ---- session
    override = {}
    for i, op in enumerate(ops):
        site = op["op"]
        try:
            if op["op"] == "jump":
                nd = d.jump(op["tag"])
            elif op["op"] == "fwd":
                nd = d.fwd()
            elif op["op"] == "bwd":
                nd = d.bwd()
            else:
                fr = d.sequence[d.ptr]
                leaves = list(L.make_vals(op["types"], op["vals"]))
                if op.get("bad_arity"):
                    new_args = tuple(leaves)
                else:
                    tree = jtu.tree_structure(fr.args)
                    if tree.num_leaves != len(leaves):
                        out["states"].append({"skip": "remix arity drift"})
                        bad("frame under the pointer is not the statically expected one", op=i, site="remix")
                        break
                    new_args = jtu.tree_unflatten(tree, leaves)
                nd = d.remix(*new_args)
        except Exception as e:  # noqa: BLE001
            out["states"].append({"err": _errname(e), "msg": f"{type(e).__name__}: {e}"[:200]})
            expected = (op["op"] == "jump" and op["tag"] not in d.jump_points) or op.get("bad_arity")
            if not expected:
                bad(f"{site} raised on a well-formed request", op=i, msg=out["states"][-1]["msg"], site=site)
            continue
        prev = out["states"][-1] if "final" in out["states"][-1] else _obs(d)
        st = _obs(nd)
        out["states"].append(st)
        if not (0 <= st["ptr"] < len(st["frames"])):
            bad("pointer outside the recorded frames", op=i, ptr=st["ptr"], n=len(st["frames"]), site=site)
        if op["op"] in ("jump", "fwd", "bwd"):
            if st["frames"] != prev["frames"] or st["final"] != prev["final"] or st["jumps"] != prev["jumps"]:
                bad("navigation changed the recording", op=i, site=site)
            if op["op"] == "jump" and st["ptr"] != prev["jumps"].get(op["tag"]):
                bad("jump does not move to the tagged frame", op=i, site=site)
            if op["op"] == "fwd" and st["ptr"] != min(prev["ptr"] + 1, len(prev["frames"]) - 1):
                bad("fwd is not 'next frame, clamped at the last'", op=i, site=site)
            if op["op"] == "bwd" and st["ptr"] != max(prev["ptr"] - 1, 0):
                bad("bwd is not 'previous frame, clamped at the first'", op=i, site=site)
        else:
            k = prev["ptr"]
            if op.get("bad_arity"):
                bad("remix with the wrong number of arguments did not raise", op=i, site="remix")
            else:
                override = {j: v for j, v in override.items() if j < k}
                override[k] = new_args
                try:
                    r_res, r_entries = L.run_logged(desc, args, override)
                except Exception as e:  # noqa: BLE001
                    out["states"][-1]["ref_error"] = f"{type(e).__name__}: {e}"[:200]
                    d = nd
                    continue
                want = _entries(r_entries)
                if st["final"] != _flat(r_res):
                    bad("remix: final_retval differs from re-running f with that call's result recomputed from the new "
                        "arguments", op=i, frame=k, final=st["final"], rerun=_flat(r_res), site="remix")
                if st["ptr"] != k or st["jumps"] != prev["jumps"]:
                    bad("remix moved the pointer or changed jump_points", op=i, site="remix")
                if st["frames"][:k] != prev["frames"][:k]:
                    bad("remix changed a frame before the pointer", op=i, site="remix")
                if len(st["frames"]) != len(want):
                    bad("remix changed the number of frames", op=i, frames=len(st["frames"]), calls=len(want), site="remix")
                elif st["frames"][k:] != want[k:]:
                    j = next(j for j in range(k, len(want)) if st["frames"][j] != want[j])
                    bad(f"remix: frame {j} differs from the re-run's call", op=i, frame=st["frames"][j], call=want[j],
                        site="remix")
        d = nd
    return out


def impl_batch(batch):
    res = []
    for case in batch:
        try:
            res.append(run_case(case))
        except Exception as e:  # noqa: BLE001
            import traceback

            res.append({"__harness_error__": f"{type(e).__name__}: {e}", "tb": traceback.format_exc()[-1500:]})
    return res


# --------------------------------------------------------------------------- main-process side


def _mval(x):
    return [x[0], [int(d) for d in x[1]], [int(v) for v in x[2]]]


def _mstate(x):
    if x[0] == "d":
        tag = x[5]
        return {"final": [_mval(v) for v in x[1]],
                "frames": [[[_mval(v) for v in fr[1]], [_mval(v) for v in fr[2]]] for fr in x[2]],
                "jumps": {kv[0]: int(kv[1]) for kv in x[3]}, "ptr": int(x[4]),
                "tag": None if tag == "-" else tag}
    if x[0] == "err":
        return {"err": "KeyError" if (len(x) > 2 and x[1] == "prim" and x[2] == "KeyError") else "error", "raw": x}
    return {"bad": x}


def parse_model(line):
    x = common.parse_sx(line)
    if x[0] != "ok":
        return {"bad": line[:300]}
    plain = {"ok": [_mval(v) for v in x[1][1:]]} if x[1][0] == "ok" else {"err": x[1]}
    if x[2][0] == "ok":
        log = {"final": [_mval(v) for v in x[2][1]],
               "entries": [[[_mval(v) for v in en[2]], [_mval(v) for v in en[3]]] for en in x[2][2]]}
    else:
        log = {"err": x[2]}
    return {"plain": plain, "log": log, "states": [_mstate(s) for s in x[3:]]}


STATE_KEYS = ("final", "frames", "jumps", "ptr", "tag")


def compare(im, mo):
    """Model vs implementation: list of (name, detail)."""
    if "bad" in mo:
        return [("driver", {"response": mo["bad"]})]
    diffs = []
    if mo["plain"].get("ok") != im["plain"]:
        diffs.append(("IR.evalPlain vs f(*args)", {"model": mo["plain"], "impl": im["plain"]}))
    a, b = im["states"], mo["states"]
    for i in range(max(len(a), len(b))):
        if i >= len(a) or i >= len(b):
            if i < len(a) and "skip" in a[i]:
                break
            if i >= 1 and "err" in a[0] and "err" in b[0]:
                break
            diffs.append(("TT session length", {"impl_states": len(a), "model_states": len(b)}))
            break
        x, y = a[i], b[i]
        name = "TT.timeMachine vs time_machine" if i == 0 else "TT.Debugger.step vs TimeTravelingDebugger op"
        if "skip" in x:
            break
        if "err" in x or "err" in y:
            if x.get("err") != y.get("err"):
                diffs.append((name + " [errors]", {"state": i, "impl": x.get("err", "ok"), "model": y.get("err", "ok"),
                                                   "msg": x.get("msg")}))
                break
            continue
        for k in STATE_KEYS:
            if x[k] != y[k]:
                diffs.append((f"{name} [{k}]", {"state": i, "impl": x[k], "model": y[k]}))
                break
        else:
            continue
        break
    return diffs


def make_cases(rng, n, size_lo=2, size_hi=6, n_ops=8):
    cases = []
    for _ in range(n):
        q = rng.random()
        if q < 0.06:
            desc = L.gen_tt_program(rng, size=rng.randint(1, 3), p_rec=0.0)  # no record points (and no tags) at all
        elif q < 0.35:
            desc = L.gen_tt_program(rng, size=rng.randint(2, 4), max_rdepth=3, p_rec=0.6, control=False)
        else:
            desc = L.gen_tt_program(rng, size=rng.randint(size_lo, size_hi))
        data = T.gen_args(rng, {"params": desc["params"]})
        ops = L.gen_ops(rng, desc, rng.randint(3, n_ops))
        cases.append({"desc": desc, "args": data, "ops": ops, "stream": "valid"})
    return cases


def neighbours(rng, case, k=6):
    """Other arguments and other sessions of the same program."""
    out = []
    for _ in range(k):
        data = T.gen_args(rng, {"params": case["desc"]["params"]})
        ops = L.gen_ops(rng, case["desc"], rng.randint(3, 10), remix_rate=0.45)
        out.append({"desc": case["desc"], "args": data, "ops": ops, "stream": "neighbour"})
    return out


def signature(p):
    return {"check": "C31", "site": p.get("site", "?"), "why": p["why"].split(":")[0][:90]}


def check_cases(ctx, cases, label, search=True):
    B = max(1, min(4, len(cases) // 32 or 1))
    batches = [cases[i:i + B] for i in range(0, len(cases), B)]
    results = []
    for r in common.run_impl_parallel("harness.tt_run", "impl_batch", batches):
        if isinstance(r, dict):
            raise common.Infra(str(r.get("__harness_error__", r.get("__worker_lost__"))) + r.get("tb", ""))
        results.extend(r)
    idx = [i for i, r in enumerate(results) if "line" in r]
    model = common.ask_driver([results[i]["line"] for i in idx])
    mo_by = {i: parse_model(m) for i, m in zip(idx, model)}
    invalid, corr = 0, []
    for i, (case, im) in enumerate(zip(cases, results)):
        if "__harness_error__" in im:
            raise common.Infra(im["__harness_error__"] + im.get("tb", ""))
        if "gen_invalid" in im:
            invalid += 1
            ctx.count("generator-invalid")
            ctx.notes.setdefault("generator_invalid_examples", [])
            if len(ctx.notes["generator_invalid_examples"]) < 3:
                ctx.notes["generator_invalid_examples"].append(im["gen_invalid"][:200])
            continue
        mo = mo_by[i]
        ctx.count(label)
        ctx.count("stream:" + case.get("stream", "valid"))
        for p in im.get("prims", []):
            ctx.count("prim:" + p)
        for ft in set(L.features(case["desc"])):
            if ft.startswith("rec") or ft == "tag":
                ctx.count("stmt:" + ft)
        nfr = len(L.preorder(case["desc"]))
        ctx.count(f"frames:{min(nfr, 8)}{'+' if nfr >= 8 else ''}")
        for op, s in zip(case["ops"], im["states"][1:]):
            ctx.count("op:" + op["op"] + (":raised" if "err" in s else ""))
        for s in mo.get("states", []):
            raw = s.get("raw")
            if raw and len(raw) > 2 and raw[1] == "prim" and "unsupported" in raw[2]:
                raise common.Infra(f"driver semantics does not cover a generated primitive: {raw} in {im['line'][:300]}")
        sample = {"request": im["line"][:400], "model": str(mo.get("states", mo))[:200], "impl": str(im["states"])[:200]}
        ctx.case_done({"d": case["desc"], "a": case["args"], "o": case["ops"]}, nfr > 2, sample)
        ctx.traces_validated += 1
        small = {"desc": case["desc"], "args": case["args"], "ops": case["ops"]}
        for p in im["pred"]:
            ctx.fail("predicate", small, p, signature(p), "C31-predicate")
        if im["pred"]:
            continue
        for name, detail in compare(im, mo):
            corr.append((case, small, name, detail))
    if invalid > max(3, len(cases) // 10):
        raise common.Infra(f"generator produced {invalid}/{len(cases)} invalid programs: "
                           f"{ctx.notes.get('generator_invalid_examples')}")
    if corr and search:
        seen = set()
        for case, small, name, detail in corr[:4]:
            key = json.dumps(case["desc"], sort_keys=True)
            if key in seen:
                continue
            seen.add(key)
            ctx.count("neighbour-search")
            check_cases(ctx, neighbours(ctx.rng, case), "neighbour", search=False)
    for case, small, name, detail in corr:
        ctx.fail("correspondence", small, detail, {"correspondence": name}, name)
    return results


def replay_case(ctx, payload):
    case = dict(payload["case"])
    case.setdefault("stream", "replay")
    check_cases(ctx, [case], "replay", search=False)
