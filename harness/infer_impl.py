"""Implementation side shared by C25 / C26 / C27: builds real genjax objects from the case
descriptions that are also sent to the Lean driver (`infer` command), runs the real API and
returns canonical observations.

Case vocabulary (JSON-able python lists, see lean/Driver/InferD.lean):
  prog   = [[addr, m, c0, c1, c2, aspec], ...]     aspec = ["c", n] | ["p", i] | ["a", i]
  chm    = [[addr, n], ...]      sel = [neg(bool), addr, ...]
  target = ["tgt", prog, [ints], chm]
  q      = "none" | ["exact", prog, [obs addr]] | ["marg", prog, [obs addr], sel]
  alg    = ["imp", target, q] | ["impk", target, q, K] | ["ct", alg, target]

Only imported inside worker processes (imports jax / genjax).
"""

from __future__ import annotations

import functools

import jax
import jax.numpy as jnp
import numpy as np

import genjax
from genjax import ChoiceMap, Diff, Pytree, Selection
from genjax._src.generative_functions.distributions.distribution import Distribution
from genjax._src.inference.requests.rejuvenate import Rejuvenate
from genjax._src.inference.smc import ChangeTarget, Importance, ImportanceK
from genjax._src.inference.sp import Marginal, Target

# --------------------------------------------------------------------------- keys


def key_at(seed: int, path):
    k = jax.random.key(seed)
    for i in path:
        k = jax.random.fold_in(k, i)
    return k


# --------------------------------------------------------------------------- test distributions


@functools.lru_cache(maxsize=None)
def dist(m: int, c0: int, c1: int, c2: int):
    """sample = key_data(key)[-1] % m ; logpdf(v, a) = c0 + c1 v + c2 a v (exact float32 integer)."""

    def sample(key, a):
        return (jax.random.key_data(key)[-1] % jnp.uint32(m)).astype(jnp.int32)

    def logpdf(v, a):
        v = jnp.asarray(v, dtype=jnp.int32)
        a = jnp.asarray(a, dtype=jnp.int32)
        return (c0 + c1 * v + c2 * a * v).astype(jnp.float32)

    name = f"td_{m}_{c0}_{c1}_{c2}".replace("-", "n")
    return genjax.exact_density(sample, logpdf, name)


def _freeze(x):
    return tuple(_freeze(y) for y in x) if isinstance(x, (list, tuple)) else x


@functools.lru_cache(maxsize=None)
def _build_prog(prog, mode, obs):
    dists = [dist(s[1], s[2], s[3], s[4]) for s in prog]

    def run(pos):
        vals = []
        for s, d in zip(prog, dists):
            kind, n = s[5]
            a = n if kind == "c" else (vals[n] if kind == "p" else pos[n])
            vals.append(d(a) @ s[0])
        return vals[-1] if vals else 0

    if mode == "plain":

        def body(*args):
            return run(list(args))
    else:  # proposal: the single argument is the Target; positional values read from it

        def body(tgt):
            return run([tgt[a] for a in obs])

    return genjax.gen(body)


def build_prog(prog):
    return _build_prog(_freeze(prog), "plain", ())


def build_proposal_prog(prog, obs):
    return _build_prog(_freeze(prog), "proposal", tuple(obs))


def build_chm(chm):
    if not chm:
        return ChoiceMap.empty()
    return ChoiceMap.d({a: jnp.int32(v) for a, v in chm})


def build_sel(sel):
    neg, addrs = sel[0], sel[1:]
    s = Selection.none()
    for a in addrs:
        s = s | Selection.at[a]
    return ~s if neg else s


@Pytree.dataclass
class ExactProposal(Distribution):
    """A custom SampleDistribution (harness code): simulate the proposal program with the key
    given, report its exact score; estimate_logpdf = assess."""

    gen_fn: genjax.GenerativeFunction

    def random_weighted(self, key, *args):
        tr = self.gen_fn.simulate(key, args)
        return tr.get_score(), tr.get_choices()

    def estimate_logpdf(self, key, v, *args):
        w, _ = self.gen_fn.assess(v, args)
        return w


def build_target(t):
    _, prog, args, chm = t
    return Target(build_prog(prog), tuple(jnp.int32(a) for a in args), build_chm(chm))


def build_q(q):
    if q == "none":
        return None
    if q[0] == "exact":
        return ExactProposal(build_proposal_prog(q[1], q[2]))
    if q[0] == "marg":
        return Marginal(build_proposal_prog(q[1], q[2]), build_sel(q[3]))
    raise ValueError(q)


def build_alg(a):
    if a[0] == "imp":
        return Importance(build_target(a[1]), build_q(a[2]))
    if a[0] == "impk":
        return ImportanceK(build_target(a[1]), build_q(a[2]), a[3])
    if a[0] == "ct":
        return ChangeTarget(build_alg(a[1]), build_target(a[2]))
    raise ValueError(a)


def alg_addrs(a):
    """Addresses of the (common) model program of an algorithm."""
    if a[0] == "ct":
        return alg_addrs(a[1])
    return [s[0] for s in a[1][1]]


# --------------------------------------------------------------------------- observation


def exact_int(x):
    """float/int array -> python int, insisting on exact integrality."""
    v = float(x)
    if v != round(v) or abs(v) >= 2**24:
        raise ValueError(f"non-integer or out-of-range value {v!r}")
    return int(round(v))


def obs_chm(chm, addrs, index=None):
    """Observe a choice map through lookups over the address universe."""
    out = []
    for a in addrs:
        sub = chm.get_submap(a)
        if sub.static_is_empty():
            continue
        v = sub.get_value()
        if v is None:
            continue
        if isinstance(v, genjax.Mask):
            flag = np.asarray(v.primal_flag() if hasattr(v, "primal_flag") else v.flag)
            val = np.asarray(v.value)
            if index is not None:
                flag = flag[index] if flag.ndim else flag
                val = val[index]
            if not bool(flag):
                continue
            out.append([a, exact_int(val)])
            continue
        v = np.asarray(v)
        if index is not None:
            v = v[index]
        out.append([a, exact_int(v)])
    return out


def obs_particles(pc, addrs):
    w = np.asarray(pc.get_log_weights()).reshape(-1)
    n = len(w)
    out = []
    for i in range(n):
        tr = pc.get_particle(i)  # per-particle trace (a batched trace's get_score() sums over the batch)
        out.append([obs_chm(tr.get_choices(), addrs), exact_int(tr.get_score()), exact_int(w[i])])
    return out


def err_enum(e: BaseException) -> str:
    n = type(e).__name__
    if "BeartypeCallHint" in n or isinstance(e, TypeError):
        return "TypeError"
    return n


def call_unchecked(obj, name, *args):
    """Call a method's body with beartype's wrapper bypassed (used only to keep checking the
    logic of methods whose *annotation* is the known finding)."""
    f = getattr(type(obj), name)
    g = getattr(f, "__wrapped__", None)
    if g is None:
        raise RuntimeError("no __wrapped__")
    return g(obj, *args)


def logmeanexp(ws):
    ws = np.asarray(ws, dtype=np.float64)
    m = ws.max()
    return float(m + np.log(np.exp(ws - m).sum()) - np.log(len(ws)))
