"""Type-directed random generation of programs, arguments and operation histories for model E.

Everything is drawn from one `random.Random`.  Programs come with their argument types, so
almost every case is valid; a `focus` dict reweights combinators / operations per property.
"""

from __future__ import annotations

from harness.gfi import ARITY
from harness.gfi_ref import INT, UNIT, expr_type, infer

NAMES = ["x", "y", "z", "u", "v"]


class G:
    def __init__(self, rng, focus=None, max_len=3, zero_len=0.0):
        self.rng = rng
        self.focus = focus or {}
        self.max_len = max_len
        self.zero_len = zero_len      # probability of a zero-length vector combinator

    def length(self, lo=1):
        if lo == 0 and self.rng.random() < self.zero_len:
            return 0
        return self.rng.randint(1, self.max_len)

    # ------------------------------------------------------------------ expressions
    def int_expr(self, env, depth=2, need_dep=False):
        """An int-typed expression over env (list of types); tries to depend on env values."""
        r = self.rng
        cands = []
        for k, t in enumerate(env):
            if t == INT:
                cands.append(["var", k])
            elif t[0] == "arr" and t[2] == INT:
                cands.append(["sum", ["var", k]])
            elif t[0] == "tup":
                for j, ct in enumerate(t[1]):
                    if ct == INT:
                        cands.append(["proj", ["var", k], j])
                    elif ct[0] == "arr" and ct[2] == INT:
                        cands.append(["sum", ["proj", ["var", k], j]])
        if not cands or (not need_dep and r.random() < 0.1):
            return r.randint(-2, 3)
        if depth == 0 or r.random() < 0.5:
            return r.choice(cands)
        k = r.random()
        a = self.int_expr(env, depth - 1, need_dep)
        if k < 0.5:
            return ["add", a, self.int_expr(env, depth - 1)]
        if k < 0.8:
            return ["sub", a, self.int_expr(env, depth - 1)]
        return ["mul", a, r.randint(-1, 2)]

    def expr_of(self, env, ty):
        r = self.rng
        same = [["var", k] for k, t in enumerate(env) if t == ty]
        if same and ty != INT and r.random() < 0.7:
            return r.choice(same)
        k = ty[0]
        if k == "int":
            return self.int_expr(env)
        if k == "unit":
            return ["tup"]
        if k == "tup":
            return ["tup"] + [self.expr_of(env, t) for t in ty[1]]
        if k == "arr":
            if ty[1] == 0:
                if ty[2] == INT:
                    return ["zeros", 0]
                raise ValueError("cannot build empty array of " + str(ty[2]))
            return ["stack"] + [self.expr_of(env, ty[2]) for _ in range(ty[1])]
        if k == "mask":
            if same:
                return r.choice(same)
            raise ValueError("cannot build mask")
        raise ValueError(ty)

    # ------------------------------------------------------------------ programs
    def pick(self, options):
        ws = [self.focus.get(o, 1.0) for o in options]
        return self.rng.choices(options, weights=ws)[0]

    def int_prog(self, depth, nargs):
        """A program with `nargs` int arguments returning an int."""
        r = self.rng
        opts = ["static"]
        if nargs <= 2:
            opts.append("dist")
        if depth > 0:
            opts += ["dimapped"]
        k = self.pick(opts) if depth > 0 else ("dist" if nargs <= 2 and r.random() < 0.6 else "static")
        if k == "dist":
            d = r.choice([i for i, a in enumerate(ARITY) if a == nargs])
            return ["dist", d]
        if k == "dimapped":
            inner_n = r.choice([0, 1, 1, 2, 2]) if nargs > 0 else 0
            inner = self.int_prog(depth - 1, inner_n)
            env = [INT] * nargs
            # argument maps returning constants make Dimap.edit fail its own type check
            # (a known finding of C15); other properties keep them argument-dependent
            pre = ["exprs"] + [self.int_expr(env, need_dep=True) for _ in range(inner_n)]
            post_env = [["tup", env], ["tup", [INT] * inner_n], INT]
            post = self.int_expr(post_env, need_dep=True) if r.random() < 0.8 else ["var", 2]
            if inner_n > 0 and r.random() < 0.5:
                # a return mapping that reads the transformed arguments (its second parameter)
                post = ["add", ["proj", ["var", 1], r.randrange(inner_n)], post]
            return ["dimap", pre, inner, post]
        return self.static([INT] * nargs, depth, ret="int")

    def static(self, atys, depth, ret="int"):
        """A static-language function over the given argument types."""
        r = self.rng
        env = list(atys)
        nb = r.randint(1, 3 if depth > 0 else 2)
        used = []
        binds = []
        # mixing string and tuple addresses in one function breaks jit/vmap of its trace
        # (a known finding of C23); other properties keep one style per function
        tuple_style = r.random() < self.focus.get("tuple_addr", 0.15)
        for _ in range(nb):
            if used and r.random() < self.focus.get("dup_addr", 0.0):
                addr = list(r.choice(used))        # traced twice: must raise AddressReuse
            else:
                addr = self.fresh_addr(used, tuple_style)
            sub, satys, srty = self.any_prog(depth - 1) if depth > 0 and r.random() < 0.75 else self.leaf_prog()
            try:
                aes = [self.expr_of(env, t) for t in satys]
            except ValueError:
                sub, satys, srty = self.leaf_prog()
                aes = [self.expr_of(env, t) for t in satys]
            if sub[0] in ("switch", "orelse", "mask"):
                # index / flag expressions must stay in range: build them from 0/1 tests
                e1 = ["not", self.int_expr(env, need_dep=True)]
                if sub[0] == "switch" and len(sub) - 1 == 3:
                    e1 = ["add", e1, ["not", self.int_expr(env, need_dep=True)]]
                aes[0] = e1
            if sub[0] in ("masked_iterate", "masked_iterate_final") and satys[1][1] > 0:
                # step flags are 0/1
                aes[1] = ["stack"] + [["not", self.int_expr(env, need_dep=True)] for _ in range(satys[1][1])]
            if ret == "walk" and satys and satys[0] == INT and sub[0] == "dist":
                aes[0] = ["add", ["var", 0], aes[0]]       # the density reads the carry
            binds.append((addr, sub, aes))
            env.append(srty)
        if ret == "walk":
            # a scan kernel whose outputs do not read the carry (Scan.edit_index requires the next
            # iteration's return value to be unaffected) while its densities do: a random walk
            env2 = [UNIT] + env[1:]
            cexp = self.int_expr(env2, need_dep=True)
            if len(env) > len(atys) and env[len(atys)] == INT and r.random() < 0.8:
                cexp = ["add", ["var", len(atys)], cexp]      # the next carry moves with the first choice
            rexp = ["tup", cexp, self.int_expr(env2) if r.random() < 0.7 else ["tup"]]
        elif ret == "int":
            rexp = self.int_expr(env, need_dep=True)
        elif ret == "scan":          # (carry:int, y:int|unit)
            rexp = ["tup", self.int_expr(env, need_dep=True), self.int_expr(env) if r.random() < 0.7 else ["tup"]]
        else:
            rexp = self.expr_of(env, ret)
        body = ["ret", rexp]
        for addr, sub, aes in reversed(binds):
            body = ["bind", addr, sub, aes, body]
        return ["static", body]

    def fresh_addr(self, used, tuple_style=False):
        r = self.rng
        while True:
            a = [r.choice(NAMES), r.choice(NAMES)] if tuple_style else [r.choice(NAMES)]
            # tuple addresses must not collide with / extend existing ones
            if all(a != u and a[: len(u)] != u and u[: len(a)] != a for u in used):
                used.append(a)
                return a

    def leaf_prog(self):
        n = self.rng.choice([0, 1, 1, 2])
        p = self.int_prog(0, n)
        return p, [INT] * n, INT

    def any_prog(self, depth):
        """-> (ast, arg types, return type)"""
        r = self.rng
        if depth <= 0:
            return self.leaf_prog()
        kind = self.pick(["int", "vmap", "scan", "switch", "mask", "repeat", "orelse", "accumulate", "reduce",
                          "iterate", "iterate_final", "masked_iterate", "masked_iterate_final"]
                         + (["closure"] if self.focus.get("closure") else []))
        if kind == "closure":
            ns, na = r.randint(1, 2), r.randint(0, 2)
            inner = self.int_prog(depth - 1, ns + na)
            stored = [r.randint(-2, 3) for _ in range(ns)]
            return ["closure", inner, stored, na], [INT] * na, INT
        L = self.max_len
        if kind == "int":
            n = r.choice([0, 1, 1, 2, 3])
            return self.int_prog(depth, n), [INT] * n, INT
        if kind == "vmap" and r.random() < self.focus.get("axis1", 0.0):
            # in_axes = 1 on a matrix argument (mostly square, where slicing the wrong axis passes
            # every shape check); the kernel reads its column through `sum`
            n = self.length(1)
            m = n if r.random() < 0.7 else self.length(1)
            extra = r.choice([[], [INT], [INT]])
            inner = self.static([["arr", m, INT]] + extra, max(depth - 1, 0))
            axes = ["ax1"] + [r.random() < 0.5 for _ in extra]
            atys = [["arr", m, ["arr", n, INT]]] + [["arr", n, t] if ax else t for t, ax in zip(extra, axes[1:])]
            return ["vmap", inner, axes], atys, ["arr", n, INT]
        if kind == "vmap":
            inner, iat, irt = self.any_prog(depth - 1)
            if not iat:
                inner, iat, irt = self.int_prog(depth - 1, 1), [INT], INT
            n = self.length(0)
            def leafless(t):
                return t[0] == "unit" or (t[0] == "tup" and all(leafless(x) for x in t[1]))

            # an argument without array leaves has no axis to map (jax.vmap rejects it)
            axes = [(r.random() < 0.7) and not leafless(t) for t in iat]
            if not any(axes):
                cand = [k for k, t in enumerate(iat) if not leafless(t)]
                if not cand:
                    inner, iat, irt = self.int_prog(depth - 1, 1), [INT], INT
                    axes, cand = [False], [0]
                axes[r.choice(cand)] = True
            atys = [["arr", n, t] if ax else t for t, ax in zip(iat, axes)]
            return ["vmap", inner, axes], atys, ["arr", n, irt]
        if kind == "scan":
            withx = r.random() < 0.7
            n = self.length(0)
            kern = self.static([INT, INT if withx else UNIT], depth - 1,
                               ret="walk" if r.random() < self.focus.get("walk", 0.0) else "scan")
            krt = expr_type([], kern[1][-1][1]) if False else None
            rt, _ = infer(kern, [INT, INT if withx else UNIT])
            atys = [INT, ["arr", n, INT] if withx else UNIT]
            return ["scan", kern, "none" if withx and r.random() < 0.7 else n], atys, ["tup", [rt[1][0], ["arr", n, rt[1][1]]]]
        if kind == "switch":
            nb = r.choice([2, 2, 3])
            bs, ats = [], []
            for _ in range(nb):
                n = r.choice([0, 1, 2])
                bs.append(self.int_prog(depth - 1, n))
                ats.append(["tup", [INT] * n])
            return ["switch"] + bs, [INT] + ats, INT
        if kind == "mask":
            inner, iat, irt = self.any_prog(depth - 1)
            if irt[0] == "mask":      # Mask-of-Mask return values are outside the grammar
                inner, iat, irt = self.leaf_prog()
            rt = ["mask", irt]
            return ["mask", inner], [INT] + iat, rt
        if kind == "repeat":
            inner, iat, irt = self.any_prog(depth - 1)
            n = self.length(0)
            return ["repeat", inner, n], iat, ["arr", n, irt]
        if kind == "orelse":
            n1, n2 = r.choice([0, 1, 2]), r.choice([0, 1, 2])
            return (["orelse", self.int_prog(depth - 1, n1), self.int_prog(depth - 1, n2)],
                    [INT, ["tup", [INT] * n1], ["tup", [INT] * n2]], INT)
        if kind in ("accumulate", "reduce"):
            n = self.length(0) if kind == "accumulate" else self.length()
            f = self.int_prog(depth - 1, 2)
            return [kind, f], [INT, ["arr", n, INT]], (["arr", n + 1, INT] if kind == "accumulate" else INT)
        if kind in ("iterate", "iterate_final"):
            n = self.length(0)
            f = self.int_prog(depth - 1, 1)
            return [kind, f, n], [INT], (["arr", n + 1, INT] if kind == "iterate" else INT)
        if kind in ("masked_iterate", "masked_iterate_final"):
            n = self.length()
            f = self.int_prog(depth - 1, 1)
            return [kind, f], [INT, ["arr", n, INT]], (["arr", n + 1, INT] if kind == "masked_iterate" else INT)
        raise ValueError(kind)

    # ------------------------------------------------------------------ values
    def value(self, ty, role=None):
        r = self.rng
        k = ty[0]
        if k == "int":
            return r.randint(-2, 4)
        if k == "unit":
            return ["t"]
        if k == "tup":
            return ["t"] + [self.value(t) for t in ty[1]]
        if k == "arr":
            return ["a"] + [self.value(ty[2], role) for _ in range(ty[1])]
        if k == "mask":
            return ["m", r.choice(["T", "F"]), self.value(ty[1])]
        raise ValueError(ty)

    def args_for(self, prog, atys):
        """Argument values respecting the roles of the combinators the arguments reach directly
        (mask / or_else flags are 0/1, switch indices in range, masked-iteration flags), also through
        mask-of-switch nestings and under a vmap."""
        return ["t"] + self.role_values(prog, atys)

    def role_values(self, prog, atys, n=None):
        """n = None: scalars; n = k: every value is an array of k elements (we are under a vmap)."""
        r = self.rng

        def pick(hi):
            return r.randrange(hi) if n is None else ["a"] + [r.randrange(hi) for _ in range(n)]

        vals = [self.value(t) for t in atys]
        op = prog[0]
        if op == "switch":
            vals[0] = pick(len(prog) - 1)
            if n is None and r.random() < self.focus.get("oob", 0.0):
                vals[0] = r.choice([-2, -1, len(prog) - 1, len(prog)])     # documented: clamped
        elif op == "orelse":
            vals[0] = pick(2)
        elif op == "mask":
            vals[0] = pick(2) if r.random() < 0.7 else (1 if n is None else ["a"] + [1] * n)
            inner_t = atys[1:]
            vals[1:] = self.role_values(prog[1], inner_t, n) if n is None or all(t[0] == "arr" for t in inner_t) else vals[1:]
        elif op == "repeat":
            vals = self.role_values(prog[1], atys, n)
        elif op in ("masked_iterate", "masked_iterate_final") and n is None:
            m = atys[1][1]
            if r.random() < 0.6:      # the documented usage: a prefix of True flags
                k = r.randint(0, m)
                vals[1] = ["a"] + [1] * k + [0] * (m - k)
            else:
                vals[1] = ["a"] + [r.choice([0, 1]) for _ in range(m)]
        elif op == "vmap" and n is None and prog[1][0] in ("masked_iterate", "masked_iterate_final"):
            def bits(t):          # step flags are 0/1 whatever the batching
                if t[0] == "arr":
                    return ["a"] + [bits(t[2]) for _ in range(t[1])]
                return r.choice([0, 1])
            vals[1] = bits(atys[1])
        elif op == "vmap" and n is None and prog[1][0] in ("mask", "switch", "orelse"):
            inner = prog[1]
            if prog[2][0]:
                m = atys[0][1]
                hi = (len(inner) - 1) if inner[0] == "switch" else 2
                vals[0] = ["a"] + [r.randrange(hi) for _ in range(m)]
            else:
                vals[0] = r.randrange((len(inner) - 1) if inner[0] == "switch" else 2)
        return vals

    # ------------------------------------------------------------------ constraints and ops
    def constraint(self, universe, coverage=None, masked=0.0, bogus=0.0):
        r = self.rng
        cov = r.choice([0.0, 0.3, 0.6, 1.0]) if coverage is None else coverage
        c = []
        for p in universe:
            p = tuple(p)
            if any(q[: len(p)] == p or p[: len(q)] == q for q, _ in ((tuple(x[0]), 0) for x in c)):
                continue      # a value and a sub-map at one address cannot be merged
            sp = tuple(k for k in p if isinstance(k, str))
            if any(sq != sp and (sq[: len(sp)] == sp or sp[: len(sq)] == sq)
                   for sq in (tuple(k for k in x[0] if isinstance(k, str)) for x in c)):
                continue      # … nor across the elements of a vector combinator (stacked constraints)
            if r.random() < cov:
                v = r.randint(0, 3)
                if r.random() < masked:
                    v = ["m", r.choice(["T", "F"]), v]
                c.append([list(p), v])
        if r.random() < bogus:
            c.append([["zz"], 1])
        return c

    def selection(self, universe):
        r = self.rng
        statics = sorted({tuple(c for c in p if isinstance(c, str)) for p in universe})
        base = ["all", "none"]
        for s in statics:
            if s:
                base.append(["at"] + list(s))
                base.append(["at"] + list(s[:1]))
                if len(s) > 1:
                    base.append(["at", "..."] + list(s[1:]))
        k = r.random()
        a = r.choice(base)
        if k < 0.5:
            return a
        if k < 0.7:
            return ["not", a]
        b = r.choice(base)
        return [r.choice(["or", "and"]), a, b]


def has_node(p, kinds):
    if isinstance(p, list):
        if p and isinstance(p[0], str) and p[0] in kinds:
            return True
        return any(has_node(x, kinds) for x in p)
    return False


SWITCHY = ("switch", "orelse")
NO_REGEN = ("vmap", "switch", "mask", "repeat", "orelse", "masked_iterate", "masked_iterate_final")
NO_PROJECT = ("mask", "masked_iterate", "masked_iterate_final")
