"""C24 oracle table: for every distribution exported from
genjax._src.generative_functions.distributions.tensorflow_probability, an INDEPENDENT description
(written against the TFP documentation, never derived from the wrapper module):

    oracle   : (*positional, **keywords) -> tfd distribution, with TFP's documented parameter order
    names    : parameter names in positional order (for the keyword-vs-positional comparison);
               None for a slot that has no keyword form through the wrapper
    grid     : list of positional parameter tuples in the valid domain (python floats / lists)
    kwgrid   : optional list of keyword-only invocations (e.g. probs= for bernoulli)
    support  : (numpy value, {parameter name: numpy value}) -> bool
    heavy    : 0 | 1 | 2 - log_prob / sampler cost minutes of XLA compilation (hypergeometric / Bessel series,
               rejection loops): the sweep runs that many battery levels lower
    dtype    : 'float' | 'int' | 'bool'
    event    : event rank (0 scalar, 1 vector)
    batchable: derive a batched parameter set by stacking grid[0] and grid[1]
    sample_shape: whether to exercise sample_shape=(3,)

A wrapper that appears in the module without an entry here is reported in the evidence
(`ungridded`), not as a violation.
"""

from __future__ import annotations

import numpy as np


def _tfd():
    from tensorflow_probability.substrates import jax as tfp

    return tfp.distributions


def _bool_dtype():
    import jax.numpy as jnp

    return jnp.bool_


def _pos(v, p):
    return bool(np.all(v > 0))


def _nonneg(v, p):
    return bool(np.all(v >= 0))


def _real(v, p):
    return bool(np.all(np.isfinite(v)))


def _unit_open(v, p):
    return bool(np.all((v > 0) & (v < 1)))


def _unit_closed(v, p):
    return bool(np.all((v >= 0) & (v <= 1)))


def _is_int(v):
    return bool(np.all(np.equal(np.mod(v, 1), 0)))


def _count(v, p):
    return _is_int(v) and bool(np.all(v >= 0))


def _count_upto_first(v, p):
    return _count(v, p) and bool(np.all(v <= p["total_count"]))


def _simplex(v, p):
    return bool(np.all(v >= 0)) and bool(np.allclose(np.sum(v, axis=-1), 1.0, atol=1e-4))


def _sphere(v, p):
    return bool(np.allclose(np.sum(v * v, axis=-1), 1.0, atol=1e-4))


def _multinomial(v, p):
    return _count(v, p) and bool(np.allclose(np.sum(v, axis=-1), p["total_count"], atol=1e-4))


def table():
    tfd = _tfd()
    T = {}

    def add(name, oracle, names, grid, support, dtype="float", event=0, kwgrid=(), batchable=True,
            sample_shape=True, heavy=0):
        T[name] = dict(oracle=oracle, names=names, grid=grid, support=support, dtype=dtype, event=event,
                       kwgrid=list(kwgrid), batchable=batchable, sample_shape=sample_shape, heavy=heavy)

    # --- discrete, logits/probs families (a bare positional parameter means LOGITS, as documented)
    add("bernoulli", lambda logits=None, probs=None: tfd.Bernoulli(logits=logits, probs=probs),
        ("logits",), [(0.3,), (-1.2,), (2.0,)], lambda v, p: bool(np.all((v == 0) | (v == 1))), "int",
        kwgrid=[{"probs": 0.7}, {"probs": 0.2}, {"logits": 0.4}])
    add("flip", lambda p: tfd.Bernoulli(probs=p, dtype=_bool_dtype()), ("p",), [(0.3,), (0.8,), (0.5,)],
        lambda v, p: v.dtype == np.bool_, "bool")
    add("categorical", lambda logits=None, probs=None: tfd.Categorical(logits=logits, probs=probs),
        ("logits",), [([0.1, 0.5, -0.3],), ([1.0, 0.0, 2.0, -1.0],)],
        lambda v, p: _is_int(v) and bool(np.all((v >= 0) & (v < next(iter(p.values())).shape[-1]))), "int",
        kwgrid=[{"probs": [0.2, 0.3, 0.5]}, {"logits": [0.0, 1.0]}], batchable=False)
    add("geometric", lambda logits=None, probs=None: tfd.Geometric(logits=logits, probs=probs),
        ("logits",), [(0.3,), (-0.5,)], _count, "float", kwgrid=[{"probs": 0.4}])
    add("binomial", lambda total_count, logits=None, probs=None: tfd.Binomial(total_count, logits=logits, probs=probs),
        ("total_count", "logits"), [(10.0, 0.3), (5.0, -0.7)], _count_upto_first, "float",
        kwgrid=[{"total_count": 7.0, "probs": 0.4}])
    add("negative_binomial",
        lambda total_count, logits=None, probs=None: tfd.NegativeBinomial(total_count, logits=logits, probs=probs),
        ("total_count", "logits"), [(5.0, 0.3), (3.0, -0.4)], _count, "float",
        kwgrid=[{"total_count": 4.0, "probs": 0.4}])
    add("multinomial", lambda total_count, logits=None, probs=None: tfd.Multinomial(total_count, logits=logits, probs=probs),
        ("total_count", "logits"), [(6.0, [0.1, 0.5, -0.3]), (4.0, [1.0, 0.0])], _multinomial, "float", event=1,
        kwgrid=[{"total_count": 5.0, "probs": [0.2, 0.3, 0.5]}], batchable=False)
    add("poisson", lambda rate=None, log_rate=None: tfd.Poisson(rate=rate, log_rate=log_rate),
        ("rate",), [(3.0,), (0.7,)], _count, "float", kwgrid=[{"log_rate": 0.5}])
    add("beta_binomial", lambda total_count, concentration1, concentration0: tfd.BetaBinomial(total_count, concentration1, concentration0),
        ("total_count", "concentration1", "concentration0"), [(10.0, 2.0, 3.0), (6.0, 0.8, 1.5)], _count_upto_first, heavy=1)
    add("dirichlet_multinomial", lambda total_count, concentration: tfd.DirichletMultinomial(total_count, concentration),
        ("total_count", "concentration"), [(6.0, [1.0, 2.0, 3.0]), (4.0, [0.5, 0.7])], _multinomial, event=1,
        batchable=False)
    add("skellam", lambda rate1, rate2: tfd.Skellam(rate1, rate2), ("rate1", "rate2"), [(2.0, 3.0), (1.5, 0.5)],
        lambda v, p: _is_int(v), heavy=1)
    add("zipf", lambda power: tfd.Zipf(power), ("power",), [(2.5,), (3.0,)],
        lambda v, p: _is_int(v) and bool(np.all(v >= 1)), "int")

    # --- continuous scalar families
    add("normal", lambda loc, scale: tfd.Normal(loc, scale), ("loc", "scale"), [(0.5, 2.0), (-1.0, 0.3), (3.0, 1.0)], _real)
    add("cauchy", lambda loc, scale: tfd.Cauchy(loc, scale), ("loc", "scale"), [(0.5, 2.0), (-1.0, 0.3)], _real)
    add("laplace", lambda loc, scale: tfd.Laplace(loc, scale), ("loc", "scale"), [(0.5, 2.0), (-1.0, 0.3)], _real)
    add("gumbel", lambda loc, scale: tfd.Gumbel(loc, scale), ("loc", "scale"), [(0.5, 2.0), (-1.0, 0.3)], _real)
    add("moyal", lambda loc, scale: tfd.Moyal(loc, scale), ("loc", "scale"), [(0.5, 2.0), (-1.0, 0.3)], _real)
    add("double_sided_maxwell", lambda loc, scale: tfd.DoublesidedMaxwell(loc, scale), ("loc", "scale"),
        [(0.5, 2.0), (-1.0, 0.3)], _real)
    add("log_normal", lambda loc, scale: tfd.LogNormal(loc, scale), ("loc", "scale"), [(0.5, 0.7), (-1.0, 0.3)], _pos)
    add("logit_normal", lambda loc, scale: tfd.LogitNormal(loc, scale), ("loc", "scale"), [(0.5, 0.7), (-1.0, 0.3)], _unit_closed)
    add("half_cauchy", lambda loc, scale: tfd.HalfCauchy(loc, scale), ("loc", "scale"), [(0.5, 2.0), (-1.0, 0.3)],
        lambda v, p: bool(np.all(v >= p["loc"] - 1e-6)))
    add("half_normal", lambda scale: tfd.HalfNormal(scale), ("scale",), [(2.0,), (0.3,)], _nonneg)
    add("half_student_t", lambda df, loc, scale: tfd.HalfStudentT(df, loc, scale), ("df", "loc", "scale"),
        [(3.0, 0.5, 2.0), (5.0, -1.0, 0.3)], lambda v, p: bool(np.all(v >= p["loc"] - 1e-6)))
    add("student_t", lambda df, loc, scale: tfd.StudentT(df, loc, scale), ("df", "loc", "scale"),
        [(3.0, 0.5, 2.0), (5.0, -1.0, 0.3)], _real)
    add("lambert_w_normal", lambda loc, scale, tailweight: tfd.LambertWNormal(loc, scale, tailweight),
        ("loc", "scale", "tailweight"), [(0.5, 2.0, 0.2), (-1.0, 0.3, 0.1)], _real)
    add("exponential", lambda rate: tfd.Exponential(rate), ("rate",), [(2.0,), (0.3,)], _nonneg)
    add("gamma", lambda concentration, rate=None, log_rate=None: tfd.Gamma(concentration, rate, log_rate=log_rate),
        ("concentration", "rate"), [(2.0, 3.0), (0.7, 0.5)], _pos, kwgrid=[{"concentration": 2.0, "log_rate": 0.3}])
    add("exp_gamma", lambda concentration, rate=None, log_rate=None: tfd.ExpGamma(concentration, rate, log_rate=log_rate),
        ("concentration", "rate"), [(2.0, 3.0), (0.7, 0.5)], _real)
    add("inverse_gamma", lambda concentration, scale: tfd.InverseGamma(concentration, scale), ("concentration", "scale"),
        [(2.0, 3.0), (1.7, 0.5)], _pos)
    add("exp_inverse_gamma", lambda concentration, scale=None, log_scale=None: tfd.ExpInverseGamma(concentration, scale, log_scale=log_scale),
        ("concentration", "scale"), [(2.0, 3.0), (1.7, 0.5)], _real)
    add("inverse_gaussian", lambda loc, concentration: tfd.InverseGaussian(loc, concentration), ("loc", "concentration"),
        [(1.5, 3.0), (0.7, 0.5)], _pos)
    add("chi", lambda df: tfd.Chi(df), ("df",), [(3.0,), (1.5,)], _nonneg)
    add("chi2", lambda df: tfd.Chi2(df), ("df",), [(3.0,), (1.5,)], _nonneg)
    add("non_central_chi2", lambda df, noncentrality: tfd.NoncentralChi2(df, noncentrality), ("df", "noncentrality"),
        [(3.0, 1.0), (2.5, 0.5)], _nonneg, heavy=1)
    add("beta", lambda concentration1, concentration0: tfd.Beta(concentration1, concentration0),
        ("concentration1", "concentration0"), [(2.0, 3.0), (0.8, 1.5), (5.0, 1.2)], _unit_closed)  # float32 may round to an endpoint; a -inf log_prob is flagged separately
    add("kumaraswamy", lambda concentration1, concentration0: tfd.Kumaraswamy(concentration1, concentration0),
        ("concentration1", "concentration0"), [(2.0, 3.0), (0.8, 1.5)], _unit_closed)
    add("beta_quotient",
        lambda c1n, c0n, c1d, c0d: tfd.BetaQuotient(c1n, c0n, c1d, c0d),
        ("concentration1_numerator", "concentration0_numerator", "concentration1_denominator", "concentration0_denominator"),
        [(2.0, 3.0, 4.0, 5.0), (1.5, 2.5, 3.5, 1.2)], _pos, heavy=2)
    add("uniform", lambda low, high: tfd.Uniform(low, high), ("low", "high"), [(0.5, 2.0), (-1.0, -0.3), (-2.0, 3.0)],
        lambda v, p: bool(np.all((v >= p["low"]) & (v <= p["high"]))))
    add("truncated_normal", lambda loc, scale, low, high: tfd.TruncatedNormal(loc, scale, low, high),
        ("loc", "scale", "low", "high"), [(0.5, 2.0, -1.0, 1.5), (-1.0, 0.3, -1.2, 0.0)],
        lambda v, p: bool(np.all((v >= p["low"] - 1e-6) & (v <= p["high"] + 1e-6))))
    add("truncated_cauchy", lambda loc, scale, low, high: tfd.TruncatedCauchy(loc, scale, low, high),
        ("loc", "scale", "low", "high"), [(0.5, 2.0, -1.0, 1.5), (-1.0, 0.3, -1.2, 0.0)],
        lambda v, p: bool(np.all((v >= p["low"] - 1e-6) & (v <= p["high"] + 1e-6))))
    add("von_mises", lambda loc, concentration: tfd.VonMises(loc, concentration), ("loc", "concentration"),
        [(0.5, 2.0), (-1.0, 0.3)], lambda v, p: bool(np.all(np.abs(v) <= np.pi + 1e-5)))  # TFP wraps samples into [-pi, pi] whatever loc is
    add("weibull", lambda concentration, scale: tfd.Weibull(concentration, scale), ("concentration", "scale"),
        [(2.0, 3.0), (0.8, 0.5)], _nonneg)

    # --- vector-valued families
    add("dirichlet", lambda concentration: tfd.Dirichlet(concentration), ("concentration",),
        [([1.0, 2.0, 3.0],), ([0.5, 0.7],)], _simplex, event=1, batchable=False)
    add("mv_normal_diag", lambda loc, scale_diag: tfd.MultivariateNormalDiag(loc, scale_diag), ("loc", "scale_diag"),
        [([0.5, -1.0], [2.0, 0.3]), ([0.0, 1.0, 2.0], [1.0, 0.5, 0.2])], _real, event=1, batchable=False)
    add("mv_normal", lambda loc, covariance_matrix: tfd.MultivariateNormalFullCovariance(loc, covariance_matrix),
        ("loc", "covariance_matrix"),
        [([0.5, -1.0], [[2.0, 0.3], [0.3, 1.0]]), ([0.0, 1.0, 2.0], [[1.0, 0.1, 0.0], [0.1, 0.5, 0.05], [0.0, 0.05, 0.8]])],
        _real, event=1, batchable=False)
    add("power_spherical", lambda mean_direction, concentration: tfd.PowerSpherical(mean_direction, concentration),
        ("mean_direction", "concentration"), [([0.6, 0.8], 2.0), ([0.0, 0.6, 0.8], 0.7)], _sphere, event=1, batchable=False)
    add("von_mises_fisher", lambda mean_direction, concentration: tfd.VonMisesFisher(mean_direction, concentration),
        ("mean_direction", "concentration"), [([0.6, 0.8], 2.0), ([0.0, 0.6, 0.8], 0.7)], _sphere, event=1, batchable=False,
        heavy=1)
    return T
