/-
  Model H — the HMC edit request (`src/genjax/_src/inference/requests/hmc.py`) as it is
  written, next to the textbook leapfrog integrator.  Core Lean only (no Mathlib), so the
  driver links it.  Everything is generic in the scalar type `R` through the core
  operator classes; the driver instantiates `R := Rat`, the theorems in `Props/C28.lean`
  are stated for every `R` (structural facts) or every commutative ring (algebraic facts).

  Conventions
  * a vector is a `List R`; `vadd` is `zipWith (+)` (what `jtu.tree_map(lambda v, g: v + …)`
    does leaf by leaf once the selected leaves are flattened), `smul c` is `map (c * ·)`;
  * `g : List R → List R` is the gradient oracle of the LOG-DENSITY restricted to the selected
    coordinates (`selection_gradient` differentiates `gen_fn.assess`), i.e. `g = -∇U`;
    this is why the momentum half-steps ADD `(eps/2) * g`;
  * `half : R` stands for `1/2` (the code computes `self.eps / 2`, modelled `eps * half`).
-/
namespace GenjaxVerif.Leapfrog

section Generic
variable {R : Type}

/-- `jtu.tree_map(lambda a, b: a + b, …)` on flattened leaves. -/
def vadd [Add R] (a b : List R) : List R := List.zipWith (· + ·) a b

/-- scalar times vector. -/
def smul [Mul R] (c : R) (v : List R) : List R := v.map (c * ·)

/-- pointwise negation (momentum flip). -/
def vneg [Neg R] (v : List R) : List R := v.map (- ·)

/-- `jnp.sum`. -/
def vsum [Add R] [Zero R] : List R → R
  | [] => 0
  | x :: xs => x + vsum xs

/-- `Σ v_i²`. -/
def sqnorm [Add R] [Mul R] [Zero R] (v : List R) : R := vsum (v.map fun x => x * x)

/-- The scan carry of `HMC.edit.kernel` without the trace: `(values, gradient, momenta)`. -/
structure Carry (R : Type) where
  q : List R
  grad : List R
  p : List R
  deriving Repr, DecidableEq

/-- `HMC.edit.kernel` EXACTLY as written:
    ```
    trace, values, gradient, momenta = carry
    momenta = momenta + (eps/2) * gradient          -- gradient taken from the CARRY
    values  = values + eps * momenta
    values, gradients = selection_gradient(new_trace)  -- fresh gradient, bound to `gradients`
    momenta = momenta + (eps/2) * gradients
    return (new_trace, values, gradient, momenta)    -- returns the OLD `gradient`
    ``` -/
def kernelAsWritten [Add R] [Mul R] (half eps : R) (g : List R → List R) (c : Carry R) : Carry R :=
  let p1 := vadd c.p (smul (eps * half) c.grad)
  let q1 := vadd c.q (smul eps p1)
  let g1 := g q1
  let p2 := vadd p1 (smul (eps * half) g1)
  { q := q1, grad := c.grad, p := p2 }

/-- The one-token repair: the carry returns the freshly computed `gradients`. -/
def kernelRepaired [Add R] [Mul R] (half eps : R) (g : List R → List R) (c : Carry R) : Carry R :=
  let p1 := vadd c.p (smul (eps * half) c.grad)
  let q1 := vadd c.q (smul eps p1)
  let g1 := g q1
  let p2 := vadd p1 (smul (eps * half) g1)
  { q := q1, grad := g1, p := p2 }

/-- Textbook leapfrog step (Neal 2011, (5.18)–(5.20)) on `(q, p)`: momentum half-step with
    the gradient AT THE CURRENT POSITION, full position step, momentum half-step with the
    gradient at the new position.  (`g = -∇U`.) -/
def leapfrogSpec [Add R] [Mul R] (half eps : R) (g : List R → List R) (s : List R × List R) :
    List R × List R :=
  let p1 := vadd s.2 (smul (eps * half) (g s.1))
  let q1 := vadd s.1 (smul eps p1)
  let p2 := vadd p1 (smul (eps * half) (g q1))
  (q1, p2)

/-- Closed description of what the code computes: a leapfrog-shaped step whose FIRST
    half-step always uses the fixed vector `g0` (which the code initialises to `g q0`). -/
def staleStep [Add R] [Mul R] (half eps : R) (g : List R → List R) (g0 : List R)
    (s : List R × List R) : List R × List R :=
  let p1 := vadd s.2 (smul (eps * half) g0)
  let q1 := vadd s.1 (smul eps p1)
  let p2 := vadd p1 (smul (eps * half) (g q1))
  (q1, p2)

/-- `jax.lax.scan(kernel, init, xs, length=L)` on the carry: apply the kernel `L` times. -/
def iterate {α : Type} (f : α → α) : Nat → α → α
  | 0, c => c
  | n + 1, c => iterate f n (f c)

/-- Initial carry of the scan: `values, gradients = selection_gradient(selection, tr)`,
    `momenta = sample_momenta(…)`, `scan(kernel, (tr, values, gradients, momenta), …)`. -/
def initCarry (g : List R → List R) (q0 p0 : List R) : Carry R := { q := q0, grad := g q0, p := p0 }

def runAsWritten [Add R] [Mul R] (half eps : R) (g : List R → List R) (L : Nat) (q0 p0 : List R) : Carry R :=
  iterate (kernelAsWritten half eps g) L (initCarry g q0 p0)

def runRepaired [Add R] [Mul R] (half eps : R) (g : List R → List R) (L : Nat) (q0 p0 : List R) : Carry R :=
  iterate (kernelRepaired half eps g) L (initCarry g q0 p0)

def runSpec [Add R] [Mul R] (half eps : R) (g : List R → List R) (L : Nat) (q0 p0 : List R) : List R × List R :=
  iterate (leapfrogSpec half eps g) L (q0, p0)

/-- `normal_score(v)` for one coordinate: `Normal(0,1).log_prob(v) = lognorm - v²/2`,
    `lognorm = -log(2π)/2` kept as a parameter. -/
def normalScore [Add R] [Mul R] [Neg R] (half lognorm v : R) : R := lognorm + -(half * (v * v))

/-- `assess_momenta(momenta, mul)`: sum of `normal_score(mul * v)` over all coordinates. -/
def assessMomenta [Add R] [Mul R] [Neg R] [Zero R] (half lognorm mul : R) (p : List R) : R :=
  vsum (p.map fun v => normalScore half lognorm (mul * v))

/-- `alpha` as `HMC.edit` computes it:
    `final_model_score - original_model_score + final_momenta_score - original_momenta_score`,
    the final momenta assessed with `mul = -1`, the original ones with `mul = 1`. -/
def alphaCode [Add R] [Mul R] [Neg R] [Sub R] [Zero R] [One R] (half lognorm : R)
    (finalScore origScore : R) (pFinal pOrig : List R) : R :=
  finalScore - origScore + assessMomenta half lognorm (-1) pFinal - assessMomenta half lognorm 1 pOrig

/-- Hamiltonian `H(q, p) = U(q) + |p|²/2` with `U = -log p`; the model score of the trace
    at `q` is passed as `score`. -/
def hamiltonian [Add R] [Mul R] [Neg R] [Zero R] (half score : R) (p : List R) : R :=
  -score + half * sqnorm p

/-! ### Trace level: selected vs. unselected coordinates

  The trace's choices are a full vector `x`; `mask` marks the coordinates the selection
  covers.  `gather` = `chm.filter(selection)` flattened, `scatter` = `Update(values).edit`
  (selected coordinates replaced in order, every other coordinate kept). -/

/-- `trace.get_choices().filter(selection)` flattened. -/
def gather : List Bool → List R → List R
  | true :: m, x :: xs => x :: gather m xs
  | false :: m, _ :: xs => gather m xs
  | _, _ => []

/-- `Update(values).edit(key, trace, argdiffs)` on the choices: the selected coordinates
    take the new values, all other coordinates are kept. -/
def scatter : List Bool → List R → List R → List R
  | true :: m, _ :: xs, v :: q => v :: scatter m xs q
  | true :: m, x :: xs, [] => x :: scatter m xs []
  | false :: m, x :: xs, q => x :: scatter m xs q
  | [], xs, _ => xs
  | _ :: _, [], _ => []

/-- A differentiable model, reduced to what HMC uses: the score (`assess`) and its gradient
    as functions of the full choice vector. -/
structure Target (R : Type) where
  logp : List R → R
  grad : List R → List R

/-- `selection_gradient(selection, trace, argdiffs)`: `(values, gradients)` of the selected
    coordinates at the trace's current choices. -/
def selectionGradient (t : Target R) (mask : List Bool) (x : List R) : List R × List R :=
  (gather mask x, gather mask (t.grad x))

/-- The gradient oracle on the selected coordinates induced by a trace: put `q` into the
    selected coordinates of `x0`, differentiate the score, keep the selected part. -/
def selOracle (t : Target R) (mask : List Bool) (x0 : List R) : List R → List R :=
  fun q => gather mask (t.grad (scatter mask x0 q))

/-- The scan carry of `HMC.edit.kernel` including the trace (its full choice vector). -/
structure TCarry (R : Type) where
  x : List R
  q : List R
  grad : List R
  p : List R
  deriving Repr, DecidableEq

/-- `HMC.edit.kernel` with the trace threaded exactly as written (stale `gradient` returned).
    `fresh = true` gives the repaired kernel (returns `gradients`). -/
def kernelTrace [Add R] [Mul R] (fresh : Bool) (half eps : R) (t : Target R) (mask : List Bool)
    (c : TCarry R) : TCarry R :=
  let p1 := vadd c.p (smul (eps * half) c.grad)
  let q1 := vadd c.q (smul eps p1)
  let x1 := scatter mask c.x q1                       -- Update(values).edit(new_key, trace, argdiffs)
  let vg := selectionGradient t mask x1               -- values, gradients = selection_gradient(new_trace)
  let p2 := vadd p1 (smul (eps * half) vg.2)
  { x := x1, q := vg.1, grad := if fresh then vg.2 else c.grad, p := p2 }

/-- Observable result of `HMC.edit`: final choices, final momenta (not returned by the
    code, used for the energy), and the weight `alpha`. -/
structure Result (R : Type) where
  x : List R
  p : List R
  alpha : R
  score0 : R
  scoreL : R
  deriving Repr, DecidableEq

/-- `HMC(selection, eps, L).edit(key, tr, no_change)` with the sampled momenta `p0` given. -/
def hmcEdit [Add R] [Mul R] [Neg R] [Sub R] [Zero R] [One R] (fresh : Bool) (half lognorm eps : R)
    (t : Target R) (mask : List Bool) (L : Nat) (x0 p0 : List R) : Result R :=
  let origScore := t.logp x0                                   -- tr.get_score()
  let vg := selectionGradient t mask x0
  let fin := iterate (kernelTrace fresh half eps t mask) L { x := x0, q := vg.1, grad := vg.2, p := p0 }
  let finalScore := t.logp fin.x                               -- final_trace.get_score()
  { x := fin.x, p := fin.p, alpha := alphaCode half lognorm finalScore origScore fin.p p0,
    score0 := origScore, scoreL := finalScore }

/-- Reference: textbook leapfrog on the selected coordinates, everything else fixed, weight
    `H(start) - H(end)`. -/
def hmcSpec [Add R] [Mul R] [Neg R] [Sub R] [Zero R] (half eps : R)
    (t : Target R) (mask : List Bool) (L : Nat) (x0 p0 : List R) : Result R :=
  let fin := runSpec half eps (selOracle t mask x0) L (gather mask x0) p0
  let xL := scatter mask x0 fin.1
  { x := xL, p := fin.2,
    alpha := hamiltonian half (t.logp x0) p0 - hamiltonian half (t.logp xL) fin.2,
    score0 := t.logp x0, scoreL := t.logp xL }

/-! ### Quadratic targets (Gaussian models), used by the correspondence check -/

def dot [Add R] [Mul R] [Zero R] (a b : List R) : R := vsum (List.zipWith (· * ·) a b)

def matVec [Add R] [Mul R] [Zero R] (m : List (List R)) (x : List R) : List R := m.map fun row => dot row x

/-- `log p(x) = c0 - xᵀ P x / 2 + hᵀ x`, gradient `h - P x` (`P` symmetric). -/
def quadTarget [Add R] [Mul R] [Neg R] [Zero R] (half : R) (P : List (List R)) (h : List R) (c0 : R) :
    Target R :=
  { logp := fun x => c0 + -(half * dot x (matVec P x)) + dot h x,
    grad := fun x => vadd h (vneg (matVec P x)) }

end Generic

end GenjaxVerif.Leapfrog
