import GenjaxVerif.Model.Sel
/-
  Model C — choice maps (`ChoiceMap` and the classes `Static`, `Choice`, `Indexed`, `Switch`,
  `Or` in src/genjax/_src/core/generative/choice_map.py; `Mask.build`, `Mask.__or__`,
  `Mask.__getitem__`, `Mask.flatten` in functional_types.py; `FlagOp.and_` in staging.py).

  Two layers (DESIGN.md 3.4, 4-C):
    * representation: `Chm` with the `build` smart constructors, mirrored branch for branch,
      Python exceptions as `Except ChmErr`;
    * semantics: `CMap := Path → Option MV`, `denote : Chm → CMap`.

  Modelled value space: leaves are integer scalars or 1-D integer arrays, optionally under a
  `Mask` whose flag is a *scalar* (Python bool = `conc`, 0-d array/tracer = `dyn`).
  Outside the model: vectorised (per-element) mask flags, rank ≥ 2 leaves, slices, negative or
  out-of-range array indices (JAX clamps silently; the model reports `indexOutOfRange`).

  The recursive family {filter, mask, `|`, switch, get_inner_map} re-enters itself on *results*
  (e.g. `Switch.build` masks the already filtered branches), so it is defined by structural
  recursion on an explicit fuel argument; running out of fuel is the error `fuel`.  Every
  theorem is stated for an arbitrary fuel value and an `.ok` result.
  Core Lean only.
-/
namespace GenjaxVerif

/-- Python exceptions raised by the choice-map code, as an enum. -/
inductive ChmErr where
  | choiceVsNonChoice   -- "Choice and non-Choice in Or"
  | twoSwitches         -- "We can't currently handle two switches in an Or"
  | shapeMismatch       -- Mask._validate_mask_shapes ValueError
  | misaligned          -- indexing a scalar leaf / an index field (TypeError, IndexError)
  | indexOutOfRange     -- array index ≥ length (JAX clamps; outside the model)
  | switchIndex         -- IndexError of `list(chms)[idx]` for a Python-int index
  | fuel                -- model artefact, never produced with the fuel the driver supplies
  deriving DecidableEq, Repr, Inhabited

/-- Leaf payloads: an integer scalar or a 1-D integer array. -/
inductive Payload where
  | int (n : Int)
  | arr (ns : List Int)
  deriving DecidableEq, Repr, Inhabited

/-- What a `Choice` stores after `Choice.build`: a bare value or a `Mask` with a traced
    scalar flag (concrete flags are flattened away by `Choice.build`). -/
inductive Leaf where
  | plain (p : Payload)
  | masked (f : Bool) (p : Payload)
  deriving DecidableEq, Repr, Inhabited

/-- A flag argument (`Flag`): Python `bool` or a 0-d boolean array / tracer. -/
inductive FlagArg where
  | conc (b : Bool)
  | dyn (b : Bool)
  deriving DecidableEq, Repr, Inhabited

def FlagArg.val : FlagArg → Bool
  | conc b => b
  | dyn b => b

/-- A value handed to `ChoiceMap.choice` / `.set`: bare or `Mask(value, flag)`. -/
inductive RawLeaf where
  | val (p : Payload)
  | mask (f : FlagArg) (p : Payload)
  deriving DecidableEq, Repr, Inhabited

/-- Dynamic address component stored in an `Indexed`: Python int, 0-d array, 1-D array. -/
inductive IdxAddr where
  | conc (n : Nat)
  | dyn (n : Nat)
  | arr (ns : List Nat)
  deriving DecidableEq, Repr, Inhabited

/-- Index argument of `ChoiceMap.switch`: Python int or traced scalar. -/
inductive SwIdx where
  | conc (i : Int)
  | dyn (n : Nat)
  deriving DecidableEq, Repr, Inhabited

/-- Lookup path component: static string or (Python int) index. -/
inductive Comp where
  | s (x : String)
  | i (n : Nat)
  deriving DecidableEq, Repr, Inhabited

abbrev Path := List Comp

/-- Builder address component (`extend`, `entry`, `C[...]`). -/
inductive AddrC where
  | s (x : String)
  | ix (a : IdxAddr)
  deriving DecidableEq, Repr, Inhabited

inductive Chm where
  | stat (m : List (String × Chm))
  | choice (v : Leaf)
  | indexed (c : Chm) (a : IdxAddr)
  | switch (idx : Nat) (cs : List Chm)
  | or (a b : Chm)
  deriving Repr, Inhabited

/-- Canonical observed value: validity and payload (a bare value is valid). -/
structure MV where
  valid : Bool
  val : Payload
  deriving DecidableEq, Repr, Inhabited

namespace Chm

/-- `ChoiceMap.empty()` = `Static({})`. -/
def empty : Chm := stat []

/-- `static_is_empty`: only `Static` overrides the default `False`. -/
def staticIsEmpty : Chm → Bool
  | stat [] => true
  | _ => false

/-- Dict lookup in a `Static.mapping`. -/
def lookupC : List (String × Chm) → String → Option Chm
  | [], _ => none
  | (k, c) :: r, x => if x = k then some c else lookupC r x

/-- `Static.build`: drop the entries that are `static_is_empty` (the `unwrap` of nested
    `Static` into plain dicts is a storage detail undone by `get_inner_map`). -/
def mkStatic (es : List (String × Chm)) : Chm := stat (es.filter (fun e => !staticIsEmpty e.2))

/-- `Choice.build`. -/
def mkChoice : RawLeaf → Chm
  | .val (.arr []) => empty
  | .val p => choice (.plain p)
  | .mask (.conc false) _ => empty
  | .mask (.conc true) p => choice (.plain p)
  | .mask (.dyn b) p => choice (.masked b p)

/-- `Indexed.build` (slices are outside the model). -/
def mkIndexed (c : Chm) (a : IdxAddr) : Chm :=
  if staticIsEmpty c then c
  else match a with
    | .arr [] => empty
    | a => indexed c a

/-- `ChoiceMap.extend(*addrs)`: `for addr in reversed(addrs)`. -/
def extend (c : Chm) (addrs : List AddrC) : Chm :=
  addrs.foldr (fun a acc => match a with
    | .s x => mkStatic [(x, acc)]
    | .ix a => mkIndexed acc a) c

/-- Shape of a payload as compared by `Mask._validate_leaf_shapes`. -/
def _root_.GenjaxVerif.Payload.shape : Payload → Option Nat
  | .int _ => none
  | .arr ns => some ns.length

def _root_.GenjaxVerif.Leaf.payload : Leaf → Payload
  | .plain p => p
  | .masked _ p => p

/-- Canonical reading of a leaf. -/
def _root_.GenjaxVerif.Leaf.mv : Leaf → MV
  | .plain p => ⟨true, p⟩
  | .masked f p => ⟨f, p⟩

/-- `Mask.build(a) | Mask.build(b)` followed by `Choice.build` (in `Or.build`, case
    `(Choice(a), Choice(b))`), after the shape validation has passed.  A bare value is
    `Mask(v, True)`: `case True, _: return self`; otherwise `_or_idx` / `tree_choose`. -/
def orLeaf : Leaf → Leaf → Leaf
  | .plain p, _ => .plain p
  | .masked f p, .plain q => .masked true (if f then p else q)
  | .masked f p, .masked g q => .masked (if f then f else g) (if f then p else q)

/-- `Choice.filter(flag)` = `Choice.build(Mask.build(self.v, flag))`; `FlagOp.and_` of a Python
    bool with an array flag is an array flag. -/
def filterLeafFlag (l : Leaf) (f : FlagArg) : Chm :=
  match l with
  | .plain p => mkChoice (.mask f p)
  | .masked g p => choice (.masked (f.val && g) p)

/-- `v[n]` on a leaf (`Mask.__getitem__` keeps the scalar flag). -/
def sliceLeaf (n : Nat) : Leaf → Except ChmErr Leaf
  | .plain (.arr ns) => if h : n < ns.length then pure (.plain (.int ns[n])) else throw .indexOutOfRange
  | .masked f (.arr ns) => if h : n < ns.length then pure (.masked f (.int ns[n])) else throw .indexOutOfRange
  | _ => throw .misaligned

/-- `Mask.build(v[idx], check[idx])` on a leaf (array-addressed `Indexed.get_inner_map`). -/
def maskSliceLeaf (n : Nat) (found : Bool) : Leaf → Except ChmErr Leaf
  | .plain (.arr ns) => if h : n < ns.length then pure (.masked found (.int ns[n])) else throw .indexOutOfRange
  | .masked f (.arr ns) =>
    if h : n < ns.length then pure (.masked (found && f) (.int ns[n])) else throw .indexOutOfRange
  | _ => throw .misaligned

mutual
/-- `jtu.tree_map(lambda v: v[n], self, is_leaf=Mask)` (`Static/Choice.get_inner_map` on a
    dynamic component): every pytree leaf is indexed, including the `addr` of an `Indexed`
    and the `idx` of a `Switch` (scalars there raise). -/
def sliceAll (n : Nat) : Chm → Except ChmErr Chm
  | stat m => do pure (stat (← sliceAllL n m))
  | choice l => do pure (choice (← sliceLeaf n l))
  | indexed c a =>
    match a with
    | .arr ks => if h : n < ks.length then do pure (indexed (← sliceAll n c) (.dyn ks[n])) else throw .indexOutOfRange
    | _ => throw .misaligned
  | switch _ _ => throw .misaligned
  | or a b => do pure (or (← sliceAll n a) (← sliceAll n b))
def sliceAllL (n : Nat) : List (String × Chm) → Except ChmErr (List (String × Chm))
  | [] => pure []
  | (k, c) :: r => do pure ((k, ← sliceAll n c) :: (← sliceAllL n r))
end

mutual
/-- `jtu.tree_map(lambda v: Mask.build(v[idx], check[idx]), self.c, is_leaf=Mask)`. -/
def maskSliceAll (n : Nat) (found : Bool) : Chm → Except ChmErr Chm
  | stat m => do pure (stat (← maskSliceAllL n found m))
  | choice l => do pure (choice (← maskSliceLeaf n found l))
  | indexed _ _ => throw .misaligned
  | switch _ _ => throw .misaligned
  | or a b => do pure (or (← maskSliceAll n found a) (← maskSliceAll n found b))
def maskSliceAllL (n : Nat) (found : Bool) : List (String × Chm) → Except ChmErr (List (String × Chm))
  | [] => pure []
  | (k, c) :: r => do pure ((k, ← maskSliceAll n found c) :: (← maskSliceAllL n found r))
end

/-- `jnp.argwhere(addr == n, size=1, fill_value=0)[0, 0]`. -/
def argFirst (ks : List Nat) (n : Nat) : Nat := (ks.findIdx? (· == n)).getD 0

/-- Python list indexing with an `int` (negative indices wrap once). -/
def pyIndex {α} (l : List α) (i : Int) : Option α :=
  if 0 ≤ i then l[i.toNat]? else if -i ≤ l.length then l[(l.length : Int) + i |>.toNat]? else none

/-- Keys of `c2` not in `c1` (second half of `Static.merge_with`). -/
def restKeys (m1 m2 : List (String × Chm)) : List (String × Chm) :=
  m2.filter (fun e => (lookupC m1 e.1).isNone)

mutual
/-- `<Class>.filter(flag)` = `ChoiceMap.mask(flag)`. -/
def filterFlagF : Nat → Chm → FlagArg → Except ChmErr Chm
  | 0, _, _ => throw .fuel
  | n + 1, stat m, f => do
    let es ← m.mapM (fun e => do pure (e.1, ← filterFlagF n e.2 f))
    pure (mkStatic es)
  | _ + 1, choice l, f => pure (filterLeafFlag l f)
  | n + 1, indexed c a, f => do pure (mkIndexed (← filterFlagF n c f) a)
  | n + 1, switch idx cs, f => do
    let rs ← cs.mapM (fun c => filterFlagF n c f)
    mkSwitchF n (.dyn idx) rs
  | n + 1, or a b, f => do mkOrF n (← filterFlagF n a f) (← filterFlagF n b f)

/-- `Switch.build`. -/
def mkSwitchF : Nat → SwIdx → List Chm → Except ChmErr Chm
  | 0, _, _ => throw .fuel
  | _ + 1, .conc i, cs =>
    match pyIndex cs i with
    | some c => pure c
    | none => throw .switchIndex
  | n + 1, .dyn k, cs => do
    let rs ← cs.zipIdx.mapM (fun cj => filterFlagF n cj.1 (.dyn (cj.2 == k)))
    pure (switch k rs)

/-- `Or.build` (`|`, `merge`, `+`, `^`), the `match` arms in source order. -/
def mkOrF : Nat → Chm → Chm → Except ChmErr Chm
  | 0, _, _ => throw .fuel
  | n + 1, a, b =>
    if staticIsEmpty b then pure a
    else if staticIsEmpty a then pure b
    else match a, b with
      | stat m1, stat m2 => do
        -- Static.merge_with(or_, c1, c2)
        let l1 ← m1.mapM (fun e => match lookupC m2 e.1 with
          | some c2 => do pure (e.1, ← mkOrF n e.2 c2)
          | none => pure e)
        pure (mkStatic (l1 ++ restKeys m1 m2))
      | choice x, choice y =>
        if x.payload.shape = y.payload.shape then
          pure (match orLeaf x y with
            | .plain p => choice (.plain p)
            | .masked f p => choice (.masked f p))
        else throw .shapeMismatch
      | switch _ _, switch _ _ => throw .twoSwitches
      | switch i cs, b => do
        let rs ← cs.mapM (fun c => mkOrF n c b)
        mkSwitchF n (.dyn i) rs
      | a, switch i cs => do
        let rs ← cs.mapM (fun c => mkOrF n a c)
        mkSwitchF n (.dyn i) rs
      | choice _, _ => throw .choiceVsNonChoice
      | _, choice _ => throw .choiceVsNonChoice
      | a, b => pure (or a b)
end

/-- `<Class>.get_inner_map(addr)`. -/
def getInnerF : Nat → Chm → Comp → Except ChmErr Chm
  | 0, _, _ => throw .fuel
  | _ + 1, stat m, .s x => pure ((lookupC m x).getD empty)
  | _ + 1, stat m, .i n => sliceAll n (stat m)
  | _ + 1, choice _, .s _ => pure empty
  | _ + 1, choice l, .i n => sliceAll n (choice l)
  | _ + 1, indexed _ _, .s _ => pure empty
  | k + 1, indexed c a, .i n =>
    match a with
    | .conc j => filterFlagF k c (.conc (j == n))
    | .dyn j => filterFlagF k c (.dyn (j == n))
    | .arr ks => maskSliceAll (argFirst ks n) (ks.contains n) c
  | k + 1, switch idx cs, p => do pure (switch idx (← cs.mapM (fun c => getInnerF k c p)))
  | k + 1, or a b, p => do mkOrF k (← getInnerF k a p) (← getInnerF k b p)

/-- `get_submap(*addr)`: `functools.reduce(get_inner_map)`. -/
def getSubmapF (k : Nat) (c : Chm) : Path → Except ChmErr Chm
  | [] => pure c
  | x :: p => do getSubmapF k (← getInnerF k c x) p

/-- `<Class>.filter(selection)`. -/
def filterSelF : Nat → Chm → Sel → Except ChmErr Chm
  | 0, _, _ => throw .fuel
  | n + 1, stat m, s => do
    let es ← m.mapM (fun e => do pure (e.1, ← filterSelF n e.2 (Sel.sub s e.1)))
    pure (mkStatic es)
  | _ + 1, choice l, s => pure (if Sel.check s then choice l else empty)
  | n + 1, indexed c a, s => do pure (mkIndexed (← filterSelF n c s) a)
  | n + 1, switch idx cs, s => do
    let rs ← cs.mapM (fun c => filterSelF n c s)
    mkSwitchF n (.dyn idx) rs
  | n + 1, or a b, s => do mkOrF n (← filterSelF n a s) (← filterSelF n b s)

/-- `Mask.or_n` over `Mask.build(v)` of the non-`None` branch values (`Switch.get_value`);
    `none` = Python `None`. Shapes must agree. -/
def orLeaves : List Leaf → Except ChmErr (Option Leaf)
  | [] => pure none
  | l :: r => do
    match ← orLeaves r with
    | none => pure (some l)
    | some l' => if l.payload.shape = l'.payload.shape then pure (some (orLeaf l l')) else throw .shapeMismatch

mutual
/-- `<Class>.get_value()` (`None` = `none`). -/
def getValue : Chm → Except ChmErr (Option Leaf)
  | stat _ => pure none
  | choice l => pure (some l)
  | indexed _ _ => pure none
  | switch _ cs => do orLeaves (← getValues cs)
  | or _ _ => pure none
def getValues : List Chm → Except ChmErr (List Leaf)
  | [] => pure []
  | c :: r => do
    match ← getValue c with
    | none => getValues r
    | some l => do pure (l :: (← getValues r))
end

/-- `has_value`. -/
def hasValue (c : Chm) : Except ChmErr Bool := do pure (← getValue c).isSome

/-- `ChmSel(c)[q]` for `c.get_selection()`: `ChmSel.build` (`none` when `static_is_empty`),
    `get_subselection = get_inner_map(addr).get_selection()`, `check = has_value`. -/
def selMemF (k : Nat) (c : Chm) : List String → Except ChmErr Bool
  | [] => if staticIsEmpty c then pure false else hasValue c
  | x :: q => if staticIsEmpty c then pure false else do selMemF k (← getInnerF k c (.s x)) q

/-- `c.filter(d.get_selection())` (also `d & c`): `filter` driven by a `ChmSel`. -/
def filterChmF : Nat → Chm → Chm → Except ChmErr Chm
  | 0, _, _ => throw .fuel
  | n + 1, stat m, d => do
    let es ← m.mapM (fun e => do
      let d' ← if staticIsEmpty d then pure empty else getInnerF n d (.s e.1)
      pure (e.1, ← filterChmF n e.2 d'))
    pure (mkStatic es)
  | _ + 1, choice l, d => do
    let sel ← if staticIsEmpty d then pure false else hasValue d
    pure (if sel then choice l else empty)
  | n + 1, indexed c a, d => do pure (mkIndexed (← filterChmF n c d) a)
  | n + 1, switch idx cs, d => do
    let rs ← cs.mapM (fun c => filterChmF n c d)
    mkSwitchF n (.dyn idx) rs
  | n + 1, or a b, d => do mkOrF n (← filterChmF n a d) (← filterChmF n b d)

mutual
/-- `_shape_selection(chm)` (the threaded `selection` argument never influences the result). -/
def shapeSelection : Chm → Sel
  | stat m => shapeSelectionL m
  | choice _ => .leaf
  | indexed c _ => Sel.extend (shapeSelection c) [none]
  | switch _ cs => shapeSelectionS cs
  | or a b => Sel.mkOr (shapeSelection a) (shapeSelection b)
/-- `acc = none; for addr: acc |= loop(sub).extend(addr)`. -/
def shapeSelectionL : List (String × Chm) → Sel
  | [] => .none
  | (k, c) :: r => shapeSelAccL (Sel.mkOr .none (Sel.extend (shapeSelection c) [some k])) r
def shapeSelAccL : Sel → List (String × Chm) → Sel
  | acc, [] => acc
  | acc, (k, c) :: r => shapeSelAccL (Sel.mkOr acc (Sel.extend (shapeSelection c) [some k])) r
/-- `acc = loop(head); for chm in tail: acc |= loop(chm)`; an empty branch list is an
    `IndexError` in Python and never occurs (`none` here). -/
def shapeSelectionS : List Chm → Sel
  | [] => .none
  | c :: r => shapeSelAccS (shapeSelection c) r
def shapeSelAccS : Sel → List Chm → Sel
  | acc, [] => acc
  | acc, c :: r => shapeSelAccS (Sel.mkOr acc (shapeSelection c)) r
end

/-- `ChoiceMap.invalid_subset` given the shape choice map of `gen_fn.get_zero_trace(*args)`. -/
def invalidSubsetF (k : Nat) (c shape : Chm) : Except ChmErr (Option Chm) := do
  let extras ← filterSelF k c (Sel.mkCompl (shapeSelection shape))
  pure (if staticIsEmpty extras then none else some extras)

/-! ### Semantic layer -/

/-- The reference finite map: lookup path ↦ possibly masked value. -/
abbrev CMap := Path → Option MV

/-- Left-biased union of two lookups, a masked-off value counting as absent. -/
def orMV : Option MV → Option MV → Option MV
  | none, y => y
  | x, none => x
  | some a, some b => some (if a.valid then a else b)

/-- Conjoin a flag onto a looked-up value. -/
def andMV (f : Bool) : Option MV → Option MV
  | none => none
  | some a => some ⟨f && a.valid, a.val⟩

/-- Leading run of index components and the rest. -/
def splitIdx : Path → List Nat × Path
  | .i n :: p => let r := splitIdx p; (n :: r.1, r.2)
  | p => ([], p)

def idxPath (is : List Nat) : Path := is.map Comp.i

/-- Reading a leaf at a purely dynamic path (1-D arrays: at most one index). -/
def leafAt (l : Leaf) : List Nat → Option MV
  | [] => some l.mv
  | [n] => match l.payload with
    | .arr ns => if h : n < ns.length then some ⟨l.mv.valid, .int ns[n]⟩ else none
    | .int _ => none
  | _ => none

/-- Consume one index at an `Indexed` level (`Indexed.get_inner_map` on a dynamic
    component): equality for scalar addresses, `argwhere` for array addresses. -/
def firstIdx (is : List Nat) (p : Path) : Option (Nat × List Nat × Path) :=
  match is, p with
  | n :: is', p => some (n, is', p)
  | [], .i n :: q => some (n, [], q)
  | [], _ => none

mutual
/-- Denotation: `static address ↦ partial (possibly masked) array`.  `is` are index
    components already met that still have to be consumed — by the next `Indexed` level
    (positionally) or by the leading axis of the leaf — and `p` is the remaining path. -/
def den : Chm → List Nat → Path → Option MV
  | stat m, is, p =>
    match splitIdx p with
    | (js, .s x :: q) => denL m x (is ++ js) q
    | _ => none
  | choice l, is, p =>
    match splitIdx p with
    | (js, []) => leafAt l (is ++ js)
    | _ => none
  | indexed c a, is, p =>
    match firstIdx is p with
    | none => none
    | some (n, is', q) =>
      match a with
      | .conc j => if j = n then den c is' q else none
      | .dyn j => andMV (j == n) (den c is' q)
      | .arr ks => andMV (ks.contains n) (den c (argFirst ks n :: is') q)
  | switch _ cs, is, p => denS cs is p
  | or a b, is, p => orMV (den a is p) (den b is p)
def denL : List (String × Chm) → String → List Nat → Path → Option MV
  | [], _, _, _ => none
  | (k, c) :: r, x, is, q => if x = k then den c is q else denL r x is q
def denS : List Chm → List Nat → Path → Option MV
  | [], _, _ => none
  | c :: r, is, p => orMV (den c is p) (denS r is p)
end

/-- `denote : Chm → CMap`. -/
def denote (c : Chm) : CMap := fun p => den c [] p

/-- The static part of a lookup path. -/
def statics : Path → List String
  | [] => []
  | .s x :: p => x :: statics p
  | .i _ :: p => statics p

mutual
/-- Static addresses at which the map holds a leaf (index levels transparent, all switch
    branches, both sides of an `Or`). -/
def addrs : Chm → List (List String)
  | stat m => addrsL m
  | choice _ => [[]]
  | indexed c _ => addrs c
  | switch _ cs => addrsS cs
  | or a b => addrs a ++ addrs b
def addrsL : List (String × Chm) → List (List String)
  | [] => []
  | (k, c) :: r => (addrs c).map (k :: ·) ++ addrsL r
def addrsS : List Chm → List (List String)
  | [] => []
  | c :: r => addrs c ++ addrsS r
end

mutual
/-- Only `Static` and `Choice` nodes (the static-address fragment). -/
def staticOnly : Chm → Bool
  | stat m => staticOnlyL m
  | choice _ => true
  | _ => false
def staticOnlyL : List (String × Chm) → Bool
  | [] => true
  | (_, c) :: r => staticOnly c && staticOnlyL r
end

def keys (m : List (String × Chm)) : List String := m.map (·.1)

mutual
/-- Representation invariant of built maps: dict keys are unique and no entry of a `Static`
    is `static_is_empty` (what `Static.build` guarantees), hereditarily. -/
def wf : Chm → Bool
  | stat m => wfL m
  | choice _ => true
  | indexed c _ => wf c && !staticIsEmpty c
  | switch _ cs => wfS cs
  | or a b => wf a && wf b
def wfL : List (String × Chm) → Bool
  | [] => true
  | (k, c) :: r => wf c && !staticIsEmpty c && !(keys r).contains k && wfL r
def wfS : List Chm → Bool
  | [] => true
  | c :: r => wf c && wfS r
end

/-- Default fuel of the public (un-suffixed) operations: far above any recursion depth met. -/
def defaultFuel : Nat := 1000

end Chm

/-! ### Builder expressions (the public construction grammar) -/

/-- Builder expressions over the public API.  `kw`/`d`/`from_mapping` fold `acc |= entry(v, k)`;
    `C[addrs].set(e)` is `entry e addrs`; `e.at[addrs].set(v)` is `entry(v, addrs) | e`;
    a `jax.vmap`-ed builder `lambda i, v: C[pre…, i, post…].set(v)` is `entry` with an array
    index and an array leaf. -/
inductive ChmExpr where
  | empty
  | choice (v : RawLeaf)
  | kw (es : List (List AddrC × ChmExpr))
  | entry (e : ChmExpr) (addrs : List AddrC)
  | or (a b : ChmExpr)
  | mask (e : ChmExpr) (f : FlagArg)
  | filter (e : ChmExpr) (s : Sel)
  | filterChm (e d : ChmExpr)
  | switch (i : SwIdx) (es : List ChmExpr)
  | sub (e : ChmExpr) (p : Path)
  | atSet (e : ChmExpr) (addrs : List AddrC) (v : ChmExpr)
  deriving Repr, Inhabited

namespace ChmExpr
open Chm

mutual
/-- Evaluate a builder expression with the model's smart constructors. -/
def evalF (k : Nat) : ChmExpr → Except ChmErr Chm
  | empty => pure Chm.empty
  | choice v => pure (mkChoice v)
  | kw es => evalKw k Chm.empty es
  | entry e addrs => do pure (extend (← evalF k e) addrs)
  | or a b => do mkOrF k (← evalF k a) (← evalF k b)
  | mask e f => do filterFlagF k (← evalF k e) f
  | filter e s => do filterSelF k (← evalF k e) s
  | filterChm e d => do filterChmF k (← evalF k e) (← evalF k d)
  | switch i es => do mkSwitchF k i (← evalList k es)
  | sub e p => do getSubmapF k (← evalF k e) p
  | atSet e addrs v => do mkOrF k (extend (← evalF k v) addrs) (← evalF k e)
def evalKw (k : Nat) : Chm → List (List AddrC × ChmExpr) → Except ChmErr Chm
  | acc, [] => pure acc
  | acc, (a, e) :: r => do evalKw k (← mkOrF k acc (extend (← evalF k e) a)) r
def evalList (k : Nat) : List ChmExpr → Except ChmErr (List Chm)
  | [] => pure []
  | e :: r => do pure ((← evalF k e) :: (← evalList k r))
end

end ChmExpr
end GenjaxVerif
