/-
  Model J — pytrees and `Diff`
  (src/genjax/_src/core/pytree.py, src/genjax/_src/core/compiler/interpreters/incremental.py).

  A pytree is a rose tree.  What JAX's registry sees of a Python object is
    leaf a                     an unregistered object (int / array): a traced leaf
    node tag static kids       a registered container: `tag` = class, `static` = the node's
                               aux data (dict keys, dataclass static fields), `kids` = children
    tan c                      the singletons `NoChange` / `UnknownChange`: Pytree dataclasses
                               without fields, i.e. nodes with no children (never leaves)
    diff primal tangent        `Diff(primal, tangent)`: a Pytree dataclass with two data fields
  `tan` and `diff` are ordinary nodes for flatten / tree_map; they get their own constructors only
  because the `Diff.*` helpers recognise them with `isinstance` (`is_leaf=Diff.is_diff`, …).
  The tangent field of `diff` is a tree, not a `Change`: `Diff.__init__` type-checks it
  (beartype, `mkDiff`), but `tree_unflatten` does not, so `jtu.tree_map(lambda _: NoChange,
  Diff(1, UnknownChange))` really is `Diff(NoChange, UnknownChange)`.

  Python function ↦ definition
    jtu.tree_leaves(t)                          leaves
    jtu.tree_structure(t) / Pytree.treedef      shape            (a `PT Unit`)
    jtu.tree_flatten(t)                         flatten
    jtu.tree_unflatten(td, xs)                  unflatten        (ValueError ↦ Err.leafCount)
    jtu.tree_map(f, t)                          bind / mapLeaves
    jtu.tree_map(f, t, is_leaf=p)               mapUpTo p f
    jtu.tree_leaves(t, is_leaf=p)               leavesUpTo p
    Diff.is_diff / Diff.is_change_tangent       isDiff / isChangeTangent
    Diff(p, t)  (type-checked constructor)      mkDiff
    Diff.tree_diff                              treeDiff
    Diff.tree_primal / Diff.tree_tangent        treePrimal / treeTangent
    Diff.no_change / Diff.unknown_change        noChange / unknownChange
    Diff.static_check_tree_diff                 staticCheckTreeDiff
    Diff.static_check_no_change                 staticCheckNoChange
    tuple / list / None / dict                  mkTuple / mkList / mkNone / mkDict
    Pytree.dataclass + Pytree.static / field    Field, mkData   (penzai `Struct.tree_flatten`)
    Const(v) / Closure(dyn_args, fn)            mkConst / mkClosure
    nth(t, i)  (and the per-example view of vmap)   nth
    jit / vmap boundary of the identity         boundary  (flatten, rebuild from the traced leaves)
  Core Lean only.
-/
namespace GenjaxVerif

/-- The two `ChangeTangent` singletons `NoChange`, `UnknownChange`. -/
inductive Change where
  | no
  | unknown
  deriving DecidableEq, Repr, Inhabited

inductive PT (α : Type) where
  | leaf (a : α)
  | node (tag : String) (static : List String) (kids : List (PT α))
  | tan (c : Change)
  | diff (primal tangent : PT α)
  deriving Repr, Inhabited

namespace PT

/-- Python exceptions of this slice as an enum: `ValueError` of `flatten_up_to` (structure
    mismatch between the trees of a multi-tree `tree_map`), beartype `TypeError` of `Diff.__init__`,
    `ValueError` of `tree_unflatten` (too few / too many leaves). -/
inductive Err where
  | structure
  | typeError
  | leafCount
  deriving DecidableEq, Repr, Inhabited

variable {α β : Type}

/-- `Diff.is_diff`: `isinstance(v, Diff)`. -/
def isDiff : PT α → Bool
  | diff _ _ => true
  | _ => false

/-- `Diff.is_change_tangent`: `isinstance(v, ChangeTangent)`. -/
def isChangeTangent : PT α → Bool
  | tan _ => true
  | _ => false

/-- `isinstance(leaf, _NoChange)`. -/
def isNoChange : PT α → Bool
  | tan .no => true
  | _ => false

/-! ### flatten / unflatten -/

mutual
/-- `jtu.tree_leaves(t)`: depth-first, left to right; static data contributes nothing. -/
def leaves : PT α → List α
  | leaf a => [a]
  | node _ _ kids => leavesL kids
  | tan _ => []
  | diff p t => leaves p ++ leaves t
def leavesL : List (PT α) → List α
  | [] => []
  | k :: ks => leaves k ++ leavesL ks
end

mutual
/-- `jtu.tree_map(f, t)` where `f` may return a whole tree for each leaf. -/
def bind (f : α → PT β) : PT α → PT β
  | leaf a => f a
  | node tag st kids => node tag st (bindL f kids)
  | tan c => tan c
  | diff p t => diff (bind f p) (bind f t)
def bindL (f : α → PT β) : List (PT α) → List (PT β)
  | [] => []
  | k :: ks => bind f k :: bindL f ks
end

/-- `jtu.tree_map(f, t)` for a leaf-valued `f`. -/
def mapLeaves (f : α → β) (t : PT α) : PT β := bind (fun a => leaf (f a)) t

/-- `jtu.tree_structure(t)`: the tree with every leaf forgotten (the `PyTreeDef`, which keeps
    tags and static data). -/
def shape (t : PT α) : PT Unit := mapLeaves (fun _ => ()) t

/-- `jtu.tree_flatten(t)`. -/
def flatten (t : PT α) : List α × PT Unit := (leaves t, shape t)

mutual
/-- Rebuild a tree of shape `td` from a stream of leaves, returning the unused rest. -/
def fill : PT Unit → List α → Option (PT α × List α)
  | leaf _, xs =>
    match xs with
    | [] => none
    | x :: r => some (leaf x, r)
  | node tag st kids, xs =>
    match fillL kids xs with
    | none => none
    | some (ks, r) => some (node tag st ks, r)
  | tan c, xs => some (tan c, xs)
  | diff p t, xs =>
    match fill p xs with
    | none => none
    | some (p', r) =>
      match fill t r with
      | none => none
      | some (t', r') => some (diff p' t', r')
def fillL : List (PT Unit) → List α → Option (List (PT α) × List α)
  | [], xs => some ([], xs)
  | k :: ks, xs =>
    match fill k xs with
    | none => none
    | some (k', r) =>
      match fillL ks r with
      | none => none
      | some (ks', r') => some (k' :: ks', r')
end

/-- `jtu.tree_unflatten(td, xs)`; too few or too many leaves is a `ValueError`. -/
def unflatten (td : PT Unit) (xs : List α) : Except Err (PT α) :=
  match fill td xs with
  | some (t, []) => .ok t
  | _ => .error .leafCount

/-- What crosses a `jax.jit` / `jax.vmap` boundary for the identity function: the tree is
    flattened, only the leaves are traced (`tracedInputs`), the treedef (tags + static data) is a
    compile-time constant, and the result is rebuilt from the traced leaves. -/
def boundary (t : PT α) : Except Err (PT α) := unflatten (flatten t).2 (flatten t).1

/-- Number of traced inputs of `jax.make_jaxpr(lambda t: t)(t)`. -/
def tracedInputs (t : PT α) : Nat := (leaves t).length

/-! ### tree_map / tree_leaves with an `is_leaf` predicate -/

mutual
/-- `jtu.tree_map(f, t, is_leaf=p)`: `p` is asked at every node before the registry. -/
def mapUpTo (p : PT α → Bool) (f : PT α → PT α) : PT α → PT α
  | leaf a => f (leaf a)
  | node tag st kids => if p (node tag st kids) then f (node tag st kids) else node tag st (mapUpToL p f kids)
  | tan c => if p (tan c) then f (tan c) else tan c
  | diff q t => if p (diff q t) then f (diff q t) else diff (mapUpTo p f q) (mapUpTo p f t)
def mapUpToL (p : PT α → Bool) (f : PT α → PT α) : List (PT α) → List (PT α)
  | [] => []
  | k :: ks => mapUpTo p f k :: mapUpToL p f ks
end

mutual
/-- `jtu.tree_leaves(t, is_leaf=p)`. -/
def leavesUpTo (p : PT α → Bool) : PT α → List (PT α)
  | leaf a => [leaf a]
  | node tag st kids => if p (node tag st kids) then [node tag st kids] else leavesUpToL p kids
  | tan c => if p (tan c) then [tan c] else []
  | diff q t => if p (diff q t) then [diff q t] else leavesUpTo p q ++ leavesUpTo p t
def leavesUpToL (p : PT α → Bool) : List (PT α) → List (PT α)
  | [] => []
  | k :: ks => leavesUpTo p k ++ leavesUpToL p ks
end

/-! ### the `Diff` helpers -/

/-- `Diff(p, t)`: the dataclass constructor; beartype rejects a `tangent` that is not a
    `ChangeTangent` instance with a `TypeError`. -/
def mkDiff (p t : PT α) : Except Err (PT α) :=
  if isChangeTangent t then .ok (diff p t) else .error .typeError

/-- Combine the outcomes of two sub-traversals of a multi-tree `tree_map`: `flatten_up_to`
    (structure errors) runs over the whole tree before the mapped function (type errors) is
    called on any leaf, so a structure error anywhere wins. -/
def both {γ δ : Type} (x : Except Err γ) (y : Except Err δ) : Except Err (γ × δ) :=
  match x, y with
  | .ok a, .ok b => .ok (a, b)
  | .error e, .ok _ => .error e
  | .ok _, .error e => .error e
  | .error e, .error e' => .error (if e' = .structure then .structure else e)

mutual
/-- `Diff.tree_diff(tree, tangent_tree)` = `jtu.tree_map(lambda p, t: Diff(p, t), tree, tangent_tree)`:
    the second tree is flattened *up to* the first (same tags, static data and arities above the
    first tree's leaves; whatever sits at a leaf position is taken whole). -/
def treeDiff : PT α → PT α → Except Err (PT α)
  | leaf a, s => mkDiff (leaf a) s
  | node tag st kids, s =>
    match s with
    | node tag' st' kids' =>
      if tag = tag' ∧ st = st' then
        match treeDiffL kids kids' with
        | .ok ks => .ok (node tag st ks)
        | .error e => .error e
      else .error .structure
    | _ => .error .structure
  | tan c, s =>
    match s with
    | tan c' => if c = c' then .ok (tan c) else .error .structure
    | _ => .error .structure
  | diff q t, s =>
    match s with
    | diff q' t' =>
      match both (treeDiff q q') (treeDiff t t') with
      | .ok (a, b) => .ok (diff a b)
      | .error e => .error e
    | _ => .error .structure
def treeDiffL : List (PT α) → List (PT α) → Except Err (List (PT α))
  | [], s =>
    match s with
    | [] => .ok []
    | _ :: _ => .error .structure
  | k :: ks, s =>
    match s with
    | [] => .error .structure
    | k' :: ks' =>
      match both (treeDiff k k') (treeDiffL ks ks') with
      | .ok (a, b) => .ok (a :: b)
      | .error e => .error e
end

/-- `_inner` of `Diff.tree_primal`. -/
def primalOf : PT α → PT α
  | diff q _ => q
  | v => v

/-- `_inner` of `Diff.tree_tangent` (a non-`Diff` leaf counts as `NoChange`). -/
def tangentOf : PT α → PT α
  | diff _ t => t
  | _ => tan .no

/-- `Diff.tree_primal(v)` = `jtu.tree_map(_inner, v, is_leaf=Diff.is_diff)`. -/
def treePrimal (v : PT α) : PT α := mapUpTo isDiff primalOf v

/-- `Diff.tree_tangent(v)`. -/
def treeTangent (v : PT α) : PT α := mapUpTo isDiff tangentOf v

/-- `Diff.no_change` / `Diff.unknown_change` share this body:
    `p = tree_primal(tree); tree_diff(p, jtu.tree_map(lambda _: c, p))`. -/
def retag (c : Change) (tree : PT α) : Except Err (PT α) :=
  let primalTree := treePrimal tree
  let tangentTree := bind (fun _ => (tan c : PT α)) primalTree
  treeDiff primalTree tangentTree

/-- `Diff.no_change(tree)`. -/
def noChange (tree : PT α) : Except Err (PT α) := retag .no tree

/-- `Diff.unknown_change(tree)`. -/
def unknownChange (tree : PT α) : Except Err (PT α) := retag .unknown tree

/-- `Diff.static_check_tree_diff(v)`. -/
def staticCheckTreeDiff (v : PT α) : Bool := (leavesUpTo isDiff v).all isDiff

/-- `Diff.static_check_no_change(v)`. -/
def staticCheckNoChange (v : PT α) : Bool :=
  (leavesUpTo isChangeTangent (treeTangent v)).all isNoChange

/-! ### how Python objects become nodes -/

/-- `(a, b, …)`. -/
def mkTuple (ks : List (PT α)) : PT α := node "tuple" [] ks
/-- `[a, b, …]`. -/
def mkList (ks : List (PT α)) : PT α := node "list" [] ks
/-- `None`: a node without children (not a leaf). -/
def mkNone : PT α := node "None" [] []

/-- Insert into a key-sorted association list (stable). -/
def insertKV (kv : String × PT α) : List (String × PT α) → List (String × PT α)
  | [] => [kv]
  | x :: xs => if kv.1 < x.1 then kv :: x :: xs else x :: insertKV kv xs

/-- Sort dict items by key, as JAX's dict flattening does. -/
def sortKV (kvs : List (String × PT α)) : List (String × PT α) := kvs.foldr insertKV []

/-- `{k: v, …}`: children in sorted-key order, the sorted keys are the node data. -/
def mkDict (kvs : List (String × PT α)) : PT α :=
  node "dict" ((sortKV kvs).map (·.1)) ((sortKV kvs).map (·.2))

/-- A field of a `Pytree.dataclass` instance in declaration order: declared with
    `Pytree.static()` (metadata `pytree_node=False`) or `Pytree.field()` / no annotation. -/
inductive Field (α : Type) where
  | static (name : String) (val : String)
  | dyn (name : String) (val : PT α)

/-- Children of `Struct.tree_flatten`: the values of the non-static fields. -/
def dynKids : List (Field α) → List (PT α)
  | [] => []
  | .static _ _ :: fs => dynKids fs
  | .dyn _ v :: fs => v :: dynKids fs

/-- `child_field_names` of `StructStaticMetadata`. -/
def dynNames : List (Field α) → List String
  | [] => []
  | .static _ _ :: fs => dynNames fs
  | .dyn n _ :: fs => n :: dynNames fs

/-- `static_fields` of `StructStaticMetadata`, as `name=value` strings. -/
def staticPairs : List (Field α) → List String
  | [] => []
  | .static n v :: fs => (n ++ "=" ++ v) :: staticPairs fs
  | .dyn _ _ :: fs => staticPairs fs

/-- An instance of a `Pytree.dataclass` class `cls` (penzai `Struct.tree_flatten`): children are
    the dynamic fields, aux data is `StructStaticMetadata(child_field_names, static_fields)`. -/
def mkData (cls : String) (fs : List (Field α)) : PT α :=
  node cls (dynNames fs ++ "|" :: staticPairs fs) (dynKids fs)

/-- `Const(v)` = dataclass with the single static field `val`. -/
def mkConst (v : String) : PT α := mkData "Const" [.static "val" v]

/-- `Closure(dyn_args, fn)`: `dyn_args` is a dynamic tuple, `fn` is static. -/
def mkClosure (fn : String) (args : List (PT α)) : PT α :=
  mkData "Closure" [.dyn "dyn_args" (mkTuple args), .static "fn" fn]

/-- `nth(t, i)` = `jtu.tree_map(lambda v: v[i], t)`; also example `i` of a batched tree under
    `vmap`.  An index outside a leaf is `none`. -/
def nth (i : Nat) (t : PT (List α)) : PT (Option α) := mapLeaves (fun v => v[i]?) t

/-! ### specification-side notions used by the theorems (not mirrors of code) -/

mutual
/-- No `Diff` anywhere. -/
def noDiff : PT α → Bool
  | leaf _ => true
  | node _ _ kids => noDiffL kids
  | tan _ => true
  | diff _ _ => false
def noDiffL : List (PT α) → Bool
  | [] => true
  | k :: ks => noDiff k && noDiffL ks
end

mutual
/-- A plain value tree: no `Diff` and no `ChangeTangent` anywhere. -/
def plain : PT α → Bool
  | leaf _ => true
  | node _ _ kids => plainL kids
  | tan _ => false
  | diff _ _ => false
def plainL : List (PT α) → Bool
  | [] => true
  | k :: ks => plain k && plainL ks
end

mutual
/-- `Diff`s are used as documented ("only as leaves of an outer pytree … no nested Diff
    instances"): a tree of containers whose `Diff`s each pair a plain value tree with a
    `ChangeTangent`; no change tangent stands on its own. -/
def flatDiff : PT α → Bool
  | leaf _ => true
  | node _ _ kids => flatDiffL kids
  | tan _ => false
  | diff q t => plain q && isChangeTangent t
def flatDiffL : List (PT α) → Bool
  | [] => true
  | k :: ks => flatDiff k && flatDiffL ks
end

mutual
/-- Every outermost `Diff` carries a `ChangeTangent` in its tangent field (what the type-checked
    constructor guarantees); nested `Diff`s and free tangents are allowed. -/
def typedTangents : PT α → Bool
  | leaf _ => true
  | node _ _ kids => typedTangentsL kids
  | tan _ => true
  | diff _ t => isChangeTangent t
def typedTangentsL : List (PT α) → Bool
  | [] => true
  | k :: ks => typedTangents k && typedTangentsL ks
end

mutual
/-- The change tangents a tree carries at its frontier: the tangent field of every outermost
    `Diff`, and every `ChangeTangent` standing on its own. -/
def frontierTangents : PT α → List (PT α)
  | leaf _ => []
  | node _ _ kids => frontierTangentsL kids
  | tan c => [tan c]
  | diff _ t => [t]
def frontierTangentsL : List (PT α) → List (PT α)
  | [] => []
  | k :: ks => frontierTangents k ++ frontierTangentsL ks
end

mutual
/-- The tangent field of every `Diff` anywhere in the tree (also inside primals) and every free
    `ChangeTangent`. -/
def allTangents : PT α → List (PT α)
  | leaf _ => []
  | node _ _ kids => allTangentsL kids
  | tan c => [tan c]
  | diff q t => allTangents q ++ [t]
def allTangentsL : List (PT α) → List (PT α)
  | [] => []
  | k :: ks => allTangents k ++ allTangentsL ks
end

/-- `Diff(a, c)` around every leaf: what `no_change` / `unknown_change` produce from a primal tree. -/
def wrap (c : Change) (t : PT α) : PT α := bind (fun a => diff (leaf a) (tan c)) t

end PT
end GenjaxVerif
