/-
  Model G (+ the part of F it needs) — the inference algebra of
    src/genjax/_src/inference/sp.py            Target, SampleDistribution, Marginal
    src/genjax/_src/inference/smc.py           ParticleCollection, Importance, ImportanceK,
                                               ChangeTarget, SMCAlgorithm.random_weighted/…
    src/genjax/_src/inference/requests/rejuvenate.py   Rejuvenate.edit
  written over an ABSTRACT generative-function interface `GF` (a record of pure functions),
  with the key handling of the Python code (keys are paths of naturals:
  `jax.random.split(k, n)[i] = fold_in(k, i) = child k i`).

  Log-weights are integers (the log domain is symbolic: a weight is just a number that is
  added and subtracted).  The only non-additive operation of the Python code,
  `logsumexp(w) - log(len(w))`, is kept as the formal value `LW.lme` and interpreted in the
  probability domain (as the arithmetic mean) by `Model/FinProbInfer.lean`.

  `Variant` selects, for each defect found on the pinned tree, between the code as
  pinned (`Variant.pinned`) and the repaired code (`Variant.repaired`); both are
  modelled so that whichever the tree contains can be tied by the correspondence run.

  A concrete instance `progGF` (straight-line programs over integer-valued test
  distributions whose sample is `key_data(key)[-1] % m`, reproduced by an executable
  threefry) is what the driver runs.  Core Lean only.
-/
namespace GenjaxVerif.Infer

/-! ## Keys (model F) -/

/-- A PRNG key is the path of `split` / `fold_in` indices from the root key. -/
abbrev Key := List Nat

/-- `jax.random.split(k, n)[i]` = `jax.random.fold_in(k, i)`. -/
def child (k : Key) (i : Nat) : Key := k ++ [i]

def rotl (x r : UInt32) : UInt32 := (x <<< r) ||| (x >>> (32 - r))

def tfRounds (x : UInt32 × UInt32) (rs : List UInt32) : UInt32 × UInt32 :=
  rs.foldl (fun (x0, x1) r => let y0 := x0 + x1; (y0, rotl x1 r ^^^ y0)) x

/-- `jax._src.prng.threefry2x32` (20 rounds), key `(k0,k1)`, counter `(c0,c1)`. -/
def threefry2x32 (k0 k1 c0 c1 : UInt32) : UInt32 × UInt32 :=
  let r0 : List UInt32 := [13, 15, 26, 6]
  let r1 : List UInt32 := [17, 29, 16, 24]
  let k2 := k0 ^^^ k1 ^^^ 0x1BD11BDA
  let x := (c0 + k0, c1 + k1)
  let x := tfRounds x r0
  let x := (x.1 + k1, x.2 + k2 + 1)
  let x := tfRounds x r1
  let x := (x.1 + k2, x.2 + k0 + 2)
  let x := tfRounds x r0
  let x := (x.1 + k0, x.2 + k1 + 3)
  let x := tfRounds x r1
  let x := (x.1 + k1, x.2 + k2 + 4)
  let x := tfRounds x r0
  (x.1 + k2, x.2 + k0 + 5)

/-- `jax.random.key_data(k)[-1]` for the key at path `k` below `jax.random.key(seed)`. -/
def keyWord (seed : Nat) (k : Key) : Nat :=
  (k.foldl (fun (kd : UInt32 × UInt32) i => threefry2x32 kd.1 kd.2 0 (UInt32.ofNat i))
    ((0 : UInt32), UInt32.ofNat seed)).2.toNat

/-- `a` is a prefix of `b`. -/
def isPrefix : Key → Key → Bool
  | [], _ => true
  | _ :: _, [] => false
  | x :: a, y :: b => x == y && isPrefix a b

/-- Two keys handed to two different callees are *independent* when neither is a prefix
    of the other: everything a callee derives extends the key it was given. -/
def prefixFree (a b : Key) : Bool := !isPrefix a b && !isPrefix b a

/-! ## Choice maps and selections (semantic layer: finite maps address → value) -/

abbrev Addr := String
abbrev Chm := List (Addr × Int)

def Chm.get (c : Chm) (a : Addr) : Option Int := List.lookup a c

/-- `ChoiceMap.merge` = `|`: left-biased union. -/
def merge (a b : Chm) : Chm := a ++ b

/-- A selection of top-level addresses: `addrs` if `neg = false`, its complement otherwise. -/
structure Sel where
  neg : Bool
  addrs : List Addr
  deriving DecidableEq, Repr

def Sel.mem (s : Sel) (a : Addr) : Bool := s.addrs.contains a != s.neg
def Sel.all : Sel := ⟨true, []⟩
def Sel.none : Sel := ⟨false, []⟩
/-- `~selection`. -/
def Sel.compl (s : Sel) : Sel := ⟨!s.neg, s.addrs⟩
/-- `ChoiceMap.get_selection`. -/
def selOf (c : Chm) : Sel := ⟨false, c.map Prod.fst⟩
/-- `ChoiceMap.filter(selection)`. -/
def filter (s : Sel) (c : Chm) : Chm := List.filter (fun p => s.mem p.1) c

/-! ## The generative-function interface -/

/-- A generative function as the record of its interface methods (`A` arguments, `T`
    traces).  `update` is `Update(constraint).edit(key, tr, no-change argdiffs)` and returns
    (new trace, weight, discard). -/
structure GF (A T : Type) where
  simulate : Key → A → T
  assess : Chm → A → Int
  generate : Key → Chm → A → T × Int
  project : T → Sel → Int
  update : Key → T → Chm → T × Int × Chm
  choices : T → Chm
  score : T → Int

/-- Precompose the argument of a generative function (a Python wrapper that computes the
    callee's arguments from what it is given). -/
def GF.comap {A B T : Type} (g : GF A T) (f : B → A) : GF B T :=
  { simulate := fun k b => g.simulate k (f b)
    assess := fun c b => g.assess c (f b)
    generate := fun k c b => g.generate k c (f b)
    project := g.project, update := g.update, choices := g.choices, score := g.score }

inductive Err where
  | typeError   -- beartype rejects a call (`*args: tuple[Any, ...]`)
  | bad         -- malformed request
  deriving DecidableEq, Repr

/-- Which of the defects found on the pinned tree are repaired in the code being modelled.
    `false` = the pinned behaviour. -/
structure Variant where
  /-- C25: `Marginal.random_weighted` without algorithm projects on the selection. -/
  margFix : Bool
  /-- C26: `ImportanceK.run_smc` gives `target.importance` keys of its own. -/
  keysFix : Bool
  /-- C27: `Rejuvenate.edit` computes the backward proposal arguments from the new trace. -/
  rejuvFix : Bool
  /-- C25/C26: `estimate_logpdf` annotations accept non-tuple positional arguments. -/
  annotFix : Bool
  deriving DecidableEq, Repr

def Variant.pinned : Variant := ⟨false, false, false, false⟩
def Variant.repaired : Variant := ⟨true, true, true, true⟩

/-! ## sp.py -/

/-- `Target`. -/
structure Target (A T : Type) where
  p : GF A T
  args : A
  constraint : Chm

/-- `Target.importance`. -/
def Target.importance {A T} (t : Target A T) (k : Key) (c : Chm) : T × Int :=
  t.p.generate k (merge t.constraint c) t.args

/-- `Target.filter_to_unconstrained`. -/
def Target.filterToUnconstrained {A T} (t : Target A T) (c : Chm) : Chm :=
  filter (selOf t.constraint).compl c

/-- `SampleDistribution` used as a proposal: a distribution over choice maps whose single
    argument is the `Target`. -/
structure SD (A T : Type) where
  randomWeighted : Key → Target A T → Int × Chm
  estimateLogpdf : Key → Chm → Target A T → Except Err Int

/-- A log-weight that may involve one `logsumexp(ws) - log(len(ws))` term:
    `lme b s ws` denotes `b + s * (logsumexp ws - log |ws|)`, `s = ±1` given by `plus`. -/
inductive LW where
  | exact (w : Int)
  | lme (base : Int) (plus : Bool) (ws : List Int)
  deriving DecidableEq, Repr

/-- `ParticleCollection` (`is_valid` is always `True` in this file's algorithms). -/
abbrev Particles (T : Type) := List (T × Int)

/-- `ParticleCollection.get_log_marginal_likelihood_estimate`. -/
def lmlEstimate {T} (pc : Particles T) : LW := .lme 0 true (pc.map Prod.snd)

/-! ## smc.py -/

/-- Key routing of `Importance.run_smc` / `run_csmc`: `key, sub_key = split(key)`;
    the proposal gets `sub_key`, `target.importance` gets `key`. -/
def impQKey (k : Key) : Key := child k 1
def impTKey (k : Key) : Key := child k 0

/-- Key routing of `ImportanceK.run_smc`: `sub_keys = split(sub_key, K)`; particle `i`'s
    proposal gets `sub_keys[i]`; pinned code gives the same `sub_keys[i]` to
    `target.importance`, the repair gives `split(key, K)[i]`. -/
def impKQKey (k : Key) (i : Nat) : Key := child (child k 1) i
def impKTKey (v : Variant) (k : Key) (i : Nat) : Key :=
  if v.keysFix then child (child k 0) i else child (child k 1) i

/-- SMC algorithms (`SMCAlgorithm` subclasses of smc.py). -/
inductive Alg (A T : Type) where
  | importance (t : Target A T) (q : Option (SD A T))
  | importanceK (t : Target A T) (q : Option (SD A T)) (K : Nat)
  | changeTarget (prev : Alg A T) (t : Target A T)

namespace Alg
variable {A T : Type}

/-- `get_num_particles`. -/
def numParticles : Alg A T → Nat
  | importance _ _ => 1
  | importanceK _ _ K => K
  | changeTarget prev _ => prev.numParticles

/-- `get_final_target`. -/
def finalTarget : Alg A T → Target A T
  | importance t _ => t
  | importanceK t _ _ => t
  | changeTarget _ t => t

/-- `ChangeTarget._reweight` (same code in `run_smc` and `run_csmc`). -/
def reweight (prevT newT : Target A T) (k : Key) (particle : T) (weight : Int) : T × Int :=
  let latents := prevT.filterToUnconstrained (prevT.p.choices particle)
  let (newTr, newW) := newT.importance k latents
  (newTr, newW - prevT.p.score particle + weight)

/-- `vmap(_reweight)(split(key, n), particles, weights)`. -/
def reweightAll (prevT newT : Target A T) (k : Key) (pc : Particles T) : Particles T :=
  (List.zip (List.range pc.length) pc).map (fun (i, (tr, w)) => reweight prevT newT (child k i) tr w)

/-- `run_smc`. -/
def runSmc (v : Variant) : Alg A T → Key → Particles T
  | importance t q, k =>
    match q with
    | some q =>
      let (lw, choice) := q.randomWeighted (impQKey k) t
      let (tr, ts) := t.importance (impTKey k) choice
      [(tr, ts - lw)]
    | Option.none =>
      let (tr, ts) := t.importance (impTKey k) []
      [(tr, ts - 0)]
  | importanceK t q K, k =>
    match q with
    | some q =>
      (List.range K).map (fun i =>
        let (lw, choice) := q.randomWeighted (impKQKey k i) t
        let (tr, ts) := t.importance (impKTKey v k i) choice
        (tr, ts - lw))
    | Option.none =>
      (List.range K).map (fun i =>
        let (tr, ts) := t.importance (impKQKey k i) []
        (tr, ts - 0))
  | changeTarget prev t, k =>
    reweightAll prev.finalTarget t k (runSmc v prev k)

/-- `run_csmc` (conditional SMC with a retained particle, placed last). -/
def runCsmc (v : Variant) : Alg A T → Key → Chm → Except Err (Particles T)
  | importance t q, k, retained => do
    let qScore ← match q with
      | some q => q.estimateLogpdf (impQKey k) retained t
      | Option.none => pure 0
    let (tr, ts) := t.importance (impTKey k) retained
    pure [(tr, ts - qScore)]
  | importanceK t q K, k, retained =>
    let key := child k 0
    let sub := child k 1
    match q with
    | some q => do
      let props := (List.range (K - 1)).map (fun i => q.randomWeighted (child sub i) t)
      let rScore ← q.estimateLogpdf key retained t
      let stackedChoices := props.map Prod.snd ++ [retained]
      let stackedScores := props.map Prod.fst ++ [rScore]
      pure ((List.zip (List.range K) (List.zip stackedChoices stackedScores)).map
        (fun (i, (c, s)) => let (tr, ts) := t.importance (child key i) c; (tr, ts - s)))
    | Option.none =>
      let ignored := (List.range (K - 1)).map (fun i =>
        let (tr, ts) := t.importance (child sub i) []; (tr, ts - 0))
      let (rtr, rts) := t.importance key retained
      pure (ignored ++ [(rtr, rts - 0)])
  | changeTarget prev t, k, retained => do
    let pc ← runCsmc v prev k retained
    pure (reweightAll prev.finalTarget t k pc)

/-- `SMCAlgorithm.random_weighted(key, target)`; `idx` is the index drawn by
    `sample_particle(sub_key)` (a categorical draw over the normalised weights, kept as an
    input: the theorems hold for every index). -/
def randomWeighted (v : Variant) (alg : Alg A T) (k : Key) (target : Target A T) (idx : Nat) :
    Option (LW × Chm) :=
  let pc := runSmc v (changeTarget alg target) (child k 0)
  match pc[idx]? with
  | some (particle, _) =>
    some (.lme (target.p.score particle) false (pc.map Prod.snd),
          target.filterToUnconstrained (target.p.choices particle))
  | Option.none => Option.none

/-- `SMCAlgorithm.estimate_logpdf(key, v, target)`.  On the pinned tree the annotation
    `*args: tuple[Any, ...]` makes beartype reject the `Target` argument. -/
def estimateLogpdf (v : Variant) (alg : Alg A T) (k : Key) (x : Chm) (target : Target A T)
    (idx : Nat) : Except Err (Option LW) :=
  if !v.annotFix then .error .typeError else do
    let pc ← runCsmc v (changeTarget alg target) (child k 0) x
    match pc[idx]? with
    | some (particle, _) => pure (some (.lme (target.p.score particle) false (pc.map Prod.snd)))
    | Option.none => pure Option.none

/-- `SMCAlgorithm.estimate_normalizing_constant`. -/
def estimateNormalizingConstant (v : Variant) (alg : Alg A T) (k : Key) (target : Target A T) : LW :=
  lmlEstimate (runSmc v (changeTarget alg target) (child k 1))

/-- `SMCAlgorithm.estimate_reciprocal_normalizing_constant` =
    `ChangeTarget(self, target).run_csmc_for_normalizing_constant(key, latent_choices, w)`. -/
def estimateReciprocalNormalizingConstant (v : Variant) (alg : Alg A T) (k : Key)
    (target : Target A T) (latent : Chm) (w : Int) : Except Err (Option LW) := do
  let key := child k 0
  let sub := child k 1
  let pc ← runCsmc v alg sub latent
  let n := alg.numParticles
  let prevT := alg.finalTarget
  let rejected := (List.zip (List.range (n - 1)) (pc.take (pc.length - 1))).map
    (fun (i, (tr, wt)) => (reweight prevT target (child key i) tr wt).2)
  match pc.getLast? with
  | some (rtr, rwt) =>
    let rScore := prevT.p.score rtr
    pure (some (.lme rScore false (rejected ++ [w - rScore + rwt])))
  | Option.none => pure Option.none

end Alg

/-- A custom `SampleDistribution` defined by the harness (a correct one: it simulates the
    proposal program with the key it is given and reports its exact score). -/
def exactSD {A T U : Type} (q : GF (Target A T) U) : SD A T :=
  { randomWeighted := fun k t => let tr := q.simulate k t; (q.score tr, q.choices tr)
    estimateLogpdf := fun _ c t => pure (q.assess c t) }

/-! ## Marginal (sp.py) -/

/-- `Marginal(gen_fn, selection, algorithm)`. -/
structure Marginal (B U : Type) where
  genFn : GF B U
  sel : Sel
  alg : Option (Alg B U)

/-- `Marginal.random_weighted(key, *args)`. -/
def Marginal.randomWeighted {B U} (v : Variant) (m : Marginal B U) (k : Key) (args : B) :
    Except Err (Option LW × Chm) :=
  let key1 := child k 0
  let sub1 := child k 1
  let tr := m.genFn.simulate sub1 args
  let choices := m.genFn.choices tr
  let latent := filter m.sel choices
  let key2 := child key1 0
  let _sub2 := child key1 1   -- handed to `project`, which uses no randomness
  let weight := m.genFn.project tr m.sel.compl
  match m.alg with
  | Option.none =>
    if v.margFix then pure (some (.exact (m.genFn.project tr m.sel)), latent)
    else pure (some (.exact weight), latent)
  | some alg => do
    let target : Target B U := ⟨m.genFn, args, latent⟩
    let other := filter m.sel.compl choices
    let z ← alg.estimateReciprocalNormalizingConstant v key2 target other weight
    pure (z, latent)

/-- `Marginal.estimate_logpdf(key, v, *args)`; `argsAreTuples` is what beartype checks on
    the pinned tree (`*args: tuple[Any, ...]`: every positional argument must be a tuple). -/
def Marginal.estimateLogpdf {B U} (v : Variant) (m : Marginal B U) (k : Key) (x : Chm) (args : B)
    (argsAreTuples : Bool) : Except Err LW :=
  if !v.annotFix && !argsAreTuples then .error .typeError else
  match m.alg with
  | Option.none => pure (.exact (m.genFn.generate k x args).2)
  | some alg => pure (alg.estimateNormalizingConstant v k ⟨m.genFn, args, x⟩)

/-- A `Marginal` without algorithm used as an SMC proposal (`q = proposal.marginal(sel)`):
    its single argument is the target, which is not a tuple. -/
def margSD {A T U : Type} (v : Variant) (q : GF (Target A T) U) (sel : Sel) : SD A T :=
  let m : Marginal (Target A T) U := ⟨q, sel, Option.none⟩
  { randomWeighted := fun k t =>
      match m.randomWeighted v k t with
      | .ok (some (.exact w), c) => (w, c)
      | _ => (0, [])   -- unreachable: the no-algorithm branch always returns `exact`
    estimateLogpdf := fun k c t =>
      match m.estimateLogpdf v k c t false with
      | .ok (.exact w) => pure w
      | .ok _ => .error .bad
      | .error e => .error e }

/-! ## rejuvenate.py -/

/-- `Rejuvenate(proposal, argument_mapping).edit(key, tr, argdiffs)` applied to a trace of
    `p`; returns (new trace, weight). -/
def rejuvenate {A T QA U : Type} (v : Variant) (p : GF A T) (q : GF QA U) (argmap : Chm → QA)
    (k : Key) (tr : T) : T × Int :=
  let chm := p.choices tr
  let fwdArgs := argmap chm
  let key := child k 0
  let sub := child k 1
  let ptr := q.simulate sub fwdArgs           -- `proposal.propose(sub_key, fwd_args)`
  let proposed := q.choices ptr
  let fwdScore := q.score ptr
  let upd := p.update key tr proposed         -- `Update(proposed_change).edit(key, tr, argdiffs)`
  let newTr := upd.1
  let w := upd.2.1
  let bwdChm := upd.2.2
  let bwdArgs := if v.rejuvFix then argmap (p.choices newTr) else argmap bwdChm
  let bwdScore := q.assess bwdChm bwdArgs
  (newTr, w + bwdScore - fwdScore)

/-! ## A concrete generative function: straight-line programs over test distributions -/

inductive ArgSpec where
  | const (c : Int)
  | prev (i : Nat)     -- value of the i-th earlier site (0-based)
  | arg (i : Nat)      -- i-th positional argument of the program
  deriving DecidableEq, Repr

/-- One `v = dist(a) @ addr` line.  `dist` samples `key_data(key)[-1] % m` and has
    `logpdf(v, a) = c0 + c1*v + c2*a*v`. -/
structure Site where
  addr : Addr
  m : Nat
  c0 : Int
  c1 : Int
  c2 : Int
  a : ArgSpec
  deriving DecidableEq, Repr

abbrev Prog := List Site

def Site.lp (s : Site) (v a : Int) : Int := s.c0 + s.c1 * v + s.c2 * a * v

def evalArg (a : ArgSpec) (args vals : List Int) : Int :=
  match a with
  | .const c => c
  | .prev i => vals.getD i 0
  | .arg i => args.getD i 0

/-- A trace: arguments and, per site in program order, (address, value, log-density, key
    the value was drawn with — `none` when it was not drawn). -/
structure PTrace where
  args : List Int
  sites : List (Addr × Int × Int × Option Key)
  deriving DecidableEq, Repr

def PTrace.vals (t : PTrace) : List Int := t.sites.map (fun s => s.2.1)
def PTrace.choices (t : PTrace) : Chm := t.sites.map (fun s => (s.1, s.2.1))
def PTrace.score (t : PTrace) : Int := (t.sites.map (fun s => s.2.2.1)).sum
def PTrace.draws (t : PTrace) : List Key := t.sites.filterMap (fun s => s.2.2.2)
def PTrace.project (t : PTrace) (sel : Sel) : Int :=
  ((t.sites.filter (fun s => sel.mem s.1)).map (fun s => s.2.2.1)).sum

/-- The static handlers: site number `j` (1-based) consumes `fold_in(key, j)` whether or not
    it is constrained; a constrained site takes its value from the constraint and adds its
    log-density to the weight. Returns the sites (reversed accumulator) and the weight. -/
def runSites (seed : Nat) (k : Key) (c : Chm) (args : List Int) :
    Prog → Nat → List (Addr × Int × Int × Option Key) → Int → List (Addr × Int × Int × Option Key) × Int
  | [], _, acc, w => (acc, w)
  | s :: rest, j, acc, w =>
    let a := evalArg s.a args (acc.map (fun x => x.2.1))
    match c.get s.addr with
    | some v => runSites seed k c args rest (j + 1) (acc ++ [(s.addr, v, s.lp v a, Option.none)]) (w + s.lp v a)
    | Option.none =>
      let kk := child k j
      let v : Int := (keyWord seed kk % s.m : Nat)
      runSites seed k c args rest (j + 1) (acc ++ [(s.addr, v, s.lp v a, some kk)]) w

def progGenerate (seed : Nat) (p : Prog) (k : Key) (c : Chm) (args : List Int) : PTrace × Int :=
  let r := runSites seed k c args p 1 [] 0
  (⟨args, r.1⟩, r.2)

/-- `Update(c).edit` on a static trace with unchanged arguments: constrained sites take the
    new value, every site's density is recomputed; weight = Σ (new − old) log-density;
    discard = old values of the constrained sites. -/
def updSites (c : Chm) (args : List Int) :
    Prog → List (Addr × Int × Int × Option Key) → List (Addr × Int × Int × Option Key) → Int → Chm →
    List (Addr × Int × Int × Option Key) × Int × Chm
  | s :: rest, (_, ov, olp, _) :: olds, acc, w, d =>
    let a := evalArg s.a args (acc.map (fun x => x.2.1))
    match c.get s.addr with
    | some v => updSites c args rest olds (acc ++ [(s.addr, v, s.lp v a, Option.none)]) (w + (s.lp v a - olp)) (d ++ [(s.addr, ov)])
    | Option.none => updSites c args rest olds (acc ++ [(s.addr, ov, s.lp ov a, Option.none)]) (w + (s.lp ov a - olp)) d
  | _, _, acc, w, d => (acc, w, d)

def progUpdate (p : Prog) (tr : PTrace) (c : Chm) : PTrace × Int × Chm :=
  let r := updSites c tr.args p tr.sites [] 0 []
  (⟨tr.args, r.1⟩, r.2.1, r.2.2)

/-- `assess`: every address must be provided (the driver checks this before calling). -/
def progAssess (p : Prog) (c : Chm) (args : List Int) : Int :=
  (runSites 0 [] c args p 1 [] 0).2

def progGF (seed : Nat) (p : Prog) : GF (List Int) PTrace :=
  { simulate := fun k args => (progGenerate seed p k [] args).1
    assess := progAssess p
    generate := progGenerate seed p
    project := PTrace.project
    update := fun _ tr c => progUpdate p tr c
    choices := PTrace.choices
    score := PTrace.score }

/-- Well-formedness of a program: argument references point backwards / into `nargs`. -/
def wfProg (p : Prog) (nargs : Nat) : Bool :=
  (List.zip (List.range p.length) p).all (fun (i, s) =>
    (match s.a with | .const _ => true | .prev j => j < i | .arg j => j < nargs) && s.m > 0)
  && (p.map (·.addr)).eraseDups.length == p.length

/-- Does the choice map provide every address of the program? -/
def covers (p : Prog) (c : Chm) : Bool := p.all (fun s => (c.get s.addr).isSome)

/-- Are all addresses of the choice map addresses of the program? -/
def within (p : Prog) (c : Chm) : Bool := c.all (fun x => p.any (fun s => s.addr == x.1))

end GenjaxVerif.Infer
