/-
  S-expressions: the line protocol between the Python harness and the Lean driver.
  One request per line, one response per line.  Core Lean only.
-/
namespace GenjaxVerif

inductive Sexp where
  | atom (s : String)
  | list (xs : List Sexp)
  deriving Repr, Inhabited, BEq

namespace Sexp

partial def toStr : Sexp → String
  | atom s => s
  | list xs => "(" ++ " ".intercalate (xs.map toStr) ++ ")"

instance : ToString Sexp := ⟨toStr⟩

private def isDelim (c : Char) : Bool := c == '(' || c == ')' || c.isWhitespace

/-- Tokenise: parentheses and maximal runs of non-delimiter characters. -/
def tokens (s : String) : List String := Id.run do
  let mut out : Array String := #[]
  let mut cur : String := ""
  for c in s.toList do
    if isDelim c then
      if cur != "" then
        out := out.push cur
        cur := ""
      if c == '(' then out := out.push "("
      else if c == ')' then out := out.push ")"
    else
      cur := cur.push c
  if cur != "" then out := out.push cur
  return out.toList

/-- Parse a token stream with an explicit stack (total, no recursion on depth). -/
def parseTokens (ts : List String) : Except String Sexp := Id.run do
  let mut stack : List (Array Sexp) := []
  let mut top : Array Sexp := #[]
  for t in ts do
    if t == "(" then
      stack := top :: stack
      top := #[]
    else if t == ")" then
      match stack with
      | [] => return .error "unbalanced )"
      | parent :: rest =>
        top := parent.push (.list top.toList)
        stack := rest
    else
      top := top.push (.atom t)
  if !stack.isEmpty then return .error "unbalanced ("
  match top.toList with
  | [x] => return .ok x
  | _ => return .error "expected exactly one s-expression"

def parse (s : String) : Except String Sexp := parseTokens (tokens s)

def ofInt (i : Int) : Sexp := .atom (toString i)
def ofNat (n : Nat) : Sexp := .atom (toString n)
def ofBool (b : Bool) : Sexp := .atom (if b then "T" else "F")

def int? : Sexp → Option Int
  | atom s => s.toInt?
  | _ => none

def nat? : Sexp → Option Nat
  | atom s => s.toNat?
  | _ => none

def bool? : Sexp → Option Bool
  | atom "T" => some true
  | atom "F" => some false
  | _ => none

def listOf? {α} (f : Sexp → Option α) : Sexp → Option (List α)
  | list xs => xs.mapM f
  | _ => none

end Sexp
end GenjaxVerif
