/-
  Values, errors, keys and the small pure expression language used by model E
  (static-language bodies and dimap argument / return maps).  Core Lean only.

  Arrays are modelled array-of-structs: a JAX pytree whose leaves share a leading axis
  of length n is `arr [v₀, …, vₙ₋₁]`; the harness converts in both directions from the
  program's (known) type.  int32 / float32 / bool leaves are unbounded `Int`
  (generators keep magnitudes < 2^24 so float32 arithmetic on them is exact).
-/
namespace GenjaxVerif

inductive Val where
  | int (i : Int)
  | tup (vs : List Val)
  | arr (vs : List Val)
  | mask (f : Bool) (v : Val)
  deriving Repr, Inhabited

inductive Err where
  | missing        -- MissingAddress / no value where one is required
  | reuse          -- AddressReuse
  | notSupported   -- NotImplementedError / NotSupportedEditRequest / failed isinstance assert
  | shape          -- a value of the wrong shape reached an operation
  | unbound        -- unbound variable in an expression
  | oob            -- switch index outside the branches (modelled separately, see C13)
  deriving Repr, DecidableEq, Inhabited

namespace Val

def unit : Val := tup []

mutual
/-- Structural equality (Python `==` on canonical values). -/
def beq : Val → Val → Bool
  | int i, int j => i == j
  | tup a, tup b => beqL a b
  | arr a, arr b => beqL a b
  | mask f v, mask g w => f == g && beq v w
  | _, _ => false
def beqL : List Val → List Val → Bool
  | [], [] => true
  | a :: as, b :: bs => beq a b && beqL as bs
  | _, _ => false
end

/-- `Mask.build(v, f)`: re-masking conjoins flags instead of nesting. -/
def mkMask (f : Bool) : Val → Val
  | mask g v => mask (f && g) v
  | v => mask f v

def toInt? : Val → Option Int
  | int i => some i
  | _ => none

def ofBool (b : Bool) : Val := int (if b then 1 else 0)

/-- Truthiness of a flag argument (bool arrays are 0/1 integers in the model). -/
def truthy : Val → Except Err Bool
  | int i => .ok (i != 0)
  | _ => .error .shape

/-- A mask flag must be a boolean (the combinator's type check rejects anything else): 0 / 1. -/
def asFlag : Val → Except Err Bool
  | int 0 => .ok false
  | int 1 => .ok true
  | _ => .error .shape

end Val

/-- Keys are paths of naturals below a root: `fold_in(k, i) = split(k, n)[i] = child k i`
    (checked bit-for-bit against JAX by the C04 correspondence). -/
abbrev KeyPath := List Nat
def KeyPath.child (k : KeyPath) (i : Nat) : KeyPath := k ++ [i]

/-- Pure expressions over an environment of values. -/
inductive Expr where
  | var (n : Nat)
  | lit (i : Int)
  | add (a b : Expr)
  | sub (a b : Expr)
  | mul (a b : Expr)
  | tup (es : List Expr)
  | proj (e : Expr) (k : Nat)
  | sumArr (e : Expr)            -- jnp.sum of an integer array
  | zeros (n : Nat)              -- jnp.zeros(n)
  | cons (a b : Expr)            -- prepend_initial_acc: concatenate([a[None], b])
  | notb (e : Expr)              -- logical_not as 0/1
  | unmask (e : Expr)            -- `.value` of a Mask (payload, whatever the flag)
  | sel (c a b : Expr)           -- jnp.where(c, a, b) on scalars / whole values
  | all                          -- the whole environment as a tuple (`args` in `lambda *args`)
  | stack (es : List Expr)       -- jnp.stack([...]) of equally-shaped values
  deriving Repr, Inhabited

namespace Expr

def arith (f : Int → Int → Int) : Val → Val → Except Err Val
  | .int a, .int b => .ok (.int (f a b))
  | _, _ => .error .shape

def sumInts : List Val → Except Err Int
  | [] => .ok 0
  | .int i :: vs => do let s ← sumInts vs; pure (i + s)
  | _ :: _ => .error .shape

mutual
def eval (env : List Val) : Expr → Except Err Val
  | var n => match env[n]? with | some v => .ok v | none => .error .unbound
  | lit i => .ok (.int i)
  | add a b => do arith (· + ·) (← eval env a) (← eval env b)
  | sub a b => do arith (· - ·) (← eval env a) (← eval env b)
  | mul a b => do arith (· * ·) (← eval env a) (← eval env b)
  | tup es => do pure (.tup (← evalL env es))
  | proj e k => do
    match ← eval env e with
    | .tup vs => match vs[k]? with | some v => pure v | none => .error .shape
    | _ => .error .shape
  | sumArr e => do
    match ← eval env e with
    | .arr vs => do pure (.int (← sumInts vs))
    | _ => .error .shape
  | zeros n => .ok (.arr (List.replicate n (.int 0)))
  | cons a b => do
    let x ← eval env a
    match ← eval env b with
    | .arr vs => pure (.arr (x :: vs))
    | _ => .error .shape
  | notb e => do
    match ← eval env e with
    | .int i => pure (Val.ofBool (i == 0))
    | _ => .error .shape
  | unmask e => do
    match ← eval env e with
    | .mask _ v => pure v
    | _ => .error .shape
  | sel c a b => do
    let cv ← eval env c
    let av ← eval env a
    let bv ← eval env b
    if ← cv.truthy then pure av else pure bv
  | all => .ok (.tup env)
  | stack es => do pure (.arr (← evalL env es))
def evalL (env : List Val) : List Expr → Except Err (List Val)
  | [] => .ok []
  | e :: es => do
    let v ← eval env e
    let vs ← evalL env es
    pure (v :: vs)
end

end Expr
end GenjaxVerif
