import GenjaxVerif.Model.IR
/-
  A concrete `Sem` for the integer / boolean JAX primitives that the translated programs use
  (execution only — every theorem about the interpreters is parametric in `sem`).

  `semF fuel` gives meaning to the first-order primitives directly and to `cond`, `scan`,
  `while`, `pjit`, `closed_call`, `custom_jvp_call`, `custom_vjp_call(_jaxpr)`, `remat2` and
  GenJAX's `InitialStylePrimitive`s by recursive `evalPlain (semF (fuel-1))` on the
  sub-jaxprs found in the equation's params.  int32 is unbounded `Int`; anything outside the
  supported fragment is an explicit `Err.prim` (never a silent default).
-/
namespace GenjaxVerif.IR
namespace Tensor

def size (shape : List Nat) : Nat := shape.foldl (· * ·) 1

/-- Row-major multi-index of a flat index. -/
def unravel (shape : List Nat) (i : Nat) : List Nat :=
  (shape.foldr (fun d (acc : List Nat × Nat) => ((acc.2 % d) :: acc.1, acc.2 / d)) ([], i)).1

/-- Flat index of a multi-index. -/
def ravel (shape idx : List Nat) : Nat :=
  (shape.zip idx).foldl (fun acc di => acc * di.1 + di.2) 0

def get (v : Val) (idx : List Nat) : Int := v.data.getD (ravel v.shape idx) 0

def tabulate (dt : DT) (shape : List Nat) (f : List Nat → Int) : Val :=
  ⟨dt, shape, (List.range (size shape)).map (fun i => f (unravel shape i))⟩

def scalar (dt : DT) (i : Int) : Val := ⟨dt, [], [i]⟩

def b2i (b : Bool) : Int := if b then 1 else 0

def fail {α} (msg : String) : Except Err α := .error (.prim msg)

/-- Result shape of an elementwise primitive: rank-0 operands broadcast; the other operands
    must have one rank and, per dimension, the common extent or extent 1 (lax's rule). -/
def ewShape (vs : List Val) : Except Err (List Nat) :=
  match vs.filter (fun v => v.shape != []) with
  | [] => .ok []
  | v :: rest =>
    if rest.all (fun w => w.shape.length == v.shape.length) then
      let sh := rest.foldl (fun acc w => List.zipWith (fun a b => if a < b then b else a) acc w.shape) v.shape
      if (v :: rest).all (fun w => (w.shape.zip sh).all (fun p => p.1 == p.2 || p.1 == 1)) then .ok sh
      else fail "shape-mismatch"
    else fail "rank-mismatch"

def ew (dt : DT) (vs : List Val) (f : List Int → Except Err Int) : Except Err Val := do
  let sh ← ewShape vs
  let data ← (List.range (size sh)).mapM (fun i =>
    let idx := unravel sh i
    f (vs.map (fun v =>
      if v.shape == [] then v.data.headD 0
      else get v (List.zipWith (fun d j => if d == 1 then 0 else j) v.shape idx))))
  pure ⟨dt, sh, data⟩

def natsOf (l : List Int) : List Nat := l.map Int.toNat

/-- Indices `k` of `l` in order, paired. -/
def enum {α} (l : List α) : List (Nat × α) := (List.range l.length).zip l

def removeDims (shape : List Nat) (dims : List Nat) : List Nat :=
  ((enum shape).filter (fun p => !dims.contains p.1)).map (·.2)

def keepDims (shape : List Nat) (dims : List Nat) : List Nat :=
  ((enum shape).filter (fun p => dims.contains p.1)).map (·.2)

/-- Interleave an index over the kept dims and one over the reduced dims into a full index. -/
def mergeIdx (rank : Nat) (dims : List Nat) (outer inner : List Nat) : List Nat :=
  ((List.range rank).foldl (fun (st : List Nat × List Nat × List Nat) d =>
    if dims.contains d then
      match st.2.2 with
      | i :: is => (i :: st.1, st.2.1, is)
      | [] => (0 :: st.1, st.2.1, [])
    else
      match st.2.1 with
      | o :: os => (o :: st.1, os, st.2.2)
      | [] => (0 :: st.1, [], st.2.2)) ([], outer, inner)).1.reverse

def reduce (v : Val) (axes : List Nat) (init : Int) (op : Int → Int → Int) (dt : DT) : Val :=
  let outShape := removeDims v.shape axes
  let redShape := keepDims v.shape axes
  tabulate dt outShape (fun o =>
    (List.range (size redShape)).foldl (fun acc k =>
      op acc (get v (mergeIdx v.shape.length axes o (unravel redShape k)))) init)

def setAt (l : List Nat) (i : Nat) (x : Nat) : List Nat := l.set i x

def cumulate (v : Val) (axis : Nat) (rev : Bool) (op : Int → Int → Int) : Val :=
  tabulate v.dt v.shape (fun idx =>
    let k := idx.getD axis 0
    let n := v.shape.getD axis 0
    let ks := if rev then (List.range n).filter (fun j => j ≥ k) else (List.range (k + 1))
    match ks.map (fun j => get v (setAt idx axis j)) with
    | [] => 0
    | x :: xs => xs.foldl op x)

/-- `x[i]` along axis 0. -/
def slice0 (v : Val) (i : Nat) : Val :=
  let sh := v.shape.drop 1
  let sz := size sh
  ⟨v.dt, sh, (v.data.drop (i * sz)).take sz⟩

/-- Stack along a new axis 0. -/
def stack (vs : List Val) : Except Err Val :=
  match vs with
  | [] => fail "stack-empty"
  | v :: _ => .ok ⟨v.dt, vs.length :: v.shape, (vs.map (·.data)).flatten⟩

def clampI (x lo hi : Int) : Int := if x < lo then lo else if x > hi then hi else x

/-- Stable insertion sort of positions by a key comparison. -/
def insertBy (lt : Nat → Nat → Bool) (x : Nat) : List Nat → List Nat
  | [] => [x]
  | y :: ys => if lt x y then x :: y :: ys else y :: insertBy lt x ys

def sortPerm (n : Nat) (lt : Nat → Nat → Bool) : List Nat :=
  (List.range n).foldl (fun acc x => insertBy lt x acc) []

def lexLt : List Int → List Int → Bool
  | a :: as, b :: bs => if a < b then true else if a > b then false else lexLt as bs
  | _, _ => false

end Tensor

open Tensor

namespace PrimSem

def pInt (ps : Params) (k : String) : Except Err Int :=
  match ps.find k with
  | some (.int i) => .ok i
  | _ => fail s!"param-int:{k}"

def pNat (ps : Params) (k : String) : Except Err Nat := do
  let i ← pInt ps k
  if i < 0 then fail s!"param-neg:{k}" else pure i.toNat

def pBool (ps : Params) (k : String) : Except Err Bool :=
  match ps.find k with
  | some (.bool b) => .ok b
  | _ => fail s!"param-bool:{k}"

def pInts (ps : Params) (k : String) : Except Err (List Int) :=
  match ps.find k with
  | some (.ints l) => .ok l
  | _ => fail s!"param-ints:{k}"

def pNats (ps : Params) (k : String) : Except Err (List Nat) := do
  let l ← pInts ps k
  if l.any (· < 0) then fail s!"param-neg:{k}" else pure (natsOf l)

def pStr (ps : Params) (k : String) : Except Err String :=
  match ps.find k with
  | some (.str s) => .ok s
  | _ => fail s!"param-str:{k}"

def pClosed (ps : Params) (k : String) : Except Err (Jaxpr × List Val) :=
  match ps.find k with
  | some (.closed j c) => .ok (j, c)
  | _ => fail s!"param-jaxpr:{k}"

def dtOf (s : String) : Except Err DT :=
  if s == "int32" then .ok .i32 else if s == "bool" then .ok .bool else fail s!"dtype:{s}"

def bin (vs : List Val) (f : Int → Int → Except Err Int) (dt : Option DT := none) : Except Err (PrimOut Val) :=
  match vs with
  | [a, _] => do
    let r ← ew (dt.getD a.dt) vs (fun xs => match xs with | [x, y] => f x y | _ => fail "arity")
    pure (.one r)
  | _ => fail "binary-arity"

def un (vs : List Val) (f : Int → Except Err Int) : Except Err (PrimOut Val) :=
  match vs with
  | [a] => do
    let r ← ew a.dt vs (fun xs => match xs with | [x] => f x | _ => fail "arity")
    pure (.one r)
  | _ => fail "unary-arity"

def logical (vs : List Val) (f : Bool → Bool → Bool) : Except Err (PrimOut Val) :=
  if vs.all (fun v => v.dt == .bool) then bin vs (fun x y => .ok (b2i (f (x != 0) (y != 0))))
  else fail "bitwise-on-int-unsupported"

def sgn (x : Int) : Int := if x > 0 then 1 else if x < 0 then -1 else 0

/-- First-order primitives. `none` = not a first-order primitive known here. -/
def firstOrder (p : String) (ps : Params) (vs : List Val) : Option (Except Err (PrimOut Val)) :=
  match p with
  | "add" => some (bin vs (fun x y => .ok (x + y)))
  | "sub" => some (bin vs (fun x y => .ok (x - y)))
  | "mul" => some (bin vs (fun x y => .ok (x * y)))
  | "max" => some (bin vs (fun x y => .ok (if x < y then y else x)))
  | "min" => some (bin vs (fun x y => .ok (if x < y then x else y)))
  | "div" => some (bin vs (fun x y => if y == 0 then fail "div-by-zero" else .ok (Int.tdiv x y)))
  | "rem" => some (bin vs (fun x y => if y == 0 then fail "rem-by-zero" else .ok (Int.tmod x y)))
  | "lt" => some (bin vs (fun x y => .ok (b2i (x < y))) (some .bool))
  | "le" => some (bin vs (fun x y => .ok (b2i (x ≤ y))) (some .bool))
  | "gt" => some (bin vs (fun x y => .ok (b2i (x > y))) (some .bool))
  | "ge" => some (bin vs (fun x y => .ok (b2i (x ≥ y))) (some .bool))
  | "eq" => some (bin vs (fun x y => .ok (b2i (x == y))) (some .bool))
  | "ne" => some (bin vs (fun x y => .ok (b2i (x != y))) (some .bool))
  | "and" => some (logical vs (· && ·))
  | "or" => some (logical vs (· || ·))
  | "xor" => some (logical vs (fun a b => a != b))
  | "not" => some (match vs with
      | [a] => if a.dt == .bool then un vs (fun x => .ok (b2i (x == 0))) else fail "bitwise-on-int-unsupported"
      | _ => fail "unary-arity")
  | "neg" => some (un vs (fun x => .ok (-x)))
  | "abs" => some (un vs (fun x => .ok (if x < 0 then -x else x)))
  | "sign" => some (un vs (fun x => .ok (sgn x)))
  | "square" => some (un vs (fun x => .ok (x * x)))
  | "copy" => some (un vs (fun x => .ok x))
  | "copy_p" => some (un vs (fun x => .ok x))
  | "integer_pow" => some (do
      let y ← pInt ps "y"
      if y < 0 then fail "integer_pow-negative" else un vs (fun x => .ok (x ^ y.toNat)))
  | "convert_element_type" => some (do
      let dt ← dtOf (← pStr ps "new_dtype")
      match vs with
      | [_] =>
        let r ← ew dt vs (fun xs => match xs with
          | [x] => .ok (match dt with | .bool => b2i (x != 0) | .i32 => x)
          | _ => fail "arity")
        pure (.one r)
      | _ => fail "unary-arity")
  | "select_n" => some (match vs with
      | _ :: c0 :: _ => do
        let r ← ew c0.dt vs (fun xs => match xs with
          | k :: rest => if k < 0 || k.toNat ≥ rest.length then fail "select_n-range" else .ok (rest.getD k.toNat 0)
          | _ => fail "arity")
        pure (.one r)
      | _ => fail "select_n-arity")
  | "clamp" => some (match vs with
      | [_, x, _] => do
        let r ← ew x.dt vs (fun xs => match xs with
          | [lo, v, hi] => .ok (if v < lo then lo else if v > hi then hi else v)
          | _ => fail "arity")
        pure (.one r)
      | _ => fail "clamp-arity")
  | "broadcast_in_dim" => some (match vs with
      | [a] => do
        let shape ← pNats ps "shape"
        let bd ← pNats ps "broadcast_dimensions"
        if bd.length != a.shape.length then fail "broadcast_in_dim-rank" else
        pure (.one (tabulate a.dt shape (fun idx =>
          get a ((enum a.shape).map (fun p => if p.2 == 1 then 0 else idx.getD (bd.getD p.1 0) 0)))))
      | _ => fail "broadcast_in_dim-dynamic-shape-unsupported")
  | "reshape" => some (match vs with
      | [a] => do
        let ns ← pNats ps "new_sizes"
        match ps.find "dimensions" with
        | some .none => if size ns == size a.shape then pure (.one ⟨a.dt, ns, a.data⟩) else fail "reshape-size"
        | _ => fail "reshape-dimensions-unsupported"
      | _ => fail "reshape-arity")
  | "squeeze" => some (match vs with
      | [a] => do
        let ds ← pNats ps "dimensions"
        if ds.all (fun d => a.shape.getD d 0 == 1) then pure (.one ⟨a.dt, removeDims a.shape ds, a.data⟩)
        else fail "squeeze-non-unit"
      | _ => fail "squeeze-arity")
  | "expand_dims" => some (fail "expand_dims-unsupported")
  | "slice" => some (match vs with
      | [a] => do
        let st ← pNats ps "start_indices"
        let lim ← pNats ps "limit_indices"
        let strides ← match ps.find "strides" with
          | some .none => pure (st.map (fun _ => 1))
          | some (.ints l) => pure (natsOf l)
          | _ => fail "slice-strides"
        if strides.any (· == 0) then fail "slice-stride-0" else
        let shape := (enum st).map (fun p =>
          let l := lim.getD p.1 0; let s := strides.getD p.1 1
          if l ≤ p.2 then 0 else (l - p.2 + s - 1) / s)
        pure (.one (tabulate a.dt shape (fun idx =>
          get a ((enum idx).map (fun p => st.getD p.1 0 + p.2 * strides.getD p.1 1)))))
      | _ => fail "slice-arity")
  | "dynamic_slice" => some (match vs with
      | a :: idxs => do
        let sizes ← pNats ps "slice_sizes"
        if idxs.length != a.shape.length || sizes.length != a.shape.length then fail "dynamic_slice-rank" else
        let starts := (enum idxs).map (fun p =>
          (clampI (p.2.data.headD 0) 0 ((a.shape.getD p.1 0 : Int) - (sizes.getD p.1 0 : Int))).toNat)
        pure (.one (tabulate a.dt sizes (fun idx => get a ((enum idx).map (fun p => starts.getD p.1 0 + p.2)))))
      | _ => fail "dynamic_slice-arity")
  | "dynamic_update_slice" => some (match vs with
      | a :: u :: idxs => do
        if idxs.length != a.shape.length || u.shape.length != a.shape.length then fail "dynamic_update_slice-rank" else
        let starts := (enum idxs).map (fun p =>
          (clampI (p.2.data.headD 0) 0 ((a.shape.getD p.1 0 : Int) - (u.shape.getD p.1 0 : Int))).toNat)
        pure (.one (tabulate a.dt a.shape (fun idx =>
          let inside := (enum idx).all (fun p =>
            starts.getD p.1 0 ≤ p.2 && p.2 < starts.getD p.1 0 + u.shape.getD p.1 0)
          if inside then get u ((enum idx).map (fun p => p.2 - starts.getD p.1 0)) else get a idx)))
      | _ => fail "dynamic_update_slice-arity")
  | "concatenate" => some (match vs with
      | a :: _ => do
        let d ← pNat ps "dimension"
        let total := (vs.map (fun v => v.shape.getD d 0)).foldl (· + ·) 0
        let shape := a.shape.set d total
        pure (.one (tabulate a.dt shape (fun idx =>
          let k := idx.getD d 0
          (vs.foldl (fun (st : Nat × Option Int) v =>
            match st.2 with
            | some r => (st.1, some r)
            | none =>
              let n := v.shape.getD d 0
              if k < st.1 + n then (st.1, some (get v (idx.set d (k - st.1)))) else (st.1 + n, none))
            (0, none)).2.getD 0)))
      | _ => fail "concatenate-arity")
  | "transpose" => some (match vs with
      | [a] => do
        let perm ← pNats ps "permutation"
        let shape := perm.map (fun p => a.shape.getD p 0)
        pure (.one (tabulate a.dt shape (fun idx =>
          get a ((List.range a.shape.length).map (fun d =>
            match perm.idxOf? d with
            | some i => idx.getD i 0
            | none => 0)))))
      | _ => fail "transpose-arity")
  | "rev" => some (match vs with
      | [a] => do
        let ds ← pNats ps "dimensions"
        pure (.one (tabulate a.dt a.shape (fun idx =>
          get a ((enum idx).map (fun p => if ds.contains p.1 then a.shape.getD p.1 0 - 1 - p.2 else p.2)))))
      | _ => fail "rev-arity")
  | "reduce_sum" => some (match vs with
      | [a] => do let ax ← pNats ps "axes"; pure (.one (reduce a ax 0 (· + ·) a.dt))
      | _ => fail "reduce-arity")
  | "reduce_prod" => some (match vs with
      | [a] => do let ax ← pNats ps "axes"; pure (.one (reduce a ax 1 (· * ·) a.dt))
      | _ => fail "reduce-arity")
  | "reduce_max" => some (match vs with
      | [a] => do
        let ax ← pNats ps "axes"
        if size (keepDims a.shape ax) == 0 then fail "reduce_max-empty" else
        pure (.one (reduce a ax (-2147483648) (fun x y => if x < y then y else x) a.dt))
      | _ => fail "reduce-arity")
  | "reduce_min" => some (match vs with
      | [a] => do
        let ax ← pNats ps "axes"
        if size (keepDims a.shape ax) == 0 then fail "reduce_min-empty" else
        pure (.one (reduce a ax 2147483647 (fun x y => if x < y then x else y) a.dt))
      | _ => fail "reduce-arity")
  | "reduce_and" => some (match vs with
      | [a] => do let ax ← pNats ps "axes"; pure (.one (reduce a ax 1 (fun x y => b2i (x != 0 && y != 0)) a.dt))
      | _ => fail "reduce-arity")
  | "reduce_or" => some (match vs with
      | [a] => do let ax ← pNats ps "axes"; pure (.one (reduce a ax 0 (fun x y => b2i (x != 0 || y != 0)) a.dt))
      | _ => fail "reduce-arity")
  | "cumsum" => some (match vs with
      | [a] => do pure (.one (cumulate a (← pNat ps "axis") (← pBool ps "reverse") (· + ·)))
      | _ => fail "cumsum-arity")
  | "cummax" => some (match vs with
      | [a] => do pure (.one (cumulate a (← pNat ps "axis") (← pBool ps "reverse") (fun x y => if x < y then y else x)))
      | _ => fail "cummax-arity")
  | "iota" => some (match vs with
      | [] => do
        let dt ← dtOf (← pStr ps "dtype")
        let shape ← pNats ps "shape"
        let d ← pNat ps "dimension"
        pure (.one (tabulate dt shape (fun idx => (idx.getD d 0 : Int))))
      | _ => fail "iota-arity")
  | "split" => some (match vs with
      | [a] => do
        let sizes ← pNats ps "sizes"
        let ax ← pNat ps "axis"
        let outs := (sizes.foldl (fun (st : Nat × List Val) n =>
          (st.1 + n, tabulate a.dt (a.shape.set ax n) (fun idx => get a (idx.set ax (idx.getD ax 0 + st.1))) :: st.2))
          (0, [])).2.reverse
        pure (.many outs)
      | _ => fail "split-arity")
  | "sort" => some (match vs with
      | a :: _ => do
        let d ← pNat ps "dimension"
        let nk ← pNat ps "num_keys"
        if a.shape.length != 1 || d != 0 || vs.any (fun v => v.shape != a.shape) then fail "sort-only-1d" else
        let n := a.shape.getD 0 0
        let key := fun (i : Nat) => (vs.take nk).map (fun v => v.data.getD i 0)
        let perm := sortPerm n (fun x y => lexLt (key x) (key y))
        pure (.many (vs.map (fun v => ⟨v.dt, v.shape, perm.map (fun i => v.data.getD i 0)⟩)))
      | _ => fail "sort-arity")
  | _ => none

end PrimSem

open PrimSem

/-- Run a `ClosedJaxpr`. -/
def runClosed (sem : Sem) (cj : Jaxpr × List Val) (args : List Val) : Except Err (List Val) :=
  evalPlain sem cj.1 cj.2 args

/-- `while` with an iteration budget (the generated loops are short). -/
def whileLoop (sem : Sem) (cond body : Jaxpr × List Val) (cc bc : List Val) :
    Nat → List Val → Except Err (List Val)
  | 0, _ => fail "while-fuel"
  | fuel + 1, carry => do
    let c ← runClosed sem cond (cc ++ carry)
    match c with
    | [b] =>
      if b.data.headD 0 != 0 then do
        let carry' ← runClosed sem body (bc ++ carry)
        whileLoop sem cond body cc bc fuel carry'
      else pure carry
    | _ => fail "while-cond-arity"

/-- `scan` over the iteration indices `is` (already reversed when `reverse=True`); returns
    the final carry and the per-iteration outputs paired with their index. -/
def scanLoop (sem : Sem) (body : Jaxpr × List Val) (consts xs : List Val) (nCarry : Nat) :
    List Nat → List Val → List (List Val) → Except Err (List Val × List (List Val))
  | [], carry, acc => .ok (carry, acc.reverse)
  | i :: is, carry, acc => do
    let outs ← runClosed sem body (consts ++ carry ++ xs.map (fun x => slice0 x i))
    scanLoop sem body consts xs nCarry is (outs.take nCarry) (outs.drop nCarry :: acc)

def transposeLL {α} (n : Nat) (rows : List (List α)) : List (List α) :=
  (List.range n).map (fun k => rows.filterMap (fun r => r[k]?))

/-- Concrete semantics with a nesting budget for sub-jaxprs. -/
def semF : Nat → Sem
  | 0 => fun p ps vs =>
    match firstOrder p ps vs with
    | some r => r
    | none => fail s!"unsupported-or-fuel:{p}"
  | fuel + 1 => fun p ps vs =>
    let inner := semF fuel
    match firstOrder p ps vs with
    | some r => r
    | none =>
      match p with
      | "pjit" => do let cj ← pClosed ps "jaxpr"; pure (.many (← runClosed inner cj vs))
      | "closed_call" => do let cj ← pClosed ps "call_jaxpr"; pure (.many (← runClosed inner cj vs))
      | "core_call" => do let cj ← pClosed ps "call_jaxpr"; pure (.many (← runClosed inner cj vs))
      | "custom_jvp_call" => do let cj ← pClosed ps "call_jaxpr"; pure (.many (← runClosed inner cj vs))
      | "custom_vjp_call" => do let cj ← pClosed ps "call_jaxpr"; pure (.many (← runClosed inner cj vs))
      | "custom_vjp_call_jaxpr" => do let cj ← pClosed ps "fun_jaxpr"; pure (.many (← runClosed inner cj vs))
      | "remat2" => do let cj ← pClosed ps "jaxpr"; pure (.many (← runClosed inner cj vs))
      | "cond" =>
        match vs, ps.find "branches" with
        | idx :: ops, some (.list brs) =>
          let i := idx.data.headD 0
          if i < 0 then fail "cond-index-range" else
          match brs[i.toNat]? with
          | some (.closed j c) => do pure (.many (← runClosed inner (j, c) ops))
          | _ => fail "cond-index-range"
        | _, _ => fail "cond-params"
      | "while" => do
        let cj ← pClosed ps "cond_jaxpr"
        let bj ← pClosed ps "body_jaxpr"
        let cn ← pNat ps "cond_nconsts"
        let bn ← pNat ps "body_nconsts"
        let cc := vs.take cn
        let bc := (vs.drop cn).take bn
        let init := vs.drop (cn + bn)
        pure (.many (← whileLoop inner cj bj cc bc 10000 init))
      | "scan" => do
        let bj ← pClosed ps "jaxpr"
        let len ← pNat ps "length"
        let rev ← pBool ps "reverse"
        let nc ← pNat ps "num_consts"
        let ncar ← pNat ps "num_carry"
        let consts := vs.take nc
        let carry := (vs.drop nc).take ncar
        let xs := vs.drop (nc + ncar)
        let nys := bj.1.outvars.length - ncar
        if len == 0 then (if nys == 0 then pure (.many carry) else fail "scan-length-0-with-outputs") else
        let order := if rev then (List.range len).reverse else List.range len
        let (carry', rows) ← scanLoop inner bj consts xs ncar order carry []
        let rows := if rev then rows.reverse else rows
        let nys := (rows.headD []).length
        let ys ← (transposeLL nys rows).mapM stack
        pure (.many (carry' ++ ys))
      | _ =>
        -- GenJAX `InitialStylePrimitive`: recognised by its `impl` param (the staged jaxpr)
        match ps.find "impl" with
        | some (.closed _ _) => initialStyleImpl inner ps vs
        | _ => fail s!"unsupported:{p}"

end GenjaxVerif.IR
