import GenjaxVerif.Model.Val
import GenjaxVerif.Model.Sel
/-
  Model E — the generative-function interface over programs built from distributions,
  the static language and the combinators (vmap, scan, switch, mask, dimap; repeat,
  or_else, accumulate, reduce, iterate, iterate_final, masked_iterate(_final) are the
  compositions the library itself uses, built in `GFI.Derived`).

  One evaluator `run` is shared by the five trace-producing operations, the way the
  static language shares one interpreter between its handlers:
     sim    = simulate                      (SimulateHandler,  <Combinator>.simulate)
     assess = assess                        (AssessHandler,    <Combinator>.assess)
     gen    = generate / importance         (GenerateHandler,  <Combinator>.generate)
     upd    = edit with Update(constraint)  (UpdateHandler,    edit_update / edit_choice_map)
     regen  = edit with Regenerate(sel)     (RegenerateRequestHandler, edit_regenerate)
  Each `match mode` inside mirrors the corresponding Python method of that combinator.
  `project` is a separate function on traces.  Core Lean only.
-/
namespace GenjaxVerif.GFI
open GenjaxVerif

/-- Address components: static strings or array indices. -/
inductive Comp where
  | s (a : String)
  | i (n : Nat)
  deriving DecidableEq, Repr, Inhabited

abbrev Path := List Comp

/-- A value stored in a choice map: the value of a primitive choice (an integer here),
    either bare or wrapped in a `Mask` with its flag. -/
inductive CVal where
  | plain (v : Int)
  | masked (f : Bool) (v : Int)
  deriving DecidableEq, Repr, Inhabited

/-- `Mask.build(v, f)` on a stored value: re-masking conjoins the flags. -/
def CVal.mask (f : Bool) : CVal → CVal
  | .plain v => .masked f v
  | .masked g v => .masked (f && g) v

/-- Choice maps / constraints as association lists from paths to (possibly masked)
    values; lookup takes the first match (so `++` is the left-biased `|`). -/
abbrev CMap := List (Path × CVal)

namespace CMap
/-- `get_submap(k)` / `chm(k)`. -/
def sub (c : CMap) (k : Comp) : CMap :=
  c.filterMap fun (p, v) => match p with
    | k' :: q => if k' = k then some (q, v) else none
    | [] => none
/-- `chm(addr)` for a (tuple) static address. -/
def subStatic (c : CMap) (addr : List String) : CMap := addr.foldl (fun c a => c.sub (.s a)) c
/-- `get_value()`: the value stored at the empty path. -/
def leaf (c : CMap) : Option CVal := (c.find? (fun pv => pv.1.isEmpty)).map (·.2)
/-- Prefix every path (`extend`). -/
def pre (ks : Path) (c : CMap) : CMap := c.map fun (p, v) => (ks ++ p, v)
/-- `chm.mask(flag)`. -/
def maskAll (f : Bool) (c : CMap) : CMap := c.map fun (p, v) => (p, v.mask f)
end CMap

/-- Semantics of the primitive distributions: an arbitrary sampler (a function of the key
    path and the arguments) and an arbitrary integer-valued log-density.  All theorems
    quantify over this structure; the driver instantiates it with the harness's test
    distributions (threefry key data mod m, integer polynomials). -/
structure DistSem where
  sample : Nat → KeyPath → Val → Int
  lp : Nat → Int → Val → Int

/-- Argument maps of `dimap` / `contramap` (functions of `*args` returning the inner
    argument tuple). -/
inductive Pre where
  | id                          -- lambda *args: args
  | exprs (es : List Expr)      -- lambda *args: (e₁, …, eₙ)
  | whole (e : Expr)            -- lambda *args: e   (e evaluates to the inner argument tuple)
  | dropLast                    -- lambda *args: args[:-1]
  | appendUnit                  -- lambda *args: (*args, None)
  deriving Repr, Inhabited

def Pre.apply (pre : Pre) (as : List Val) : Except Err (List Val) :=
  match pre with
  | .id => .ok as
  | .exprs es => Expr.evalL as es
  | .whole e => do
    match ← Expr.eval as e with
    | .tup vs => pure vs
    | _ => .error .shape
  | .dropLast => .ok as.dropLast
  | .appendUnit => .ok (as ++ [Val.unit])

/-- `in_axes` entry of one argument: `none` = not mapped, `some d` = mapped along axis `d`. -/
abbrev Ax := Option Nat

mutual
inductive Prog where
  | dist (d : Nat)
  | static (b : Body)
  | vmap (p : Prog) (axes : List Ax)            -- in_axes per argument: none = None, some 0, some 1
  | scan (p : Prog) (length : Option Nat)
  | switch (ps : List Prog)
  | mask (p : Prog)
  | dimap (pre : Pre) (p : Prog) (post : Expr)
inductive Body where
  | ret (e : Expr)
  | bind (addr : List String) (p : Prog) (args : List Expr) (rest : Body)
end

inductive Trace where
  | dist (d : Nat) (args : Val) (v : Int) (lp : Int)
  | static (args ret : Val) (subs : List (List String × Trace))
  | vec (args ret : Val) (elems : List Trace)               -- VmapTrace / ScanTrace
  | switch (args : Val) (idx : Nat) (sub : Trace)
  | mask (flag : Bool) (inner : Trace)
  | dimap (args ret : Val) (inner : Trace)
  deriving Inhabited

inductive Mode where
  | sim | assess | gen | upd | regen
  deriving DecidableEq, Repr

namespace Trace

mutual
def score : Trace → Int
  | dist _ _ _ lp => lp
  | static _ _ subs => scoreAL subs
  | vec _ _ elems => scoreL elems
  | switch _ _ sub => score sub
  | mask f inner => if f then score inner else 0        -- check * inner.get_score()
  | dimap _ _ inner => score inner
def scoreL : List Trace → Int
  | [] => 0
  | t :: ts => score t + scoreL ts
def scoreAL : List (List String × Trace) → Int
  | [] => 0
  | (_, t) :: ts => score t + scoreAL ts
end

mutual
def ret : Trace → Val
  | dist _ _ v _ => .int v
  | static _ r _ => r
  | vec _ r _ => r
  | switch _ _ sub => ret sub
  | mask f inner => Val.mkMask f (ret inner)              -- Mask.build(inner.get_retval(), check)
  | dimap _ r _ => r
end

mutual
def args : Trace → Val
  | dist _ a _ _ => a
  | static a _ _ => a
  | vec a _ _ => a
  | switch a _ _ => a
  | mask f inner => match args inner with                 -- (check, *inner.get_args())
    | .tup vs => .tup (Val.ofBool f :: vs)
    | v => .tup [Val.ofBool f, v]
  | dimap a _ _ => a
end

mutual
/-- `get_choices()`.  Entries under a false (traced) mask flag stay present as invalid
    masked values, exactly as `chm.mask(flag)` keeps them. -/
def choices : Trace → CMap
  | dist _ _ v _ => [([], .plain v)]
  | static _ _ subs => choicesAL subs
  | vec _ _ elems => choicesL 0 elems
  | switch _ _ sub => choices sub
  | mask f inner => CMap.maskAll f (choices inner)
  | dimap _ _ inner => choices inner
def choicesL (i : Nat) : List Trace → CMap
  | [] => []
  | t :: ts => CMap.pre [.i i] (choices t) ++ choicesL (i + 1) ts
def choicesAL : List (List String × Trace) → CMap
  | [] => []
  | (a, t) :: ts => CMap.pre (a.map Comp.s) (choices t) ++ choicesAL ts
end

end Trace

/-- Result of one operation: the new trace, the weight, the backward (discard) constraint
    and whether that backward constraint is meaningful (kept for combinators whose backward request
    the model does not describe; currently always true). -/
structure Res where
  tr : Trace
  w : Int
  bwd : CMap
  bwdOk : Bool := true
  deriving Inhabited

/-- Per-call dynamic inputs of `run`. -/
structure In where
  c : CMap                 -- constraint / sample (assess, gen, upd)
  sel : Sel                -- selection (regen)
  old : Option Trace       -- previous trace (upd, regen)
  key : KeyPath
  args : Val
  changed : Bool := false  -- upd only: is the switch index tagged UnknownChange?

def oldOf (i : In) : Except Err Trace :=
  match i.old with | some t => .ok t | none => .error .shape

/-- `Distribution.simulate / assess / generate_choice_map / edit_update_with_constraint /
    edit_regenerate`. -/
def leaf (ds : DistSem) (m : Mode) (d : Nat) (i : In) : Except Err Res :=
  let lp := fun v => ds.lp d v i.args
  let fresh := ds.sample d i.key i.args
  match m with
  | .sim => .ok ⟨.dist d i.args fresh (lp fresh), 0, [], true⟩
  | .assess =>
    match i.c.leaf with
    | none => .error .missing
    | some (.masked _ v) => .ok ⟨.dist d i.args v (lp v), lp v, [], true⟩     -- flag unchecked (checkify off)
    | some (.plain v) => .ok ⟨.dist d i.args v (lp v), lp v, [], true⟩
  | .gen =>
    match i.c.leaf with
    | none => .ok ⟨.dist d i.args fresh (lp fresh), 0, [], true⟩
    | some (.masked f v) =>
      if f then .ok ⟨.dist d i.args v (lp v), lp v, [], true⟩
      else .ok ⟨.dist d i.args fresh (lp fresh), 0, [], true⟩
    | some (.plain v) => .ok ⟨.dist d i.args v (lp v), lp v, [], true⟩
  | .upd => do
    match ← oldOf i with
    | .dist _ _ ov olp =>
      match i.c.leaf with
      | none => pure ⟨.dist d i.args ov (lp ov), lp ov - olp, [], true⟩
      | some (.masked f v) =>
        let nv := if f then v else ov
        pure ⟨.dist d i.args nv (lp nv), lp nv - olp, [([], .masked f ov)], true⟩
      | some (.plain v) => pure ⟨.dist d i.args v (lp v), lp v - olp, [([], .plain ov)], true⟩
    | _ => .error .shape
  | .regen => do
    match ← oldOf i with
    | .dist _ _ ov olp =>
      if i.sel.check then pure ⟨.dist d i.args fresh (lp fresh), lp fresh - olp, [([], .plain ov)], true⟩
      else pure ⟨.dist d i.args ov (lp ov), lp ov - olp, [], true⟩
    | _ => .error .shape

/-- Slice `k` of one argument along the mapped axis (`jnp.take(v, k, axis)` on every leaf): axis 0
    is element `k`; axis 1 takes element `k` of every row.  Other axes are not modelled. -/
def sliceAx : Nat → Val → Nat → Except Err Val
  | 0, .arr vs, k => match vs[k]? with | some v => .ok v | none => .error .shape
  | 1, .arr rows, k => do
    let col ← rows.mapM (fun row => match row with
      | .arr vs => (match vs[k]? with | some v => .ok v | none => .error .shape)
      | _ => .error .shape)
    pure (.arr col)
  | _, _, _ => .error .shape

/-- Slice the arguments of a vmapped call: slice `k` of every mapped argument. -/
def sliceArgs : List Ax → List Val → Nat → Except Err (List Val)
  | [], [], _ => .ok []
  | ax :: axes, a :: as, k => do
    let rest ← sliceArgs axes as k
    match ax with
    | some d => do pure ((← sliceAx d a k) :: rest)
    | none => pure (a :: rest)
  | _, _, _ => .error .shape

/-- The extent of an argument along its mapped axis (axis 1 needs at least one row: a list of rows
    does not record the shape `(0, n)`). -/
def axLen : Nat → Val → Except Err Nat
  | 0, .arr vs => .ok vs.length
  | 1, .arr (.arr r :: _) => .ok r.length
  | _, _ => .error .shape

/-- `Vmap._static_broadcast_dim_length`: the extent of the first mapped argument. -/
def dimLength : List Ax → List Val → Except Err Nat
  | [], _ => .error .shape
  | _, [] => .error .shape
  | ax :: axes, a :: as =>
    match ax with
    | some d => axLen d a
    | none => dimLength axes as

/-- The generic element loop of `Vmap`: run `f k` for k = start … start+n-1. -/
def vmapLoop (f : Nat → Except Err Res) : Nat → Nat → Except Err (List Res)
  | _, 0 => .ok []
  | k, n + 1 => do
    let r ← f k
    let rs ← vmapLoop f (k + 1) n
    pure (r :: rs)

/-- The generic iteration loop of `Scan`: thread (key, carry); `f k key carry x`. -/
def scanLoop (f : Nat → KeyPath → Val → Val → Except Err Res) :
    Nat → KeyPath → Val → List Val → Except Err (List Res × Val)
  | _, _, carry, [] => .ok ([], carry)
  | k, key, carry, x :: xs => do
    let key' := key.child k                         -- key = fold_in(key, count)
    let r ← f k key' carry x
    match r.tr.ret with
    | .tup [carry', _] =>
      let (rs, final) ← scanLoop f (k + 1) key' carry' xs
      pure (r :: rs, final)
    | _ => .error .shape

def secondOfRet (r : Res) : Except Err Val :=
  match r.tr.ret with
  | .tup [_, y] => .ok y
  | _ => .error .shape

def sumW (rs : List Res) : Int := (rs.map (·.w)).sum

/-- The backward constraints of the elements, each under its index (`Update(bwd_constraints)`
    with the stacked per-element choice maps). -/
def bwdFrom (k : Nat) : List Res → CMap
  | [] => []
  | r :: rs => CMap.pre [.i k] r.bwd ++ bwdFrom (k + 1) rs

def bwdIdx (rs : List Res) : CMap := bwdFrom 0 rs

def allBwdOk (rs : List Res) : Bool := rs.all (·.bwdOk)

def nthOld (old : Option Trace) (k : Nat) : Except Err (Option Trace) :=
  match old with
  | none => .ok none
  | some (.vec _ _ elems) => match elems[k]? with | some t => .ok (some t) | none => .error .shape
  | some _ => .error .shape

/-- An edit of a vector trace needs the previous trace to have the same length (the
    implementation's `jax.vmap` / `lax.scan` over old subtraces and new arguments would fail). -/
def checkOldLen (old : Option Trace) (n : Nat) : Except Err Unit :=
  match old with
  | some (.vec _ _ elems) => if elems.length = n then .ok () else .error .shape
  | _ => .ok ()

def lookupSub (subs : List (List String × Trace)) (a : List String) : Option Trace :=
  (subs.find? (fun p => p.1 = a)).map (·.2)

/-- State of a static-language handler while it walks the body. -/
structure SState where
  counter : Nat := 1                               -- key_counter
  subs : List (List String × Trace) := []          -- self.traces (insertion order)
  w : Int := 0
  bwd : CMap := []
  bwdOk : Bool := true

def argList (v : Val) : Except Err (List Val) :=
  match v with | .tup vs => .ok vs | _ => .error .shape

/-- The previous subtraces a static edit handler reads from (`previous_trace`). -/
def staticOlds (m : Mode) (old : Option Trace) : Except Err (List (List String × Trace)) :=
  match m, old with
  | .upd, some (.static _ _ subs) => .ok subs
  | .regen, some (.static _ _ subs) => .ok subs
  | .upd, _ => .error .shape
  | .regen, _ => .error .shape
  | _, _ => .ok []

/-- `StaticGenerativeFunction.{simulate, assess, generate, edit_update, edit_regenerate}` around one
    pass `body` of the handler. -/
def staticRun (m : Mode) (i : In)
    (body : List (List String × Trace) → List Val → Except Err (SState × Val)) : Except Err Res := do
  let env ← argList i.args
  let olds ← staticOlds m i.old
  let (st, r) ← body olds env
  pure ⟨.static i.args r st.subs, st.w, st.bwd, st.bwdOk⟩

/-- The previous subtrace an edit handler fetches for `addr` (`get_inner_trace` / `get_subtrace`). -/
def bindOld (m : Mode) (olds : List (List String × Trace)) (addr : List String) : Except Err (Option Trace) :=
  match m with
  | .upd | .regen => match lookupSub olds addr with
    | some t => .ok (some t)
    | none => .error .missing
  | _ => .ok none

/-- What one `trace(addr, gen_fn, args)` does before calling the callee. -/
def bindIn (m : Mode) (i : In) (olds : List (List String × Trace)) (st : SState) (addr : List String)
    (a : List Val) : Except Err In :=
  if (lookupSub st.subs addr).isSome then .error .reuse                     -- StaticHandler.record
  else if m == .assess && (i.c.subStatic addr).isEmpty then .error .missing -- AssessHandler.handle_trace
  else match bindOld m olds addr with
    | .error e => .error e
    | .ok o => .ok { i with c := i.c.subStatic addr, sel := i.sel.subs addr, old := o,
                            key := i.key.child st.counter, args := .tup a }

/-- … and after it returned. -/
def bindOut (st : SState) (addr : List String) (r : Res) : SState :=
  { counter := st.counter + 1, subs := st.subs ++ [(addr, r.tr)], w := st.w + r.w,
    bwd := st.bwd ++ CMap.pre (addr.map Comp.s) r.bwd, bwdOk := st.bwdOk && r.bwdOk }

/-- Element `k` of a vmapped call. -/
def vmapElem (axes : List Ax) (as : List Val) (i : In) (k : Nat) : Except Err In := do
  let ea ← sliceArgs axes as k
  let o ← nthOld i.old k
  pure { i with c := i.c.sub (.i k), old := o, key := i.key.child k, args := .tup ea }

def vecRes (args ret : Val) (rs : List Res) : Res :=
  ⟨.vec args ret (rs.map (·.tr)), sumW rs, bwdIdx rs, allBwdOk rs⟩

/-- The argument tuple of a vmapped call; `Vmap.edit` accepts `Update` and `IndexRequest` only, so a
    `Regenerate` request is rejected here (`raise NotImplementedError`). -/
def vmapArgs (m : Mode) (v : Val) : Except Err (List Val) :=
  if m == .regen then .error .notSupported else argList v

/-- `Vmap.{simulate, assess, generate, edit_choice_map}`; `f` runs the inner function. -/
def vmapRun (m : Mode) (axes : List Ax) (i : In) (f : In → Except Err Res) : Except Err Res := do
  let as ← vmapArgs m i.args
  let n ← dimLength axes as
  checkOldLen i.old n
  let rs ← vmapLoop (fun k => do f (← vmapElem axes as i k)) 0 n
  pure (vecRes i.args (.arr (rs.map (·.tr.ret))) rs)

def scanArgs (length : Option Nat) (args : Val) : Except Err (Val × List Val) :=
  match args, length with
  | .tup [c, .arr xs], none => .ok (c, xs)
  | .tup [c, .arr xs], some n => if n = xs.length then .ok (c, xs) else .error .shape
  | .tup [c, .tup []], some n => .ok (c, List.replicate n Val.unit)
  | _, _ => .error .shape

/-- Iteration `k` of a scan.  Inside `Scan.edit_update / edit_regenerate` every argument diff is
    forced to `unknown_change`, so a switch index below is always "changed". -/
def scanElem (m : Mode) (i : In) (k : Nat) (key : KeyPath) (carry x : Val) : Except Err In := do
  let o ← nthOld i.old k
  pure { i with c := i.c.sub (.i k), old := o, key := key, args := .tup [carry, x],
                changed := i.changed || m == .upd }

/-- `Scan.{simulate, assess, generate, edit_update, edit_regenerate}`. -/
def scanRun (m : Mode) (length : Option Nat) (i : In) (f : In → Except Err Res) : Except Err Res := do
  let (carry, xs) ← scanArgs length i.args
  checkOldLen i.old xs.length
  let (rs, final) ← scanLoop (fun k key carry x => do f (← scanElem m i k key carry x)) 0 i.key carry xs
  let ys ← rs.mapM secondOfRet
  pure (vecRes i.args (.tup [final, .arr ys]) rs)

/-- `jnp.clip(idx, 0, n - 1)`: an out-of-range switch index is clamped to within bounds. -/
def clampIdx (n : Nat) (idxv : Int) : Nat :=
  if idxv < 0 then 0 else if idxv ≥ n then n - 1 else idxv.toNat

def switchArgs (n : Nat) (args : Val) : Except Err (Nat × Val) :=
  match args with
  | .tup (.int idxv :: bargs) =>
    if bargs.length ≠ n then .error .shape
    else match bargs[clampIdx n idxv]? with
      | some a => .ok (clampIdx n idxv, a)
      | none => .error .shape
  | _ => .error .shape

/-- `Switch.{simulate, assess, generate, edit}`; `f m idx` runs branch `idx` in mode `m`. -/
def switchRun (m : Mode) (n : Nat) (i : In) (f : Mode → Nat → In → Except Err Res) : Except Err Res := do
  let (idx, ba) ← switchArgs n i.args
  match m with
  | .upd =>
    match i.old with
    | some (.switch _ oidx osub) =>
      if i.changed then do
        -- `_make_edit_fresh_trace`: simulate afresh, then apply the constraint to it
        let fresh ← f .sim idx { i with old := none, args := ba }
        let r ← f .upd idx { i with old := some fresh.tr, args := ba, changed := false }
        pure ⟨.switch i.args idx r.tr, r.w + (r.tr.score - osub.score), r.bwd, r.bwdOk⟩
      else if oidx ≠ idx then .error .shape        -- a dishonest NoChange tag: outside the model
      else do
        let r ← f .upd idx { i with old := some osub, args := ba }
        pure ⟨.switch i.args idx r.tr, r.w, r.bwd, r.bwdOk⟩
    | _ => .error .shape
  | .regen => .error .notSupported                 -- `assert isinstance(edit_request, Update)`
  | _ => do
    let r ← f m idx { i with args := ba }
    pure ⟨.switch i.args idx r.tr, r.w, r.bwd, r.bwdOk⟩

def maskArgs (args : Val) : Except Err (Bool × List Val) := do
  match args with
  | .tup (f :: rest) => pure (← f.asFlag, rest)
  | _ => .error .shape

/-- `MaskCombinator.{simulate, assess, generate, edit}`. -/
def maskRun (m : Mode) (i : In) (f : Mode → In → Except Err Res) : Except Err Res := do
  let (check, iargs) ← maskArgs i.args
  match m with
  | .upd =>
    match i.old with
    | some (.mask pre inner) => do
      let r ← f .upd { i with old := some inner, args := .tup iargs }
      let w :=
        if !pre && check then r.tr.score              -- f_to_t * final_trace.get_score()
        else if pre && !check then - inner.score      -- t_to_f * -original_trace.get_score()
        else if pre && check then r.w                 -- t_to_t * weight
        else 0                                        -- f_to_f
      pure ⟨.mask check r.tr, w, CMap.maskAll check r.bwd, r.bwdOk⟩
    | _ => .error .shape
  | .regen => .error .notSupported                   -- `assert isinstance(edit_request, Update)`
  | _ => do
    let r ← f m { i with args := .tup iargs }
    pure ⟨.mask check r.tr, if check then r.w else 0, r.bwd, r.bwdOk⟩

def dimapOld (m : Mode) (old : Option Trace) : Except Err (Option Trace) :=
  match m, old with
  | .upd, some (.dimap _ _ inner) => .ok (some inner)
  | .regen, some (.dimap _ _ inner) => .ok (some inner)
  | .upd, _ => .error .shape
  | .regen, _ => .error .shape
  | _, _ => .ok none

/-- `Dimap.{simulate, assess, generate, edit_change_target}`. -/
def dimapRun (m : Mode) (pre : Pre) (post : Expr) (i : In) (f : In → Except Err Res) : Except Err Res := do
  let as ← argList i.args
  let ia ← pre.apply as
  let o ← dimapOld m i.old
  let r ← f { i with old := o, args := .tup ia }
  let rv ← Expr.eval [i.args, .tup ia, r.tr.ret] post
  pure ⟨.dimap i.args rv r.tr, r.w, r.bwd, r.bwdOk⟩

mutual
/-- The shared evaluator. -/
def run (ds : DistSem) (m : Mode) : Prog → In → Except Err Res
  | .dist d, i => leaf ds m d i
  | .static b, i => staticRun m i (fun olds env => runBody ds m b i olds env {})
  | .vmap p axes, i => vmapRun m axes i (fun i' => run ds m p i')
  | .scan p length, i => scanRun m length i (fun i' => run ds m p i')
  | .switch ps, i => switchRun m ps.length i (fun m' idx i' => runNth ds m' ps idx i')
  | .mask p, i => maskRun m i (fun m' i' => run ds m' p i')
  | .dimap pre p post, i => dimapRun m pre post i (fun i' => run ds m p i')

/-- Run branch `k` of a switch (`multi_switch` executes only the selected branch). -/
def runNth (ds : DistSem) (m : Mode) : List Prog → Nat → In → Except Err Res
  | [], _, _ => .error .shape
  | p :: _, 0, i => run ds m p i
  | _ :: ps, k + 1, i => runNth ds m ps k i

/-- One pass of a static handler over the body: each `bind` is one `trace(addr, gen_fn, args)`. -/
def runBody (ds : DistSem) (m : Mode) : Body → In → List (List String × Trace) → List Val → SState →
    Except Err (SState × Val)
  | .ret e, _, _, env, st => do
    let v ← Expr.eval env e
    pure (st, v)
  | .bind addr p aes rest, i, olds, env, st => do
    let a ← Expr.evalL env aes
    let i' ← bindIn m i olds st addr a
    let r ← run ds m p i'
    runBody ds m rest i olds (env ++ [r.tr.ret]) (bindOut st addr r)
end

/-! ### The five operations -/

def simulate (ds : DistSem) (p : Prog) (key : KeyPath) (args : Val) : Except Err Trace :=
  (run ds .sim p { c := [], sel := .none, old := none, key, args }).map (·.tr)

/-- `assess(sample, args) = (score, retval)`. -/
def assess (ds : DistSem) (p : Prog) (c : CMap) (args : Val) : Except Err (Int × Val) :=
  (run ds .assess p { c, sel := .none, old := none, key := [], args }).map fun r => (r.w, r.tr.ret)

def generate (ds : DistSem) (p : Prog) (key : KeyPath) (c : CMap) (args : Val) : Except Err (Trace × Int) :=
  (run ds .gen p { c, sel := .none, old := none, key, args }).map fun r => (r.tr, r.w)

/-- `edit(key, trace, Update(c), argdiffs)`; `changed` = the switch index is tagged UnknownChange. -/
def update (ds : DistSem) (p : Prog) (key : KeyPath) (t : Trace) (c : CMap) (args : Val)
    (changed : Bool := false) : Except Err Res :=
  run ds .upd p { c, sel := .none, old := some t, key, args, changed }

def regenerate (ds : DistSem) (p : Prog) (key : KeyPath) (t : Trace) (sel : Sel) (args : Val) :
    Except Err Res :=
  run ds .regen p { c := [], sel, old := some t, key, args }

/-! ### project -/

/-- Sum a projection over the elements of a vector trace (index levels are transparent
    to selections: every element gets the same selection). -/
def projectL (f : Trace → Except Err Int) : List Trace → Except Err Int
  | [] => .ok 0
  | t :: ts => do
    let a ← f t
    let b ← projectL f ts
    pure (a + b)

mutual
/-- `<Combinator>.project(key, trace, selection)`. -/
def project : Prog → Trace → Sel → Except Err Int
  | .dist _, .dist _ _ _ lp, sel => .ok (if sel.check then lp else 0)     -- jnp.where(selection.check(), score, 0)
  | .static b, .static _ _ subs, sel => projectBody b subs sel
  | .vmap p _, .vec _ _ elems, sel => projectL (fun t => project p t sel) elems
  | .scan p _, .vec _ _ elems, sel => projectL (fun t => project p t sel) elems
  | .switch ps, .switch _ idx sub, sel => projectNth ps idx sub sel
  | .mask _, _, _ => .error .notSupported                                  -- raise NotImplementedError
  | .dimap _ p _, .dimap _ _ inner, sel => project p inner sel
  | _, _, _ => .error .shape
def projectNth : List Prog → Nat → Trace → Sel → Except Err Int
  | [], _, _, _ => .error .shape
  | p :: _, 0, t, sel => project p t sel
  | _ :: ps, k + 1, t, sel => projectNth ps k t sel
/-- `StaticGenerativeFunction.project`: for every recorded subtrace,
    `subtrace.project(key, selection(addr))`, summed. -/
def projectBody : Body → List (List String × Trace) → Sel → Except Err Int
  | .ret _, _, _ => .ok 0
  | .bind addr p _ rest, subs, sel => do
    match lookupSub subs addr with
    | some t =>
      let a ← project p t (sel.subs addr)
      let b ← projectBody rest subs sel
      pure (a + b)
    | none => .error .shape
end

end GenjaxVerif.GFI
