/-
  Model I — discrete hidden Markov models over ℚ, PROBABILITY domain
  (src/genjax/_src/generative_functions/distributions/custom/discrete_hmm.py).

  The Python code works with float32 *log* probabilities; the model works with the
  probabilities themselves (`logsumexp` ↦ sum, `+` ↦ `*`, `-` ↦ `/`, `softmax`-ed tensors are
  inputs).  An `Hmm` is ANY finite HMM: `init` (the prior row), `trans` (row = from-state),
  `obs` (row = latent state) — nothing is assumed about circulant structure, positivity or
  stochasticity here; theorems state what they need.

    init            = softmax(tt[int(N/2), :])            (`prior`, `initial_distribution`)
    trans           = softmax(tt)                          (`transition_n`, `transition_distribution`)
    obs             = softmax(observation_tensor())        (`obs_n`, `observation_distribution`)
    initAlpha       = forward_pass.init_branch             stepAlpha   = forward_pass.t_branch
    forwardScan     = lax.scan(forward_pass, (0, prior), observation_sequence)
    categorical     = jax.random.categorical (probability of one outcome)
    backwardKernel  = backward_sample.t_1_branch (the normalised backward distribution)
    backwardScan    = lax.scan(backward_sample, (key, 0, 0), flip(forward_filters))
    ffbsProb/Dist   = forward_filtering_backward_sampling (distribution of the returned samples)
    scanTerms/scanJoint = latent_sequence_posterior._inner / exp(sum(probs))
    dataLik         = exp(hmm.log_prob(observation_sequence))   — SPECIFICATION of the TFP call
    seqPosterior    = exp(latent_sequence_posterior(...)[0]) = DiscreteHMM.estimate_logpdf
    estimate        = DiscreteHMM.estimate_logpdf incl. the scan's length check
  Core Lean only.
-/
namespace GenjaxVerif.HMM

structure Hmm where
  init : List Rat
  trans : List (List Rat)
  obs : List (List Rat)
  deriving Repr, Inhabited

/-- Which transition entry the forward recursion multiplies `prev[j]` with when it computes
    `alpha'[i]`.  `asWritten` is the code: `logsumexp(prev + transition_n, axis=-1)` pairs
    `prev[j]` with `transition_n[i, j]`.  `textbook` pairs it with `transition_n[j, i]`
    (`p(x_t = i | x_{t-1} = j)`), i.e. the code after the one-line repair
    `logsumexp(prev.reshape(-1, 1) + transition_n, axis=0)`. -/
inductive Fwd where
  | asWritten
  | textbook
  deriving DecidableEq, Repr, Inhabited

inductive Err where
  | emptySequence
  | lengthMismatch
  deriving DecidableEq, Repr, Inhabited

/-- vector lookup (in-range indices only are meaningful; JAX would clamp, we return 0) -/
def vget (l : List Rat) (i : Nat) : Rat := l.getD i 0

/-- matrix lookup `m[i, j]` -/
def mget (m : List (List Rat)) (i j : Nat) : Rat := vget (m.getD i []) j

/-- number of latent states = length of the prior row -/
def Hmm.n (h : Hmm) : Nat := h.init.length

def Hmm.states (h : Hmm) : List Nat := List.range h.n

/-- `x - logsumexp(x)` in the probability domain -/
def normalise (l : List Rat) : List Rat := l.map (· / l.sum)

/-- all latent sequences of length `L` over `n` states -/
def allSeqs (n : Nat) : Nat → List (List Nat)
  | 0 => [[]]
  | L + 1 => (List.range n).flatMap fun x => (allSeqs n L).map (x :: ·)

/-! ### Forward filtering -/

def fwdEntry (v : Fwd) (h : Hmm) (i j : Nat) : Rat :=
  match v with
  | .asWritten => mget h.trans i j
  | .textbook => mget h.trans j i

/-- `init_branch`: `alpha = (obs_n + prev.reshape(-1, 1))[:, obs]`. -/
def initAlpha (h : Hmm) (prev : List Rat) (y : Nat) : List Rat :=
  h.states.map fun x => mget h.obs x y * vget prev x

/-- `t_branch`: `alpha = logsumexp(prev + transition_n, axis=-1)`;
    `alpha = (obs_n + alpha.reshape(-1, 1))[:, obs]`. -/
def stepAlpha (v : Fwd) (h : Hmm) (prev : List Rat) (y : Nat) : List Rat :=
  h.states.map fun i => mget h.obs i y * (h.states.map fun j => vget prev j * fwdEntry v h i j).sum

/-- `lax.scan(forward_pass, (index, prev), ys)`: the stacked `(alpha, forward_filter)` outputs.
    The carry is `(index + 1, alpha)` — the UNnormalised alpha. -/
def forwardScan (v : Fwd) (h : Hmm) : Nat → List Rat → List Nat → List (List Rat × List Rat)
  | _, _, [] => []
  | idx, prev, y :: ys =>
    let alpha := if idx == 0 then initAlpha h prev y else stepAlpha v h prev y
    (alpha, normalise alpha) :: forwardScan v h (idx + 1) alpha ys

def alphas (v : Fwd) (h : Hmm) (ys : List Nat) : List (List Rat) :=
  (forwardScan v h 0 h.init ys).map (·.1)

/-- `forward_filters` as returned by `forward_filtering_backward_sampling`. -/
def filters (v : Fwd) (h : Hmm) (ys : List Nat) : List (List Rat) :=
  (forwardScan v h 0 h.init ys).map (·.2)

/-- `Σ_x alpha_T(x)`: the data likelihood as the forward pass computes it. -/
def forwardTotal (v : Fwd) (h : Hmm) (ys : List Nat) : Rat :=
  match (alphas v h ys).getLast? with
  | some a => a.sum
  | none => 1

/-! ### Backward sampling -/

/-- Probability that `jax.random.categorical(key, log w)` returns `s`: `w[s] / Σ w`. -/
def categorical (w : List Rat) (s : Nat) : Rat := vget (normalise w) s

/-- `t_1_branch`: `forward_filter + transition_n[:, prev_sample]`, normalised. -/
def backwardKernel (h : Hmm) (filt : List Rat) (prev : Nat) : List Rat :=
  normalise (h.states.map fun b => vget filt b * mget h.trans b prev)

/-- Probability that `lax.scan(backward_sample, (key, index, prev_sample), flipped_filters)`
    stacks exactly the samples `ss` (sub-keys are independent, so the probability is the
    product of the per-step categorical probabilities). -/
def backwardScan (h : Hmm) : Nat → Nat → List (List Rat) → List Nat → Rat
  | _, _, [], [] => 1
  | idx, prev, f :: fs, s :: ss =>
    (if idx == 0 then categorical f s else categorical (backwardKernel h f prev) s)
      * backwardScan h (idx + 1) s fs ss
  | _, _, _, _ => 0

/-- Probability that `forward_filtering_backward_sampling` returns `seq`
    (`jnp.flip(forward_filters, axis=0)` going in, `jnp.flip(samples)` coming out). -/
def ffbsProb (v : Fwd) (h : Hmm) (ys : List Nat) (seq : List Nat) : Rat :=
  backwardScan h 0 0 (filters v h ys).reverse seq.reverse

/-- The sampler's output distribution as a finite table (`ffbsProb` of every latent sequence;
    the flipped filters are computed once). -/
def ffbsDist (v : Fwd) (h : Hmm) (ys : List Nat) : List (List Nat × Rat) :=
  let flipped := (filters v h ys).reverse
  (allSeqs h.n ys.length).map fun s => (s, backwardScan h 0 0 flipped s.reverse)

/-! ### Exact sequence posterior -/

/-- `_inner` of `latent_sequence_posterior`: `v = carry[latent] * obs[latent, y]`,
    `carry = trans[latent, :]`; the stacked `v`s. -/
def scanTerms (h : Hmm) : List Rat → List Nat → List Nat → List Rat
  | carry, x :: xs, y :: ys => (vget carry x * mget h.obs x y) :: scanTerms h (h.trans.getD x []) xs ys
  | _, _, _ => []

/-- `exp(jnp.sum(probs))`. -/
def scanJoint (h : Hmm) (seq ys : List Nat) : Rat := (scanTerms h h.init seq ys).prod

/-- Specification: `Π_{t ≥ 1} trans[x_{t-1}, x_t] * obs[x_t, y_t]` after state `prev`. -/
def chain (h : Hmm) : Nat → List Nat → List Nat → Rat
  | prev, x :: xs, y :: ys => mget h.trans prev x * mget h.obs x y * chain h x xs ys
  | _, _, _ => 1

/-- Specification: the joint probability `p(x_{1:T}, y_{1:T})`. -/
def joint (h : Hmm) : List Nat → List Nat → Rat
  | x :: xs, y :: ys => vget h.init x * mget h.obs x y * chain h x xs ys
  | _, _ => 1

/-- Specification of `exp(hmm.log_prob(ys))`: the marginal likelihood, by brute force. -/
def dataLik (h : Hmm) (ys : List Nat) : Rat :=
  ((allSeqs h.n ys.length).map fun s => joint h s ys).sum

/-- `prod = sum(probs); prod -= hmm.log_prob(ys)` in the probability domain. -/
def seqPosterior (h : Hmm) (seq ys : List Nat) : Rat := scanJoint h seq ys / dataLik h ys

/-- `seqPosterior` of every latent sequence (the normaliser is computed once). -/
def posteriorTable (h : Hmm) (ys : List Nat) : List Rat :=
  let z := dataLik h ys
  (allSeqs h.n ys.length).map fun s => scanJoint h s ys / z

/-- `DiscreteHMM.estimate_logpdf` (probability domain).  `latent_marginals` runs first:
    `tfd.HiddenMarkovModel(..., num_steps=len(ys))` rejects `num_steps < 1`; then `lax.scan` over
    `(latent_point, observation_sequence)` rejects unequal leading dimensions. -/
def estimate (h : Hmm) (seq ys : List Nat) : Except Err Rat :=
  if ys.length = 0 then .error .emptySequence
  else if seq.length ≠ ys.length then .error .lengthMismatch
  else .ok (seqPosterior h seq ys)

/-- `DiscreteHMM.data_logpdf` (probability domain; specification of the TFP call). -/
def dataLogpdf (h : Hmm) (ys : List Nat) : Except Err Rat :=
  if ys.length = 0 then .error .emptySequence else .ok (dataLik h ys)

/-! ### Hypotheses used by the theorems (all decidable) -/

/-- every row/vector has length `n` -/
def Hmm.wf (h : Hmm) : Bool :=
  h.trans.length == h.n && h.obs.length == h.n && h.trans.all (·.length == h.n)

/-- all entries the recursions read are strictly positive (true of softmax output) -/
def Hmm.pos (h : Hmm) (m : Nat) : Bool :=
  h.states.all fun i => decide (0 < vget h.init i) &&
    (h.states.all fun j => decide (0 < mget h.trans i j)) &&
    ((List.range m).all fun y => decide (0 < mget h.obs i y))

/-- the transition matrix is symmetric on the state space -/
def Hmm.symm (h : Hmm) : Bool :=
  h.states.all fun i => h.states.all fun j => decide (mget h.trans i j = mget h.trans j i)

/-- rows of `trans`, rows of `obs` (over `m` symbols) and `init` sum to one -/
def Hmm.stochastic (h : Hmm) (m : Nat) : Bool :=
  decide ((h.states.map (vget h.init)).sum = 1) &&
  (h.states.all fun i => decide ((h.states.map (mget h.trans i)).sum = 1)) &&
  (h.states.all fun i => decide (((List.range m).map (mget h.obs i)).sum = 1))

/-! ### The configuration's tensors (structure only; `exp` is outside ℚ) -/

/-- `scaled_circulant`'s `source` list over ℚ. -/
def source (N k : Nat) (eps delta : Rat) : List Rat :=
  (List.range N).map fun index =>
    if index ≤ k then eps ^ index
    else if N ≤ index + k then eps ^ (N - index)
    else -delta

/-- `scipy.linalg.circulant(c)[i, j] = c[(i - j) mod N]`. -/
def circulant (c : List Rat) : List (List Rat) :=
  (List.range c.length).map fun i => (List.range c.length).map fun j =>
    vget c ((i + c.length - j) % c.length)

end GenjaxVerif.HMM
