/-
  Model P (inference part) — finite discrete probability over ℚ for the unbiasedness
  statements of C25 / C26.  Probability domain: a weight here is `exp` of a log-weight of
  `Model/Infer.lean`; `logsumexp(w) − log K` becomes the arithmetic mean.

    Tree        a finite discrete generative program: `choose addr pmf-table continuation`
    genD        `generate` on a tree as a distribution over (choices, weight):
                constrained sites multiply their probability into the weight, unconstrained
                sites are sampled from their table (the internal proposal)
    simD        `simulate` as a distribution over (choices, score)
    isD         one importance-sampling particle (`Importance.run_smc`): proposal outcome
                (choices, reported weight), then `target.importance`, weight = tw / qw
    sumK        distribution of the SUM of K independent copies of a weight
    margD       `Marginal.random_weighted` without algorithm on a tree (weight = product of
                the probabilities of the sites in the projected selection)
  Core Lean only (`Rat` is in core).
-/
namespace GenjaxVerif.FinProbInfer

abbrev FinDist (α : Type) := List (α × Rat)

def mass {α} (d : FinDist α) : Rat := (d.map Prod.snd).sum
def expect {α} (d : FinDist α) (f : α → Rat) : Rat := (d.map (fun x => x.2 * f x.1)).sum
def dmap {α β} (f : α → β) (d : FinDist α) : FinDist β := d.map (fun x => (f x.1, x.2))
def dbind {α β} (d : FinDist α) (f : α → FinDist β) : FinDist β :=
  d.flatMap (fun x => (f x.1).map (fun y => (y.1, x.2 * y.2)))

abbrev Asg := List (Nat × Int)

/-- A finite discrete program: at address `a` choose a value from the table `d`
    (value, probability), continue with `k value`. -/
inductive Tree where
  | ret : Tree
  | choose (a : Nat) (d : List (Int × Rat)) (k : Int → Tree) : Tree

/-- Probability of value `v` under a table (0 outside the listed support). -/
def pmf (d : List (Int × Rat)) (v : Int) : Rat := ((d.filter (fun x => x.1 == v)).map Prod.snd).sum

/-- `generate(constraint)`: distribution over (choices, importance weight). -/
def genD : Tree → Asg → FinDist (Asg × Rat)
  | .ret, _ => [(([], 1), 1)]
  | .choose a d k, c =>
    match c.lookup a with
    | some v => dmap (fun r => ((a, v) :: r.1, pmf d v * r.2)) (genD (k v) c)
    | none => dbind d (fun v => dmap (fun r => ((a, v) :: r.1, r.2)) (genD (k v) c))

/-- The normalising constant of the target `(t, c)`: total probability of the runs of `t`
    that agree with `c`. -/
def Z : Tree → Asg → Rat
  | .ret, _ => 1
  | .choose a d k, c =>
    match c.lookup a with
    | some v => pmf d v * Z (k v) c
    | none => (d.map (fun x => x.2 * Z (k x.1) c)).sum

/-- `simulate`: distribution over (choices, score = probability of the run). -/
def simD : Tree → FinDist (Asg × Rat)
  | .ret => [(([], 1), 1)]
  | .choose a d k => dbind d (fun v => dmap (fun r => ((a, v) :: r.1, pmf d v * r.2)) (simD (k v)))

/-- One importance particle: `(lw, choice) = q.random_weighted(..)`;
    `(tr, ts) = target.importance(key, choice)`; weight `ts / lw` (log: `ts − lw`).
    `q` is the proposal as a distribution over (proposed choices, reported weight). -/
def isD (t : Tree) (obs : Asg) (q : FinDist (Asg × Rat)) : FinDist Rat :=
  dbind q (fun x => dmap (fun r => r.2 / x.2) (genD t (obs ++ x.1)))

/-- Distribution of `w₁ + … + w_K` for K independent draws from `d` (`ImportanceK`: K
    independent particles; `exp(lml) = (w₁ + … + w_K) / K`). -/
def sumK (d : FinDist Rat) : Nat → FinDist Rat
  | 0 => [(0, 1)]
  | n + 1 => dbind d (fun w => dmap (fun s => w + s) (sumK d n))

/-- Product of the probabilities of the sites of a run that lie in a selection. -/
def selProb (sel : Nat → Bool) : Tree → Asg → Rat
  | .ret, _ => 1
  | .choose a d k, σ =>
    match σ.lookup a with
    | some v => (if sel a then pmf d v else 1) * selProb sel (k v) σ
    | none => 1

/-- `Marginal.random_weighted` without algorithm: simulate, return the selected choices and
    the weight `project(tr, proj)` where `proj` is the selection handed to `project`
    (pinned code: the complement of the marginal's selection; repaired: the selection). -/
def margD (t : Tree) (sel proj : Nat → Bool) : FinDist (Asg × Rat) :=
  dmap (fun r => (r.1.filter (fun x => sel x.1), selProb proj t r.1)) (simD t)

/-- Marginal probability of the selected choices `x` (a partial assignment on the selected
    addresses): `Z t x`. -/
def margProb (t : Tree) (x : Asg) : Rat := Z t x

end GenjaxVerif.FinProbInfer
