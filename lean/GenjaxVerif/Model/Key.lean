import GenjaxVerif.Model.Val
/-
  Model F — PRNG keys.  With this JAX (0.5.2, threefry, `jax_threefry_partitionable=True`)
  `fold_in(k, i) = split(k, n)[i] = threefry2x32(k, (0, i))` bit for bit, so a key is a
  root plus a path of naturals and every key-deriving line of GenJAX is a path extension.
  `threefry2x32` below is the standard Threefry-2x32, 20 rounds, as in jax/_src/prng.py.
  Core Lean only.
-/
namespace GenjaxVerif.Key

def rotl (x : UInt32) (r : UInt32) : UInt32 := (x <<< r) ||| (x >>> (32 - r))

def round (x : UInt32 × UInt32) (r : UInt32) : UInt32 × UInt32 :=
  let x0 := x.1 + x.2
  let x1 := rotl x.2 r
  (x0, x0 ^^^ x1)

def rounds (x : UInt32 × UInt32) (rs : List UInt32) : UInt32 × UInt32 := rs.foldl round x

def R0 : List UInt32 := [13, 15, 26, 6]
def R1 : List UInt32 := [17, 29, 16, 24]

/-- `threefry2x32(key = (k0, k1), count = (c0, c1))`. -/
def threefry2x32 (k0 k1 c0 c1 : UInt32) : UInt32 × UInt32 :=
  let k2 := k0 ^^^ k1 ^^^ 0x1BD11BDA
  let x := (c0 + k0, c1 + k1)
  let x := rounds x R0
  let x := (x.1 + k1, x.2 + k2 + 1)
  let x := rounds x R1
  let x := (x.1 + k2, x.2 + k0 + 2)
  let x := rounds x R0
  let x := (x.1 + k0, x.2 + k1 + 3)
  let x := rounds x R1
  let x := (x.1 + k1, x.2 + k2 + 4)
  let x := rounds x R0
  (x.1 + k2, x.2 + k0 + 5)

/-- `jax.random.fold_in(key, i)` on raw key data. -/
def foldIn (k : UInt32 × UInt32) (i : Nat) : UInt32 × UInt32 :=
  threefry2x32 k.1 k.2 0 (UInt32.ofNat i)

/-- `jax.random.key(seed)` for 0 ≤ seed < 2^32: key data `(0, seed)`. -/
def rootOfSeed (seed : Nat) : UInt32 × UInt32 := (0, UInt32.ofNat seed)

/-- Key data reached from a root along a path of `fold_in` / `split` indices. -/
def keyData (root : UInt32 × UInt32) (path : KeyPath) : UInt32 × UInt32 := path.foldl foldIn root

end GenjaxVerif.Key
