/-
  Model A — selections (`Selection` and its subclasses in
  src/genjax/_src/core/generative/choice_map.py).

  Each definition mirrors one Python method:
    mkCompl  = ComplementSel.build      mkStat = StaticSel.build
    mkAnd    = AndSel.build             mkOr   = OrSel.build
    check    = <Class>.check            sub    = <Class>.get_subselection
    subs     = Selection.__call__       mem    = Selection.__getitem__ / __contains__
    extend   = Selection.extend         atAddr = _SelectionBuilder.__getitem__
  `ChmSel` (a selection backed by a choice map) belongs to model C.
  Core Lean only.
-/
namespace GenjaxVerif

/-- Address components of selections: `none` stands for the `...` wildcard. -/
abbrev XAddr := Option String

inductive Sel where
  | all
  | none
  | leaf
  | compl (s : Sel)
  | stat (s : Sel) (a : XAddr)
  | and (a b : Sel)
  | or (a b : Sel)
  deriving DecidableEq, Repr, Inhabited

namespace Sel

/-- `ComplementSel.build`. -/
def mkCompl : Sel → Sel
  | all => none
  | none => all
  | compl s => s
  | s => compl s

/-- `StaticSel.build`. -/
def mkStat (s : Sel) (a : XAddr) : Sel :=
  match s with
  | none => none
  | s => stat s a

/-- `AndSel.build` (the `match` arms in source order). -/
def mkAnd (a b : Sel) : Sel :=
  match a, b with
  | all, b => b
  | a, all => a
  | none, _ => none
  | _, none => none
  | a, b => if a = b then a else and a b

/-- `OrSel.build`. -/
def mkOr (a b : Sel) : Sel :=
  match a, b with
  | all, _ => all
  | _, all => all
  | none, b => b
  | a, none => a
  | a, b => if a = b then a else or a b

/-- `check`: does the selection select the empty address (i.e. "here")? -/
def check : Sel → Bool
  | all => true
  | none => false
  | leaf => true
  | compl s => !check s
  | stat _ _ => false
  | and a b => check a && check b
  | or a b => check a || check b

/-- `get_subselection(addr)`; compound cases re-enter the smart constructors exactly as
    `~remaining`, `remaining1 & remaining2`, `remaining1 | remaining2` do. -/
def sub : Sel → String → Sel
  | all, _ => all
  | none, _ => none
  | leaf, _ => none
  | compl s, x => mkCompl (sub s x)
  | stat s a, x =>
    match a with
    | Option.none => s
    | some y => if x = y then s else none
  | and a b, x => mkAnd (sub a x) (sub b x)
  | or a b, x => mkOr (sub a x) (sub b x)

/-- `Selection.__call__(addr)`: iterate `get_subselection` over the components. -/
def subs (s : Sel) (p : List String) : Sel := p.foldl sub s

/-- `Selection.__getitem__` / `__contains__`. -/
def mem (s : Sel) (p : List String) : Bool := check (subs s p)

/-- `Selection.extend(*addrs)`: `for addr in reversed(addrs): acc = StaticSel.build(acc, addr)`. -/
def extend (s : Sel) (addrs : List XAddr) : Sel := addrs.foldr (fun a acc => mkStat acc a) s

/-- `Selection.at[addr]` / `SelectionBuilder[addr]`. -/
def atAddr (addrs : List XAddr) : Sel := if addrs.isEmpty then leaf else extend all addrs

/-- Reference meaning of a *raw* term, with no simplification anywhere: the specification
    against which the simplifying constructors are judged. -/
def den : Sel → List String → Bool
  | all, _ => true
  | none, _ => false
  | leaf, p => p.isEmpty
  | compl s, p => !den s p
  | stat s a, p =>
    match p with
    | [] => false
    | x :: q => (match a with | Option.none => true | some y => x == y) && den s q
  | and a b, p => den a p && den b p
  | or a b, p => den a p || den b p

/-- Does an extended address (with wildcards) match a prefix of `p`? -/
def matchPrefix : List XAddr → List String → Bool
  | [], _ => true
  | _ :: _, [] => false
  | a :: as, x :: q => (match a with | Option.none => true | some y => x == y) && matchPrefix as q

end Sel
end GenjaxVerif
