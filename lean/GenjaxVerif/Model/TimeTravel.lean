import GenjaxVerif.Model.IR
/-
  Model D (time travel): the recorder / debugger of
  /repo/src/genjax/_src/core/compiler/interpreters/time_travel.py over the jaxpr IR of `Model/IR.lean`.

  Python sources mirrored:
    RecordPoint.handle / RecordPoint.__call__ / rec / tag
    TimeTravelCPSInterpreter.eval_jaxpr_time_travel  (the hybrid CPS loop `eval_jaxpr_iterate_cps`,
                                                       both its `rebind=False` and `rebind=True` modes)
    time_travel, _record, time_machine
    TimeTravelingDebugger.frame / summary / jump / fwd / bwd / remix

  How re-staging is modelled.  `_record` repeatedly calls `time_travel(frame.cont)(*frame.args)`:
  the continuation `_cont = lambda *args: _kont(callable(*args))` is traced by `stage` into a NEW
  flat jaxpr (the callable's body, then the remaining equations of every enclosing jaxpr,
  replayed by `_kont` in `rebind=True` mode) which the hybrid interpreter then walks.  JAX
  tracing is outside the model: a staged continuation is represented by what it denotes, a
  STACK OF SEGMENTS (`Seg`): the callable's body first, then one `_kont` closure per enclosing
  record point (its copied `Environment`, the equation's outvars, the remaining equations, and
  the outvars of the jaxpr it belongs to).  Interpreting the flat jaxpr = walking that stack.

  Everything is parametric in `sem : Sem` (the meaning of `primitive.bind`).  Core Lean only.
-/
namespace GenjaxVerif.TT
open GenjaxVerif.IR

/-! ## Programs with record points -/

/-- An equation list in which the `record_p` equations (`rec(callable, tag)(*args)`) are
    explicit.  `recd q tag nc cv iv body ov rest`: the equation `q` itself (primitive name,
    params, invars = `nc` hoisted constants followed by the flattened arguments, outvars), the
    static `debug_tag` of its `RecordPoint`, and the staged body of `RecordPoint.callable`
    (the jaxpr that `initial_style_bind` stored in `params["impl"]`: constvars `cv`, invars `iv`,
    equations `body`, outvars `ov`). -/
inductive Code where
  | nil
  | plain (q : Eqn) (rest : Code)
  | recd (q : Eqn) (tag : Option String) (nc : Nat) (cv iv : List Nat) (body : Code) (ov : List Atom)
      (rest : Code)
  deriving Inhabited

/-- The underlying `jaxpr.eqns` (record points are ordinary `record_p` equations). -/
def Code.eqns : Code → List Eqn
  | .nil => []
  | .plain q rest => q :: rest.eqns
  | .recd q _ _ _ _ _ _ rest => q :: rest.eqns

/-- Number of record points, nested ones included. -/
def Code.nrec : Code → Nat
  | .nil => 0
  | .plain _ rest => rest.nrec
  | .recd _ _ _ _ _ body _ rest => 1 + body.nrec + rest.nrec

/-- A staged function with its closed-over constants (`ClosedJaxpr`, resp. the `Closure`
    stored in `FrameRecording.f`): constants, constvars, invars, equations, outvars. -/
structure Fn where
  cs : List Val
  cv : List Nat
  iv : List Nat
  body : Code
  ov : List Atom
  deriving Inhabited

/-- The plain jaxpr of a function. -/
def Fn.jaxpr (f : Fn) : Jaxpr := .mk f.cv f.iv f.body.eqns f.ov

/-- One piece of a staged continuation.
    `kont env outs rest ret` is `_kont` of `eval_jaxpr_iterate_cps`: the copied environment
    (`env = env.copy()`; environments are immutable values here), `eqn.outvars`,
    `eqns[eqn_idx + 1:]`, and `jaxpr.outvars` of the jaxpr being interpreted.
    `call f` is the leading `self.callable(*args)` of `_cont`. -/
inductive Seg where
  | kont (env : Env Val) (outs : List Binder) (rest : Code) (ret : List Atom)
  | call (f : Fn)
  deriving Inhabited

/-- Entering a segment with the values handed to it: `safe_map(env.write, invars, flat_args)`
    at the top of `eval_jaxpr_iterate_cps`, resp. binding a function's constvars and invars. -/
def Seg.enter : Seg → List Val → Except Err (Env Val)
  | .kont env outs _ _, vs => env.writeMany outs vs
  | .call f, vs => do
    let e ← Env.writeMany ([] : Env Val) (f.cv.map .var) f.cs
    e.writeMany (f.iv.map .var) vs

def Seg.code : Seg → Code
  | .kont _ _ rest _ => rest
  | .call f => f.body

def Seg.ret : Seg → List Atom
  | .kont _ _ _ ret => ret
  | .call f => f.ov

/-- Record points still ahead in a continuation. -/
def nrecS : List Seg → Nat
  | [] => 0
  | s :: ss => s.code.nrec + nrecS ss

/-- `FrameRecording(f, args, local_retval, cont)`; `cont = _cont` is determined by `f` and the
    `_kont` stack it closes over. -/
structure Frame where
  f : Fn
  args : List Val
  ret : List Val
  stack : List Seg
  deriving Inhabited

/-- The staged form of `frame.cont`: the callable, then its `_kont`s. -/
def Frame.cont (fr : Frame) : List Seg := .call fr.f :: fr.stack

/-! ## Evaluation in `rebind=True` mode / ordinary evaluation -/

/-- `eval_jaxpr_iterate_cps(..., rebind=True)` through a whole continuation: every equation —
    a `record_p` one included (`_kont(cps_prim(*args))` re-binds the primitive) — is evaluated
    by `bind`; at the end of a segment its results are handed to the next `_kont`.  With a single
    `call f` segment this is the plain call `f(*args)`. -/
def runStack (sem : Sem) : List Val → List Seg → Except Err (List Val)
  | vs, [] => .ok vs
  | vs, s :: ss => do
    let e ← s.enter vs
    let e' ← loopStateful sem Handler.noop e s.code.eqns
    let vs' ← e'.readAll id s.ret
    runStack sem vs' ss

/-! ## The hybrid CPS interpreter (`rebind=False`) -/

/-- Result of walking one segment: no record point met (`done`, with the final environment),
    or `cps_prim.handle(_kont, *args)` returned `final_ret, (debug_tag, FrameRecording(...))`. -/
inductive Outcome where
  | done (e : Env Val)
  | hit (final : List Val) (tag : Option String) (fr : Frame)

/-- The `for eqn in eqns` loop of `eval_jaxpr_iterate_cps` with `rebind=False`, inside the
    segment whose jaxpr outvars are `ret` and whose enclosing `_kont`s are `stack`.
    At a `record_p` equation: `RecordPoint.handle(_kont, *args)` —
    `ret = self.callable(*args)`; `final_ret = _cont(*args)` (the callable AGAIN, then `_kont`
    in rebind mode); the frame records callable, args, `ret` and `_cont`. -/
def ttCode (sem : Sem) (ret : List Atom) (stack : List Seg) : Env Val → Code → Except Err Outcome
  | e, .nil => .ok (.done e)
  | e, .plain q rest => do
    let e' ← stepStateful sem Handler.noop e q
    ttCode sem ret stack e' rest
  | e, .recd q tag nc cv iv body ov rest => do
    let vs ← e.readAll id q.ins
    let f : Fn := ⟨vs.take nc, cv, iv, body, ov⟩      -- `args[num_consts:]`; consts live in the closure
    let args := vs.drop nc
    let k := Seg.kont e q.outs rest ret :: stack
    let r ← runStack sem args [.call f]
    let final ← runStack sem args (.call f :: k)
    pure (.hit final tag ⟨f, args, r, k⟩)

/-- `time_travel(g)(*args)` for a staged `g` denoted by the segment list: walk the flat jaxpr;
    the first record point met (in whichever segment) is handled, otherwise the final value is
    returned with `None`. -/
def ttStack (sem : Sem) : List Val → List Seg → Except Err (List Val × Option (Option String × Frame))
  | vs, [] => .ok (vs, none)
  | vs, s :: ss => do
    let e ← s.enter vs
    match ← ttCode sem s.ret ss e s.code with
    | .hit final tag fr => pure (final, some (tag, fr))
    | .done e' => do
      let vs' ← e'.readAll id s.ret
      ttStack sem vs' ss

/-! ## `_record`, `time_machine` -/

/-- `jump_points` (a `dict`): assignment replaces or appends. -/
def jset (d : List (String × Nat)) (k : String) (v : Nat) : List (String × Nat) :=
  match d with
  | [] => [(k, v)]
  | (k', v') :: rest => if k' = k then (k', v) :: rest else (k', v') :: jset rest k v

/-- `jump_points[debug_tag]`. -/
def jget (d : List (String × Nat)) (k : String) : Option Nat :=
  match d with
  | [] => none
  | (k', v) :: rest => if k' = k then some v else jget rest k

/-- `if debug_tag: jump_points[debug_tag] = len(sequence) - 1` (`idx` is that index; `None`
    and the empty string are falsy). -/
def addJump (d : List (String × Nat)) (tag : Option String) (idx : Nat) : List (String × Nat) :=
  match tag with
  | none => d
  | some t => if t = "" then d else jset d t idx

/-- `TimeTravelingDebugger(final_retval, sequence, jump_points, ptr)`. -/
structure Debugger where
  final : List Val
  frames : List Frame
  jumps : List (String × Nat)
  ptr : Nat
  deriving Inhabited

/-- The `while next:` loop of `_record`.  The loop runs once per frame; `fuel` only makes the
    definition total (`record` passes the number of record points, which always suffices —
    `Lemmas/TimeTravel.lean`). -/
def recordLoop (sem : Sem) : Nat → List Val → Option (Option String × Frame) → List Frame →
    List (String × Nat) → Except Err Debugger
  | _, rv, none, seq, jp => .ok ⟨rv, seq, jp, 0⟩
  | 0, _, some _, _, _ => .error (.prim "record-fuel")
  | n + 1, _, some (tag, fr), seq, jp => do
    let seq' := seq ++ [fr]
    let jp' := addJump jp tag (seq'.length - 1)
    let (rv, next) ← ttStack sem fr.args fr.cont
    recordLoop sem n rv next seq' jp'

/-- `_record(source)(*args)` for a staged `source` denoted by `segs`. -/
def record (sem : Sem) (segs : List Seg) (args : List Val) : Except Err Debugger := do
  let (rv, next) ← ttStack sem args segs
  recordLoop sem (nrecS segs) rv next [] []

/-- The jaxpr of `lambda v: v` on `m` leaves (`tag`'s callable). -/
def idFn (m : Nat) : Fn := ⟨[], [], List.range m, .nil, (List.range m).map .var⟩

def recParams (j : Jaxpr) (nc : Nat) : Params := [("impl", .closed j []), ("num_consts", .int nc)]

/-- `instrumented(*args) = tag(rec(source, "_enter")(*args), "exit")` of `time_machine`, staged:
    constvars `0..k-1` (the constants `source` closes over, hoisted by `initial_style_bind`),
    invars `k..k+n-1`, the `_enter` record equation binding `k+n..k+n+m-1`, and the `exit`
    record equation (identity) binding `k+n+m..k+n+2m-1`. -/
def instrument (src : Fn) : Fn :=
  let k := src.cs.length
  let n := src.iv.length
  let m := src.ov.length
  let ins := (List.range (k + n)).map Atom.var
  let o1 := (List.range m).map (fun i => k + n + i)
  let o2 := (List.range m).map (fun i => k + n + m + i)
  let qEnter := Eqn.mk "record_p" true (recParams src.jaxpr k) ins (o1.map .var)
  let qExit := Eqn.mk "record_p" true (recParams (idFn m).jaxpr 0) (o1.map .var) (o2.map .var)
  ⟨src.cs, List.range k, (List.range n).map (fun i => k + i),
   .recd qEnter (some "_enter") k src.cv src.iv src.body src.ov
     (.recd qExit (some "exit") 0 [] (idFn m).iv .nil (idFn m).ov .nil),
   o2.map .var⟩

/-- `time_machine(source)(*args)`. -/
def timeMachine (sem : Sem) (src : Fn) (args : List Val) : Except Err Debugger :=
  record sem [.call (instrument src)] args

/-! ## `TimeTravelingDebugger` -/

/-- `jump(debug_tag)`: `jump_points[debug_tag]` (`KeyError` when absent). -/
def Debugger.jump (d : Debugger) (tag : String) : Except Err Debugger :=
  match jget d.jumps tag with
  | some i => .ok { d with ptr := i }
  | none => .error (.prim "KeyError")

/-- `fwd()`: `new_ptr = ptr + 1; if new_ptr >= len(sequence): return self`. -/
def Debugger.fwd (d : Debugger) : Debugger :=
  if d.ptr + 1 ≥ d.frames.length then d else { d with ptr := d.ptr + 1 }

/-- `bwd()`: `new_ptr = ptr - 1; if new_ptr >= len(sequence) or new_ptr < 0: return self`
    (`ptr` is a natural number here, so `new_ptr < 0` is `ptr = 0`). -/
def Debugger.bwd (d : Debugger) : Debugger :=
  if d.ptr = 0 then d
  else if d.ptr - 1 ≥ d.frames.length then d
  else { d with ptr := d.ptr - 1 }

/-- `remix(*args)`: `frame = sequence[ptr]` (`IndexError` when out of range);
    `local_retval = f(*args)`; `_, debugger = _record(cont)(*args)`; the new debugger keeps the
    frames before `ptr`, puts `FrameRecording(f, args, local_retval, cont)` at `ptr`, appends the
    re-recorded frames, and keeps `jump_points` and `ptr`. -/
def Debugger.remix (sem : Sem) (d : Debugger) (args : List Val) : Except Err Debugger :=
  match d.frames[d.ptr]? with
  | none => .error (.prim "IndexError")
  | some fr => do
    let r ← runStack sem args [.call fr.f]
    let d' ← record sem fr.cont args
    pure ⟨d'.final, d.frames.take d.ptr ++ [⟨fr.f, args, r, fr.stack⟩] ++ d'.frames, d.jumps, d.ptr⟩

/-- `frame()` / `summary()`: the frame under the pointer and the tag that jumps to it
    (`{v: k for k, v in jump_points.items()}.get(ptr)`: the LAST key mapping to `ptr`). -/
def Debugger.tagAt (d : Debugger) : Option String :=
  (d.jumps.foldl (fun acc kv => if kv.2 = d.ptr then some kv.1 else acc) none)

/-- Debugger operations, as data (for operation sequences). -/
inductive Op where
  | jump (tag : String)
  | fwd
  | bwd
  | remix (args : List Val)
  deriving Inhabited

def Debugger.step (sem : Sem) (d : Debugger) : Op → Except Err Debugger
  | .jump t => d.jump t
  | .fwd => .ok d.fwd
  | .bwd => .ok d.bwd
  | .remix args => d.remix sem args

/-- A session: an operation that raises leaves the user with the debugger they had. -/
def Debugger.run (sem : Sem) : Debugger → List Op → Debugger
  | d, [] => d
  | d, op :: ops =>
    match d.step sem op with
    | .ok d' => Debugger.run sem d' ops
    | .error _ => Debugger.run sem d ops

/-! ## Reference: an instrumented plain evaluator (direct style, no continuations) -/

/-- One line of the call log: the record point's tag, the call's arguments, its return value. -/
structure Entry where
  tag : Option String
  args : List Val
  ret : List Val
  deriving DecidableEq, Repr, Inhabited

/-- Ordinary left-to-right evaluation that additionally logs every record-point call when it is
    made (pre-order): arguments, then the calls made inside the callable, then the calls that
    follow. -/
def logCode (sem : Sem) : Env Val → Code → Except Err (Env Val × List Entry)
  | e, .nil => .ok (e, [])
  | e, .plain q rest => do
    let e' ← stepStateful sem Handler.noop e q
    logCode sem e' rest
  | e, .recd q tag nc cv iv body ov rest => do
    let vs ← e.readAll id q.ins
    let eb ← Env.writeMany ([] : Env Val) (cv.map .var) (vs.take nc)
    let eb ← eb.writeMany (iv.map .var) (vs.drop nc)
    let (eb', sub) ← logCode sem eb body
    let r ← eb'.readAll id ov
    let e' ← e.writeMany q.outs r
    let (e'', later) ← logCode sem e' rest
    pure (e'', ⟨tag, vs.drop nc, r⟩ :: (sub ++ later))

/-- The same through a continuation stack. -/
def logStack (sem : Sem) : List Val → List Seg → Except Err (List Val × List Entry)
  | vs, [] => .ok (vs, [])
  | vs, s :: ss => do
    let e ← s.enter vs
    let (e', l1) ← logCode sem e s.code
    let vs' ← e'.readAll id s.ret
    let (fin, l2) ← logStack sem vs' ss
    pure (fin, l1 ++ l2)

/-- Instrumented plain run of a function: result and call log. -/
def evalLog (sem : Sem) (f : Fn) (args : List Val) : Except Err (List Val × List Entry) :=
  logStack sem args [.call f]

/-- `jump_points` as determined by a call log whose first entry has index `base`. -/
def jumpsOf (jp : List (String × Nat)) (base : Nat) : List Entry → List (String × Nat)
  | [] => jp
  | en :: rest => jumpsOf (addJump jp en.tag base) (base + 1) rest

/-- What is observable of a frame. -/
def Frame.obs (fr : Frame) : List Val × List Val := (fr.args, fr.ret)

/-! ## From the IR to `Code` -/

/-- The static tag of a `record_p` equation as serialised by the harness (`tag` param):
    a string, `None`, or (`opaque`) the empty string. -/
def tagOf (ps : Params) : Option (Option String) :=
  match ps.find "tag" with
  | some (.str s) => some (some s)
  | some .none => some none
  | some .opaque => some (some "")
  | _ => none

/-- Make the record points of an equation list explicit (`fuel` bounds the nesting depth; an
    equation that is not a well-formed `record_p` equation stays a plain equation). -/
def toCode : Nat → List Eqn → Code
  | _, [] => .nil
  | 0, q :: qs => .plain q (toCode 0 qs)
  | n + 1, q :: qs =>
    if q.prim = "record_p" then
      match q.params.find "impl", q.params.find "num_consts", tagOf q.params with
      | some (.closed j _), some (.int k), some tag =>
        .recd q tag k.toNat j.constvars j.invars (toCode n j.eqns) j.outvars (toCode (n + 1) qs)
      | _, _, _ => .plain q (toCode (n + 1) qs)
    else .plain q (toCode (n + 1) qs)
termination_by n qs => (n, qs.length)

/-- A `ClosedJaxpr` as a `Fn`. -/
def toFn (fuel : Nat) (j : Jaxpr) (consts : List Val) : Fn :=
  ⟨consts, j.constvars, j.invars, toCode fuel j.eqns, j.outvars⟩

end GenjaxVerif.TT
