/-
  Model E-dist — the distribution wrapper logic of
    src/genjax/_src/generative_functions/distributions/distribution.py
    src/genjax/_src/generative_functions/distributions/tensorflow_probability/__init__.py
  over an ARBITRARY base `(sample, log_prob)`.  TFP's numerics are the oracle of property
  C24 and are not modelled; what is modelled is every branch the wrapper takes around the
  base: `ExactDensity` (random_weighted / estimate_logpdf with its `if w.shape: sum`
  branch / assess), `Distribution` (simulate, generate_choice_map with its None / Mask /
  value arms, edit_update_with_constraint, edit_regenerate, edit_empty, edit dispatch,
  project), `exact_density`'s `kwargle` dispatch, `tfp_distribution`'s `sample_shape`
  handling, and Python's positional/keyword binding for the base callable.

  Base failures (a Python exception inside the sampler / log_prob, e.g. TFP rejecting a
  call) are `Except.error`; the wrapper propagates them in the order the code evaluates
  things (notably: `jax.lax.cond` traces BOTH branches, true branch first).
  Core Lean only.
-/
namespace GenjaxVerif.Dist

/-- Error enum (messages are never compared). `base n` is an exception raised inside the
    base's own sampler / log_prob. -/
inductive Err where
  | typeError      -- Python call binding failed / `*x` on a non-iterable
  | missingValue   -- `assess` on a choice map without a value (`logpdf(None, …)`)
  | notSupported   -- `NotSupportedEditRequest`
  | base (n : Nat)
  deriving DecidableEq, Repr, Inhabited

/-- What `logpdf` returns: a 0-d array or an array with leaves (flattened; any rank). -/
inductive LP where
  | scalar (x : Int)
  | arr (xs : List Int)
  deriving DecidableEq, Repr, Inhabited

/-- `ExactDensity.estimate_logpdf`'s tail: `if w.shape: return jnp.sum(w) else: return w`. -/
def LP.total : LP → Int
  | .scalar x => x
  | .arr xs => xs.sum

/-- An arbitrary base: `sample(key, *args)` and `logpdf(v, *args)`. -/
structure Base (K A V : Type) where
  sample : K → A → Except Err V
  lp : V → A → Except Err LP

/-- `DistributionTrace(gen_fn, args, value, score)`. -/
structure Tr (A V : Type) where
  args : A
  value : V
  score : Int
  deriving DecidableEq, Repr

/-- Staging mode of a mask flag: Python `bool` or array. -/
inductive Flag where
  | conc (b : Bool)
  | dyn (b : Bool)
  deriving DecidableEq, Repr, Inhabited

def Flag.val : Flag → Bool
  | .conc b => b
  | .dyn b => b

/-- What `chm.get_value()` can be at a distribution: `None`, a plain value, `Mask(value, flag)`. -/
inductive Constraint (V : Type) where
  | none
  | value (v : V)
  | masked (f : Flag) (v : V)
  deriving DecidableEq, Repr

/-- `Choice.build(Mask(v, f))` (also reached by `ChoiceMap.choice(v).mask(f)`): a concretely
    false flag gives the empty map, a concretely true one unwraps, an array flag is kept. -/
def mkConstraint {V : Type} : Flag → V → Constraint V
  | .conc false, _ => .none
  | .conc true, v => .value v
  | .dyn b, v => .masked (.dyn b) v

/-- Reference meaning of a constraint at a single site holding `old`: the value the site has
    after the constraint is applied (specification side, used to state the theorems). -/
def Constraint.resolve {V : Type} (old : V) : Constraint V → V
  | .none => old
  | .value v => v
  | .masked f v => if f.val then v else old

/-- Does the constraint overwrite the site's value? (specification side) -/
def Constraint.overwrites {V : Type} : Constraint V → Bool
  | .none => false
  | .value _ => true
  | .masked f _ => f.val

/-- Change tags. -/
inductive Tag where
  | noChange
  | unknown
  deriving DecidableEq, Repr, Inhabited

/-- `Argdiffs`: `primals = Diff.tree_primal(argdiffs)`, `tag = noChange` iff
    `Diff.static_check_no_change(argdiffs)` (vacuously true for an argument package without leaves,
    e.g. `()`, whatever constructor built it). -/
structure Argdiffs (A : Type) where
  primals : A
  tag : Tag
  deriving DecidableEq, Repr

/-- `(new_trace, weight, retdiff tag, backward constraint of the returned Update)`. -/
structure EditResult (A V : Type) where
  tr : Tr A V
  w : Int
  ret : Tag
  bwd : Constraint V
  deriving DecidableEq, Repr

section Wrapper
variable {K A V : Type}

/-- `ExactDensity.estimate_logpdf(key, v, *args)`: `logpdf` then the sum-if-non-scalar. -/
def estimateLogpdf (d : Base K A V) (v : V) (a : A) : Except Err Int := do
  let w ← d.lp v a
  pure w.total

/-- `ExactDensity.random_weighted(key, *args)`: sample, then `estimate_logpdf` of the sample. -/
def randomWeighted (d : Base K A V) (k : K) (a : A) : Except Err (Int × V) := do
  let v ← d.sample k a
  let w ← estimateLogpdf d v a
  pure (w, v)

/-- `Distribution.simulate`. -/
def simulate (d : Base K A V) (k : K) (a : A) : Except Err (Tr A V) := do
  let (w, v) ← randomWeighted d k a
  pure ⟨a, v, w⟩

/-- `ExactDensity.assess` (the `optional_check` on the flag is off unless checkify is enabled, so
    a masked sample is scored on its payload whatever the flag says; `None` reaches `logpdf(None)`). -/
def assess (d : Base K A V) (c : Constraint V) (a : A) : Except Err (Int × V) :=
  match c with
  | .masked _ v => do
    let w ← estimateLogpdf d v a
    pure (w, v)
  | .none => .error .missingValue
  | .value v => do
    let w ← estimateLogpdf d v a
    pure (w, v)

/-- `Distribution.generate` / `generate_choice_map` (also `importance`).  In the `Mask` arm
    `jax.lax.cond(flag, _importance, _simulate, key, value)` traces both branches (true first),
    whatever the flag's staging mode. -/
def generate (d : Base K A V) (k : K) (c : Constraint V) (a : A) : Except Err (Tr A V × Int) :=
  match c with
  | .none => do
    let tr ← simulate d k a
    pure (tr, 0)
  | .masked f v => do
    let imp ← (do let w ← estimateLogpdf d v a; pure (w, w, v) : Except Err (Int × Int × V))
    let sim ← (do let (s, nv) ← randomWeighted d k a; pure (s, 0, nv) : Except Err (Int × Int × V))
    let r := if f.val then imp else sim
    pure (⟨a, r.2.2, r.1⟩, r.2.1)
  | .value v => do
    let w ← estimateLogpdf d v a
    pure (⟨a, v, w⟩, w)

/-- `FlagOp.cond(f, tf, ff, …)`: a Python bool picks one branch, an array flag goes through
    `jax.lax.cond`, which traces both (true first). -/
def flagCond {β : Type} (f : Flag) (tf ff : Except Err β) : Except Err β :=
  match f with
  | .conc true => tf
  | .conc false => ff
  | .dyn b => do
    let x ← tf
    let y ← ff
    pure (if b then x else y)

/-- `Distribution.edit_update` → `edit_update_with_constraint`.  The change tags of the
    argdiffs are not consulted: every arm re-scores under `primals`. -/
def editUpdate (d : Base K A V) (tr : Tr A V) (c : Constraint V) (ad : Argdiffs A) :
    Except Err (EditResult A V) :=
  let primals := ad.primals
  match c with
  | .masked f nv => do
    let old := tr.value
    let r ← flagCond f
      (do let fwd ← estimateLogpdf d nv primals; pure (nv, fwd - tr.score, fwd))
      (do let fwd ← estimateLogpdf d old primals; pure (old, fwd - tr.score, fwd))
    pure ⟨⟨primals, r.1, r.2.2⟩, r.2.1, .unknown, mkConstraint f old⟩
  | .none => do
    let fwd ← estimateLogpdf d tr.value primals
    pure ⟨⟨primals, tr.value, fwd⟩, fwd - tr.score, .noChange, .none⟩
  | .value v => do
    let fwd ← estimateLogpdf d v primals
    pure ⟨⟨primals, v, fwd⟩, fwd - tr.score, .unknown, .value tr.value⟩

/-- `Distribution.edit_regenerate`.  `check = () in selection` is forced to a Python bool by
    the `in` operator, so the trailing `raise NotImplementedError` arm is unreachable. -/
def editRegenerate (d : Base K A V) (k : K) (tr : Tr A V) (check : Bool) (ad : Argdiffs A) :
    Except Err (EditResult A V) :=
  if check then do
    let (w, nv) ← randomWeighted d k ad.primals
    pure ⟨⟨ad.primals, nv, w⟩, w - tr.score, .unknown, .value tr.value⟩
  else if ad.tag = .noChange then
    pure ⟨tr, 0, .noChange, .none⟩
  else do
    let (s, _) ← assess d (.value tr.value) ad.primals
    pure ⟨⟨ad.primals, tr.value, s⟩, s - tr.score, .noChange, .none⟩

/-- `Distribution.edit_empty` (not called from anywhere in the package). -/
def editEmpty (d : Base K A V) (tr : Tr A V) (ad : Argdiffs A) : Except Err (EditResult A V) := do
  let (s, _) ← assess d (.value tr.value) ad.primals
  pure ⟨⟨ad.primals, tr.value, s⟩, s - tr.score, .noChange, .none⟩

/-- Edit requests as `Distribution.edit` sees them. -/
inductive Request (K V : Type) where
  | update (c : Constraint V)
  | regenerate (k : K) (check : Bool)
  | other

/-- `Distribution.edit`: `Update(chm)` / `Regenerate(selection)` / `NotSupportedEditRequest`. -/
def edit (d : Base K A V) (tr : Tr A V) (r : Request K V) (ad : Argdiffs A) :
    Except Err (EditResult A V) :=
  match r with
  | .update c => editUpdate d tr c ad
  | .regenerate k check => editRegenerate d k tr check ad
  | .other => .error .notSupported

/-- `Distribution.project`: `jnp.where(selection.check(), trace.get_score(), 0.0)`. -/
def project (tr : Tr A V) (check : Bool) : Int := if check then tr.score else 0

/-- A trace is *coherent* when its score is the summed base log-density of its value under
    its arguments (what every trace-producing operation establishes). -/
def Coherent (d : Base K A V) (tr : Tr A V) : Prop :=
  ∃ l, d.lp tr.value tr.args = .ok l ∧ tr.score = l.total

end Wrapper

/-! ### `exact_density`: argument packages and `kwargle` -/

/-- One element of the `args` tuple a GFI method receives.  With keyword arguments GenJAX
    passes the 2-tuple `(positional_tuple, kwargs_dict)` instead of the positional tuple. -/
inductive PyArg where
  | int (i : Int)
  | tup (xs : List Int)
  | dict (kv : List (String × Int))
  deriving DecidableEq, Repr, Inhabited

abbrev Kw := List (String × Int)

/-- `kwargle(f, a0, args, kwargs)` inside `exact_density`, at the GFI call sites (which pass
    no `**kwargs`): "a 2-tuple with a dict in slot 1" is taken to be `(args, kwargs)` and
    re-splatted as `f(a0, *args[0], **args[1])`; anything else is passed on positionally.
    `*args[0]` raises on an int and yields the keys (strings) of a dict. -/
def kwargle (args : List PyArg) : Except Err (List PyArg × Kw) :=
  match args with
  | [.tup xs, .dict kv] => .ok (xs.map .int, kv)
  | [.int _, .dict _] => .error .typeError
  | [.dict d, .dict kv] => if d.isEmpty then .ok ([], kv) else .error .typeError
  | _ => .ok (args, [])

/-- A base given as a Python callable pair taking positional and keyword arguments. -/
structure PyBase (K V : Type) where
  sample : K → List PyArg → Kw → Except Err V
  lp : V → List PyArg → Kw → Except Err LP

/-- `exact_density(sample, logpdf, name)`: the `sample` / `logpdf` methods route through
    `kwargle`; `handle_kwargs` returns `self`, so the same object serves both conventions. -/
def exactDensity {K V : Type} (f : PyBase K V) : Base K (List PyArg) V where
  sample k args := do
    let (xs, kv) ← kwargle args
    f.sample k xs kv
  lp v args := do
    let (xs, kv) ← kwargle args
    f.lp v xs kv

/-- Python's binding of a call `f(a0, *pos, **kw)` to `def f(a0, p1, …, pn)` where a parameter
    may have a default: positional parameters are filled left to right; a name supplied both
    ways, a missing parameter without default, or a surplus positional is a `TypeError`. -/
def bindGo : List (String × Option Int) → List Int → Kw → Except Err (List Int)
  | [], [], _ => .ok []
  | [], _ :: _, _ => .error .typeError
  | (n, _) :: ps, x :: xs, kw =>
    match kw.lookup n with
    | some _ => .error .typeError
    | none => do let r ← bindGo ps xs kw; pure (x :: r)
  | (n, dflt) :: ps, [], kw =>
    match kw.lookup n with
    | some v => do let r ← bindGo ps [] kw; pure (v :: r)
    | none =>
      match dflt with
      | some v => do let r ← bindGo ps [] kw; pure (v :: r)
      | none => .error .typeError

/-- Full binding: an unexpected keyword is a `TypeError` too. -/
def bind (params : List (String × Option Int)) (pos : List Int) (kw : Kw) : Except Err (List Int) :=
  if kw.all (fun p => params.any (fun q => q.1 == p.1)) then bindGo params pos kw else .error .typeError

/-- Positional arguments must be plain numbers for a numeric base. -/
def asInts : List PyArg → Except Err (List Int)
  | [] => .ok []
  | .int i :: r => do let t ← asInts r; pure (i :: t)
  | _ :: _ => .error .typeError

/-- A Python callable pair `def sample(key, p1, …, pn)` / `def logpdf(v, p1, …, pn)` with named
    parameters, given by its behaviour on the bound parameter list. -/
def ofParams {K V : Type} (params : List (String × Option Int))
    (smp : K → List Int → Except Err V) (lpf : V → List Int → Except Err LP) : PyBase K V where
  sample k xs kw := do
    let pos ← asInts xs
    let full ← bind params pos kw
    smp k full
  lp v xs kw := do
    let pos ← asInts xs
    let full ← bind params pos kw
    lpf v full

/-! ### `tfp_distribution` -/

/-- A constructed TFP distribution object: `d.sample(seed=key, sample_shape=s)` and `d.log_prob(v)`. -/
structure TfpDist (K V : Type) where
  sample : K → Option Int → Except Err V
  logProb : V → Except Err LP

/-- `tfp_distribution(dist)`: `sampler` pops `sample_shape` from the keywords (default `()`),
    builds `dist(*args, **kwargs)` and samples; `logpdf` pops (and ignores) `sample_shape`,
    builds the same object and returns `log_prob(v)` unsummed (the sum over leaves happens in
    `ExactDensity.estimate_logpdf`). -/
def tfpDistribution {K V : Type} (dist : List PyArg → Kw → Except Err (TfpDist K V)) : PyBase K V where
  sample k xs kw := do
    let d ← dist xs (kw.filter (fun p => p.1 != "sample_shape"))
    d.sample k (kw.lookup "sample_shape")
  lp v xs kw := do
    let d ← dist xs (kw.filter (fun p => p.1 != "sample_shape"))
    d.logProb v

end GenjaxVerif.Dist
