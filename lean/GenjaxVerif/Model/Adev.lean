/-
  Model D/ADEV — forward-mode ADEV (`genjax/_src/adev/core.py`, `primitives.py`) and the VI
  loss programs (`genjax/_src/inference/vi.py`) over the exact field ℚ.  Core Lean only.

  * `Dual`                 — `adev.core.Dual` with the forward-mode (JVP) rules JAX applies to
                              `add / sub / mul / neg / div / log / select_n`.
  * estimator functions    — one per gradient strategy, written as the code writes them, with the
                              sampled value / noise as an explicit argument and the continuation
                              (`kdual`) as a function argument.
  * `Expr`, `Prog`         — a small source language: arithmetic in θ and bound variables,
                              `sample prim args`, `add_cost`, `jax.lax.cond` on a sampled bool.
  * `evalK`                — `ADInterpreter.eval_jaxpr_adev`: dual propagation + CPS at `sample_p`
                              and at `cond_p`, with the key threading the code performs (keys are
                              paths, `split(k) = (k ++ [0], k ++ [1])`) and noise read from a table
                              indexed by key path.
  * `evalVal`              — the value of the program for the sampled randomness (specification side:
                              enumeration sites average, sampling sites take the sampled value).
  * `expect`, `bern`       — finite probability layer.
  * `elboLoss …`           — the `_loss` programs of `vi.ELBO / IWELBO(N=1) / PWake`.

  What is NOT here: continuous expectations, `exp` / `logsumexp` (IWELBO with N > 1), `floor/log`
  sampling of `geometric_reinforce`, vector-valued primitives (`mv_normal_*`), `beta_implicit`.
  `log` is an uninterpreted function symbol (`ln : ℚ → Option ℚ`, supplied by the caller) whose
  forward-mode rule is `d log e = de / e` — the rule `jax.lax.log_p`'s JVP uses.
-/
namespace GenjaxVerif.Adev

/-! ## Dual numbers -/

/-- `adev.core.Dual(primal, tangent)` at a scalar leaf. -/
structure Dual where
  p : Rat
  t : Rat
  deriving DecidableEq, Repr, Inhabited

namespace Dual

/-- `Dual.tree_pure`: a non-dual value gets a zero tangent. -/
def const (c : Rat) : Dual := ⟨c, 0⟩

/-- JVP of `add_p`. -/
def add (a b : Dual) : Dual := ⟨a.p + b.p, a.t + b.t⟩
/-- JVP of `sub_p`. -/
def sub (a b : Dual) : Dual := ⟨a.p - b.p, a.t - b.t⟩
/-- JVP of `neg_p`. -/
def neg (a : Dual) : Dual := ⟨-a.p, -a.t⟩
/-- JVP of `mul_p`: product rule. -/
def mul (a b : Dual) : Dual := ⟨a.p * b.p, a.t * b.p + a.p * b.t⟩
/-- JVP of `div_p`: quotient rule (`x/0 = 0` in ℚ; the theorems that divide carry `≠ 0` hypotheses). -/
def div (a b : Dual) : Dual := ⟨a.p / b.p, a.t / b.p - a.p * b.t / (b.p * b.p)⟩
/-- scalar multiple by a constant. -/
def smul (c : Rat) (a : Dual) : Dual := ⟨c * a.p, c * a.t⟩

instance : Add Dual := ⟨add⟩
instance : Sub Dual := ⟨sub⟩
instance : Mul Dual := ⟨mul⟩
instance : Neg Dual := ⟨neg⟩
instance : Div Dual := ⟨div⟩

end Dual

/-! ## Finite probability -/

/-- Expectation of `f` under a finite weighted list. -/
def expect {α : Type} (d : List (α × Rat)) (f : α → Rat) : Rat :=
  (d.map (fun xw => xw.2 * f xw.1)).sum

/-- Bernoulli(p) as a finite distribution. -/
def bern (p : Rat) : List (Bool × Rat) := [(true, p), (false, 1 - p)]

/-! ## The estimators, as the code writes them -/

/-- `FlipEnum.jvp_estimate`: `jax.jvp(lambda p, tl, fl: p*tl + (1-p)*fl, …)` on the two
    continuation results `kdual(key, True)`, `kdual(key, False)`. -/
def flipEnumJvp (p : Dual) (k : Bool → Dual) : Dual :=
  p * k true + (Dual.const 1 - p) * k false

/-- Tangent of `tfd.Bernoulli(probs=p).log_prob(v)` w.r.t. `p` at a fixed outcome
    (`jax.jvp(differentiable_logpdf, (v, p), (zero(v), p_tangent))[1]`). -/
def flipLpTangent (x : Bool) (p : Dual) : Rat :=
  if x then p.t / p.p else -(p.t / (1 - p.p))

/-- The last line of `REINFORCE.jvp_estimate`:
    `Dual(out_primal, out_tangent + out_primal * lp_tangent)`. -/
def reinforceCombine (out : Dual) (lpT : Rat) : Dual := ⟨out.p, out.t + out.p * lpT⟩

/-- `flip_reinforce` = `REINFORCE(bernoulli sampler, bernoulli logpdf)`, sampled value `x` given. -/
def flipReinforceJvp (p : Dual) (x : Bool) (k : Bool → Dual) : Dual :=
  reinforceCombine (k x) (flipLpTangent x p)

/-- `FlipMVD.jvp_estimate` as written, *if the calls inside it were well-formed* (they are not: the
    method raises for every input, see `Prim.flipMvd` in `primJvp`).  Note `p_tangent` is read with
    `Dual.tree_primal`, i.e. it is the primal.  `kT`, `kF` are the continuation's results. -/
def flipMvdJvpAsWritten (p : Dual) (x : Bool) (k : Bool → Dual) : Dual :=
  let b := k x
  let other := (k (!x)).p
  let est := (if x then (-1 : Rat) else 1) * (other - b.p)
  ⟨b.p, b.t + est * p.p⟩

/-- The measure-valued-derivative estimator the method is meant to be (tangent of `p` used). -/
def flipMvdJvpIntended (p : Dual) (x : Bool) (k : Bool → Dual) : Dual :=
  let b := k x
  let other := (k (!x)).p
  let est := (if x then (-1 : Rat) else 1) * (other - b.p)
  ⟨b.p, b.t + est * p.t⟩

/-- Enumeration over a finite support with dual weights (`CategoricalEnumParallel.jvp_estimate`'s
    `jax.jvp(lambda w, r: sum(w * r))`; the code additionally pushes its argument through
    `softmax`, which is outside ℚ — the weights here are the already-normalised duals). -/
def categoricalEnumJvp (ws : List Dual) (k : Nat → Dual) : Dual :=
  (List.range ws.length).foldr (fun i acc => (ws.getD i (Dual.const 0)) * k i + acc) (Dual.const 0)

/-- `NormalREPARAM.before_tail_call`: `jax.jvp(lambda mu, sigma: mu + sigma * eps, …)`. -/
def normalReparamSample (mu sigma : Dual) (eps : Rat) : Dual :=
  mu + sigma * Dual.const eps

/-- `TailCallADEVPrimitive.jvp_estimate`: `kdual(key, before_tail_call(key, duals))`. -/
def normalReparamJvp (mu sigma : Dual) (eps : Rat) (k : Dual → Dual) : Dual :=
  k (normalReparamSample mu sigma eps)

/-- Tangent of `tfd.Normal(mu, sigma).log_prob(x)` at fixed `x`:
    `-0.5 * ((x - mu)/sigma)^2 - log sigma - c`. -/
def normalLpTangent (x : Rat) (mu sigma : Dual) : Rat :=
  let z : Dual := (Dual.const x - mu) / sigma
  (0 - z.p * z.t) - sigma.t / sigma.p

/-- `normal_reinforce` = `REINFORCE(normal sampler, normal logpdf)`, sampled value `x` given. -/
def normalReinforceJvp (mu sigma : Dual) (x : Rat) (k : Dual → Dual) : Dual :=
  reinforceCombine (k (Dual.const x)) (normalLpTangent x mu sigma)

/-- `Baseline.jvp_estimate`: run the wrapped primitive's estimator `inner` against the shifted
    continuation `new_kdual = kdual − b`, then add `b` back (both through `jax.jvp`). -/
def baselineJvp {α : Type} (b : Dual) (inner : (α → Dual) → Dual) (k : α → Dual) : Dual :=
  inner (fun x => k x - b) + b

/-- `AddCost.jvp_estimate`: `Dual(w + l.primal, w_tangent + l.tangent)`. -/
def addCostJvp (w l : Dual) : Dual := ⟨w.p + l.p, w.t + l.t⟩

/-! ## Source language -/

/-- Real-valued expressions over the parameter θ, bound real variables (`rv i`, level-indexed)
    and bound booleans (`ite i …` is `jnp.where(b_i, e1, e2)`). -/
inductive Expr where
  | c (r : Rat)
  | th
  | rv (i : Nat)
  | add (a b : Expr)
  | sub (a b : Expr)
  | mul (a b : Expr)
  | div (a b : Expr)
  | neg (a : Expr)
  | log (a : Expr)
  | ite (i : Nat) (a b : Expr)
  deriving Repr, Inhabited

/-- Exported ADEV primitives (`genjax.adev`). -/
inductive Prim where
  | flipEnum | flipReinforce | flipMvd | flipEnumParallel | categoricalEnumParallel
  | uniform | normalReparam | normalReinforce
  | baseline (inner : Prim)
  deriving Repr, Inhabited, DecidableEq

/-- ADEV source programs (the body of an `@expectation` function). -/
inductive Prog where
  /-- `return e` -/
  | ret (e : Expr)
  /-- `x = prim(*args); k` — binds a boolean (flip family) or a real (normal family). -/
  | sample (prim : Prim) (args : List Expr) (k : Prog)
  /-- `add_cost(e); k` -/
  | addCost (e : Expr) (k : Prog)
  /-- `r = jax.lax.cond(b_i, pt, pf, …); k` — binds the real `r`. -/
  | cond (i : Nat) (pt pf : Prog) (k : Prog)
  deriving Repr, Inhabited

inductive Err where
  | unbound
  | arity
  | noNoise (kind : String) (key : List Nat)
  | noLn (r : Rat)
  | raises (call : String)
  deriving Repr, DecidableEq

/-- PRNG keys as paths: `jax.random.split(k) = (k ++ [0], k ++ [1])`. -/
abbrev Key := List Nat

/-- Noise table: `u k` is the uniform `tfd.Bernoulli.sample(seed=k)` compares with `probs`,
    `eps k` is the standard normal drawn from `k`. -/
structure Noise where
  u : Key → Option Rat
  eps : Key → Option Rat

structure Env where
  th : Dual
  bs : List Bool
  rs : List Dual

def Env.pushB (e : Env) (b : Bool) : Env := { e with bs := e.bs ++ [b] }
def Env.pushR (e : Env) (r : Dual) : Env := { e with rs := e.rs ++ [r] }

/-- A sampled value handed to the continuation. -/
inductive Val where
  | b (x : Bool)
  | r (x : Dual)
  | none

def Env.push (e : Env) : Val → Env
  | .b x => e.pushB x
  | .r x => e.pushR x
  | .none => e

def optE {α : Type} (e : Err) : Option α → Except Err α
  | some a => .ok a
  | none => .error e

/-- Dual evaluation of an expression: the default-JVP branch of `eval_jaxpr_iterate_dual`. -/
def evalExpr (ln : Rat → Option Rat) (env : Env) : Expr → Except Err Dual
  | .c r => pure (Dual.const r)
  | .th => pure env.th
  | .rv i => optE .unbound env.rs[i]?
  | .add a b => do pure ((← evalExpr ln env a) + (← evalExpr ln env b))
  | .sub a b => do pure ((← evalExpr ln env a) - (← evalExpr ln env b))
  | .mul a b => do pure ((← evalExpr ln env a) * (← evalExpr ln env b))
  | .div a b => do pure ((← evalExpr ln env a) / (← evalExpr ln env b))
  | .neg a => do pure (-(← evalExpr ln env a))
  | .log a => do
      let v ← evalExpr ln env a
      let l ← optE (.noLn v.p) (ln v.p)
      pure ⟨l, v.t / v.p⟩
  | .ite i a b => do
      let c ← optE .unbound env.bs[i]?
      let va ← evalExpr ln env a
      let vb ← evalExpr ln env b
      pure (if c then va else vb)

def evalArgs (ln : Rat → Option Rat) (env : Env) : List Expr → Except Err (List Dual)
  | [] => pure []
  | e :: es => do pure ((← evalExpr ln env e) :: (← evalArgs ln env es))

/-- `adev_prim.jvp_estimate(key, dual_tree, (kpure, kdual))` for each primitive, with the key
    discipline of the code.  `kv v key'` is `kdual(key', v)`.
    * REINFORCE: `key, sub_key = split(key)`; sample with `sub_key`; continue with `key`.
    * FlipEnum: both continuations get the *same, unsplit* key.
    * TailCall (normal_reparam): the split happens inside `before_tail_call`; the continuation gets
      the *unsplit* key (so the next site re-derives the same `sub_key`).
    * Baseline: delegates with the shifted continuation.
    * flip_mvd / flip_enum_parallel / categorical_enum_parallel / uniform: raise for every input. -/
def primJvp (nz : Noise) : Prim → List Dual → Key → (Val → Key → Except Err Dual) → Except Err Dual
  | .flipEnum, [p], key, kv => do
      let a ← kv (.b true) key
      let b ← kv (.b false) key
      pure (flipEnumJvp p (fun x => if x then a else b))
  | .flipReinforce, [p], key, kv => do
      let u ← optE (.noNoise "u" (key ++ [1])) (nz.u (key ++ [1]))
      let x : Bool := decide (u < p.p)
      let out ← kv (.b x) (key ++ [0])
      pure (flipReinforceJvp p x (fun _ => out))
  | .normalReparam, [mu, sigma], key, kv => do
      let e ← optE (.noNoise "eps" (key ++ [1])) (nz.eps (key ++ [1]))
      kv (.r (normalReparamSample mu sigma e)) key
  | .normalReinforce, [mu, sigma], key, kv => do
      let e ← optE (.noNoise "eps" (key ++ [1])) (nz.eps (key ++ [1]))
      let x : Rat := e * sigma.p + mu.p
      let out ← kv (.r (Dual.const x)) (key ++ [0])
      pure (normalReinforceJvp mu sigma x (fun _ => out))
  | .baseline inner, b :: args, key, kv => do
      let l ← primJvp nz inner args key (fun v k' => do pure ((← kv v k') - b))
      pure (l + b)
  | .flipMvd, _, _, _ => .error (.raises "flip_mvd")
  | .flipEnumParallel, _, _, _ => .error (.raises "flip_enum_parallel")
  | .categoricalEnumParallel, _, _, _ => .error (.raises "categorical_enum_parallel")
  | .uniform, _, _, _ => .error (.raises "uniform")
  | _, _, _, _ => .error .arity

/-- `ADInterpreter.eval_jaxpr_adev` / `forward_mode(f, kont)`: `K` is `kont`.
    At `cond` the branches are run with `forward_mode(branch, _cond_dual_kont)`, which is
    `_cond_dual_kont(eval_jaxpr_adev(branch))`: the branch is evaluated to a dual with the IDENTITY
    continuation — so a sampling site or `add_cost` inside a branch only sees the rest of the
    *branch* as its continuation — and the rest of the program is applied to that dual afterwards.
    `_cond_dual_kont` closes over the key *at the cond* (whatever keys the branch consumed). -/
def evalK (ln : Rat → Option Rat) (nz : Noise) : Prog → Env → Key → (Dual → Except Err Dual) → Except Err Dual
  | .ret e, env, _, K => do K (← evalExpr ln env e)
  | .sample prim args k, env, key, K => do
      let ds ← evalArgs ln env args
      primJvp nz prim ds key (fun v key' => evalK ln nz k (env.push v) key' K)
  | .addCost e k, env, key, K => do
      let w ← evalExpr ln env e
      let l ← evalK ln nz k env key K
      pure (addCostJvp w l)
  | .cond i pt pf k, env, key, K => do
      let c ← optE .unbound env.bs[i]?
      let r ← (if c then evalK ln nz pt env key pure else evalK ln nz pf env key pure)
      evalK ln nz k (env.pushR r) key K

/-- `Expectation.jvp_estimate(key, Dual(θ, τ))`: identity continuation, root key `[]`. -/
def jvpEstimate (ln : Rat → Option Rat) (nz : Noise) (prog : Prog) (th : Dual) : Except Err Dual :=
  evalK ln nz prog ⟨th, [], []⟩ [] pure

/-- `Expectation.estimate(key, args)` as written: it hands the bare zero *tangents* (not `Dual`s) to
    `jvp_estimate`, whose `DualTree` argument check rejects them: raises for every input. -/
def estimateAsWritten (_prog : Prog) (_th : Rat) : Except Err Rat := .error (.raises "Expectation.estimate")

/-- `Expectation.grad_estimate(key, (θ,))`: `jax.grad` of the `custom_jvp` function whose JVP rule
    is `jvp_estimate`; JAX obtains the gradient by transposing the (linear) tangent map, i.e. for a
    scalar parameter the coefficient of the input tangent — evaluated here at tangent 1. -/
def gradEstimate (ln : Rat → Option Rat) (nz : Noise) (prog : Prog) (th : Rat) : Except Err Rat :=
  (jvpEstimate ln nz prog ⟨th, 1⟩).map (·.t)

/-! ## Specification side: the program's value for the sampled randomness -/

structure VEnv where
  th : Rat
  bs : List Bool
  rs : List Rat

inductive VVal where
  | b (x : Bool)
  | r (x : Rat)
  | none

def VEnv.push (e : VEnv) : VVal → VEnv
  | .b x => { e with bs := e.bs ++ [x] }
  | .r x => { e with rs := e.rs ++ [x] }
  | .none => e

def valExpr (ln : Rat → Option Rat) (env : VEnv) : Expr → Except Err Rat
  | .c r => pure r
  | .th => pure env.th
  | .rv i => optE .unbound env.rs[i]?
  | .add a b => do pure ((← valExpr ln env a) + (← valExpr ln env b))
  | .sub a b => do pure ((← valExpr ln env a) - (← valExpr ln env b))
  | .mul a b => do pure ((← valExpr ln env a) * (← valExpr ln env b))
  | .div a b => do pure ((← valExpr ln env a) / (← valExpr ln env b))
  | .neg a => do pure (-(← valExpr ln env a))
  | .log a => do
      let v ← valExpr ln env a
      optE (.noLn v) (ln v)
  | .ite i a b => do
      let c ← optE .unbound env.bs[i]?
      let va ← valExpr ln env a
      let vb ← valExpr ln env b
      pure (if c then va else vb)

def valArgs (ln : Rat → Option Rat) (env : VEnv) : List Expr → Except Err (List Rat)
  | [] => pure []
  | e :: es => do pure ((← valExpr ln env e) :: (← valArgs ln env es))

/-- Value of a sampling site: enumeration sites average over the outcome, sampling sites use the
    value drawn from the site's key, a baseline does not change the value. -/
def primVal (nz : Noise) : Prim → List Rat → Key → (VVal → Key → Except Err Rat) → Except Err Rat
  | .flipEnum, [p], key, kv => do
      let a ← kv (.b true) key
      let b ← kv (.b false) key
      pure (p * a + (1 - p) * b)
  | .flipReinforce, [p], key, kv => do
      let u ← optE (.noNoise "u" (key ++ [1])) (nz.u (key ++ [1]))
      kv (.b (decide (u < p))) (key ++ [0])
  | .normalReparam, [mu, sigma], key, kv => do
      let e ← optE (.noNoise "eps" (key ++ [1])) (nz.eps (key ++ [1]))
      kv (.r (mu + sigma * e)) key
  | .normalReinforce, [mu, sigma], key, kv => do
      let e ← optE (.noNoise "eps" (key ++ [1])) (nz.eps (key ++ [1]))
      kv (.r (e * sigma + mu)) (key ++ [0])
  | .baseline inner, _ :: args, key, kv => primVal nz inner args key kv
  | .flipMvd, _, _, _ => .error (.raises "flip_mvd")
  | .flipEnumParallel, _, _, _ => .error (.raises "flip_enum_parallel")
  | .categoricalEnumParallel, _, _, _ => .error (.raises "categorical_enum_parallel")
  | .uniform, _, _, _ => .error (.raises "uniform")
  | _, _, _, _ => .error .arity

/-- Specification: at a `cond` the rest of the program is the continuation of everything inside the
    taken branch (the loss is `E[k(r)]`, costs add to the final loss) — this is where the code as
    written (`evalK`) departs, see `C29_primal_prog_refuted`. -/
def evalVal (ln : Rat → Option Rat) (nz : Noise) : Prog → VEnv → Key → (Rat → Except Err Rat) → Except Err Rat
  | .ret e, env, _, K => do K (← valExpr ln env e)
  | .sample prim args k, env, key, K => do
      let ds ← valArgs ln env args
      primVal nz prim ds key (fun v key' => evalVal ln nz k (env.push v) key' K)
  | .addCost e k, env, key, K => do
      let w ← valExpr ln env e
      let l ← evalVal ln nz k env key K
      pure (w + l)
  | .cond i pt pf k, env, key, K => do
      let c ← optE .unbound env.bs[i]?
      let K' : Rat → Except Err Rat := fun r => evalVal ln nz k { env with rs := env.rs ++ [r] } key K
      if c then evalVal ln nz pt env key K' else evalVal ln nz pf env key K'

/-- No sampling site and no `add_cost` (only `ret` and `cond`s of such programs). -/
def Prog.siteFree : Prog → Bool
  | .ret _ => true
  | .sample _ _ _ => false
  | .addCost _ _ => false
  | .cond _ pt pf k => pt.siteFree && pf.siteFree && k.siteFree

/-- Every `cond` has site-free branches (sites may occur anywhere else). -/
def Prog.branchesSiteFree : Prog → Bool
  | .ret _ => true
  | .sample _ _ k => k.branchesSiteFree
  | .addCost _ k => k.branchesSiteFree
  | .cond _ pt pf k => pt.siteFree && pf.siteFree && k.branchesSiteFree

/-- The program's value at θ for the randomness in `nz`. -/
def progValue (ln : Rat → Option Rat) (nz : Noise) (prog : Prog) (th : Rat) : Except Err Rat :=
  evalVal ln nz prog ⟨th, [], []⟩ [] pure

/-! ## Noise keys consumed along an execution (for the independence statement) -/

/-- The noise keys a site draws from, in execution order, along the path selected by the sampled
    values (`enumB` fixes which branch of an enumeration site is followed).  Mirrors the key
    threading of `primJvp` / `evalK` exactly. -/
def primKeys : Prim → Key → (List Key × Key)
  | .flipReinforce, key => ([key ++ [1]], key ++ [0])
  | .normalReinforce, key => ([key ++ [1]], key ++ [0])
  | .normalReparam, key => ([key ++ [1]], key)
  | .baseline inner, key => primKeys inner key
  | _, key => ([], key)

/-- Keys drawn by a straight-line program (no `cond`): every sample site in order. -/
def siteKeys : Prog → Key → List Key
  | .ret _, _ => []
  | .sample prim _ k, key => (primKeys prim key).1 ++ siteKeys k (primKeys prim key).2
  | .addCost _ k, key => siteKeys k key
  | .cond _ pt _ k, key => siteKeys pt key ++ siteKeys k key

/-- Primitives that split the key before continuing (or do not consume it at all). -/
def Prim.splitsKey : Prim → Bool
  | .flipReinforce | .normalReinforce | .flipEnum => true
  | .baseline inner => inner.splitsKey
  | _ => false

/-- Programs on which the key threading of the code is sound: no `cond`, no tail-call primitive. -/
def Prog.keySafe : Prog → Bool
  | .ret _ => true
  | .sample prim _ k => prim.splitsKey && k.keySafe
  | .addCost _ k => k.keySafe
  | .cond _ _ _ _ => false

/-! ## VI loss programs (`inference/vi.py`) -/

/-- How `Marginal.random_weighted` weights the guide's sample.  `selected` is the documented weight
    (the guide's log density on the selected choices; the code since the C25 repair
    `tr.project(key, self.selection)`); `complement` is what the originally pinned tree computed
    (`tr.project(key, ~self.selection)`: for a guide whose choices are all selected the weight is 0).
    The harness observes which of the two the working tree implements and asks for that one. -/
inductive GuideWeight where
  | complement | selected
  deriving Repr, DecidableEq

def guideWeightExpr (m : GuideWeight) (logq : Expr) : Expr :=
  match m with
  | .complement => .c 0
  | .selected => logq

/-- The particle weight `Importance.run_smc` + `ChangeTarget.run_smc` produce for one particle:
    `new_weight − particle.score + (target_score − log_weight)`, where for a fully constrained
    target `new_weight = particle.score = target_score = log p(x, obs)`; followed by
    `logsumexp([w]) − log 1 = w`. -/
def importanceWeightExpr (m : GuideWeight) (logp logq : Expr) : Expr :=
  .add (.sub logp logp) (.sub logp (guideWeightExpr m logq))

/-- `vi.ELBO(guide, make_target)`'s `_loss`: `x ~ guide` (an ADEV sampling site `prim args`),
    `return -w`. -/
def elboLoss (m : GuideWeight) (prim : Prim) (args : List Expr) (logp logq : Expr) : Prog :=
  .sample prim args (.ret (.neg (importanceWeightExpr m logp logq)))

/-- `vi.PWake(posterior_approx, make_target)`'s `_loss`: `x ~ posterior_approx`;
    `return -target.importance(x ∪ obs).score`. -/
def pwakeLoss (prim : Prim) (args : List Expr) (logp : Expr) : Prog :=
  .sample prim args (.ret (.neg logp))

/-- Bernoulli log-pmf of the boolean variable `i` with success probability `pe`
    (`flip.assess`): `where(b, log p, log (1 − p))`. -/
def flipLogpdfExpr (i : Nat) (pe : Expr) : Expr :=
  .ite i (.log pe) (.log (.sub (.c 1) pe))

/-- Normal log-pdf (`tfd.Normal.log_prob`): `-0.5 * ((x - mu)/sigma)^2 - (c + log sigma)`, with the
    constant `c = 0.5 log 2π` supplied as a rational. -/
def normalLogpdfExpr (c : Rat) (x mu sigma : Expr) : Expr :=
  let z := Expr.div (.sub x mu) sigma
  .sub (.mul (.c (-1/2)) (.mul z z)) (.add (.c c) (.log sigma))

end GenjaxVerif.Adev
