import GenjaxVerif.Model.GFI
/-
  The derived combinators, written the way the library composes them
  (repeat.py, or_else.py, scan.py: accumulate / reduce / iterate / iterate_final /
  masked_iterate / masked_iterate_final; dimap.py: map / contramap).
  In a `dimap` return map the environment is [args, pre(args), inner_retval].
-/
namespace GenjaxVerif.GFI.Derived
open GenjaxVerif

/-- `lambda _args, _xformed, retval: retval`. -/
def retId : Expr := .var 2

/-- `gen_fn.map(f)`; `f` is written over the dimap environment (the inner return value is `var 2`). -/
def map (p : Prog) (f : Expr) : Prog := .dimap .id p f

/-- `gen_fn.contramap(f)`. -/
def contramap (pre : List Expr) (p : Prog) : Prog := .dimap (.exprs pre) p retId

/-- `RepeatCombinator`:
    gen_fn.contramap(lambda _idx, args: args).vmap(in_axes=(0, None)).contramap(lambda *args: (zeros(n), args)). -/
def «repeat» (p : Prog) (n : Nat) : Prog :=
  .dimap (.whole (.tup [.zeros n, .all]))
    (.vmap (.dimap (.whole (.var 1)) p retId) [some 0, none])
    retId

/-- `or_else`: if_gen_fn.switch(else_gen_fn).contramap(lambda b, if_args, else_args: (int(not b), if_args, else_args)). -/
def orElse (p q : Prog) : Prog :=
  .dimap (.exprs [.notb (.var 0), .var 1, .var 2]) (.switch [p, q]) retId

/-- `prepend_initial_acc(args, _, ret) = concatenate([args[0][None], ret[1]])`. -/
def prependInitialAcc : Expr := .cons (.proj (.var 0) 0) (.proj (.var 2) 1)

/-- `accumulate`: f.map(lambda ret: (ret, ret)).scan().dimap(pre=lambda *args: args, post=prepend_initial_acc). -/
def accumulate (p : Prog) : Prog :=
  .dimap .id (.scan (map p (.tup [.var 2, .var 2])) none) prependInitialAcc

/-- `reduce`: f.map(lambda ret: (ret, None)).scan().map(lambda ret: ret[0]). -/
def reduce (p : Prog) : Prog :=
  map (.scan (map p (.tup [.var 2, .tup []])) none) (.proj (.var 2) 0)

/-- `iterate(n)`: f.dimap(pre=args[:-1], post=(ret, ret)).scan(n=n).dimap(pre=(*args, None), post=prepend_initial_acc). -/
def iterate (p : Prog) (n : Nat) : Prog :=
  .dimap .appendUnit (.scan (.dimap .dropLast p (.tup [.var 2, .var 2])) (some n)) prependInitialAcc

/-- `iterate_final(n)`: f.dimap(pre=args[:-1], post=(ret, None)).scan(n=n).dimap(pre=(*args, None), post=ret[0]). -/
def iterateFinal (p : Prog) (n : Nat) : Prog :=
  .dimap .appendUnit (.scan (.dimap .dropLast p (.tup [.var 2, .tup []])) (some n)) (.proj (.var 2) 0)

/-- The scan step of the masked iterations: step.mask().dimap(pre=lambda state, flag: (flag, state), post=…). -/
def maskedStep (p : Prog) (post : Expr) : Prog :=
  .dimap (.exprs [.var 1, .var 0]) (.mask p) post

/-- `masked_iterate_final`: post(args = (state, flag), _, masked_retval) =
    (where(flag, masked_retval.value, state), None); then .scan().map(lambda ret: ret[0]). -/
def maskedIterateFinal (p : Prog) : Prog :=
  map (.scan (maskedStep p
    (.tup [.sel (.proj (.var 0) 1) (.unmask (.var 2)) (.proj (.var 0) 0), .tup []])) none) (.proj (.var 2) 0)

/-- `masked_iterate`: post = (v, v) with v = masked_retval.value; then .scan().dimap(post=prepend_initial_acc). -/
def maskedIterate (p : Prog) : Prog :=
  .dimap .id (.scan (maskedStep p (.tup [.unmask (.var 2), .unmask (.var 2)])) none) prependInitialAcc

end GenjaxVerif.GFI.Derived

namespace GenjaxVerif.GFI.Derived
open GenjaxVerif

/-- `gen_fn(*stored)` / `partial_apply(*stored)`: a `GenerativeFunctionClosure` calls the wrapped
    function with the stored arguments prepended to the `nargs` call-time arguments. -/
def closure (p : Prog) (stored : List Int) (nargs : Nat) : Prog :=
  .dimap (.exprs (stored.map Expr.lit ++ (List.range nargs).map Expr.var)) p retId

end GenjaxVerif.GFI.Derived

namespace GenjaxVerif.GFI
open GenjaxVerif

/-- `propose(key, args) = (choices, score, retval)` of `simulate(key, args)`. -/
def propose (ds : DistSem) (p : Prog) (key : KeyPath) (args : Val) : Except Err (CMap × Int × Val) :=
  (simulate ds p key args).map fun t => (t.choices, t.score, t.ret)

/-- `importance = generate`. -/
def importance (ds : DistSem) (p : Prog) (key : KeyPath) (c : CMap) (args : Val) : Except Err (Trace × Int) :=
  generate ds p key c args

/-- `EmptyRequest.edit`: the identity with weight 0 when no argument is tagged changed, an empty
    `Update` otherwise. -/
def emptyRequest (ds : DistSem) (p : Prog) (key : KeyPath) (t : Trace) (args : Val) (noChange : Bool)
    (changed : Bool := false) : Except Err Res :=
  if noChange then .ok ⟨t, 0, [], true⟩ else update ds p key t [] args changed

/-- `DiffAnnotate(request, argdiff_fn, retdiff_fn).edit`: the inner request's edit on the mapped
    argument diffs, its return diff mapped afterwards (the model carries values, not tags: the maps act
    on the argument tuple and on the result). -/
def diffAnnotate (argFn : Val → Val) (retFn : Res → Res) (edit : Val → Except Err Res) (args : Val) : Except Err Res :=
  (edit (argFn args)).map retFn

/-! ### StaticRequest -/

/-- One entry of a `StaticRequest`: the request applied at an address of a static function. -/
structure SubReq where
  mode : Mode        -- `.upd` for Update / EmptyRequest, `.regen` for Regenerate
  c : CMap           -- the Update's constraint
  sel : Sel          -- the Regenerate's selection

namespace SubReq
/-- `Update(c)`. -/
def update (c : CMap) : SubReq := ⟨.upd, c, .none⟩
/-- `Regenerate(sel)`. -/
def regenerate (sel : Sel) : SubReq := ⟨.regen, [], sel⟩
/-- `EmptyRequest()`: given to every address the request's dict does not mention.  Its `edit` is the
    identity when the argument diffs are tagged NoChange and `Update(ChoiceMap.empty())` otherwise; the
    model has no change tags and always takes the second reading (the two coincide on unchanged
    arguments — checked against the implementation by the correspondence on every history). -/
def empty : SubReq := ⟨.upd, [], .none⟩
end SubReq

/-- `StaticEditRequestHandler`: one pass over the body; the call at `addr` is edited by
    `addressed.get(addr, EmptyRequest())` on its previous subtrace, with the handler's running key. -/
def reqBody (ds : DistSem) (req : List String → SubReq) : Body → In → List (List String × Trace) → List Val → SState →
    Except Err (SState × Val)
  | .ret e, _, _, env, st => do
    let v ← Expr.eval env e
    pure (st, v)
  | .bind addr p aes rest, i, olds, env, st => do
    let a ← Expr.evalL env aes
    if (lookupSub st.subs addr).isSome then .error .reuse
    else do
      let o ← bindOld .upd olds addr
      let q := req addr
      let r ← run ds q.mode p { i with c := q.c, sel := q.sel, old := o, key := i.key.child st.counter, args := .tup a }
      reqBody ds req rest i olds (env ++ [r.tr.ret]) (bindOut st addr r)

/-- The dict of a `StaticRequest` as a function of the address. -/
def reqTable (reqs : List (List String × SubReq)) (a : List String) : SubReq :=
  match reqs.find? (fun e => e.1 = a) with
  | some e => e.2
  | none => SubReq.empty

/-- `edit(key, trace, StaticRequest(addressed), argdiffs)`: accepted by static functions only. -/
def staticRequest (ds : DistSem) (p : Prog) (key : KeyPath) (t : Trace) (req : List String → SubReq) (args : Val)
    (changed : Bool := false) : Except Err Res :=
  match p with
  | .static b =>
    let i : In := { c := [], sel := .none, old := some t, key, args, changed }
    staticRun .upd i (fun olds env => reqBody ds req b i olds env {})
  | _ => .error .notSupported

/-- `get_subtrace(addr)` / `get_inner_trace`: static traces look the address up; switch, mask and
    dimap traces delegate to their inner trace. -/
def Trace.subtrace : Trace → List String → Option Trace
  | .static _ _ subs, a => lookupSub subs a
  | .switch _ _ sub, a => sub.subtrace a
  | .mask _ inner, a => inner.subtrace a
  | .dimap _ _ inner, a => inner.subtrace a
  | _, _ => none

end GenjaxVerif.GFI

namespace GenjaxVerif.GFI
open GenjaxVerif

def nthElem (elems : List Trace) (k : Nat) : Except Err Trace :=
  match elems[k]? with | some t => .ok t | none => .error .shape

/-- `Vmap.edit_index` / `Scan.edit_index`: apply a sub-request (`Update c` for mode `upd`,
    `Regenerate sel` for mode `regen`) to element `idx` of a vector trace, with unchanged arguments.
    The key is handed to the sub-edit as it is (no split).  For a scan the next iteration is
    re-scored with the new carry (`Update(empty)`, same key) and must return what it returned
    before (the implementation asserts its return diff is NoChange). -/
def editIndex (ds : DistSem) (m : Mode) (prog : Prog) (key : KeyPath) (t : Trace) (idx : Nat) (c : CMap) (sel : Sel) :
    Except Err Res :=
  match prog, t with
  | .vmap p axes, .vec args _ elems => do
    let as ← argList args
    let ea ← sliceArgs axes as idx
    let old ← nthElem elems idx
    let r ← run ds m p { c, sel, old := some old, key, args := .tup ea }
    let elems' := elems.set idx r.tr
    pure ⟨.vec args (.arr (elems'.map (·.ret))) elems', r.w, CMap.pre [.i idx] r.bwd, r.bwdOk⟩
  | .scan p _, .vec args (.tup [oldFin, .arr ys]) elems => do
    let old ← nthElem elems idx
    let r ← run ds m p { c, sel, old := some old, key, args := old.args }
    let (carry', y') ← match r.tr.ret with
      | .tup [c', y'] => pure (c', y')
      | _ => .error .shape
    let ys' := ys.set idx y'
    if idx + 1 < elems.length then do
      let next ← nthElem elems (idx + 1)
      let x ← match next.args with
        | .tup [_, x] => pure x
        | _ => .error .shape
      let rn ← run ds .upd p { c := [], sel := .none, old := some next, key, args := .tup [carry', x] }
      if !(rn.tr.ret.beq next.ret) then throw .notSupported     -- `assert Diff.static_check_no_change(retdiff)`
      let elems' := (elems.set idx r.tr).set (idx + 1) rn.tr
      pure ⟨.vec args (.tup [oldFin, .arr ys']) elems', r.w + rn.w, CMap.pre [.i idx] r.bwd, r.bwdOk⟩
    else
      pure ⟨.vec args (.tup [carry', .arr ys']) (elems.set idx r.tr), r.w, CMap.pre [.i idx] r.bwd, r.bwdOk⟩
  | _, _ => .error .notSupported

end GenjaxVerif.GFI
