/-
  Model B — flags, masks and staging helpers.

  Python sources mirrored (branch for branch, including the branches taken on the
  concreteness of a flag / index):
    src/genjax/_src/core/compiler/staging.py            FlagOp.*, tree_choose, multi_switch
    src/genjax/_src/core/generative/functional_types.py Mask.*

  Staging mode: a scalar flag is `conc b` (a Python `bool`) or `dyn b` (a jax array or a
  tracer: eager array, under `jit`, under `vmap`).  Vector / rank-2 flags are always arrays.

  Three shape classes of masks are modelled:
    * `Mask α`   scalar flag, payload of any pytree type `α` (selected as a whole);
    * `VMask α`  flag of shape (n,), payload = n slices (every leaf has shape (n,));
    * `M2 α`     flag of shape (n,), ONE payload leaf of shape (n, m) — here the code hands a
                 rank-1 index / flag to `jnp.choose` / `jnp.where` together with rank-2 operands,
                 and numpy aligns TRAILING axes; the model reproduces exactly that.
  Core Lean only.
-/
namespace GenjaxVerif.MaskModel

/-- Error enum (Python exception classes are mapped onto it by the harness). -/
inductive Err where
  | shape          -- ValueError / AssertionError on non-matching shapes or tree structures
  | nested         -- Mask(Mask(..)) assertion
  | invalidUnmask  -- checkify failure in `unmask()` without default
  | empty          -- empty choice list / empty branch list
  | typeErr        -- beartype / dtype / output-type mismatch
  | notScalar      -- non-scalar predicate for `lax.cond` / wrong-rank predicate for `lax.select`
  deriving DecidableEq, Repr, Inhabited

/-! ## Flags and `FlagOp` -/

inductive Flag where
  | conc (b : Bool)   -- Python bool
  | dyn (b : Bool)    -- array / tracer
  deriving DecidableEq, Repr, Inhabited

namespace Flag

/-- Truth value carried by the flag (what `bool(flag)` gives once it is concrete). -/
def val : Flag → Bool
  | conc b => b
  | dyn b => b

def isConc : Flag → Bool
  | conc _ => true
  | dyn _ => false

/-- `FlagOp.and_`: `f & g` for two Python bools, else `jnp.logical_and`. -/
def and : Flag → Flag → Flag
  | conc a, conc b => conc (a && b)
  | f, g => dyn (f.val && g.val)

/-- `FlagOp.or_`. -/
def or : Flag → Flag → Flag
  | conc a, conc b => conc (a || b)
  | f, g => dyn (f.val || g.val)

/-- `FlagOp.xor_`. -/
def xor : Flag → Flag → Flag
  | conc a, conc b => conc (a ^^ b)
  | f, g => dyn (f.val ^^ g.val)

/-- `FlagOp.not_` (`match f: case True / case False / case _`). -/
def not : Flag → Flag
  | conc true => conc false
  | conc false => conc true
  | dyn b => dyn (!b)

/-- `FlagOp.concrete_true` / `FlagOp.concrete_false`. -/
def concreteTrue : Flag → Bool
  | conc true => true
  | _ => false

def concreteFalse : Flag → Bool
  | conc false => true
  | _ => false

/-- Integer value of a flag inside arithmetic (`True + …`). -/
def toInt (f : Flag) : Int := if f.val then 1 else 0

end Flag

/-- A flag argument of any rank ≤ 1: scalar (with mode) or a vector array. -/
inductive FlagArg where
  | sc (f : Flag)
  | vec (bs : List Bool)
  deriving DecidableEq, Repr, Inhabited

/-- `jnp.logical_*` broadcasting between scalars and vectors (equal lengths required). -/
def FlagArg.lift2 (opS : Flag → Flag → Flag) (opB : Bool → Bool → Bool) :
    FlagArg → FlagArg → Except Err FlagArg
  | .sc f, .sc g => .ok (.sc (opS f g))
  | .sc f, .vec gs => .ok (.vec (gs.map (opB f.val)))
  | .vec fs, .sc g => .ok (.vec (fs.map (fun x => opB x g.val)))
  | .vec fs, .vec gs =>
    if fs.length = gs.length then .ok (.vec (List.zipWith opB fs gs)) else .error .shape

/-- `FlagOp.and_ / or_ / xor_ / not_` on flags of rank ≤ 1. -/
def FlagArg.and := FlagArg.lift2 Flag.and (· && ·)
def FlagArg.or := FlagArg.lift2 Flag.or (· || ·)
def FlagArg.xor := FlagArg.lift2 Flag.xor (· ^^ ·)
def FlagArg.not : FlagArg → FlagArg
  | .sc f => .sc f.not
  | .vec fs => .vec (fs.map (!·))

/-- Types whose values have a (shape, dtype) signature: `lax.select` / `lax.cond` insist that
    both alternatives have the same one. -/
class Shaped (α : Type) where
  sameType : α → α → Bool

/-- `FlagOp.where(f, tf, ff)`: `f is True` → `tf`; `f is False` → `ff`; else
    `jax.lax.select(f, tf, ff)` (needs identical shape and dtype). -/
def whereF {α} [Shaped α] (f : Flag) (t e : α) : Except Err α :=
  match f with
  | .conc true => .ok t
  | .conc false => .ok e
  | .dyn b => if Shaped.sameType t e then .ok (if b then t else e) else .error .typeErr

/-- `FlagOp.where` with a vector flag: `lax.select` wants the predicate to have exactly the
    shape of the cases, so both cases are vectors of the flag's length. -/
def whereV {α} (fs : List Bool) (t e : List α) : Except Err (List α) :=
  if fs.length = t.length ∧ t.length = e.length then
    .ok (List.zipWith (fun (b : Bool) (p : α × α) => if b then p.1 else p.2) fs (List.zip t e))
  else .error .notScalar

/-- `FlagOp.cond(f, tf, ff, *args)`: concrete flags call the chosen function directly (the
    other one is never traced); otherwise `jax.lax.cond`, which traces both and requires equal
    output types, and a scalar predicate. -/
def condF {α β} [Shaped β] (f : FlagArg) (tf ff : α → β) (a : α) : Except Err β :=
  match f with
  | .sc (.conc true) => .ok (tf a)
  | .sc (.conc false) => .ok (ff a)
  | .sc (.dyn b) =>
    if Shaped.sameType (tf a) (ff a) then .ok (if b then tf a else ff a) else .error .typeErr
  | .vec _ => .error .notScalar

/-! ## `tree_choose` -/

/-- An index with its staging mode: Python `int` or array / tracer. -/
inductive Idx where
  | conc (i : Int)
  | dyn (i : Int)
  deriving DecidableEq, Repr, Inhabited

def Idx.val : Idx → Int
  | .conc i => i
  | .dyn i => i

/-- Python's `%` (floor modulus). -/
def pyMod (a : Int) (n : Nat) : Int := Int.fmod a n

/-- `tree_choose.inner` on one leaf position, for a scalar index: `vs[idx % len(vs)]` when
    `idx` is a Python int, `jnp.choose(idx, vs, mode="wrap")` otherwise. -/
def treeChoose {α} (idx : Idx) (vs : List α) : Except Err α :=
  match vs with
  | [] => .error .empty
  | v0 :: _ =>
    match idx with
    | .conc i => .ok (vs.getD (pyMod i vs.length).toNat v0)
    | .dyn i => .ok (vs.getD (i % (vs.length : Int)).toNat v0)

/-- dtypes met by the helpers, with jnp's promotion order bool < int32 < float32. -/
inductive DType where
  | b | i | f
  deriving DecidableEq, Repr, Inhabited

def DType.rank : DType → Nat
  | .b => 0
  | .i => 1
  | .f => 2

def DType.join (x y : DType) : DType := if x.rank ≤ y.rank then y else x

/-- A scalar array leaf: dtype and (integer-valued) content; `True` is 1. -/
structure Leaf where
  dt : DType
  x : Int
  deriving DecidableEq, Repr, Inhabited

def Leaf.cast (d : DType) (l : Leaf) : Leaf := ⟨d, l.x⟩

/-- dtype of `jnp.choose(idx, vs)`: the promotion of all choices. -/
def joinAll (vs : List Leaf) : DType := vs.foldl (fun d l => d.join l.dt) .b

/-- `tree_choose.inner` with its dtype rule: the selected element is cast to the dtype of the
    `jnp.choose` result in the concrete branch, and is that result in the traced branch. -/
def chooseLeaf (idx : Idx) (vs : List Leaf) : Except Err Leaf :=
  (treeChoose idx vs).map (Leaf.cast (joinAll vs))

/-- Array index of shape (n,) against choices of shape (n,): position `j` is presented as the
    column `cols[j] = [vs[0][j], vs[1][j], …]`; `jnp.choose` is elementwise. -/
def chooseElem (idx : List Int) (cols : List (List Leaf)) : Except Err (List Leaf) :=
  if idx.length = cols.length then
    (List.zip idx cols).mapM (fun p => chooseLeaf (.dyn p.1) p.2)
  else .error .shape

/-! ## `multi_switch` -/

/-- `jax.lax.switch` clamps its index into `[0, n-1]`. -/
def clamp (i : Int) (n : Nat) : Nat :=
  if i < 0 then 0 else if i ≥ (n : Int) then n - 1 else i.toNat

/-- `multi_switch(idx, branches, arg_tuples)`: `shapes[j] = zeros like branches[j](*args[j])`;
    `lax.switch(idx, setters, shapes)` overwrites slot `clamp idx` with the real output.
    `zip` truncates to the shorter list, an empty branch list is an error. -/
def multiSwitch {α β} (zero : β → β) (idx : Int) (fs : List (α → β)) (args : List α) :
    Except Err (List β) :=
  let pairs := List.zip fs args
  if pairs.isEmpty then .error .empty
  else
    let outs := pairs.map (fun p => p.1 p.2)
    let c := clamp idx pairs.length
    .ok ((List.zip (List.range outs.length) outs).map (fun p => if p.1 = c then p.2 else zero p.2))

/-! ## Scalar-flag masks -/

structure Mask (α : Type) where
  value : α
  flag : Flag
  deriving Repr

instance {α} [DecidableEq α] : DecidableEq (Mask α) := fun a b =>
  match a, b with
  | ⟨v, f⟩, ⟨w, g⟩ =>
    if h : v = w ∧ f = g then isTrue (by cases h with | intro h1 h2 => rw [h1, h2])
    else isFalse (fun e => h (by cases e; exact ⟨rfl, rfl⟩))

/-- The argument of `Mask.build` / `Mask(...)`: a bare value or an existing mask. -/
inductive MaskOrVal (α : Type) where
  | val (v : α)
  | mask (m : Mask α)

/-- The `flag` argument of the constructor: omitted (defaults to `True`), `None`, or a flag. -/
inductive CtorFlag where
  | absent
  | pyNone
  | given (f : Flag)

/-- Result of `flatten` / `maybe_mask`: `None`, the bare value, or a mask. -/
inductive Flat (α : Type) where
  | none
  | bare (v : α)
  | masked (m : Mask α)
  deriving Repr

namespace Mask
variable {α : Type}

/-- `Mask.__init__`: refuses a `Mask` payload; `flag=None` is rejected by the runtime type
    checker; a missing flag means `True`.  (`_validate_init` is vacuous for scalar flags.) -/
def init (v : MaskOrVal α) (f : CtorFlag) : Except Err (Mask α) :=
  match v with
  | .mask _ => .error .nested
  | .val x =>
    match f with
    | .absent => .ok ⟨x, .conc true⟩
    | .pyNone => .error .typeErr
    | .given g => .ok ⟨x, g⟩

/-- `Mask.build(v, f)`: re-masking a mask conjoins the flags (`FlagOp.and_(f, g)`). -/
def build (v : MaskOrVal α) (f : Flag) : Mask α :=
  match v with
  | .mask m => ⟨m.value, Flag.and f m.flag⟩
  | .val x => ⟨x, f⟩

/-- `Mask.flatten`. -/
def flatten (m : Mask α) : Flat α :=
  if m.flag.concreteFalse then .none
  else if m.flag.concreteTrue then .bare m.value
  else .masked m

/-- `Mask.maybe_mask(v, f) = Mask.build(v, f).flatten()`. -/
def maybeMask (v : MaskOrVal α) (f : Flag) : Flat α := (build v f).flatten

/-- `Mask._or_idx(first, second) = first + 2 * and_(not_(first), second) - 1 ∈ {-1, 0, 1}`. -/
def orIdx (first second : Flag) : Int :=
  first.toInt + 2 * (Flag.and (Flag.not first) second).toInt - 1

/-- `jnp.choose(idx, [x, y], mode="wrap")` at one position (`tree_choose` with a traced index
    and two choices). -/
def pick (idx : Int) (x y : α) : α := [x, y].getD (idx % 2).toNat x

/-- `Mask.__or__`: `case True, _` → self; `case False, _` → other; otherwise
    `tree_choose(_or_idx(f, g), [self, other])` over the two `Mask` pytrees (payload leaves
    and the flag leaf alike). -/
def or (a b : Mask α) : Mask α :=
  match a.flag with
  | .conc true => a
  | .conc false => b
  | .dyn fa =>
    let idx := orIdx (.dyn fa) b.flag
    ⟨pick idx a.value b.value, .dyn (pick idx fa b.flag.val)⟩

/-- `Mask.__xor__`: the four all-concrete cases, otherwise
    `Mask(tree_choose(idx, [self.value, other.value]), FlagOp.xor_(f, g))`. -/
def xor (a b : Mask α) : Mask α :=
  match a.flag, b.flag with
  | .conc false, .conc false => build (.mask a) (.conc false)
  | .conc true, .conc true => build (.mask a) (.conc false)
  | .conc true, .conc false => a
  | .conc false, .conc true => b
  | f, g => ⟨pick (orIdx f g) a.value b.value, Flag.xor f g⟩

/-- `Mask.__invert__`. -/
def invert (m : Mask α) : Mask α := ⟨m.value, m.flag.not⟩

/-- `Mask.unmask(default)`.  Without a default the payload is returned as is — and when
    `do_checkify()` is active an invalid flag is a checked error.  With a default:
    `jnp.where(flag, value, default)` on every leaf. -/
def unmask (m : Mask α) (default : Option α) (checkify : Bool) : Except Err α :=
  match default with
  | none => if checkify && !m.flag.val then .error .invalidUnmask else .ok m.value
  | some d => .ok (if m.flag.val then m.value else d)

/-- `Mask.or_n` / `Mask.xor_n`: `functools.reduce` from the left. -/
def orN (m : Mask α) (ms : List (Mask α)) : Mask α := ms.foldl or m
def xorN (m : Mask α) (ms : List (Mask α)) : Mask α := ms.foldl xor m

/-- What can be observed of a mask: the payload if (and only if) the flag is true. -/
def obs (m : Mask α) : Option α := if m.flag.val then some m.value else Option.none

end Mask

/-- Observation of a flattened mask. -/
def Flat.obs {α} : Flat α → Option α
  | .none => Option.none
  | .bare v => some v
  | .masked m => m.obs

/-! ## Vectorised masks: flag of shape (n,), every payload leaf of shape (n,) -/

structure VMask (α : Type) where
  values : List α        -- slice `i` of the payload pytree
  flags : List Bool      -- an array, hence always traced-mode
  deriving Repr, DecidableEq

namespace VMask
variable {α : Type}

/-- The scalar mask at one position of a vectorised mask (array flags are traced-mode). -/
abbrev elt (v : α) (f : Bool) : Mask α := ⟨v, .dyn f⟩

/-- `_validate_init`: the flag's shape is a prefix of every leaf shape. -/
def wf (m : VMask α) : Bool := m.values.length == m.flags.length

/-- `_validate_mask_shapes`: same leaf shapes (flag leaf included). -/
def compatible (a b : VMask α) : Bool :=
  a.wf && b.wf && a.flags.length == b.flags.length

/-- Elementwise `tree_choose(idx, [xs, ys])` for same-shape array index and leaves. -/
def pickV {β} (idx : List Int) (xs ys : List β) : List β :=
  List.zipWith (fun (i : Int) (p : β × β) => Mask.pick i p.1 p.2) idx (List.zip xs ys)

/-- `_or_idx` on flag arrays. -/
def orIdxV (fs gs : List Bool) : List Int :=
  List.zipWith (fun f g => Mask.orIdx (.dyn f) (.dyn g)) fs gs

/-- `Mask.__or__` with array flags: the third `match` arm, elementwise. -/
def or (a b : VMask α) : Except Err (VMask α) :=
  if compatible a b then
    let idx := orIdxV a.flags b.flags
    .ok ⟨pickV idx a.values b.values, pickV idx a.flags b.flags⟩
  else .error .shape

/-- `Mask.__xor__` with array flags. -/
def xor (a b : VMask α) : Except Err (VMask α) :=
  if compatible a b then
    let idx := orIdxV a.flags b.flags
    .ok ⟨pickV idx a.values b.values, List.zipWith (· ^^ ·) a.flags b.flags⟩
  else .error .shape

/-- `Mask.__invert__`. -/
def invert (m : VMask α) : VMask α := ⟨m.values, m.flags.map (!·)⟩

/-- `Mask.build(mask, f)` on a vectorised mask: `f` must be scalar or of the same shape. -/
def rebuild (m : VMask α) (f : FlagArg) : Except Err (VMask α) :=
  match f with
  | .sc g => .ok ⟨m.values, m.flags.map (g.val && ·)⟩
  | .vec gs =>
    if gs.length = m.flags.length then .ok ⟨m.values, List.zipWith (· && ·) gs m.flags⟩
    else .error .shape

/-- `Mask.build(value, vector_flag)` → `Mask.__init__` → `_validate_init`. -/
def init (vs : List α) (fs : List Bool) : Except Err (VMask α) :=
  if vs.length = fs.length then .ok ⟨vs, fs⟩ else .error .shape

/-- `unmask(default)` with array flags: elementwise `jnp.where`; without default the payload,
    checked by `jnp.all(flag)` when checkify is active. -/
def unmask (m : VMask α) (default : Option (List α)) (checkify : Bool) : Except Err (List α) :=
  match default with
  | none => if checkify && !m.flags.all id then .error .invalidUnmask else .ok m.values
  | some d =>
    if m.values.length = d.length ∧ m.wf then
      .ok (List.zipWith (fun (b : Bool) (p : α × α) => if b then p.1 else p.2) m.flags (List.zip m.values d))
    else .error .shape

/-- The scalar masks a vectorised mask stands for (what `jax.vmap` would see per element). -/
def toMasks (m : VMask α) : List (Mask α) := List.zipWith elt m.values m.flags

/-- Elementwise observation. -/
def obs (m : VMask α) : List (Option α) := m.toMasks.map Mask.obs

end VMask

/-! ## Rank-2 payload under a rank-1 flag: numpy trailing-axis broadcasting, as the code does -/

structure M2 (α : Type) where
  rows : List (List α)   -- shape (n, m)
  flags : List Bool      -- shape (n,)
  deriving Repr, DecidableEq

namespace M2
variable {α : Type}

def ncols (rows : List (List α)) : Nat := (rows.head?.map List.length).getD 0

/-- `_validate_init` + rectangular. -/
def wf (a : M2 α) : Bool :=
  a.rows.length == a.flags.length && a.rows.all (fun r => r.length == ncols a.rows)

def compatible (a b : M2 α) : Bool :=
  a.wf && b.wf && a.flags.length == b.flags.length && ncols a.rows == ncols b.rows

/-- numpy broadcast of shapes `(n,)` and `(n, m)`: `(n,)` becomes `(1, n)`; the result is
    `(n, c)` with `c` the broadcast of `n` and `m`. -/
def bcastCols (n m : Nat) : Except Err Nat :=
  if m = n then .ok n else if m = 1 then .ok n else if n = 1 then .ok m else .error .shape

/-- Generic "rank-1 selector against rank-2 operands" with numpy alignment:
    `out[i][j] = f sel[j'] A[i][j''] B[i][j'']`, `j' = 0` if `n = 1` else `j`,
    `j'' = 0` if `m = 1` else `j`.  This is what `jnp.choose(idx, [A, B])` and
    `jnp.where(flag, A, B)` compute for these shapes. -/
def bcast2 {σ} (f : σ → α → α → α) (sel : List σ) (A B : List (List α)) :
    Except Err (List (List α)) :=
  let n := sel.length
  let m := ncols A
  match bcastCols n m with
  | .error e => .error e
  | .ok c =>
    .ok ((List.range n).map fun i =>
      (List.range c).filterMap fun j =>
        let jn := if n = 1 then 0 else j
        let jm := if m = 1 then 0 else j
        match sel[jn]?, (A[i]?).bind (·[jm]?), (B[i]?).bind (·[jm]?) with
        | some s, some x, some y => some (f s x y)
        | _, _, _ => Option.none)

/-- `Mask.__or__` for these shapes: flags are chosen elementwise (rank 1, fine), the payload
    goes through `jnp.choose` with the rank-1 index. -/
def or (a b : M2 α) : Except Err (M2 α) :=
  if compatible a b then
    let idx := VMask.orIdxV a.flags b.flags
    match bcast2 Mask.pick idx a.rows b.rows with
    | .error e => .error e
    | .ok rows => .ok ⟨rows, VMask.pickV idx a.flags b.flags⟩
  else .error .shape

/-- `Mask.__xor__` for these shapes. -/
def xor (a b : M2 α) : Except Err (M2 α) :=
  if compatible a b then
    let idx := VMask.orIdxV a.flags b.flags
    match bcast2 Mask.pick idx a.rows b.rows with
    | .error e => .error e
    | .ok rows => .ok ⟨rows, List.zipWith (· ^^ ·) a.flags b.flags⟩
  else .error .shape

/-- `unmask(default)` for these shapes: `jnp.where(flag, value, default)`. -/
def unmaskD (a : M2 α) (d : List (List α)) : Except Err (List (List α)) :=
  if a.wf && d.length == a.rows.length && d.all (fun r => r.length == ncols a.rows) then
    bcast2 (fun (b : Bool) x y => if b then x else y) a.flags a.rows d
  else .error .shape

/-- The intended meaning: one scalar mask per row. -/
def toVMask (a : M2 α) : VMask (List α) := ⟨a.rows, a.flags⟩

/-- Row-wise observation. -/
def obs (a : M2 α) : List (Option (List α)) := a.toVMask.obs

end M2

/-! ## Payload trees used by the driver (nested tuples / arrays of integers) -/

inductive Tree where
  | leaf (x : Int)
  | node (xs : List Tree)
  deriving Repr, Inhabited

mutual
  def Tree.beq : Tree → Tree → Bool
    | .leaf x, .leaf y => x == y
    | .node xs, .node ys => Tree.beqList xs ys
    | _, _ => false
  def Tree.beqList : List Tree → List Tree → Bool
    | [], [] => true
    | x :: xs, y :: ys => Tree.beq x y && Tree.beqList xs ys
    | _, _ => false
end

mutual
  /-- Same tree structure and leaf shapes (`_validate_mask_shapes`, `lax.select/cond` typing). -/
  def Tree.sameShape : Tree → Tree → Bool
    | .leaf _, .leaf _ => true
    | .node xs, .node ys => Tree.sameShapeList xs ys
    | _, _ => false
  def Tree.sameShapeList : List Tree → List Tree → Bool
    | [], [] => true
    | x :: xs, y :: ys => Tree.sameShape x y && Tree.sameShapeList xs ys
    | _, _ => false
end

mutual
  /-- Leafwise integer map (`jnp.zeros` placeholders, affine test functions). -/
  def Tree.map (f : Int → Int) : Tree → Tree
    | .leaf x => .leaf (f x)
    | .node xs => .node (Tree.mapList f xs)
  def Tree.mapList (f : Int → Int) : List Tree → List Tree
    | [] => []
    | x :: xs => Tree.map f x :: Tree.mapList f xs
end

def Tree.zeros : Tree → Tree := Tree.map (fun _ => 0)

instance : Shaped Tree := ⟨Tree.sameShape⟩

/-- Scalar-flag `|` / `^` including `_validate_mask_shapes` on the payloads. -/
def orChecked (a b : Mask Tree) : Except Err (Mask Tree) :=
  if Tree.sameShape a.value b.value then .ok (Mask.or a b) else .error .shape

def xorChecked (a b : Mask Tree) : Except Err (Mask Tree) :=
  if Tree.sameShape a.value b.value then .ok (Mask.xor a b) else .error .shape

/-- Left fold of a partial binary operation (`functools.reduce` with raising operands). -/
def foldE {μ} (op : μ → μ → Except Err μ) (m : μ) : List μ → Except Err μ
  | [] => .ok m
  | x :: xs => match op m x with
    | .ok r => foldE op r xs
    | .error e => .error e

/-! ## Remaining rank-2 operations (they only touch the rank-1 flag, or return the payload) -/

namespace M2
variable {α : Type}

/-- `Mask.__invert__`. -/
def invert (a : M2 α) : M2 α := ⟨a.rows, a.flags.map (!·)⟩

/-- `Mask.build(mask, f)`. -/
def rebuild (a : M2 α) (f : FlagArg) : Except Err (M2 α) :=
  match f with
  | .sc g => .ok ⟨a.rows, a.flags.map (g.val && ·)⟩
  | .vec gs =>
    if gs.length = a.flags.length then .ok ⟨a.rows, List.zipWith (· && ·) gs a.flags⟩
    else .error .shape

/-- `Mask(value, vector_flag)` with `_validate_init`. -/
def init (rows : List (List α)) (fs : List Bool) : Except Err (M2 α) :=
  if (⟨rows, fs⟩ : M2 α).wf then .ok ⟨rows, fs⟩ else .error .shape

/-- `unmask()` without default. -/
def unmaskN (a : M2 α) (checkify : Bool) : Except Err (List (List α)) :=
  if checkify && !a.flags.all id then .error .invalidUnmask else .ok a.rows

end M2

/-! ## One entry point over the three shape classes (what the Python methods dispatch on
     implicitly through array shapes); mixing classes is a shape error -/

inductive AnyMask where
  | s (m : Mask Tree)
  | v (m : VMask Tree)
  | r2 (m : M2 Int)

inductive AnyVal where
  | s (t : Tree)
  | v (ts : List Tree)
  | r2 (rows : List (List Int))

inductive AnyArg where
  | val (v : AnyVal)
  | mask (m : AnyMask)

inductive AnyFlat where
  | none
  | bare (v : AnyVal)
  | masked (m : AnyMask)

namespace AnyMask

def or : AnyMask → AnyMask → Except Err AnyMask
  | .s a, .s b => (orChecked a b).map .s
  | .v a, .v b => (VMask.or a b).map .v
  | .r2 a, .r2 b => (M2.or a b).map .r2
  | _, _ => .error .shape

def xor : AnyMask → AnyMask → Except Err AnyMask
  | .s a, .s b => (xorChecked a b).map .s
  | .v a, .v b => (VMask.xor a b).map .v
  | .r2 a, .r2 b => (M2.xor a b).map .r2
  | _, _ => .error .shape

def invert : AnyMask → AnyMask
  | .s a => .s a.invert
  | .v a => .v a.invert
  | .r2 a => .r2 a.invert

/-- `Mask.build(v, f)` over all classes: a vector flag on a scalar-flag mask violates the
    `is_scalar(f) or shape(f) == shape(g)` assertion; on a bare scalar payload it violates
    `_validate_init`. -/
def build : AnyArg → FlagArg → Except Err AnyMask
  | .val (.s t), .sc f => .ok (.s (Mask.build (.val t) f))
  | .val (.s _), .vec _ => .error .shape
  | .val (.v ts), .sc f => .ok (.s (Mask.build (.val (.node ts)) f))
  | .val (.v ts), .vec fs => (VMask.init ts fs).map .v
  | .val (.r2 rows), .sc f =>
    .ok (.s (Mask.build (.val (.node (rows.map fun r => .node (r.map .leaf)))) f))
  | .val (.r2 rows), .vec fs => (M2.init rows fs).map .r2
  | .mask (.s m), .sc f => .ok (.s (Mask.build (.mask m) f))
  | .mask (.s _), .vec _ => .error .shape
  | .mask (.v m), f => (VMask.rebuild m f).map .v
  | .mask (.r2 m), f => (M2.rebuild m f).map .r2

/-- `flatten`: array flags are never concrete. -/
def flatten : AnyMask → AnyFlat
  | .s m => match m.flatten with
    | .none => .none
    | .bare x => .bare (.s x)
    | .masked m' => .masked (.s m')
  | .v m => .masked (.v m)
  | .r2 m => .masked (.r2 m)

def maybeMask (x : AnyArg) (f : FlagArg) : Except Err AnyFlat := (build x f).map flatten

def unmask : AnyMask → Option AnyVal → Bool → Except Err AnyVal
  | .s m, Option.none, ck => (m.unmask Option.none ck).map .s
  | .s m, some (.s d), ck =>
    if Tree.sameShape m.value d then (m.unmask (some d) ck).map .s else .error .shape
  | .v m, Option.none, ck => (m.unmask Option.none ck).map .v
  | .v m, some (.v d), ck => (m.unmask (some d) ck).map .v
  | .r2 m, Option.none, ck => (m.unmaskN ck).map .r2
  | .r2 m, some (.r2 d), _ => (m.unmaskD d).map .r2
  | _, _, _ => .error .shape

end AnyMask

/-- `FlagOp.where` on array operands given as trees: a scalar flag selects whole operands; a
    vector flag needs rank-1 operands of its own length (`lax.select`'s rule). -/
def whereTree (f : FlagArg) (t e : Tree) : Except Err Tree :=
  match f with
  | .sc g => whereF g t e
  | .vec fs =>
    match t, e with
    | .node xs, .node ys =>
      let isLeaf : Tree → Bool := fun x => match x with | .leaf _ => true | .node _ => false
      if xs.all isLeaf && ys.all isLeaf then (whereV fs xs ys).map .node else .error .notScalar
    | _, _ => .error .notScalar

end GenjaxVerif.MaskModel
