/-
  Model D (core): a jaxpr-like SSA IR and the interpreters GenJAX runs over jaxprs.

  Python sources mirrored (all under /repo/src/genjax/_src/core/compiler):
    interpreters/environment.py   Environment.get / read / write
    interpreters/stateful.py      StatefulHandler, StatefulInterpreter.eval_jaxpr_stateful
    interpreters/incremental.py   Diff, Diff.tree_primal / tree_tangent / no_change / unknown_change,
                                  default_propagation_rule, IncrementalInterpreter.eval_jaxpr_incremental
    initial_style_primitive.py    initial_style_bind._impl
  and the reference evaluator `jax.core.eval_jaxpr` (`evalPlain`).

  Everything is parametric in `sem : Sem`, the meaning of `primitive.bind(*args, **params)`:
  an arbitrary (possibly failing) function of the primitive's name, its params and its
  argument values — exactly how the interpreters treat `bind`.  Core Lean only.
-/
namespace GenjaxVerif.IR

/-! ## Values and syntax -/

/-- Element types that the translated programs use. -/
inductive DT where
  | i32 | bool
  deriving DecidableEq, Repr, Inhabited

/-- A dense array: dtype, shape, row-major data (a scalar has shape `[]`).  int32 is
    modelled by unbounded `Int` (generators keep values far from wrap-around); `bool` data
    is 0 / 1. -/
structure Val where
  dt : DT
  shape : List Nat
  data : List Int
  deriving DecidableEq, Repr, Inhabited

/-- `jax.extend.core.Var` (identified by `.count`, the key `Environment` uses) or `Literal`. -/
inductive Atom where
  | var (n : Nat)
  | lit (v : Val)
  deriving DecidableEq, Repr, Inhabited

/-- An equation / jaxpr binder: a `Var` or a `jax.core.DropVar`. -/
inductive Binder where
  | var (n : Nat)
  | drop
  deriving DecidableEq, Repr, Inhabited

mutual
  /-- One entry of `eqn.params`.  `closed` is a `ClosedJaxpr` (sub-jaxpr + its consts);
      `list` covers tuples such as `cond`'s `branches`. -/
  inductive Param where
    | int (i : Int)
    | ints (l : List Int)
    | bool (b : Bool)
    | str (s : String)
    | none
    | opaque
    | closed (j : Jaxpr) (consts : List Val)
    | list (l : List Param)
  /-- `JaxprEqn`: primitive name, `primitive.multiple_results`, params, invars, outvars. -/
  inductive Eqn where
    | mk (prim : String) (multi : Bool) (params : List (String × Param)) (ins : List Atom)
        (outs : List Binder)
  /-- `Jaxpr`: constvars, invars, eqns, outvars. -/
  inductive Jaxpr where
    | mk (constvars invars : List Nat) (eqns : List Eqn) (outvars : List Atom)
end

instance : Inhabited Param := ⟨.none⟩
instance : Inhabited Jaxpr := ⟨.mk [] [] [] []⟩

abbrev Params := List (String × Param)

def Eqn.prim : Eqn → String | .mk p _ _ _ _ => p
def Eqn.multi : Eqn → Bool | .mk _ m _ _ _ => m
def Eqn.params : Eqn → Params | .mk _ _ ps _ _ => ps
def Eqn.ins : Eqn → List Atom | .mk _ _ _ i _ => i
def Eqn.outs : Eqn → List Binder | .mk _ _ _ _ o => o
def Jaxpr.constvars : Jaxpr → List Nat | .mk c _ _ _ => c
def Jaxpr.invars : Jaxpr → List Nat | .mk _ i _ _ => i
def Jaxpr.eqns : Jaxpr → List Eqn | .mk _ _ e _ => e
def Jaxpr.outvars : Jaxpr → List Atom | .mk _ _ _ o => o

/-- Python exceptions, as an enum.  `unbound`: `Environment.read` on a missing variable
    (`ValueError`) / `KeyError` in `eval_jaxpr`; `arity`: `safe_map` length mismatch or a
    `tree_map` structure mismatch; `badResult`: the result of `bind` does not have the shape
    announced by `multiple_results`; `prim`: the primitive itself raised. -/
inductive Err where
  | unbound (n : Nat)
  | arity
  | badResult
  | prim (msg : String)
  deriving DecidableEq, Repr, Inhabited

/-- What `primitive.bind` returns: one value, or a list when `multiple_results`. -/
inductive PrimOut (α : Type) where
  | one (v : α)
  | many (vs : List α)
  deriving Repr

def PrimOut.map {α β} (f : α → β) : PrimOut α → PrimOut β
  | .one v => .one (f v)
  | .many vs => .many (vs.map f)

/-- Meaning of `primitive.bind(*args, **params)`: any function. -/
abbrev Sem := String → Params → List Val → Except Err (PrimOut Val)

/-- `if not eqn.primitive.multiple_results: outvals = [outvals]` (all three interpreters and
    `eval_jaxpr`).  A result whose shape contradicts the flag cannot be represented as a list
    of array values; the Python then fails in `safe_map` or writes a list into a cell, which
    the model reports as `badResult`. -/
def wrapOuts {α} (multi : Bool) : PrimOut α → Except Err (List α)
  | .one v => if multi then .error .badResult else .ok [v]
  | .many vs => if multi then .ok vs else .error .badResult

/-! ## `Environment` (environment.py) -/

/-- `Environment.env : dict[int, Any]`, an insertion-ordered association list on `Var.count`. -/
abbrev Env (α : Type) := List (Nat × α)

namespace Env
variable {α : Type}

/-- `dict.get(count)`. -/
def lookup (e : Env α) (n : Nat) : Option α :=
  match e with
  | [] => none
  | (k, v) :: rest => if k = n then some v else lookup rest n

/-- `self.env[count] = cell`: replace in place if present, else append. -/
def set (e : Env α) (n : Nat) (c : α) : Env α :=
  match e with
  | [] => [(n, c)]
  | (k, v) :: rest => if k = n then (k, c) :: rest else (k, v) :: set rest n c

/-- `Environment.get`: a `Literal` yields `var.val` (injected by `ofLit`), a `Var` is looked up. -/
def get (ofLit : Val → α) (e : Env α) : Atom → Option α
  | .lit v => some (ofLit v)
  | .var n => e.lookup n

/-- `Environment.read`: `get`, raising `ValueError` when the result is `None`. -/
def read (ofLit : Val → α) (e : Env α) (a : Atom) : Except Err α :=
  match e.get ofLit a with
  | some v => .ok v
  | none => match a with
    | .var n => .error (.unbound n)
    | .lit _ => .error .badResult  -- unreachable: `get` of a literal is never `None`

/-- `Environment.write`: a `DropVar` leaves the environment untouched; otherwise assign.
    (The `Literal` branch of `write` is dead code: binders are never literals.) -/
def write (e : Env α) : Binder → α → Env α
  | .drop, _ => e
  | .var n, c => e.set n c

/-- The sequential writes performed by `safe_map(env.write, vars, vals)`. -/
def writeAll (e : Env α) : List Binder → List α → Env α
  | b :: bs, v :: vs => writeAll (e.write b v) bs vs
  | _, _ => e

/-- `jax_util.safe_map(env.write, vars, vals)`: lengths are checked up front. -/
def writeMany (e : Env α) (bs : List Binder) (vs : List α) : Except Err (Env α) :=
  if bs.length = vs.length then .ok (e.writeAll bs vs) else .error .arity

/-- `jax_util.safe_map(env.read, atoms)`, left to right. -/
def readAll (ofLit : Val → α) (e : Env α) : List Atom → Except Err (List α)
  | [] => .ok []
  | a :: as =>
    match e.read ofLit a with
    | .error x => .error x
    | .ok v => match readAll ofLit e as with
      | .error x => .error x
      | .ok vs => .ok (v :: vs)

end Env

/-! ## Reference evaluator (`jax.core.eval_jaxpr`) -/

/-- Reference environments are total functions (deliberately not the dictionary above). -/
abbrev FEnv := Nat → Option Val

def FEnv.empty : FEnv := fun _ => none

def FEnv.bind (ρ : FEnv) : Binder → Val → FEnv
  | .drop, _ => ρ
  | .var n, v => fun m => if m = n then some v else ρ m

def FEnv.bindAll (ρ : FEnv) : List Binder → List Val → Except Err FEnv
  | [], [] => .ok ρ
  | b :: bs, v :: vs => FEnv.bindAll (ρ.bind b v) bs vs
  | _, _ => .error .arity

def FEnv.atom (ρ : FEnv) : Atom → Except Err Val
  | .lit v => .ok v
  | .var n => match ρ n with
    | some v => .ok v
    | none => .error (.unbound n)

def FEnv.atoms (ρ : FEnv) : List Atom → Except Err (List Val)
  | [] => .ok []
  | a :: as => do
    let v ← ρ.atom a
    let vs ← FEnv.atoms ρ as
    pure (v :: vs)

/-- The equation loop of `eval_jaxpr`. -/
def evalEqns (sem : Sem) (ρ : FEnv) : List Eqn → Except Err FEnv
  | [] => .ok ρ
  | q :: qs => do
    let vs ← ρ.atoms q.ins
    let out ← sem q.prim q.params vs
    let outs ← wrapOuts q.multi out
    let ρ' ← ρ.bindAll q.outs outs
    evalEqns sem ρ' qs

/-- `jax.core.eval_jaxpr(jaxpr, consts, *args)`: ordinary evaluation. -/
def evalPlain (sem : Sem) (j : Jaxpr) (consts args : List Val) : Except Err (List Val) := do
  let ρ ← FEnv.empty.bindAll (j.constvars.map .var) consts
  let ρ ← ρ.bindAll (j.invars.map .var) args
  let ρ ← evalEqns sem ρ j.eqns
  ρ.atoms j.outvars

/-! ## Stateful interpreter (stateful.py) -/

/-- `StatefulHandler`: `handles(primitive)` and `dispatch(primitive, *args, **params)`. -/
structure Handler (α : Type) where
  handles : String → Bool
  dispatch : String → Params → List α → Except Err (PrimOut α)

/-- A handler that handles no primitive. -/
def Handler.noop {α} : Handler α := ⟨fun _ => false, fun _ _ _ => .error (.prim "noop-dispatch")⟩

/-- Body of the `for eqn in jaxpr.eqns` loop of `eval_jaxpr_stateful`. -/
def stepStateful (sem : Sem) (h : Handler Val) (e : Env Val) (q : Eqn) : Except Err (Env Val) := do
  let invals ← e.readAll id q.ins
  let out ← if h.handles q.prim then h.dispatch q.prim q.params invals
            else sem q.prim q.params invals
  let outvals ← wrapOuts q.multi out
  e.writeMany q.outs outvals

def loopStateful (sem : Sem) (h : Handler Val) (e : Env Val) : List Eqn → Except Err (Env Val)
  | [] => .ok e
  | q :: qs => do
    let e' ← stepStateful sem h e q
    loopStateful sem h e' qs

/-- `StatefulInterpreter.eval_jaxpr_stateful(handler, jaxpr, consts, args)`. -/
def evalStateful (sem : Sem) (h : Handler Val) (j : Jaxpr) (consts args : List Val) :
    Except Err (List Val) := do
  let e ← Env.writeMany ([] : Env Val) (j.constvars.map .var) consts
  let e ← e.writeMany (j.invars.map .var) args
  let e ← loopStateful sem h e j.eqns
  e.readAll id j.outvars

/-! ## Incremental interpreter (incremental.py) -/

/-- `ChangeTangent`: the two-point lattice. -/
inductive Tag where
  | noChange | unknownChange
  deriving DecidableEq, Repr, Inhabited

/-- A cell of the dual environment: a `Diff(primal, tangent)` or a raw (untagged) value
    (a `Literal.val`, or whatever a handler returned). -/
inductive IVal where
  | raw (v : Val)
  | diff (v : Val) (t : Tag)
  deriving DecidableEq, Repr, Inhabited

/-- `Diff.tree_primal` at a leaf. -/
def IVal.primal : IVal → Val
  | .raw v => v
  | .diff v _ => v

/-- `Diff.tree_tangent` at a leaf: a non-`Diff` counts as `NoChange`. -/
def IVal.tangent : IVal → Tag
  | .raw _ => .noChange
  | .diff _ t => t

/-- `Diff(v, NoChange) if not isinstance(v, Diff) else v`. -/
def IVal.wrap : IVal → IVal
  | .raw v => .diff v .noChange
  | d => d

/-- `Diff.static_check_no_change(args)`: every tangent is `NoChange`. -/
def checkNoChange (ds : List IVal) : Bool := ds.all (fun d => d.tangent = .noChange)

/-- `default_propagation_rule(prim, *args, **params)`: bind on the primals; tag every output
    `NoChange` iff all inputs were `NoChange`, else `UnknownChange`. -/
def defaultRule (sem : Sem) (prim : String) (ps : Params) (ds : List IVal) :
    Except Err (PrimOut IVal) := do
  let check := checkNoChange ds
  let out ← sem prim ps (ds.map IVal.primal)
  pure (out.map (fun v => IVal.diff v (if check then .noChange else .unknownChange)))

/-- `Diff.tree_diff(primals, tangents)` on flat lists (`tree_map` raises on a length mismatch). -/
def treeDiff : List Val → List Tag → Except Err (List IVal)
  | [], [] => .ok []
  | v :: vs, t :: ts => do
    let ds ← treeDiff vs ts
    pure (IVal.diff v t :: ds)
  | _, _ => .error .arity

/-- Body of the `for _eqn in jaxpr.eqns` loop of `eval_jaxpr_incremental`. -/
def stepIncr (sem : Sem) (h : Option (Handler IVal)) (e : Env IVal) (q : Eqn) :
    Except Err (Env IVal) := do
  let induals ← e.readAll IVal.raw q.ins
  let induals := induals.map IVal.wrap
  let out ← match h with
    | some h =>
      if h.handles q.prim then h.dispatch q.prim q.params induals
      else defaultRule sem q.prim q.params induals
    | none => defaultRule sem q.prim q.params induals
  let outduals ← wrapOuts q.multi out
  e.writeMany q.outs outduals

def loopIncr (sem : Sem) (h : Option (Handler IVal)) (e : Env IVal) :
    List Eqn → Except Err (Env IVal)
  | [] => .ok e
  | q :: qs => do
    let e' ← stepIncr sem h e q
    loopIncr sem h e' qs

/-- `IncrementalInterpreter.eval_jaxpr_incremental(handler, jaxpr, consts, primals, tangents)`.
    Constvars are written as `Diff.no_change(consts)`; the result is `safe_map(read, outvars)`,
    so a `Literal` outvar comes back raw (consumers read it through `Diff.tree_primal` /
    `Diff.tree_tangent`, i.e. `IVal.primal` / `IVal.tangent`). -/
def evalIncr (sem : Sem) (h : Option (Handler IVal)) (j : Jaxpr) (consts primals : List Val)
    (tangents : List Tag) : Except Err (List IVal) := do
  let e ← Env.writeMany ([] : Env IVal) (j.constvars.map .var)
    (consts.map (fun c => IVal.diff c .noChange))
  let ds ← treeDiff primals tangents
  let e ← e.writeMany (j.invars.map .var) ds
  let e ← loopIncr sem h e j.eqns
  e.readAll IVal.raw j.outvars

/-! ## Initial-style primitives (initial_style_primitive.py) -/

def Params.find (ps : Params) (k : String) : Option Param :=
  match ps with
  | [] => none
  | (k', p) :: rest => if k' = k then some p else Params.find rest k

/-- `initial_style_bind(...)._impl`: `consts, args = split_list(args, [num_consts])`;
    `eval_jaxpr(jaxpr.jaxpr, consts, *args)`.  The staged jaxpr lives in the closure of the
    `impl` param; the translator serialises it under that name. -/
def initialStyleImpl (sem : Sem) (ps : Params) (vs : List Val) : Except Err (PrimOut Val) :=
  match ps.find "impl", ps.find "num_consts" with
  | some (.closed j _), some (.int k) =>
    match evalPlain sem j (vs.take k.toNat) (vs.drop k.toNat) with
    | .ok r => .ok (.many r)
    | .error x => .error x
  | _, _ => .error (.prim "initial-style-params")

end GenjaxVerif.IR
