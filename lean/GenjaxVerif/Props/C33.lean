import GenjaxVerif.Lemmas.Chm
import GenjaxVerif.Props.C18
/-!
# C33 — `invalid_subset` reports exactly the constraint addresses a model cannot trace

Statements about `Chm.invalidSubsetF` / `Chm.shapeSelection` of `Model/Chm.lean`.
`addrs c` are the static addresses at which `c` holds a leaf (index levels transparent).
The theorems hold for every fuel value whenever the model returns a result.

Full statement `C33_full`; it is REFUTED by the faithful model (`C33_refuted`): for a choice map
containing a traced-index `Switch`, `Switch.filter` rebuilds a `Switch` whose branches are all
empty, which is not `static_is_empty`, so `invalid_subset` returns a non-`None` (empty) map although
every address is traceable.  Proved: the `_partial` theorems for switch-free, index-free maps
(`staticOnly c`), for every shape in the static fragment.
-/
namespace GenjaxVerif.Chm
open Sel

/-- Membership in an accumulated shape selection. -/
theorem mem_ext_one (s : Sel) (k : String) (q : List String) :
    mem (Sel.extend s [some k]) q = match q with | [] => false | x :: q' => (x == k) && mem s q' := by
  rw [C18_mem_extend]
  cases q <;> simp [matchPrefix]

mutual
theorem shapeSel_mem : ∀ (c : Chm) (q : List String), staticOnly c = true →
    mem (shapeSelection c) q = decide (q ∈ addrs c)
  | stat [], q, _ => by simp [shapeSelection, shapeSelectionL, addrs, addrsL, C18_mem_none]
  | stat ((k, c) :: r), q, hso => by
    rw [staticOnly, staticOnlyL, Bool.and_eq_true] at hso
    rw [shapeSelection, shapeSelectionL, shapeSelAccL_mem r _ q hso.2, C18_mem_or, C18_mem_none, Bool.false_or,
      mem_ext_one, addrs, addrsL]
    cases q with
    | nil => simp [nil_not_mem_addrsL]
    | cons x q' =>
      simp only [shapeSel_mem c q' hso.1, List.mem_append, List.mem_map]
      by_cases hx : x = k
      · subst hx; simp
      · have : (x == k) = false := by simpa using hx
        have hk : ¬ k = x := fun h => hx h.symm
        simp [this, hk]
  | choice _, q, _ => by simp [shapeSelection, addrs, C18_mem_leaf]; cases q <;> simp
  | indexed _ _, _, hso => by simp [staticOnly] at hso
  | switch _ _, _, hso => by simp [staticOnly] at hso
  | or _ _, _, hso => by simp [staticOnly] at hso
theorem shapeSelAccL_mem : ∀ (m : List (String × Chm)) (acc : Sel) (q : List String), staticOnlyL m = true →
    mem (shapeSelAccL acc m) q = (mem acc q || decide (q ∈ addrsL m))
  | [], acc, q, _ => by simp [shapeSelAccL, addrsL]
  | (k, c) :: r, acc, q, hso => by
    rw [staticOnlyL, Bool.and_eq_true] at hso
    rw [shapeSelAccL, shapeSelAccL_mem r _ q hso.2, C18_mem_or, mem_ext_one, addrsL]
    cases q with
    | nil => simp [nil_not_mem_addrsL]
    | cons x q' =>
      simp only [shapeSel_mem c q' hso.1, List.mem_append, List.mem_map]
      by_cases hx : x = k
      · subst hx; simp [Bool.or_assoc]
      · have : (x == k) = false := by simpa using hx
        have hk : ¬ k = x := fun h => hx h.symm
        simp [this, hk]
end

/-- The shape selection of a (static-fragment) shape selects exactly its addresses. -/
theorem C33_shapeSelection_mem (shape : Chm) (q : List String) (hs : staticOnly shape = true) :
    mem (shapeSelection shape) q = decide (q ∈ addrs shape) := shapeSel_mem shape q hs

/-- Full-strength statement: `None` exactly when every address of the map is selected by the
    shape; for all well-formed choice maps. -/
def C33_full : Prop :=
  ∀ (k : Nat) (c shape : Chm) (r : Option Chm), wf c = true → invalidSubsetF k c shape = .ok r →
    (r = Option.none ↔ ∀ q ∈ addrs c, mem (shapeSelection shape) q = true)

/-- `invalid_subset` returns `None` iff every static address of the map is one the shape has
    (static fragment: no `Switch`/`Indexed`/`Or` node in the constraint map). -/
theorem C33_none_iff_partial (k : Nat) (c shape : Chm) (r : Option Chm)
    (hso : staticOnly c = true) (hwf : wf c = true) (h : invalidSubsetF k c shape = .ok r) :
    r = Option.none ↔ ∀ q ∈ addrs c, mem (shapeSelection shape) q = true := by
  unfold invalidSubsetF at h
  obtain ⟨e, he, h⟩ := bind_ok h
  have h := pure_ok h
  obtain ⟨s1, s2, _, s4⟩ := filterSel_spec k c _ e hso hwf he
  have hiff := staticIsEmpty_iff_addrs s1 s2
  constructor
  · intro hr q hq
    subst hr
    by_cases hem : staticIsEmpty e = true
    · have hnil := hiff.1 hem
      have : ¬ (q ∈ addrs c ∧ mem (mkCompl (shapeSelection shape)) q = true) := by
        rw [← s4 q, hnil]; simp
      rw [C18_mem_compl] at this
      cases hm : mem (shapeSelection shape) q with
      | true => rfl
      | false => exact absurd ⟨hq, by simp [hm]⟩ this
    · simp [hem] at h
  · intro hall
    have hnil : addrs e = [] := by
      apply List.eq_nil_iff_forall_not_mem.2
      intro q hq
      have := (s4 q).1 hq
      rw [C18_mem_compl, hall q this.1] at this
      simp at this
    rw [← h, if_pos (hiff.2 hnil)]

/-- Otherwise the returned map denotes exactly the entries at addresses the shape lacks. -/
theorem C33_some_denote_partial (k : Nat) (c shape e : Chm)
    (hso : staticOnly c = true) (hwf : wf c = true) (h : invalidSubsetF k c shape = .ok (some e)) (p : Path) :
    denote e p = if mem (shapeSelection shape) (statics p) = true then Option.none else denote c p := by
  unfold invalidSubsetF at h
  obtain ⟨e', he, h⟩ := bind_ok h
  have h := pure_ok h
  obtain ⟨_, _, s3, _⟩ := filterSel_spec k c _ e' hso hwf he
  have : e' = e := by
    by_cases hem : staticIsEmpty e' = true
    · simp [hem] at h
    · simp [hem] at h; exact h
  subst this
  unfold denote
  rw [s3, C18_mem_compl]
  cases mem (shapeSelection shape) (statics p) <;> simp

/-- Addresses of the returned map: exactly the untraceable ones. -/
theorem C33_some_addrs_partial (k : Nat) (c shape e : Chm)
    (hso : staticOnly c = true) (hwf : wf c = true) (h : invalidSubsetF k c shape = .ok (some e)) (q : List String) :
    q ∈ addrs e ↔ q ∈ addrs c ∧ mem (shapeSelection shape) q = false := by
  unfold invalidSubsetF at h
  obtain ⟨e', he, h⟩ := bind_ok h
  have h := pure_ok h
  obtain ⟨_, _, _, s4⟩ := filterSel_spec k c _ e' hso hwf he
  have : e' = e := by
    by_cases hem : staticIsEmpty e' = true
    · simp [hem] at h
    · simp [hem] at h; exact h
  subst this
  rw [s4, C18_mem_compl]
  cases mem (shapeSelection shape) q <;> simp

/-! Non-vacuity: a nested map with one traceable and one untraceable address. -/
def exShape : Chm := stat [("x", choice (.plain (.int 0))), ("y", stat [("a", choice (.plain (.int 0)))])]
def exChm : Chm := stat [("x", choice (.plain (.int 1))), ("y", stat [("a", choice (.plain (.int 2))), ("c", choice (.plain (.int 3)))])]
example : staticOnly exChm = true ∧ wf exChm = true ∧ staticOnly exShape = true := by decide
example : (match invalidSubsetF 10 exChm exShape with
    | .ok (some e) => denote e [.s "y", .s "c"] == some ⟨true, .int 3⟩ && denote e [.s "x"] == Option.none
    | _ => false) = true := by decide
example : (match invalidSubsetF 10 exShape exShape with | .ok Option.none => true | _ => false) = true := by decide

/-- Witness for the refutation: the choices of a switch trace, `switch(idx=1, [{x}, {y}])`, checked
    against a shape that has both `x` and `y`. -/
def swChm : Chm := switch 1 [stat [("x", choice (.masked false (.int 5)))], stat [("y", choice (.masked true (.int 6)))]]
def swShape : Chm := stat [("x", choice (.plain (.int 0))), ("y", choice (.plain (.int 0)))]

/-- The full statement is false of the faithful model: every address of `swChm` is in the shape,
    yet `invalid_subset` does not return `None`. -/
theorem C33_refuted : ¬ C33_full := by
  intro h
  have h1 : wf swChm = true := by decide
  have h2 : ∃ e, invalidSubsetF 10 swChm swShape = .ok (some e) := ⟨switch 1 [stat [], stat []], rfl⟩
  obtain ⟨e, he⟩ := h2
  have := (h 10 swChm swShape (some e) h1 he).2 (by decide)
  cases this

end GenjaxVerif.Chm
