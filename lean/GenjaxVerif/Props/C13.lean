import GenjaxVerif.Lemmas.GFIUpdate
import GenjaxVerif.Lemmas.GFIReplay
import GenjaxVerif.Props.GFITest
/-!
# C13 — switch, or_else and mix follow exactly one branch consistently
-/
namespace GenjaxVerif.GFI
open GenjaxVerif

/-- simulate / assess / generate of `switch(ps)` with an in-range index `k`: everything observable
    (trace contents, score, return value, choices, weight) is that of branch `k` run on its own
    argument tuple with the same key and constraint. -/
theorem C13_switch_is_branch (ds : DistSem) (m : Mode) (hm : m = .sim ∨ m = .assess ∨ m = .gen)
    (ps : List Prog) (i : In) (r : Res) (h : run ds m (.switch ps) i = .ok r) :
    ∃ idx ba r', switchArgs ps.length i.args = .ok (idx, ba) ∧
      runNth ds m ps idx { i with args := ba } = .ok r' ∧
      r.tr = .switch i.args idx r'.tr ∧ r.w = r'.w ∧ r.tr.score = r'.tr.score ∧
      r.tr.ret = r'.tr.ret ∧ r.tr.choices = r'.tr.choices := by
  simp only [run, switchRun, bind_ok] at h
  obtain ⟨⟨idx, ba⟩, hsa, h2⟩ := h
  rcases hm with rfl | rfl | rfl <;>
  · simp only [bind_ok, pure_ok] at h2
    obtain ⟨r', h4, rfl⟩ := h2
    exact ⟨idx, ba, r', hsa, h4, rfl, rfl, rfl, rfl, rfl⟩

/-- An update whose index is tagged unchanged edits the executed branch only, and its weight,
    score and backward constraint are that branch's. -/
theorem C13_switch_update_same_branch (ds : DistSem) (ps : List Prog) (i : In) (r : Res) (a : Val) (oidx : Nat)
    (osub : Trace) (ho : i.old = some (.switch a oidx osub)) (hch : i.changed = false)
    (h : run ds .upd (.switch ps) i = .ok r) :
    ∃ ba r', switchArgs ps.length i.args = .ok (oidx, ba) ∧
      runNth ds .upd ps oidx { i with old := some osub, args := ba } = .ok r' ∧
      r.tr = .switch i.args oidx r'.tr ∧ r.w = r'.w ∧ r.bwd = r'.bwd := by
  simp only [run, switchRun, bind_ok] at h
  obtain ⟨⟨idx, ba⟩, hsa, h2⟩ := h
  simp only [ho, hch] at h2
  simp only [Bool.false_eq_true, if_false] at h2
  split at h2
  · simp at h2
  · rename_i hne
    have hidx : oidx = idx := by simpa using hne
    subst hidx
    simp only [bind_ok, pure_ok] at h2
    obtain ⟨r', h4, rfl⟩ := h2
    exact ⟨ba, r', hsa, by simpa [hch] using h4, rfl, rfl, rfl⟩

/-- The index is taken from the first argument and CLAMPED to the branches; branch `k` receives the
    `k`-th argument tuple. -/
theorem C13_switch_args (n : Nat) (idxv : Int) (bargs : List Val) (k : Nat) (a : Val)
    (h : switchArgs n (.tup (.int idxv :: bargs)) = .ok (k, a)) :
    k = clampIdx n idxv ∧ bargs[k]? = some a := by
  simp only [switchArgs] at h
  by_cases hl : bargs.length = n
  · simp only [hl, ne_eq, not_true_eq_false, if_false] at h
    cases hx : bargs[clampIdx n idxv]? with
    | none => simp [hx] at h
    | some x =>
      simp [hx] at h
      obtain ⟨rfl, rfl⟩ := h
      exact ⟨rfl, hx⟩
  · simp [hl] at h

/-- Clamping: in range the index is itself, below range branch 0, above range the last branch. -/
theorem C13_clamp (n : Nat) (idxv : Int) (hn : 0 < n) :
    clampIdx n idxv < n ∧
    (0 ≤ idxv ∧ idxv < n → (clampIdx n idxv : Int) = idxv) ∧
    (idxv < 0 → clampIdx n idxv = 0) ∧ (idxv ≥ n → clampIdx n idxv = n - 1) := by
  unfold clampIdx
  refine ⟨?_, ?_, ?_, ?_⟩
  · split
    · exact hn
    · split
      · omega
      · omega
  · intro h; simp [show ¬ idxv < 0 by omega, show ¬ idxv ≥ n by omega]; omega
  · intro h; simp [h]
  · intro h; simp [show ¬ idxv < 0 by omega, h]

/-- `or_else(p, q)` is `switch(p, q)` on the index `int(not flag)`: flag true runs the if-branch,
    flag false the else-branch (this is how the library defines it). -/
theorem C13_orElse_def (p q : Prog) :
    Derived.orElse p q = .dimap (.exprs [.notb (.var 0), .var 1, .var 2]) (.switch [p, q]) Derived.retId := rfl

theorem C13_orElse_index (b : Int) (ia ea : Val) :
    Pre.apply (.exprs [.notb (.var 0), .var 1, .var 2]) [.int b, ia, ea] =
      .ok [.int (if b = 0 then 1 else 0), ia, ea] := by
  by_cases hb : b = 0 <;> simp [Pre.apply, Expr.evalL, Expr.eval, Val.ofBool, hb, bind, Except.bind, pure, Except.pure]

end GenjaxVerif.GFI
