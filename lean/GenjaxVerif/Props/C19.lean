import GenjaxVerif.Lemmas.Mask
/-!
# C19 — Mask algebra matches its truth tables for concrete and traced flags

Statements only (model functions live in `Model/Mask.lean`).  Every theorem quantifies over
ALL payloads (any type `α`, i.e. any pytree), ALL truth values and ALL staging modes of every
flag (`conc` = Python bool, `dyn` = array / tracer under jit / vmap), and — for vectorised
masks — ALL lengths.  Observations are taken modulo "the payload under an invalid mask is
never observed": `Mask.obs m = if flag then some payload else none`.

Strength: full for scalar flags and for vectorised flags whose payload leaves have the
flag's shape; for a rank-1 flag over a rank-2 payload leaf the model (like the code) is
REFUTED (`C19_rank2_refuted`), with `C19_rank2_or_partial` covering the one-row case.
-/
namespace GenjaxVerif.MaskModel
open Mask

variable {α : Type}

/-! ## Scalar flags: truth tables in every concreteness mode -/

/-- `|` : the flag is the disjunction; the observation is "first valid operand". -/
theorem C19_or_table (a b : Mask α) :
    (Mask.or a b).flag.val = (a.flag.val || b.flag.val) ∧ (Mask.or a b).obs = a.obs.or b.obs :=
  ⟨flag_or a b, obs_or a b⟩

/-- `^` : the flag is the exclusive or; the observation is the operand that is valid alone. -/
theorem C19_xor_table (a b : Mask α) :
    (Mask.xor a b).flag.val = (a.flag.val ^^ b.flag.val) ∧
    (Mask.xor a b).obs = xorObs a.obs b.obs :=
  ⟨flag_xor a b, obs_xor a b⟩

/-- `~` : negated flag, same payload, same staging mode. -/
theorem C19_invert (m : Mask α) :
    (Mask.invert m).flag.val = !m.flag.val ∧ (Mask.invert m).value = m.value ∧
    (Mask.invert m).flag.isConc = m.flag.isConc := by
  simp [Mask.invert]

/-- `~~m == m`: same flag (value *and* staging mode), same payload. -/
theorem C19_invert_involutive (m : Mask α) : Mask.invert (Mask.invert m) = m := by
  cases m with
  | mk v f => cases f with
    | conc b => cases b <;> rfl
    | dyn b => cases b <;> rfl

/-- `|` is associative on what a user can observe, and `m | ~m` is always valid with the
    observation of whichever side is valid; `m ^ m` is never valid. -/
theorem C19_or_assoc_obs (a b c : Mask α) :
    (Mask.or (Mask.or a b) c).obs = (Mask.or a (Mask.or b c)).obs := by
  simp only [obs_or]
  cases a.obs <;> cases b.obs <;> cases c.obs <;> rfl

theorem C19_or_invert_self (m : Mask α) :
    (Mask.or m (Mask.invert m)).flag.val = true ∧ (Mask.xor m m).flag.val = false := by
  refine ⟨?_, ?_⟩
  · rw [flag_or]; simp [Mask.invert]
  · rw [flag_xor]; simp

example : Mask.invert (Mask.invert (⟨(3 : Int), .dyn true⟩ : Mask Int)) = ⟨3, .dyn true⟩ := by rfl

/-- `Mask.build` on a bare value wraps it with exactly the given flag. -/
theorem C19_build_val (v : α) (f : Flag) : Mask.build (.val v) f = ⟨v, f⟩ := rfl

/-- `Mask.build` on a mask conjoins the flags (and stays concrete only if both are). -/
theorem C19_build_and (m : Mask α) (f : Flag) :
    (Mask.build (.mask m) f).flag.val = (f.val && m.flag.val) ∧
    (Mask.build (.mask m) f).value = m.value ∧
    (Mask.build (.mask m) f).flag.isConc = (f.isConc && m.flag.isConc) ∧
    (Mask.build (.mask m) f).obs = if f.val then m.obs else none := by
  refine ⟨?_, rfl, ?_, obs_build_mask m f⟩ <;> simp [Mask.build]

/-- `flatten`: `None` for concrete False, the bare payload for concrete True, the mask itself
    for a traced flag — and in all three cases the observation is unchanged. -/
theorem C19_flatten (v : α) (b : Bool) :
    Mask.flatten ⟨v, .conc false⟩ = Flat.none ∧
    Mask.flatten ⟨v, .conc true⟩ = Flat.bare v ∧
    Mask.flatten ⟨v, .dyn b⟩ = Flat.masked ⟨v, .dyn b⟩ := ⟨rfl, rfl, rfl⟩

theorem C19_flatten_obs (m : Mask α) : (Mask.flatten m).obs = m.obs := obs_flatten m

/-- `maybe_mask` documented table, on bare values … -/
theorem C19_maybeMask_val (v : α) (b : Bool) :
    Mask.maybeMask (.val v) (.conc true) = Flat.bare v ∧
    Mask.maybeMask (.val v) (.conc false) = Flat.none ∧
    Mask.maybeMask (.val v) (.dyn b) = Flat.masked ⟨v, .dyn b⟩ := ⟨rfl, rfl, rfl⟩

/-- … and for every argument (value or mask, any modes): the observation is the payload iff
    all flags involved are true. -/
theorem C19_maybeMask_obs (x : MaskOrVal α) (f : Flag) :
    (Mask.maybeMask x f).obs =
      match x with
      | .val v => if f.val then some v else none
      | .mask m => if f.val then m.obs else none := by
  cases x with
  | val v => simp only [Mask.maybeMask, obs_flatten]; rfl
  | mask m => simp only [Mask.maybeMask, obs_flatten, obs_build_mask]

/-- `unmask(default)`: payload when valid, default otherwise — in every mode, never an error. -/
theorem C19_unmask_default (m : Mask α) (d : α) (ck : Bool) :
    Mask.unmask m (some d) ck = .ok (m.obs.getD d) := by
  obtain ⟨v, f⟩ := m
  simp only [Mask.unmask, Mask.obs]
  cases f.val <;> rfl

/-- `unmask()` without default: an error exactly when checkify is on and the flag is false;
    otherwise the raw payload. -/
theorem C19_unmask_nodefault (m : Mask α) (ck : Bool) :
    Mask.unmask m none ck =
      if ck && !m.flag.val then .error .invalidUnmask else .ok m.value := rfl

/-- Constructor edge cases: nested masks and `flag=None` are errors; the default flag is a
    concrete `True`. -/
theorem C19_init (v : α) (m : Mask α) (cf : CtorFlag) (f : Flag) :
    Mask.init (.mask m) cf = .error .nested ∧
    Mask.init (.val v) .absent = .ok ⟨v, .conc true⟩ ∧
    Mask.init (.val v) .pyNone = .error .typeErr ∧
    Mask.init (.val v) (.given f) = .ok ⟨v, f⟩ := ⟨rfl, rfl, rfl, rfl⟩

/-- n-ary forms: left folds of the binary tables. -/
theorem C19_orN (m : Mask α) (ms : List (Mask α)) :
    (Mask.orN m ms).obs = ms.foldl (fun acc x => acc.or x.obs) m.obs ∧
    (Mask.orN m ms).flag.val = ms.foldl (fun acc x => acc || x.flag.val) m.flag.val :=
  ⟨obs_foldl_or ms m, flag_foldl_or ms m⟩

theorem C19_xorN (m : Mask α) (ms : List (Mask α)) :
    (Mask.xorN m ms).obs = ms.foldl (fun acc x => xorObs acc x.obs) m.obs ∧
    (Mask.xorN m ms).flag.val = ms.foldl (fun acc x => acc ^^ x.flag.val) m.flag.val :=
  ⟨obs_foldl_xor ms m, flag_foldl_xor ms m⟩

/-! ## Mode invariance -/

/-- Two masks that differ at most in the staging mode of their flag. -/
def SameUpToMode (a a' : Mask α) : Prop := a.value = a'.value ∧ a.flag.val = a'.flag.val

/-- Whatever mix of Python-bool / traced flags is used, every operation yields the same
    observation (flag as Bool, payload when valid). -/
theorem C19_mode_invariance (a a' b b' : Mask α) (f f' : Flag) (d : α) (ck : Bool)
    (ha : SameUpToMode a a') (hb : SameUpToMode b b') (hf : f.val = f'.val) :
    (Mask.or a b).obs = (Mask.or a' b').obs ∧
    (Mask.or a b).flag.val = (Mask.or a' b').flag.val ∧
    (Mask.xor a b).obs = (Mask.xor a' b').obs ∧
    (Mask.xor a b).flag.val = (Mask.xor a' b').flag.val ∧
    (Mask.invert a).obs = (Mask.invert a').obs ∧
    (Mask.invert a).flag.val = (Mask.invert a').flag.val ∧
    (Mask.build (.mask a) f).obs = (Mask.build (.mask a') f').obs ∧
    (Mask.build (.val d) f).obs = (Mask.build (.val d) f').obs ∧
    (Mask.flatten a).obs = (Mask.flatten a').obs ∧
    (Mask.maybeMask (.mask a) f).obs = (Mask.maybeMask (.mask a') f').obs ∧
    (Mask.maybeMask (.val d) f).obs = (Mask.maybeMask (.val d) f').obs ∧
    Mask.unmask a (some d) ck = Mask.unmask a' (some d) ck ∧
    (Mask.unmask a none ck).toOption.isSome = (Mask.unmask a' none ck).toOption.isSome := by
  obtain ⟨hav, haf⟩ := ha
  obtain ⟨hbv, hbf⟩ := hb
  have hoa : a.obs = a'.obs := obs_congr hav haf
  have hob : b.obs = b'.obs := obs_congr hbv hbf
  refine ⟨?_, ?_, ?_, ?_, ?_, ?_, ?_, ?_, ?_, ?_, ?_, ?_, ?_⟩
  · rw [obs_or, obs_or, hoa, hob]
  · rw [flag_or, flag_or, haf, hbf]
  · rw [obs_xor, obs_xor, hoa, hob]
  · rw [flag_xor, flag_xor, haf, hbf]
  · exact obs_congr hav (by simp [Mask.invert, haf])
  · simp [Mask.invert, haf]
  · rw [obs_build_mask, obs_build_mask, hoa, hf]
  · exact obs_congr rfl hf
  · rw [obs_flatten, obs_flatten, hoa]
  · simp only [Mask.maybeMask, obs_flatten, obs_build_mask, hoa, hf]
  · simp [Mask.maybeMask, obs_flatten, Mask.build, Mask.obs, hf]
  · rw [C19_unmask_default, C19_unmask_default, hoa]
  · simp only [C19_unmask_nodefault, haf]
    cases ck <;> cases a'.flag.val <;> rfl

/-- Non-vacuity of `SameUpToMode`: a Python-bool mask and a traced one. -/
example : SameUpToMode (⟨7, .conc true⟩ : Mask Int) ⟨7, .dyn true⟩ := ⟨rfl, rfl⟩

/-! ## Vectorised flags (payload leaves of the flag's shape): elementwise lifting, any length -/

/-- Vectorised `|` on compatible shapes succeeds, and is position by position the scalar `|`
    on traced flags; hence its observation is the elementwise "first valid". -/
theorem C19_vec_or (a b : VMask α) (h : VMask.compatible a b = true) :
    ∃ r, VMask.or a b = .ok r ∧
      r.toMasks = List.zipWith Mask.or a.toMasks b.toMasks ∧
      r.obs = List.zipWith Option.or a.obs b.obs := by
  refine ⟨⟨VMask.pickV (VMask.orIdxV a.flags b.flags) a.values b.values,
    VMask.pickV (VMask.orIdxV a.flags b.flags) a.flags b.flags⟩, by simp [VMask.or, h], ?_, ?_⟩
  · exact VMask.toMasks_or_aux a.values b.values a.flags b.flags
  · simp only [VMask.obs, VMask.toMasks]
    rw [VMask.toMasks_or_aux]
    exact VMask.map_obs_zipWith _ _ obs_or _ _

theorem C19_vec_xor (a b : VMask α) (h : VMask.compatible a b = true) :
    ∃ r, VMask.xor a b = .ok r ∧
      r.toMasks = List.zipWith Mask.xor a.toMasks b.toMasks ∧
      r.obs = List.zipWith xorObs a.obs b.obs := by
  refine ⟨⟨VMask.pickV (VMask.orIdxV a.flags b.flags) a.values b.values,
    List.zipWith (· ^^ ·) a.flags b.flags⟩, by simp [VMask.xor, h], ?_, ?_⟩
  · exact VMask.toMasks_xor_aux a.values b.values a.flags b.flags
  · simp only [VMask.obs, VMask.toMasks]
    rw [VMask.toMasks_xor_aux]
    exact VMask.map_obs_zipWith _ _ obs_xor _ _

/-- Shape mismatches are reported, never silently broadcast. -/
theorem C19_vec_shape_error (a b : VMask α) (h : VMask.compatible a b = false) :
    VMask.or a b = .error .shape ∧ VMask.xor a b = .error .shape := by
  simp [VMask.or, VMask.xor, h]

theorem C19_vec_invert (m : VMask α) :
    (VMask.invert m).toMasks = m.toMasks.map Mask.invert ∧
    (VMask.invert m).flags = m.flags.map (!·) ∧ (VMask.invert m).values = m.values :=
  ⟨VMask.toMasks_invert m, rfl, rfl⟩

/-- Re-masking a vectorised mask with a scalar flag (any mode) or a same-shape flag vector
    conjoins elementwise; a flag vector of another length is an error. -/
theorem C19_vec_build (m : VMask α) (g : Flag) (gs : List Bool) :
    (∃ r, VMask.rebuild m (.sc g) = .ok r ∧
        r.toMasks = m.toMasks.map (fun x => Mask.build (.mask x) g)) ∧
    (gs.length = m.flags.length →
      ∃ r, VMask.rebuild m (.vec gs) = .ok r ∧
        r.toMasks = List.zipWith (fun x (g : Bool) => Mask.build (.mask x) (.dyn g)) m.toMasks gs) ∧
    (gs.length ≠ m.flags.length → VMask.rebuild m (.vec gs) = .error .shape) := by
  refine ⟨⟨_, rfl, VMask.toMasks_rebuild_sc _ _ _⟩, fun h =>
    ⟨⟨m.values, List.zipWith (· && ·) gs m.flags⟩, by simp [VMask.rebuild, h], ?_⟩,
    fun h => by simp [VMask.rebuild, h]⟩
  exact VMask.toMasks_rebuild_vec _ _ _

example : ([true, false] : List Bool).length = (⟨[1, 2], [false, true]⟩ : VMask Int).flags.length := rfl

/-- Vectorised `unmask(default)` is the elementwise scalar `unmask(default)`. -/
theorem C19_vec_unmask_default (m : VMask α) (d : List α) (ck : Bool)
    (h : m.values.length = d.length ∧ m.wf = true) :
    VMask.unmask m (some d) ck = .ok (List.zipWith (fun (x : Mask α) d => x.obs.getD d) m.toMasks d) := by
  simp only [VMask.unmask, h, and_self, if_true]
  rw [VMask.unmask_aux]; rfl

example : (⟨[1, 2], [false, true]⟩ : VMask Int).values.length = [8, 9].length ∧
    (⟨[1, 2], [false, true]⟩ : VMask Int).wf = true := by decide
example : VMask.unmask (⟨[1, 2], [false, true]⟩ : VMask Int) (some [8, 9]) false = .ok [8, 2] := by decide

/-- Vectorised `unmask()`: checked against `all(flags)`. -/
theorem C19_vec_unmask_nodefault (m : VMask α) (ck : Bool) :
    VMask.unmask m none ck =
      if ck && !m.flags.all id then .error .invalidUnmask else .ok m.values := rfl

/-- Non-vacuity: a compatible pair of length 3 (one position per interesting flag pair). -/
example : VMask.compatible (⟨[1, 2, 3], [true, false, false]⟩ : VMask Int)
    ⟨[4, 5, 6], [false, true, false]⟩ = true := by decide
example : VMask.or (⟨[1, 2, 3], [true, false, false]⟩ : VMask Int) ⟨[4, 5, 6], [true, true, false]⟩
    = .ok ⟨[1, 5, 6], [true, true, false]⟩ := by decide

/-! ## Rank-1 flag over a rank-2 payload leaf: the documented table FAILS (for the model, which
     follows the code: `jnp.choose` / `jnp.where` align the rank-1 index with the LAST axis) -/

/-- The full-strength statement one would want: a flag of shape (n,) over a leaf of shape
    (n, m) masks whole rows, so `|` is the row-wise table. -/
def C19_rank2_full : Prop :=
  ∀ a b : M2 Int, M2.compatible a b = true →
    ∃ r, M2.or a b = .ok r ∧ r.obs = List.zipWith Option.or a.obs b.obs

/-- Same for `unmask(default)`: row `i` of the result is row `i` of the payload or of the default. -/
def C19_rank2_unmask_full : Prop :=
  ∀ (a : M2 Int) (d : List (List Int)), a.wf = true → d.length = a.rows.length →
    d.all (fun r => r.length == M2.ncols a.rows) = true →
    M2.unmaskD a d = .ok (List.zipWith (fun (x : Mask (List Int)) d => x.obs.getD d) a.toVMask.toMasks d)

private def wA : M2 Int := ⟨[[0, 1], [2, 3]], [true, false]⟩
private def wB : M2 Int := ⟨[[10, 11], [12, 13]], [false, true]⟩

/-- Witness: shape (2,2), flags [T,F] | [F,T].  Row 0 should be `[0, 1]`; the code's
    broadcasting yields `[0, 11]` (the index is applied along columns). -/
theorem C19_rank2_refuted : ¬ C19_rank2_full := by
  intro h
  obtain ⟨r, hr, ho⟩ := h wA wB (by decide)
  have e : M2.or wA wB = .ok ⟨[[0, 11], [2, 13]], [true, true]⟩ := by decide
  rw [e] at hr
  cases hr
  revert ho
  decide

theorem C19_rank2_unmask_refuted : ¬ C19_rank2_unmask_full := by
  intro h
  have := h wA [[-1, -1], [-1, -1]] (by decide) (by decide) (by decide)
  revert this
  decide

/-- A (3,2) payload under a (3,) flag is not combined at all: broadcasting error. -/
theorem C19_rank2_shape_error :
    M2.or (⟨[[0, 1], [2, 3], [4, 5]], [true, false, false]⟩ : M2 Int)
      ⟨[[10, 11], [12, 13], [14, 15]], [false, true, false]⟩ = .error .shape := by decide

/-- Partial: with a single row (flag shape (1,), payload (1, m)) numpy's alignment is harmless
    and the row-wise table holds.  Missing for the full statement: every n ≥ 2 (refuted above). -/
theorem C19_rank2_or_partial (a b : M2 α) (h : M2.compatible a b = true) (h1 : a.flags.length = 1) :
    ∃ r, M2.or a b = .ok r ∧ r.obs = List.zipWith Option.or a.obs b.obs := by
  obtain ⟨rowsA, fa⟩ := a
  obtain ⟨rowsB, fb⟩ := b
  simp only [M2.compatible, M2.wf, Bool.and_eq_true, beq_iff_eq] at h h1
  obtain ⟨⟨⟨⟨hla, _⟩, ⟨hlb, _⟩⟩, hfl⟩, hnc⟩ := h
  obtain ⟨f, rfl⟩ := List.length_eq_one_iff.mp h1
  obtain ⟨g, rfl⟩ := List.length_eq_one_iff.mp (hfl ▸ h1 : fb.length = 1)
  obtain ⟨ra, rfl⟩ := List.length_eq_one_iff.mp (hla : rowsA.length = 1)
  obtain ⟨rb, rfl⟩ := List.length_eq_one_iff.mp (hlb : rowsB.length = 1)
  exact rank2_or_one_row ra rb f g (by simpa [M2.ncols] using hnc)

/-- Non-vacuity of the partial theorem's hypotheses. -/
example : M2.compatible (⟨[[1, 2, 3]], [false]⟩ : M2 Int) ⟨[[4, 5, 6]], [true]⟩ = true ∧
    (⟨[[1, 2, 3]], [false]⟩ : M2 Int).flags.length = 1 := by decide

/-- What does hold at rank 2 for all inputs: the FLAGS of `|` and `^` are the elementwise
    tables (only the payload selection is misaligned). -/
theorem C19_rank2_flags (a b r : M2 α) :
    (M2.or a b = .ok r → r.flags = VMask.pickV (VMask.orIdxV a.flags b.flags) a.flags b.flags) ∧
    (M2.xor a b = .ok r → r.flags = List.zipWith (· ^^ ·) a.flags b.flags) := by
  constructor
  · intro h
    simp only [M2.or] at h
    split at h
    · split at h
      · cases h
      · cases h; rfl
    · cases h
  · intro h
    simp only [M2.xor] at h
    split at h
    · split at h
      · cases h
      · cases h; rfl
    · cases h

end GenjaxVerif.MaskModel
