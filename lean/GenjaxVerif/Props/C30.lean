import GenjaxVerif.Props.C29
/-!
# C30 — VI objective gradient estimators are unbiased for their objectives   (PARTIAL)

The `_loss` programs `vi.ELBO / PWake` stage (`Model/Adev.lean`: `elboLoss`, `pwakeLoss`, built from
the particle-weight algebra of `Importance.run_smc` + `ChangeTarget.run_smc`) run through the ADEV
interpreter of C29.  Over ℚ with `log` as an uninterpreted symbol whose forward-mode rule is
`d log q = q'/q`.

* `C30_elbo_loss`: the staged loss is `−(log p(x, obs) − w_q)` on the guide's sample, where `w_q` is the
  weight `Marginal.random_weighted` returns: `log q(x)` as documented and since the C25 repair
  (`GuideWeight.selected`), `0` on the originally pinned tree (`GuideWeight.complement`, the C25 defect).
* enumerable guide (`flip_enum`): the estimate is EXACTLY `(−ELBO, d/dθ(−ELBO))` — for `.selected`;
  for `.complement` it is the gradient of `−E_q[log p]` instead, and `C30_refuted` shows the two differ.
* REINFORCE guide (`flip_reinforce`): the expectation of the estimate over the guide's outcome is that
  gradient (from `C29_reinforce_unbiased`).
* reparameterised Gaussian guide: pathwise identity given ε, with the score term of `log q` vanishing.
* PWake: `−log p(x, obs)` on the posterior-approximation's sample; exact for an enumerable one.

Outside: IWELBO with N > 1 (`logsumexp`), QWake (checked on the implementation only),
continuous expectations over ε, the identification of `q'/q` with the analytic derivative of `ln q`.
-/
namespace GenjaxVerif.Adev

/-! ## The staged loss -/

/-- Dual value of the ELBO `_loss` return expression: `−((A − A) + (A − w_q))`, i.e. `−(A − w_q)`,
    where `A` is the dual of `log p(x, obs)` and `w_q` the guide weight (`log q` or `0`). -/
theorem C30_elbo_loss (ln : Rat → Option Rat) (env : Env) (m : GuideWeight) (logp logq : Expr) (A Q : Dual)
    (hA : evalExpr ln env logp = .ok A) (hQ : evalExpr ln env logq = .ok Q) :
    evalExpr ln env (.neg (importanceWeightExpr m logp logq))
      = .ok (match m with
             | .selected => -(A - Q)
             | .complement => -A) := by
  cases m
  · -- complement
    simp only [importanceWeightExpr, guideWeightExpr, evalExpr, hA, bind_ok, pure, Except.pure]
    congr 1
    refine Dual.ext' ?_ ?_ <;> simp
  · simp only [importanceWeightExpr, guideWeightExpr, evalExpr, hA, hQ, bind_ok, pure, Except.pure]
    congr 1
    refine Dual.ext' ?_ ?_ <;> simp

/-- The ELBO `_loss` is one ADEV sampling site (the guide's) followed by that expression; with an
    enumerating guide the interpreter returns `flipEnumJvp p` of the two branch values. -/
theorem C30_elbo_prog_enum (ln : Rat → Option Rat) (nz : Noise) (m : GuideWeight) (pe logp logq : Expr) (th p a b : Dual)
    (hp : evalExpr ln ⟨th, [], []⟩ pe = .ok p)
    (ha : evalExpr ln ⟨th, [true], []⟩ (.neg (importanceWeightExpr m logp logq)) = .ok a)
    (hb : evalExpr ln ⟨th, [false], []⟩ (.neg (importanceWeightExpr m logp logq)) = .ok b) :
    jvpEstimate ln nz (elboLoss m .flipEnum [pe] logp logq) th
      = .ok (flipEnumJvp p (fun x => if x then a else b)) := by
  simp only [jvpEstimate, elboLoss, evalK, evalArgs, hp, bind_ok, pure, Except.pure, primJvp,
    Env.push, Env.pushB, List.nil_append, ha, hb]

/-- … and with a REINFORCE guide, `flipReinforceJvp p x` at the sampled outcome. -/
theorem C30_elbo_prog_reinforce (ln : Rat → Option Rat) (nz : Noise) (m : GuideWeight) (pe logp logq : Expr)
    (th p : Dual) (u : Rat) (k : Bool → Dual)
    (hp : evalExpr ln ⟨th, [], []⟩ pe = .ok p) (hu : nz.u [1] = some u)
    (hk : ∀ x, evalExpr ln ⟨th, [x], []⟩ (.neg (importanceWeightExpr m logp logq)) = .ok (k x)) :
    jvpEstimate ln nz (elboLoss m .flipReinforce [pe] logp logq) th
      = .ok (flipReinforceJvp p (decide (u < p.p)) k) := by
  simp only [jvpEstimate, elboLoss, evalK, evalArgs, hp, bind_ok, pure, Except.pure, primJvp,
    Env.push, Env.pushB, List.nil_append, hu, optE, hk]
  rfl

/-! ## Enumerable guide: exact gradient of the closed-form ELBO -/

/-- `x ~ flip_enum(p)`, loss `−(A x − log q(x))` with `log q(T) = ⟨L1, p'/p⟩`, `log q(F) = ⟨L0, −p'/(1−p)⟩`:
    the estimate is exactly `⟨−ELBO, d/dθ(−ELBO)⟩` for every `p ∈ (0,1)`, `p'`, and every dual `A x`
    (model parameters may depend on θ too). -/
theorem C30_elbo_grad_enumerable (p : Dual) (A : Bool → Dual) (L1 L0 : Rat) (h0 : 0 < p.p) (h1 : p.p < 1) :
    flipEnumJvp p (fun x => -(A x - (if x then logDual p L1 else logDual (Dual.const 1 - p) L0)))
      = ⟨negElboFlip p.p (A true).p (A false).p L1 L0,
         negElboFlipGrad p.p p.t (A true).p (A false).p (A true).t (A false).t L1 L0⟩ := by
  have hp : p.p ≠ 0 := ne_of_gt h0
  have hq : 1 - p.p ≠ 0 := by linarith
  refine Dual.ext' ?_ ?_
  · simp [flipEnumJvp, negElboFlip, logDual]; ring
  · simp [flipEnumJvp, negElboFlipGrad, logDual]
    field_simp
    ring

example : (0 : Rat) < (⟨3/8, 1⟩ : Dual).p ∧ (⟨3/8, 1⟩ : Dual).p < 1 := by constructor <;> norm_num

/-- With `GuideWeight.complement` (the originally pinned tree: the guide's log density is missing
    from the weight) the estimate is the gradient of `−E_q[log p(x, obs)]`. -/
theorem C30_elbo_grad_as_written (p : Dual) (A : Bool → Dual) :
    flipEnumJvp p (fun x => -(A x))
      = ⟨negExpLogp p.p (A true).p (A false).p,
         negExpLogpGrad p.p p.t (A true).p (A false).p (A true).t (A false).t⟩ := by
  refine Dual.ext' ?_ ?_
  · simp [flipEnumJvp, negExpLogp]; ring
  · simp [flipEnumJvp, negExpLogpGrad]; ring

/-- Full statement for the `complement` weighting (the originally pinned tree): the ELBO estimate's
    tangent is the closed-form ELBO gradient. -/
def C30_full : Prop :=
  ∀ (p : Dual) (A : Bool → Dual) (L1 L0 : Rat), 0 < p.p → p.p < 1 →
    (flipEnumJvp p (fun x => -(A x))).t
      = negElboFlipGrad p.p p.t (A true).p (A false).p (A true).t (A false).t L1 L0

/-- Refuted: `p = 1/2`, `p' = 1`, `A ≡ 0`, `L1 = 1`, `L0 = 0`: as written `0`, ELBO gradient `1`. -/
theorem C30_refuted : ¬ C30_full := by
  intro h
  have := h ⟨1/2, 1⟩ (fun _ => ⟨0, 0⟩) 1 0 (by norm_num) (by norm_num)
  revert this
  simp [flipEnumJvp, negElboFlipGrad]

/-! ## REINFORCE guide: unbiased -/

/-- `x ~ flip_reinforce(p)`: the expectation over the guide's outcome of the tangent the estimator
    returns is the closed-form ELBO gradient. -/
theorem C30_elbo_grad_reinforce_unbiased (p : Dual) (A : Bool → Dual) (L1 L0 : Rat) (h0 : 0 < p.p) (h1 : p.p < 1) :
    expect (bern p.p) (fun x => (flipReinforceJvp p x
        (fun x => -(A x - (if x then logDual p L1 else logDual (Dual.const 1 - p) L0)))).t)
      = negElboFlipGrad p.p p.t (A true).p (A false).p (A true).t (A false).t L1 L0 := by
  rw [C29_reinforce_unbiased p _ h0 h1, C30_elbo_grad_enumerable p A L1 L0 h0 h1]

/-- The same with any baseline. -/
theorem C30_elbo_grad_baseline_unbiased (p b : Dual) (A : Bool → Dual) (L1 L0 : Rat) (h0 : 0 < p.p) (h1 : p.p < 1) :
    expect (bern p.p) (fun x => (baselineJvp b (flipReinforceJvp p x)
        (fun x => -(A x - (if x then logDual p L1 else logDual (Dual.const 1 - p) L0)))).t)
      = negElboFlipGrad p.p p.t (A true).p (A false).p (A true).t (A false).t L1 L0 := by
  rw [(C29_baseline_unbiased p b _ h0 h1).2, C30_elbo_grad_enumerable p A L1 L0 h0 h1]

/-! ## Reparameterised Gaussian guide: pathwise -/

/-- The value of `normalLogpdfExpr`. -/
theorem C30_normal_logpdf_eval (ln : Rat → Option Rat) (env : Env) (c : Rat) (xe me se : Expr) (x m s : Dual) (l : Rat)
    (hx : evalExpr ln env xe = .ok x) (hm : evalExpr ln env me = .ok m) (hs : evalExpr ln env se = .ok s)
    (hl : ln s.p = some l) :
    evalExpr ln env (normalLogpdfExpr c xe me se) = .ok (normalLpDual c x m s l) := by
  simp only [normalLogpdfExpr, evalExpr, hx, hm, hs, hl, bind_ok, pure, Except.pure, optE]
  rfl

/-- Along `x = μ + σ ε` the guide's own log density has tangent `−σ'/σ`: the score term vanishes
    pathwise (`(x − μ)/σ = ε` does not move). -/
theorem C30_reparam_logq_tangent (c : Rat) (mu sigma : Dual) (eps l : Rat) (hs : sigma.p ≠ 0) :
    (normalLpDual c (normalReparamSample mu sigma eps) mu sigma l).t = -(sigma.t / sigma.p) := by
  simp [normalLpDual, normalReparamSample, logDual]
  field_simp
  ring

/-- A Gaussian model factor `log N(x; m, s)` with constant `m`, `s ≠ 0`, differentiated along the
    path: `−((x − m)/s²) · x'`. -/
theorem C30_reparam_logp_tangent (c m s l : Rat) (x : Dual) (hs : s ≠ 0) :
    (normalLpDual c x (Dual.const m) (Dual.const s) l).t = -((x.p - m) / (s * s)) * x.t := by
  simp [normalLpDual, logDual]
  field_simp
  ring

/-- Conjugate pair `x ~ N(m0, s0)`, `obs ~ N(x, s1)` observed at `v`, guide `x ~ normal_reparam(μ, σ)`:
    the ELBO estimate `−(log p(x) + log p(v | x) − log q(x))` has, for the drawn ε, the pathwise
    tangent `((x − m0)/s0² + (x − v)/s1²)·(μ' + σ' ε) − σ'/σ` at `x = μ + σ ε`. -/
theorem C30_elbo_gaussian_pathwise (c m0 s0 v s1 l0 l1 lq eps : Rat) (mu sigma : Dual)
    (h0 : s0 ≠ 0) (h1 : s1 ≠ 0) (hs : sigma.p ≠ 0) :
    let x := normalReparamSample mu sigma eps
    (normalReparamJvp mu sigma eps (fun x =>
        -((normalLpDual c x (Dual.const m0) (Dual.const s0) l0
            + normalLpDual c (Dual.const v) x (Dual.const s1) l1)
          - normalLpDual c x mu sigma lq))).t
      = ((x.p - m0) / (s0 * s0) + (x.p - v) / (s1 * s1)) * (mu.t + sigma.t * eps) - sigma.t / sigma.p := by
  intro x
  have hq := C30_reparam_logq_tangent c mu sigma eps lq hs
  have hp := C30_reparam_logp_tangent c m0 s0 l0 x h0
  have hxt : x.t = mu.t + sigma.t * eps := by simp [x, normalReparamSample]
  have hl : (normalLpDual c (Dual.const v) x (Dual.const s1) l1).t = -((x.p - v) / (s1 * s1)) * x.t := by
    simp [normalLpDual, logDual]
    field_simp
    ring
  show (-(((normalLpDual c x (Dual.const m0) (Dual.const s0) l0
            + normalLpDual c (Dual.const v) x (Dual.const s1) l1)
          - normalLpDual c x mu sigma lq))).t = _
  simp only [Dual.neg_t, Dual.sub_t, Dual.add_t, hp, hl, hxt]
  rw [show (normalLpDual c x mu sigma lq).t = -(sigma.t / sigma.p) from hq]
  ring

example : (2 : Rat) ≠ 0 ∧ (1/10 : Rat) ≠ 0 ∧ (⟨1/2, 1⟩ : Dual).p ≠ 0 := by
  refine ⟨by norm_num, by norm_num, by norm_num⟩

/-! ## PWake -/

/-- `vi.PWake`'s `_loss` with an enumerable posterior approximation: the estimate is exactly
    `⟨−E_q[log p], d/dθ(−E_q[log p])⟩` (both the model's and the approximation's parameters may
    depend on θ). -/
theorem C30_pwake_prog_enum (ln : Rat → Option Rat) (nz : Noise) (pe logp : Expr) (th p : Dual) (A : Bool → Dual)
    (hp : evalExpr ln ⟨th, [], []⟩ pe = .ok p)
    (hA : ∀ x, evalExpr ln ⟨th, [x], []⟩ logp = .ok (A x)) :
    jvpEstimate ln nz (pwakeLoss .flipEnum [pe] logp) th
      = .ok ⟨negExpLogp p.p (A true).p (A false).p,
             negExpLogpGrad p.p p.t (A true).p (A false).p (A true).t (A false).t⟩ := by
  simp only [jvpEstimate, pwakeLoss, evalK, evalArgs, hp, bind_ok, pure, Except.pure, primJvp,
    Env.push, Env.pushB, List.nil_append, evalExpr, hA]
  congr 1
  have h : (fun x => if x = true then -A true else -A false) = fun x => -(A x) := by
    funext x; cases x <;> rfl
  rw [h]
  exact C30_elbo_grad_as_written p A

end GenjaxVerif.Adev
