import GenjaxVerif.Lemmas.GFIUpdate
import GenjaxVerif.Lemmas.GFIKept
import GenjaxVerif.Props.GFITest
/-!
# C07 — regenerate resamples exactly the selected choices
-/
namespace GenjaxVerif.GFI
open GenjaxVerif

/-- Weight convention of this library: `new score − old score`, for every program supporting
    Regenerate, every selection and key, every previous trace of the program's shape. -/
theorem C07_regenerate_weight (ds : DistSem) (p : Prog) (i : In) (r : Res) (told : Trace)
    (h : run ds .regen p i = .ok r) (ho : i.old = some told) (hs : Shape p told) :
    r.w = r.tr.score - told.score :=
  regen_w ds p i r told h ho hs

/-- Every unselected choice keeps its value (for every program supporting Regenerate, selection,
    key and previous trace of the program's shape; index levels are transparent to selections). -/
theorem C07_unselected_unchanged (ds : DistSem) (p : Prog) (i : In) (r : Res) (told : Trace)
    (h : run ds .regen p i = .ok r) (ho : i.old = some told) (hs : Shape p told) :
    KeptS i.sel told r.tr :=
  regen_kept ds p i r told h ho hs

/-- At a primitive choice: selected ⇒ redrawn from the prior at the CURRENT arguments with the
    key handed to this site, and the old value goes to the backward constraint; unselected ⇒ the
    value is kept (and rescored under the current arguments). -/
theorem C07_leaf_regenerate (ds : DistSem) (d : Nat) (i : In) (r : Res) (d' a ov olp)
    (ho : i.old = some (.dist d' a ov olp)) (h : leaf ds .regen d i = .ok r) :
    (i.sel.check = true →
      r.tr = .dist d i.args (ds.sample d i.key i.args) (ds.lp d (ds.sample d i.key i.args) i.args) ∧
      r.bwd = [([], .plain ov)]) ∧
    (i.sel.check = false → r.tr = .dist d i.args ov (ds.lp d ov i.args) ∧ r.bwd = []) := by
  unfold leaf at h
  simp only [oldOf, ho, bind, Except.bind] at h
  refine ⟨?_, ?_⟩
  · intro hc; simp [hc, pure, Except.pure] at h; subst h; exact ⟨rfl, rfl⟩
  · intro hc; simp [hc, pure, Except.pure] at h; subst h; exact ⟨rfl, rfl⟩

/-- mask and switch reject Regenerate (the implementation asserts `isinstance(request, Update)`). -/
theorem C07_mask_switch_not_supported (ds : DistSem) (p : Prog) (ps : List Prog) (i : In) :
    (∀ r, run ds .regen (.mask p) i ≠ .ok r) ∧ (∀ r, run ds .regen (.switch ps) i ≠ .ok r) := by
  constructor
  · intro r h
    simp only [run, maskRun, bind_ok] at h
    obtain ⟨_, _, h2⟩ := h
    simp at h2
  · intro r h
    simp only [run, switchRun, bind_ok] at h
    obtain ⟨_, _, h2⟩ := h
    simp at h2

/-- vmap (hence repeat) rejects Regenerate too: `Vmap.edit` accepts `Update` and `IndexRequest` only. -/
theorem C07_vmap_not_supported (ds : DistSem) (p : Prog) (axes : List Ax) (i : In) :
    ∀ r, run ds .regen (.vmap p axes) i ≠ .ok r := by
  intro r h
  simp only [run, vmapRun, bind_ok] at h
  obtain ⟨as, has, _⟩ := h
  exact (vmapArgs_ok has).2 rfl

end GenjaxVerif.GFI
