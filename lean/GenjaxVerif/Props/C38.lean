import GenjaxVerif.Lemmas.GFIWeights
import GenjaxVerif.Lemmas.GFIStaticReq
import GenjaxVerif.Lemmas.GFIIdentity
import GenjaxVerif.Props.GFITest
/-!
# C38 — derived GFI methods and request combinators agree with the primitives
-/
namespace GenjaxVerif.GFI
open GenjaxVerif

/-- `propose` returns simulate's choices, score and return value for the same key. -/
theorem C38_propose_eq_simulate (ds : DistSem) (p : Prog) (k : KeyPath) (a : Val) (t : Trace)
    (h : simulate ds p k a = .ok t) : propose ds p k a = .ok (t.choices, t.score, t.ret) := by
  simp [propose, h, Except.map]

/-- `importance` is `generate`. -/
theorem C38_importance_eq_generate (ds : DistSem) (p : Prog) (k : KeyPath) (c : CMap) (a : Val) :
    importance ds p k c a = generate ds p k c a := rfl

/-- `EmptyRequest`: the identity with weight 0 when no argument changed … -/
theorem C38_empty_request_nochange (ds : DistSem) (p : Prog) (k : KeyPath) (t : Trace) (a : Val) :
    emptyRequest ds p k t a true = .ok ⟨t, 0, [], true⟩ := rfl

/-- … and an `Update` with the empty constraint otherwise. -/
theorem C38_empty_request_changed (ds : DistSem) (p : Prog) (k : KeyPath) (t : Trace) (a : Val) (ch : Bool) :
    emptyRequest ds p k t a false ch = update ds p k t [] a ch := rfl

/-- `StaticRequest` applies each addressed sub-request: when its entry at every address is the `Update`
    of that address's part of one constraint, the request is `Update` of the whole constraint … -/
theorem C38_static_request_of_updates (ds : DistSem) (b : Body) (k : KeyPath) (t : Trace) (c : CMap) (a : Val)
    (ch : Bool) :
    staticRequest ds (.static b) k t (fun addr => SubReq.update (c.subStatic addr)) a ch
      = update ds (.static b) k t c a ch := by
  have key : ∀ olds env, reqBody ds (fun addr => SubReq.update (c.subStatic addr)) b
      { c := [], sel := .none, old := some t, key := k, args := a, changed := ch } olds env {}
      = runBody ds .upd b { c := c, sel := .none, old := some t, key := k, args := a, changed := ch } olds env {} := by
    intro olds env
    have := reqBody_eq_runBody ds .upd (Or.inl rfl) { c := c, sel := .none, old := some t, key := k, args := a, changed := ch }
      olds b env {}
    simp only [Sel.none_subs] at this
    rw [← this]
    exact reqBody_congr ds _ { c := [], sel := .none, old := some t, key := k, args := a, changed := ch }
      { c := c, sel := .none, old := some t, key := k, args := a, changed := ch } rfl rfl olds b env {}
  simp only [staticRequest, update, run, staticRun, key]

/-- … and when every entry is the `Regenerate` of that address's part of one selection, it is
    `Regenerate` of the whole selection. -/
theorem C38_static_request_of_regenerates (ds : DistSem) (b : Body) (k : KeyPath) (t : Trace) (sel : Sel) (a : Val) :
    staticRequest ds (.static b) k t (fun addr => SubReq.regenerate (sel.subs addr)) a
      = regenerate ds (.static b) k t sel a := by
  have key : ∀ olds env, reqBody ds (fun addr => SubReq.regenerate (sel.subs addr)) b
      { c := [], sel := .none, old := some t, key := k, args := a } olds env {}
      = runBody ds .regen b { c := [], sel := sel, old := some t, key := k, args := a } olds env {} := by
    intro olds env
    have := reqBody_eq_runBody ds .regen (Or.inr rfl) { c := [], sel := sel, old := some t, key := k, args := a }
      olds b env {}
    simp only [CMap.subStatic_nil] at this
    rw [← this]
    exact reqBody_congr ds _ { c := [], sel := .none, old := some t, key := k, args := a }
      { c := [], sel := sel, old := some t, key := k, args := a } rfl rfl olds b env {}
  simp only [staticRequest, regenerate, run, staticRun, staticOlds_regen, key]

/-- Addresses the request's dict does not mention get `EmptyRequest`; a mentioned address gets its entry. -/
theorem C38_static_request_table (reqs : List (List String × SubReq)) (a : List String) (q : SubReq) :
    reqTable [] a = SubReq.empty ∧ reqTable ((a, q) :: reqs) a = q ∧
    (∀ e ∈ reqs, e.1 ≠ a) → reqTable reqs a = SubReq.empty := by
  intro h
  unfold reqTable
  have : reqs.find? (fun e => e.1 = a) = none := by
    simp only [List.find?_eq_none, decide_eq_true_eq]
    exact h.2.2
  rw [this]

/-- A `StaticRequest` with an empty dict is `EmptyRequest` on the whole function (here: the empty
    `Update`, see `C38_empty_request_changed`). -/
theorem C38_static_request_empty (ds : DistSem) (b : Body) (k : KeyPath) (t : Trace) (a : Val) (ch : Bool) :
    staticRequest ds (.static b) k t (reqTable []) a ch = update ds (.static b) k t [] a ch := by
  rw [← C38_static_request_of_updates]
  congr 1; funext addr
  simp [reqTable, SubReq.empty, SubReq.update]

/-- The weight of a `StaticRequest` whose entries are Updates / Regenerates is new score − old score
    (exact densities; no switch whose index is tagged changed inside, as for `Update`). -/
theorem C38_static_request_weight (ds : DistSem) (b : Body) (k : KeyPath) (t : Trace) (req : List String → SubReq)
    (a : Val) (ch : Bool) (r : Res) (hmode : ∀ x, (req x).mode = .upd ∨ (req x).mode = .regen)
    (hs : Shape (.static b) t) (hsafe : SafeBody ch b)
    (h : staticRequest ds (.static b) k t req a ch = .ok r) : r.w = r.tr.score - t.score := by
  simp only [staticRequest, staticRun, bind_ok, pure_ok] at h
  obtain ⟨env, _, olds, h2, ⟨st, v⟩, h3, rfl⟩ := h
  cases t <;> simp only [Shape] at hs
  rename_i targs tret tsubs
  simp [staticOlds] at h2; subst h2
  have := reqBody_w ds req hmode b _ tsubs env {} st v [] tsubs h3 (by simp) hs (by simp) (by simp [Trace.scoreAL]) hsafe
  simpa [Trace.score] using this

/-- Only static functions accept a `StaticRequest`. -/
theorem C38_static_request_static_only (ds : DistSem) (p : Prog) (k : KeyPath) (t : Trace) (req : List String → SubReq)
    (a : Val) (ch : Bool) (r : Res) (h : staticRequest ds p k t req a ch = .ok r) : ∃ b, p = .static b := by
  cases p <;> simp [staticRequest] at h
  exact ⟨_, rfl⟩

/-- The empty `Update` of a trace — one produced by ANY operation on `p` — with that trace's own
    arguments returns the same trace, weight 0 and an empty backward request (provided no switch is
    re-simulated: `Safe`).  Hence re-executing with every argument tagged UnknownChange and taking the
    NoChange shortcut give the same result on unchanged arguments. -/
theorem C38_empty_update_is_identity (ds : DistSem) (m : Mode) (p : Prog) (i : In) (r : Res)
    (h : run ds m p i = .ok r) (k : KeyPath) (ch : Bool) (hs : Safe ch p) :
    update ds p k r.tr [] i.args ch = .ok ⟨r.tr, 0, [], true⟩ :=
  upd_id ds m p i r h { c := [], sel := .none, old := some r.tr, key := k, args := i.args, changed := ch } rfl rfl rfl hs

/-- Non-vacuity (a test): the hypotheses are met by a concrete program and simulated trace. -/
example : run Test.ds .sim Test.prog1 Test.in1 = .ok ⟨Test.trace1, 0, [], true⟩ ∧ Safe false Test.prog1 :=
  ⟨rfl, by simp [Test.prog1, Safe, SafeBody]⟩

/-- `EmptyRequest`'s two arms agree where both apply: on unchanged arguments, the identity arm
    (arguments tagged NoChange) and the `Update(empty)` arm (tagged UnknownChange) return the same. -/
theorem C38_empty_request_arms_agree (ds : DistSem) (m : Mode) (p : Prog) (i : In) (r : Res)
    (h : run ds m p i = .ok r) (k : KeyPath) (ch : Bool) (hs : Safe ch p) :
    emptyRequest ds p k r.tr i.args false ch = emptyRequest ds p k r.tr i.args true ch := by
  simp only [emptyRequest, if_true, Bool.false_eq_true, if_false]
  exact C38_empty_update_is_identity ds m p i r h k ch hs

/-- `DiffAnnotate` with identity maps is its inner request. -/
theorem C38_diff_annotate_identity (edit : Val → Except Err Res) (a : Val) : diffAnnotate id id edit a = edit a := by
  unfold diffAnnotate
  show Except.map id (edit a) = edit a
  cases edit a <;> rfl

/-- `simulate` constrains nothing: its weight is 0 (so `propose`'s score is the whole score). -/
theorem C38_simulate_weight (ds : DistSem) (p : Prog) (i : In) (r : Res) (h : run ds .sim p i = .ok r) : r.w = 0 :=
  sim_w ds p i r h

end GenjaxVerif.GFI
