import GenjaxVerif.Lemmas.GFIWeights
import GenjaxVerif.Props.GFITest
/-!
# C38 — derived GFI methods and request combinators agree with the primitives
-/
namespace GenjaxVerif.GFI
open GenjaxVerif

/-- `propose` returns simulate's choices, score and return value for the same key. -/
theorem C38_propose_eq_simulate (ds : DistSem) (p : Prog) (k : KeyPath) (a : Val) (t : Trace)
    (h : simulate ds p k a = .ok t) : propose ds p k a = .ok (t.choices, t.score, t.ret) := by
  simp [propose, h, Except.map]

/-- `importance` is `generate`. -/
theorem C38_importance_eq_generate (ds : DistSem) (p : Prog) (k : KeyPath) (c : CMap) (a : Val) :
    importance ds p k c a = generate ds p k c a := rfl

/-- `EmptyRequest`: the identity with weight 0 when no argument changed … -/
theorem C38_empty_request_nochange (ds : DistSem) (p : Prog) (k : KeyPath) (t : Trace) (a : Val) :
    emptyRequest ds p k t a true = .ok ⟨t, 0, [], true⟩ := rfl

/-- … and an `Update` with the empty constraint otherwise. -/
theorem C38_empty_request_changed (ds : DistSem) (p : Prog) (k : KeyPath) (t : Trace) (a : Val) (ch : Bool) :
    emptyRequest ds p k t a false ch = update ds p k t [] a ch := rfl

/-- `simulate` constrains nothing: its weight is 0 (so `propose`'s score is the whole score). -/
theorem C38_simulate_weight (ds : DistSem) (p : Prog) (i : In) (r : Res) (h : run ds .sim p i = .ok r) : r.w = 0 :=
  sim_w ds p i r h

end GenjaxVerif.GFI
