import GenjaxVerif.Lemmas.GFIUpdate
import GenjaxVerif.Lemmas.GFIStaticReq
import GenjaxVerif.Props.GFITest
/-!
# C06 — backward requests undo edits exactly
-/
namespace GenjaxVerif.GFI
open GenjaxVerif

/-- The full statement over the model: for every accepted update, applying the returned backward
    constraint to the new trace with the original arguments restores the original trace's
    observations with the negated weight. -/
def C06_full : Prop :=
  ∀ (ds : DistSem) (p : Prog) (k k' : KeyPath) (t : Trace) (c : CMap) (a0 a : Val) (r : Res),
    simulate ds p k a0 = .ok t → update ds p k' t c a = .ok r →
    ∃ r', update ds p k' r.tr r.bwd a0 = .ok r' ∧ r'.w = - r.w ∧ r'.tr.score = t.score ∧
      r'.tr.choices = t.choices

/-- Proved part, at a primitive choice (any distribution, values, arguments): overwrite, then apply
    the backward constraint with the original arguments — the original trace comes back and the
    weights cancel.  Unconstrained updates (argument change only) round-trip too. -/
theorem C06_leaf_roundtrip_partial (ds : DistSem) (d : Nat) (a a' : Val) (ov : Int) (i i2 : In) (r r2 : Res)
    (ho : i.old = some (.dist d a ov (ds.lp d ov a))) (ha : i.args = a')
    (hc : i.c.leaf = none ∨ ∃ v, i.c.leaf = some (.plain v))
    (h : leaf ds .upd d i = .ok r)
    (h2o : i2.old = some r.tr) (h2a : i2.args = a) (h2c : i2.c = r.bwd)
    (h2 : leaf ds .upd d i2 = .ok r2) :
    r2.tr = .dist d a ov (ds.lp d ov a) ∧ r2.w = - r.w := by
  subst ha
  unfold leaf at h h2
  simp only [oldOf, ho, bind, Except.bind] at h
  rcases hc with hc | ⟨v, hc⟩
  · simp [hc, pure, Except.pure] at h; subst h
    simp only [oldOf, h2o, bind, Except.bind, h2c, CMap.leaf] at h2
    simp [pure, Except.pure, h2a] at h2; subst h2
    exact ⟨rfl, by simp; omega⟩
  · simp [hc, pure, Except.pure] at h; subst h
    simp only [oldOf, h2o, bind, Except.bind, h2c, CMap.leaf] at h2
    simp [pure, Except.pure, h2a] at h2; subst h2
    exact ⟨rfl, by simp; omega⟩

/-- The backward constraint of a static function is the concatenation of its callees' backward
    constraints, each under the callee's address (`make_bwd_request`); of a vector combinator, the
    elements' under their indices. -/
theorem C06_backward_structure (st : SState) (addr : List String) (r : Res) :
    (bindOut st addr r).bwd = st.bwd ++ CMap.pre (addr.map Comp.s) r.bwd := rfl

/-- REFUTED in general (of the model, as of the implementation): when an update drops a mask flag
    and carries a constraint, the backward constraint is masked by the NEW (false) flag and cannot
    restore the overwritten value.  Witness: `mask(d1)` at flag 1, updated to flag 0 with x := 4. -/
theorem C06_refuted : ¬ C06_full := by
  intro h
  have h1 : simulate Test.ds Test.progMask [0] (.tup [.int 1, .int 7]) =
      .ok (.mask true (.dist 1 (.tup [.int 7]) 2 13)) := rfl
  have h2 : update Test.ds Test.progMask [0] (.mask true (.dist 1 (.tup [.int 7]) 2 13))
      [([], .plain 4)] (.tup [.int 0, .int 7]) =
      .ok ⟨.mask false (.dist 1 (.tup [.int 7]) 4 15), -13, [([], .masked false 2)], true⟩ := rfl
  obtain ⟨r', hr', _, hs, _⟩ := h Test.ds Test.progMask [0] [0] _ _ _ _ _ h1 h2
  have h3 : update Test.ds Test.progMask [0] (.mask false (.dist 1 (.tup [.int 7]) 4 15))
      [([], .masked false 2)] (.tup [.int 1, .int 7]) =
      .ok ⟨.mask true (.dist 1 (.tup [.int 7]) 4 15), 15, [([], .masked false 4)], true⟩ := rfl
  have : r' = ⟨.mask true (.dist 1 (.tup [.int 7]) 4 15), 15, [([], .masked false 4)], true⟩ := by
    have := hr'.symm.trans h3; cases this; rfl
  subst this
  revert hs; decide

/-- `Switch.edit` (as repaired in /repo) returns the executed branch's backward request when the
    index is tagged unchanged. -/
theorem C06_switch_backward_is_the_branchs (ds : DistSem) (ps : List Prog) (i : In) (r : Res) (a : Val) (oidx : Nat)
    (osub : Trace) (ho : i.old = some (.switch a oidx osub)) (hch : i.changed = false)
    (h : run ds .upd (.switch ps) i = .ok r) :
    ∃ ba r', runNth ds .upd ps oidx { i with old := some osub, args := ba } = .ok r' ∧ r.bwd = r'.bwd ∧ r.bwdOk = r'.bwdOk := by
  simp only [run, switchRun, bind_ok] at h
  obtain ⟨⟨idx, ba⟩, _, h2⟩ := h
  simp only [ho, hch] at h2
  simp only [Bool.false_eq_true, if_false] at h2
  split at h2
  · simp at h2
  · rename_i hne
    have hidx : oidx = idx := by simpa using hne
    subst hidx
    simp only [bind_ok, pure_ok] at h2
    obtain ⟨r', h4, rfl⟩ := h2
    exact ⟨ba, r', by simpa [hch] using h4, rfl, rfl⟩

/-- The backward request of a `StaticRequest` addresses every call the function made — in the order
    of the calls, each under its own address — with that call's own backward request; the new trace
    holds those calls' traces under the same addresses and the weight is the sum of their weights. -/
theorem C06_static_request_backward (ds : DistSem) (b : Body) (k : KeyPath) (t : Trace) (req : List String → SubReq)
    (a : Val) (ch : Bool) (r : Res) (h : staticRequest ds (.static b) k t req a ch = .ok r) :
    ∃ calls : List (List String × Res), calls.map (·.1) = Body.addrs b ∧
      r.bwd = (calls.map fun c => CMap.pre (c.1.map Comp.s) c.2.bwd).flatten ∧
      r.w = (calls.map (·.2.w)).sum ∧
      ∃ ret, r.tr = .static a ret (calls.map fun c => (c.1, c.2.tr)) := by
  simp only [staticRequest, staticRun, bind_ok, pure_ok] at h
  obtain ⟨env, _, olds, _, ⟨st, v⟩, h3, rfl⟩ := h
  obtain ⟨calls, hc, hs, hw, hb⟩ := reqBody_calls ds req b _ olds env {} st v h3
  refine ⟨calls, hc, by simpa using hb, by simpa using hw, v, ?_⟩
  simp at hs
  simp [hs]

end GenjaxVerif.GFI
