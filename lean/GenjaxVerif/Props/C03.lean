import GenjaxVerif.Lemmas.GFIGenerate
import GenjaxVerif.Lemmas.GFIValues
import GenjaxVerif.Props.GFITest
/-!
# C03 — importance weights equal the log-density of the constrained choices
-/
namespace GenjaxVerif.GFI
open GenjaxVerif

/-- For every program, constraint, key and arguments: the weight `generate` returns is the sum of
    the log-densities of exactly those live choices of the returned trace whose address the
    constraint validly constrains (`cscore`); unconstrained choices contribute nothing. -/
theorem C03_generate_weight (ds : DistSem) (p : Prog) (i : In) (r : Res)
    (h : run ds .gen p i = .ok r) : r.w = cscore i.c r.tr :=
  gen_w ds p i r h

/-- The returned trace agrees with the constraint at every (validly) constrained address present
    in it: `Agrees` narrows the constraint along the address as `get_submap` does, and demands the
    constraint's value at every primitive choice it reaches. -/
theorem C03_trace_agrees_with_constraint (ds : DistSem) (p : Prog) (i : In) (r : Res)
    (h : run ds .gen p i = .ok r) : Agrees i.c r.tr :=
  run_agrees ds .gen (Or.inl rfl) p i r h

/-- An empty constraint gives weight 0. -/
theorem C03_empty_constraint_weight_zero (ds : DistSem) (p : Prog) (i : In) (r : Res)
    (h : run ds .gen p i = .ok r) (hc : i.c = []) : r.w = 0 := by
  rw [gen_w ds p i r h, hc, cscore_nil]

/-- At a primitive choice: a validly constrained address takes the constraint's value and
    contributes its log-density; otherwise the value is drawn with this site's key and contributes 0.
    (A value under a mask with flag True counts as constrained, with flag False as absent: C35.) -/
theorem C03_leaf_generate (ds : DistSem) (d : Nat) (i : In) (r : Res) (h : leaf ds .gen d i = .ok r) :
    (∀ v, i.c.leaf = some (.plain v) ∨ i.c.leaf = some (.masked true v) →
      r.tr = .dist d i.args v (ds.lp d v i.args) ∧ r.w = ds.lp d v i.args) ∧
    ((i.c.leaf = none ∨ ∃ v, i.c.leaf = some (.masked false v)) →
      r.tr = .dist d i.args (ds.sample d i.key i.args) (ds.lp d (ds.sample d i.key i.args) i.args) ∧ r.w = 0) := by
  unfold leaf at h
  simp only at h
  refine ⟨?_, ?_⟩
  · rintro v (hc | hc) <;> simp [hc] at h <;> subst h <;> exact ⟨rfl, rfl⟩
  · rintro (hc | ⟨v, hc⟩) <;> simp [hc] at h <;> subst h <;> exact ⟨rfl, rfl⟩

/-- A constraint that validly covers every live choice gives weight equal to the score. -/
theorem C03_score_when_all_constrained (c : CMap) (d : Nat) (a : Val) (v lp : Int) (hv : validLeaf c = true) :
    cscore c (.dist d a v lp) = (Trace.dist d a v lp).score := by
  simp [cscore, hv, Trace.score]

/-- test -/
example : (run Test.ds .gen Test.prog1 { Test.in1 with c := [([.s "y", .i 1], .plain 7)] }).toOption.map
    (fun r => (r.w, r.tr.score)) = some (10 + 7 + 1, 1 + 13 + 18) := by rfl

end GenjaxVerif.GFI
