import GenjaxVerif.Props.C14
import GenjaxVerif.Props.C15
/-!
# C16 — masked iteration steps with a false mask are inert

`masked_iterate` / `masked_iterate_final` scan the step `step.mask().dimap(pre, post)` with
`pre(state, flag) = (flag, state)` (`Derived.maskedStep`).
-/
namespace GenjaxVerif.GFI
open GenjaxVerif

/-- The return map of `masked_iterate_final`'s step: `where(flag, masked_retval.value, state)`. -/
def finalPost : Expr := .tup [.sel (.proj (.var 0) 1) (.unmask (.var 2)) (.proj (.var 0) 0), .tup []]

/-- The payload of a (possibly masked) value; a step kernel returns a plain value, for which this is the identity. -/
def payload : Val → Val
  | .mask _ v => v
  | v => v

theorem C16_final_def (p : Prog) :
    Derived.maskedIterateFinal p = Derived.map (.scan (Derived.maskedStep p finalPost) none) (.proj (.var 2) 0) := rfl

/-- One step, every mode that the mask combinator supports: with a False flag it contributes
    nothing to the score (and nothing to the weight of simulate / assess / generate), and in
    `masked_iterate_final` the iterated value stays what it was; with a True flag the score is the
    kernel's and the value is the kernel's return value. -/
theorem C16_step (ds : DistSem) (m : Mode) (hm : m = .sim ∨ m = .assess ∨ m = .gen) (p : Prog) (i : In) (r : Res)
    (state : Val) (flag : Int) (ha : i.args = .tup [state, .int flag])
    (h : run ds m (Derived.maskedStep p finalPost) i = .ok r) :
    ∃ r', run ds m p { i with old := none, args := .tup [state] } = .ok r' ∧
      (flag = 0 → r.tr.score = 0 ∧ r.w = 0 ∧ r.tr.ret = .tup [state, .tup []]) ∧
      (flag ≠ 0 → r.tr.score = r'.tr.score ∧ r.w = r'.w ∧ r.tr.ret = .tup [payload r'.tr.ret, .tup []]) := by
  obtain ⟨as, ia, o, rm, rv, has, hia, ho, hrm, hrv, htr, hret, hw, _, hsc, _⟩ :=
    C15_dimap_transparent ds m _ _ _ i r h
  rw [ha] at has hrv
  simp [argList] at has; subst has
  simp [Pre.apply, Expr.evalL, Expr.eval, bind, Except.bind, pure, Except.pure] at hia; subst hia
  have hod : o = none := by
    rcases hm with rfl | rfl | rfl <;> simp [dimapOld] at ho <;> exact ho.symm
  subst hod
  obtain ⟨check, iargs, r', hma, hr', htr', hret', _, htrue, hfalse⟩ :=
    C14_mask_transparent_or_inert ds m hm p _ rm hrm
  have hflag : (flag = 0 ∧ check = false ∨ flag = 1 ∧ check = true) ∧ iargs = [state] := by
    by_cases h0 : flag = 0
    · subst h0
      simp [maskArgs, Val.asFlag, bind, Except.bind, pure, Except.pure] at hma
      exact ⟨Or.inl ⟨rfl, hma.1⟩, hma.2.symm⟩
    · by_cases h1 : flag = 1
      · subst h1
        simp [maskArgs, Val.asFlag, bind, Except.bind, pure, Except.pure] at hma
        exact ⟨Or.inr ⟨rfl, hma.1⟩, hma.2.symm⟩
      · exfalso
        have : Val.asFlag (.int flag) = .error .shape := by
          unfold Val.asFlag; split <;> simp_all
        simp [maskArgs, this, bind, Except.bind] at hma
  obtain ⟨hfc, rfl⟩ := hflag
  refine ⟨r', by simpa using hr', ?_, ?_⟩
  · intro hf
    have hck : check = false := by rcases hfc with ⟨_, h⟩ | ⟨h1, _⟩; exact h; omega
    subst hf; subst hck
    have hc := hfalse rfl
    refine ⟨by rw [hsc]; exact hc.1, by rw [hw]; exact hc.2, ?_⟩
    rw [hret, ← Except.ok.injEq, ← hrv]
    simp [finalPost, Expr.eval, Expr.evalL, hret', Val.mkMask, Val.truthy, bind, Except.bind, pure, Except.pure]
    cases r'.tr.ret <;> simp [Val.mkMask]
  · intro hf
    have hck : check = true ∧ flag = 1 := by rcases hfc with ⟨h0, _⟩ | ⟨h1, h⟩; exact absurd h0 hf; exact ⟨h, h1⟩
    obtain ⟨hck, rfl⟩ := hck; subst hck
    have hc := htrue rfl
    refine ⟨by rw [hsc]; exact hc.1, by rw [hw]; exact hc.2, ?_⟩
    rw [hret, ← Except.ok.injEq, ← hrv]
    simp [finalPost, Expr.eval, Expr.evalL, hret', Val.truthy, bind, Except.bind, pure, Except.pure]
    cases hr : r'.tr.ret <;> simp [Val.mkMask, payload]

/-- tests: flags [1, 0, 1] on the step x ↦ x + z -/
example : (run Test.ds .sim (Derived.maskedIterateFinal
      (.static (.bind ["z"] (.dist 1) [.var 0] (.ret (.add (.var 0) (.var 1))))))
    { Test.in1 with args := .tup [.int 1, .arr [.int 1, .int 0, .int 1]] }).toOption.map
    (fun r => (r.tr.ret, r.tr.score)) = some (.int 5, 26) := by rfl

end GenjaxVerif.GFI
