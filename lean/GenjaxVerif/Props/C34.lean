import GenjaxVerif.Lemmas.GFIReplay
import GenjaxVerif.Props.GFITest
/-!
# C34 — get_subtrace returns the sub-execution at an address
-/
namespace GenjaxVerif.GFI
open GenjaxVerif CMap

/-- For a static trace with pairwise prefix-free addresses: the subtrace at a traced address has
    as choices exactly the parent's sub-map at that address. -/
theorem C34_subtrace_choices (a r : Val) (subs : List (List String × Trace)) (addr : List String) (s : Trace)
    (hp : (subs.map (·.1)).Pairwise Incomp)
    (h : (Trace.static a r subs).subtrace addr = some s) :
    CMap.subStatic (Trace.static a r subs).choices addr = s.choices := by
  simp only [Trace.subtrace, lookupSub, Option.map_eq_some_iff] at h
  obtain ⟨⟨k, t⟩, hf, rfl⟩ := h
  have hm := List.mem_of_find?_eq_some hf
  have hk : k = addr := by simpa using List.find?_some hf
  subst hk
  exact subStatic_choicesAL subs hp k t hm

theorem scoreAL_split : ∀ (subs : List (List String × Trace)) (k : List String) (t : Trace), (k, t) ∈ subs →
    ∃ rest, Trace.scoreAL subs = t.score + rest
  | [], _, _, h => by simp at h
  | (b, u) :: xs, k, t, h => by
    simp only [List.mem_cons, Prod.mk.injEq] at h
    rcases h with ⟨rfl, rfl⟩ | h
    · exact ⟨Trace.scoreAL xs, by simp [Trace.scoreAL]⟩
    · obtain ⟨rest, hr⟩ := scoreAL_split xs k t h
      exact ⟨u.score + rest, by simp [Trace.scoreAL, hr]; omega⟩

/-- … and its score is that call's contribution to the parent's score (the parent's score is the
    subtrace's score plus the other calls'). -/
theorem C34_subtrace_score (a r : Val) (subs : List (List String × Trace)) (addr : List String) (s : Trace)
    (h : (Trace.static a r subs).subtrace addr = some s) :
    ∃ rest, (Trace.static a r subs).score = s.score + rest := by
  simp only [Trace.subtrace, lookupSub, Option.map_eq_some_iff] at h
  obtain ⟨⟨k, t⟩, hf, rfl⟩ := h
  simpa [Trace.score] using scoreAL_split subs k t (List.mem_of_find?_eq_some hf)

/-- Through switch, mask and dimap traces the lookup is delegated to the executed inner trace. -/
theorem C34_delegation (a r : Val) (k : Nat) (f : Bool) (inner : Trace) (addr : List String) :
    (Trace.switch a k inner).subtrace addr = inner.subtrace addr ∧
    (Trace.mask f inner).subtrace addr = inner.subtrace addr ∧
    (Trace.dimap a r inner).subtrace addr = inner.subtrace addr := ⟨rfl, rfl, rfl⟩

/-- test -/
example : (Test.trace1.subtrace ["y"]).map (·.score) = some 26 := by rfl

end GenjaxVerif.GFI
