import GenjaxVerif.Lemmas.TimeTravel
/-!
# C31 — the time-travel debugger records and replays executions faithfully

Statements about the model of `time_travel.py` (`Model/TimeTravel.lean`) for ALL programs with
record points (`Code`: any equation list, record points nested to any depth, any tags), ALL
primitive semantics `sem`, all constants and arguments.

Standing hypothesis `RecSem sem code`: binding a `record_p` equation evaluates its staged
callable (that is what `initial_style_bind`'s `_impl` does) and the primitive has
`multiple_results`.  Nothing else is assumed about `sem`; results are equal as `Except` values,
so errors are raised in the same situations with the same error.

The reference is `evalLog` / `logStack`: ordinary direct-style evaluation that logs each
record-point call (tag, arguments, return value) when it is made — it has no continuations,
no frames, no re-staging.
-/
namespace GenjaxVerif.TT
open GenjaxVerif.IR

/-! ## Recording -/

/-- One frame per recorded call, in execution order (pre-order), with that call's arguments and
    local return value; `final_retval` is the instrumented run's result; `jump_points` map each
    truthy tag to its last call — for `_record(source)` of ANY staged source / continuation. -/
theorem C31_record_is_the_call_log (sem : Sem) (segs : List Seg) (args : List Val) (h : RecSemS sem segs) :
    (record sem segs args).map Debugger.obs =
      (logStack sem args segs).map (fun p => (p.1, p.2.map Entry.obs, jumpsOf [] 0 p.2)) :=
  record_obs sem segs args h

/-- `time_machine(f)(*args)`: the recorded frames are exactly the call log of the instrumented
    plain evaluator run on `instrumented = tag(rec(f, "_enter")(*args), "exit")`. -/
theorem C31_frames_are_the_call_log (sem : Sem) (src : Fn) (args : List Val)
    (h : RecSem sem (instrument src).body) :
    (timeMachine sem src args).map Debugger.obs =
      (evalLog sem (instrument src) args).map (fun p => (p.1, p.2.map Entry.obs, jumpsOf [] 0 p.2)) :=
  record_obs sem [.call (instrument src)] args ⟨h, trivial⟩

/-- `final_retval` is what ordinary evaluation (`jax.core.eval_jaxpr`) of the instrumented
    function returns. -/
theorem C31_final_eq_plain (sem : Sem) (src : Fn) (args : List Val) (h : RecSem sem (instrument src).body) :
    (timeMachine sem src args).map (·.final) =
      evalPlain sem (instrument src).jaxpr (instrument src).cs args := by
  have h1 := C31_frames_are_the_call_log sem src args h
  have h2 := log_fst_stack sem [.call (instrument src)] args ⟨h, trivial⟩
  rw [← runStack_call, h2]
  have : (timeMachine sem src args).map (·.final) = ((timeMachine sem src args).map Debugger.obs).map Prod.fst := by
    cases timeMachine sem src args <;> rfl
  rw [this, h1, evalLog]
  cases logStack sem args [Seg.call (instrument src)] <;> rfl

/-- The same for any staged source: `_record(g)(*args)` ends with `g(*args)`. -/
theorem C31_record_final_eq_plain (sem : Sem) (f : Fn) (args : List Val) (h : RecSem sem f.body) :
    (record sem [.call f] args).map (·.final) = evalPlain sem f.jaxpr f.cs args := by
  have h1 := record_obs sem [.call f] args ⟨h, trivial⟩
  have h2 := log_fst_stack sem [.call f] args ⟨h, trivial⟩
  rw [← runStack_call, h2]
  have : (record sem [.call f] args).map (·.final) = ((record sem [.call f] args).map Debugger.obs).map Prod.fst := by
    cases record sem [.call f] args <;> rfl
  rw [this, h1]
  cases logStack sem args [Seg.call f] <;> rfl

/-- Error / edge case: the fuel of the modelled `while next:` loop is never exhausted — a
    recording fails only with an error of the program itself. -/
theorem C31_record_error_is_program_error (sem : Sem) (segs : List Seg) (args : List Val) (h : RecSemS sem segs)
    (x : Err) (hx : record sem segs args = .error x) : ∃ y, logStack sem args segs = .error y ∧ y = x := by
  have := record_obs sem segs args h
  rw [hx] at this
  cases hl : logStack sem args segs with
  | error y => rw [hl] at this; simp only [Except.map] at this; exact ⟨y, rfl, by cases this; rfl⟩
  | ok p => rw [hl] at this; simp [Except.map] at this

/-- Edge case: a continuation without record points yields no frame and the plain result. -/
theorem C31_no_record_points (sem : Sem) (segs : List Seg) (args : List Val) (h : RecSemS sem segs)
    (vals : List Val) (hl : logStack sem args segs = .ok (vals, [])) :
    (record sem segs args).map Debugger.obs = .ok (vals, [], []) := by
  rw [record_obs sem segs args h, hl]; rfl

/-! ## Navigation: the pointer stays within the recorded frames -/

theorem C31_step_preserves_inv (sem : Sem) (d : Debugger) (op : Op) (hop : op.isNav = true) (h : d.Inv) :
    ∀ d', d.step sem op = .ok d' → d'.Inv ∧ d'.frames = d.frames ∧ d'.jumps = d.jumps ∧ d'.final = d.final := by
  intro d' hd
  cases op with
  | remix a => simp [Op.isNav] at hop
  | fwd =>
    simp only [Debugger.step, Debugger.fwd, Except.ok.injEq] at hd
    subst hd
    by_cases hc : d.ptr + 1 ≥ d.frames.length
    · rw [if_pos hc]; exact ⟨h, rfl, rfl, rfl⟩
    · rw [if_neg hc]; exact ⟨⟨by simp only [ge_iff_le, Nat.not_le] at hc; exact hc, h.2⟩, rfl, rfl, rfl⟩
  | bwd =>
    simp only [Debugger.step, Debugger.bwd, Except.ok.injEq] at hd
    subst hd
    by_cases h0 : d.ptr = 0
    · rw [if_pos h0]; exact ⟨h, rfl, rfl, rfl⟩
    · by_cases hc : d.ptr - 1 ≥ d.frames.length
      · rw [if_neg h0, if_pos hc]; exact ⟨h, rfl, rfl, rfl⟩
      · rw [if_neg h0, if_neg hc]
        exact ⟨⟨by simp only [ge_iff_le, Nat.not_le] at hc; exact hc, h.2⟩, rfl, rfl, rfl⟩
  | jump t =>
    simp only [Debugger.step, Debugger.jump] at hd
    cases hj : jget d.jumps t with
    | none => rw [hj] at hd; cases hd
    | some i =>
      rw [hj] at hd
      simp only [Except.ok.injEq] at hd
      subst hd
      exact ⟨⟨h.2 t i hj, h.2⟩, rfl, rfl, rfl⟩

/-- After ANY sequence of `jump` / `fwd` / `bwd` (failed jumps included: a `KeyError` leaves the
    debugger as it was) the pointer indexes a recorded frame, and the recording is untouched. -/
theorem C31_pointer_in_range (sem : Sem) (ops : List Op) : ∀ (d : Debugger), d.Inv →
    (∀ op ∈ ops, op.isNav = true) →
    (d.run sem ops).Inv ∧ (d.run sem ops).frames = d.frames ∧ (d.run sem ops).final = d.final := by
  induction ops with
  | nil => intro d h _; exact ⟨h, rfl, rfl⟩
  | cons op ops ih =>
    intro d h hall
    have hop := hall op (List.mem_cons_self ..)
    have hrest : ∀ o ∈ ops, o.isNav = true := fun o ho => hall o (List.mem_cons_of_mem _ ho)
    simp only [Debugger.run]
    cases hs : d.step sem op with
    | error x => exact ih d h hrest
    | ok d' =>
      obtain ⟨hi, hf, _, hfin⟩ := C31_step_preserves_inv sem d op hop h d' hs
      obtain ⟨a, b, c⟩ := ih d' hi hrest
      exact ⟨a, b.trans hf, c.trans hfin⟩

/-- A successful recording that logged at least one call (always the case for `time_machine`:
    the `_enter` call) starts inside the recorded frames, with every jump point in range. -/
theorem C31_initial_in_range (sem : Sem) (segs : List Seg) (args : List Val) (h : RecSemS sem segs)
    (d : Debugger) (hd : record sem segs args = .ok d) (hne : d.frames ≠ []) : d.Inv := by
  have hobs := record_obs sem segs args h
  rw [hd] at hobs
  have hptr : d.ptr = 0 := by
    unfold record at hd
    cases ht : ttStack sem args segs with
    | error x => rw [ht] at hd; cases hd
    | ok p =>
      rw [ht] at hd
      have key : ∀ n rv nx seq jp d, recordLoop sem n rv nx seq jp = .ok d → d.ptr = 0 := by
        intro n
        induction n with
        | zero =>
          intro rv nx seq jp d hh
          cases nx with
          | none => simp only [recordLoop, Except.ok.injEq] at hh; subst hh; rfl
          | some x => simp [recordLoop] at hh
        | succ n ih =>
          intro rv nx seq jp d hh
          cases nx with
          | none => simp only [recordLoop, Except.ok.injEq] at hh; subst hh; rfl
          | some x =>
            obtain ⟨tag, fr⟩ := x
            simp only [recordLoop] at hh
            cases h2 : ttStack sem fr.args fr.cont with
            | error e => rw [h2] at hh; cases hh
            | ok p2 => rw [h2] at hh; exact ih _ _ _ _ _ hh
      exact key _ _ _ _ _ d hd
  cases hl : logStack sem args segs with
  | error x => rw [hl] at hobs; simp [Except.map] at hobs
  | ok p =>
    rw [hl] at hobs
    simp only [Except.map, Except.ok.injEq, Debugger.obs, Prod.mk.injEq] at hobs
    obtain ⟨_, hfr, hj⟩ := hobs
    have hlen : d.frames.length = p.2.length := by
      have := congrArg List.length hfr; simpa using this
    refine ⟨?_, ?_⟩
    · rw [hptr]; exact List.length_pos_iff.mpr hne
    · intro t i hji
      rw [hj] at hji
      have := jumpsOf_range p.2 [] 0 (by intro t i ht; simp [jget] at ht) t i hji
      omega

/-! ## Remix -/

/-- `remix(*args)` at the frame under the pointer: the frames before the pointer are kept, the
    frame under the pointer gets the new arguments and the callable's value on them, and what
    follows — the later frames and `final_retval` — is the instrumented plain evaluation of that
    frame's continuation (the callable, then the rest of the program as captured when the frame
    was recorded) from the new arguments; `jump_points` and the pointer are unchanged.  Failing
    cases: `IndexError` when the pointer is outside the frames, otherwise the error of the
    re-run. -/
theorem C31_remix_spec (sem : Sem) (d : Debugger) (args : List Val) (fr : Frame)
    (hfr : d.frames[d.ptr]? = some fr) (h : RecSemS sem fr.cont) :
    (d.remix sem args).map Debugger.obsP =
      (evalPlain sem fr.f.jaxpr fr.f.cs args >>= fun r =>
        (logStack sem args fr.cont).map (fun p =>
          (p.1, (d.frames.take d.ptr).map Frame.obs ++ (args, r) :: p.2.map Entry.obs, d.jumps, d.ptr))) := by
  have hrec := record_obs sem fr.cont args h
  simp only [Debugger.remix, hfr, runStack_call]
  cases evalPlain sem fr.f.jaxpr fr.f.cs args with
  | error x => rfl
  | ok r =>
    simp only [bind_ok']
    cases hr : record sem fr.cont args with
    | error x =>
      rw [hr] at hrec
      cases hl : logStack sem args fr.cont with
      | error y => rw [hl] at hrec; simp only [Except.map] at hrec; cases hrec; rfl
      | ok p => rw [hl] at hrec; simp [Except.map] at hrec
    | ok d' =>
      rw [hr] at hrec
      cases hl : logStack sem args fr.cont with
      | error y => rw [hl] at hrec; simp [Except.map] at hrec
      | ok p =>
        rw [hl] at hrec
        simp only [Except.map, Except.ok.injEq, Debugger.obs, Prod.mk.injEq] at hrec
        obtain ⟨h1, h2, _⟩ := hrec
        simp [bind_ok', Except.map, Debugger.obsP, pure, Except.pure, h1, h2, Frame.obs]

/-- Remix with the recorded arguments is the identity on what is observable after the pointer
    exactly when the frame's continuation re-logs the same calls; in particular the new
    `final_retval` is `runStack` of the continuation — ordinary evaluation of "the callable, then
    the rest of the program". -/
theorem C31_remix_final (sem : Sem) (d : Debugger) (args : List Val) (fr : Frame)
    (hfr : d.frames[d.ptr]? = some fr) (h : RecSemS sem fr.cont) (d' : Debugger)
    (hd : d.remix sem args = .ok d') : runStack sem args fr.cont = .ok d'.final := by
  have hs := C31_remix_spec sem d args fr hfr h
  rw [hd] at hs
  rw [log_fst_stack sem fr.cont args h]
  cases he : evalPlain sem fr.f.jaxpr fr.f.cs args with
  | error x => rw [he] at hs; simp [Except.map, bind_err'] at hs
  | ok r =>
    rw [he] at hs
    simp only [bind_ok'] at hs
    cases hl : logStack sem args fr.cont with
    | error y => rw [hl] at hs; simp [Except.map] at hs
    | ok p =>
      rw [hl] at hs
      simp only [Except.map, Except.ok.injEq, Debugger.obsP, Prod.mk.injEq] at hs
      simp [Except.map, hs.1]

/-- Error case: remix with the pointer outside the frames raises (`IndexError`). -/
theorem C31_remix_out_of_range (sem : Sem) (d : Debugger) (args : List Val) (h : d.frames.length ≤ d.ptr) :
    d.remix sem args = .error (.prim "IndexError") := by
  have : d.frames[d.ptr]? = none := List.getElem?_eq_none h
  simp [Debugger.remix, this]

/-- Immediately after a successful remix the pointer still indexes a frame. -/
theorem C31_remix_pointer (sem : Sem) (d d' : Debugger) (args : List Val) (hd : d.remix sem args = .ok d') :
    d'.ptr = d.ptr ∧ d'.ptr < d'.frames.length ∧ d'.jumps = d.jumps := by
  unfold Debugger.remix at hd
  cases hfr : d.frames[d.ptr]? with
  | none => rw [hfr] at hd; cases hd
  | some fr =>
    rw [hfr] at hd
    have hlt : d.ptr < d.frames.length := by
      rcases Nat.lt_or_ge d.ptr d.frames.length with h | h
      · exact h
      · rw [List.getElem?_eq_none h] at hfr; cases hfr
    simp only at hd
    cases h1 : runStack sem args [Seg.call fr.f] with
    | error x => rw [h1] at hd; cases hd
    | ok r =>
      rw [h1] at hd
      cases h2 : record sem fr.cont args with
      | error x => rw [h2] at hd; cases hd
      | ok d2 =>
        rw [h2] at hd
        simp only [bind_ok', pure, Except.pure, Except.ok.injEq] at hd
        subst hd
        refine ⟨rfl, ?_, rfl⟩
        simp only [List.length_append, List.length_take, List.length_cons, List.length_nil]
        omega

end GenjaxVerif.TT

/-! ## Non-vacuity: concrete programs satisfying the hypotheses, and concrete recordings -/
namespace GenjaxVerif.TT
open GenjaxVerif.IR Ex

/-- `RecSem` holds for a concrete semantics and the instrumented `f(x) = x + x`
    (two record equations: `_enter` around `f`, and `exit`). -/
theorem C31_example_recsem : RecSem exSem (instrument exSrc).body := by
  refine ⟨rfl, ?_, trivial, rfl, ?_, trivial, trivial⟩
  · intro vs
    rcases vs with _ | ⟨a, _ | ⟨b, t⟩⟩
    · rfl
    · rfl
    · simp [exSem, instrument, recParams, Params.find, Fn.jaxpr, exSrc, Code.eqns, Eqn.prim, Eqn.params, runStack,
        Seg.enter, Env.writeMany, Except.map, bind_ok', bind_err']
  · intro vs
    rcases vs with _ | ⟨a, _ | ⟨b, t⟩⟩
    · rfl
    · rfl
    · simp [exSem, instrument, recParams, Params.find, Fn.jaxpr, exSrc, idFn, Code.eqns, Eqn.prim, Eqn.params,
        runStack, Seg.enter, Env.writeMany, Except.map, bind_ok', bind_err']

/-- … so the theorems apply to it, and its recording is: two frames (`_enter`, `exit`). -/
example : (timeMachine exSem exSrc [sc 3]).map Debugger.obs =
    .ok ([sc 6], [([sc 3], [sc 6]), ([sc 6], [sc 6])], [("_enter", 0), ("exit", 1)]) := by rfl

example : evalPlain exSem (instrument exSrc).jaxpr (instrument exSrc).cs [sc 3] = .ok [sc 6] := by
  rw [← C31_final_eq_plain exSem exSrc [sc 3] C31_example_recsem]; rfl

/-- Nested record points, a repeated tag, pre-order: `_enter`, `out`, `in`, the tag `out`, `exit`;
    the jump point of the repeated tag is its LAST frame. -/
example : (timeMachine (exSemN 4) exNested [sc 2]).map Debugger.obs =
    .ok ([sc 8], [([sc 2], [sc 8]), ([sc 2], [sc 6]), ([sc 2], [sc 4]), ([sc 8], [sc 8]), ([sc 8], [sc 8])],
      [("_enter", 0), ("out", 3), ("in", 2), ("exit", 4)]) := by rfl

/-- … which is the call log of the instrumented plain evaluator. -/
example : (timeMachine (exSemN 4) exNested [sc 2]).map Debugger.obs =
    (evalLog (exSemN 4) (instrument exNested) [sc 2]).map (fun p => (p.1, p.2.map Entry.obs, jumpsOf [] 0 p.2)) := by
  rfl

/-- The initial debugger satisfies the navigation invariant (hypothesis of `C31_pointer_in_range`),
    and a session with a failing jump, clamped moves and a jump to the repeated tag stays in range. -/
example : ∃ d, timeMachine (exSemN 4) exNested [sc 2] = .ok d ∧ d.frames ≠ [] ∧
    (d.run (exSemN 4) [.bwd, .jump "nosuch", .jump "out", .fwd, .fwd, .fwd]).ptr = 4 := by
  refine ⟨_, rfl, ?_, ?_⟩ <;> decide

/-- Remix at the frame tagged "in" with the new argument 5: the frames before it are kept (stale),
    the frame becomes (5, 10), and the rest is recomputed: out = 10 + 2, f = 12 + 2. -/
example : ∃ d d1 d2, timeMachine (exSemN 4) exNested [sc 2] = .ok d ∧ d.jump "in" = .ok d1 ∧
    d1.remix (exSemN 4) [sc 5] = .ok d2 ∧
    d2.obsP = ([sc 14], [([sc 2], [sc 8]), ([sc 2], [sc 6]), ([sc 5], [sc 10]), ([sc 14], [sc 14]), ([sc 14], [sc 14])],
      [("_enter", 0), ("out", 3), ("in", 2), ("exit", 4)], 2) := by
  refine ⟨_, _, _, rfl, rfl, rfl, ?_⟩; decide

end GenjaxVerif.TT
