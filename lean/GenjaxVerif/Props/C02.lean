import GenjaxVerif.Lemmas.GFIWeights
import GenjaxVerif.Lemmas.GFIReplay
import GenjaxVerif.Lemmas.GFIArgs
import GenjaxVerif.Props.GFITest
/-!
# C02 — scores are the exact joint log-density defined by the program

In the model a trace's score is *defined* structurally as the sum of the log-densities
stored at its primitive choices, with a masked-off sub-trace contributing 0
(`Trace.score`); every primitive choice stores `ds.lp d value args` (`leaf_form`).
The theorems below say that what the operations *return* as score / weight is that sum.
-/
namespace GenjaxVerif.GFI
open GenjaxVerif

/-- `assess` returns as its score exactly the score of the execution it visits: the sum,
    over the choices it reads from the sample, of their log-densities given the arguments
    computed from earlier values — for every program and every sample. -/
theorem C02_assess_is_joint_logdensity (ds : DistSem) (p : Prog) (i : In) (r : Res)
    (h : run ds .assess p i = .ok r) : r.w = r.tr.score :=
  assess_w ds p i r h

/-- Every primitive choice of every returned trace (any operation) carries the
    log-density of its own value at its own arguments. -/
theorem C02_leaf_logdensity (ds : DistSem) (m : Mode) (d : Nat) (i : In) (r : Res)
    (h : run ds m (.dist d) i = .ok r) : ∃ v, r.tr = .dist d i.args v (ds.lp d v i.args) := by
  simp only [run] at h; exact leaf_form h

/-- The score reported by a trace equals what `assess` computes on the trace's own choices
    (so scores of simulate / generate / update / regenerate traces are the same joint
    log-density). -/
theorem C02_trace_score_eq_assess_partial (ds : DistSem) (m : Mode) (p : Prog) (i : In) (r : Res)
    (h : run ds m p i = .ok r) (hg : Good r.tr) :
    (assess ds p r.tr.choices i.args).map (·.1) = .ok r.tr.score := by
  have := replay ds m p i r h hg
    { c := r.tr.choices, sel := .none, old := none, key := [], args := i.args } rfl rfl rfl
  simp [assess, this, replayed, Except.map]

/-- The score of ANY trace is the sum, over every random choice it holds that is not masked off,
    of that choice's stored log-density — which (C02_leaf_logdensity) is the density of its value
    at the arguments computed from the values it depends on. -/
theorem C02_score_is_sum_over_live_choices (t : Trace) : t.score = liveSum (sites t) :=
  score_eq_liveSum t

/-- A masked-off call contributes zero to the score, whatever it contains. -/
theorem C02_masked_off_contributes_zero (args : Val) (inner : Trace) :
    (Trace.mask false inner).score = 0 := by
  simp [Trace.score]

/-- simulate has weight 0 (it constrains nothing). -/
theorem C02_simulate_weight_zero (ds : DistSem) (p : Prog) (i : In) (r : Res)
    (h : run ds .sim p i = .ok r) : r.w = 0 :=
  sim_w ds p i r h

/-- test: a concrete non-trivial instance -/
example : (run Test.ds .assess Test.prog1
    { Test.in1 with c := [([.s "x"], .plain 4), ([.s "y", .i 0], .plain 0), ([.s "y", .i 1], .masked true 2)] }
    ).toOption.map (·.w) = some (4 + (10 + 0 + 1) + (10 + 2 + 1)) := by rfl

end GenjaxVerif.GFI
